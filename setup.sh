#!/bin/sh
# Offline setup: regenerate the tables from /repo and build the Lean library + driver.
set -e
cd "$(dirname "$0")"
mkdir -p .cache evidence replays
python3 tools/gen_tables.py
cd lean
lake build iodmodel IodineModel
