/* helpers shared by the harnesses */
#ifndef H_COMMON_H
#define H_COMMON_H
#include <stdio.h>
#include <stdlib.h>
#include <string.h>
#include <stdint.h>
#include <ctype.h>

static void *xmalloc(size_t n)
{
	void *p = malloc(n ? n : 1);
	if (!p) { fprintf(stderr, "oom\n"); abort(); }
	return p;
}

static int hexv(int c)
{
	if (c >= '0' && c <= '9') return c - '0';
	if (c >= 'a' && c <= 'f') return c - 'a' + 10;
	if (c >= 'A' && c <= 'F') return c - 'A' + 10;
	return -1;
}

/* "-" is the empty string.  Returns an exactly-sized heap buffer (ASan sees overreads). */
static unsigned char *hex_alloc(const char *s, size_t *len)
{
	size_t n, i;
	unsigned char *p;

	if (!strcmp(s, "-")) { *len = 0; return xmalloc(1); }
	n = strlen(s);
	if (n % 2) return NULL;
	p = xmalloc(n / 2);
	for (i = 0; i < n / 2; i++) {
		int a = hexv(s[2 * i]), b = hexv(s[2 * i + 1]);
		if (a < 0 || b < 0) { free(p); return NULL; }
		p[i] = (unsigned char) (a * 16 + b);
	}
	*len = n / 2;
	return p;
}

static void print_hex(const unsigned char *p, size_t n)
{
	static const char hx[] = "0123456789abcdef";
	size_t i;
	if (n == 0) { putchar('-'); return; }
	for (i = 0; i < n; i++) { putchar(hx[p[i] >> 4]); putchar(hx[p[i] & 15]); }
}

static int split(char *line, char **tok, int max)
{
	int n = 0;
	char *p = line;
	while (*p && n < max) {
		while (*p == ' ' || *p == '\n' || *p == '\r' || *p == '\t') p++;
		if (!*p) break;
		tok[n++] = p;
		while (*p && *p != ' ' && *p != '\n' && *p != '\r' && *p != '\t') p++;
		if (*p) *p++ = 0;
	}
	return n;
}
#endif
