/* S1 ops: read.c / dns.c entry points.  Received packets are placed at the start of a 64 KiB buffer
 * (as in the programs, `char packet[64*1024]`) whose remainder is filled with a caller-chosen residue
 * pattern: the interpretation of a datagram must not depend on that residue (C12), and ASan sees reads
 * beyond the 64 KiB. */
#include "dns.h"
#include "read.h"

static unsigned char *rx_buffer(const unsigned char *pkt, size_t len, const unsigned char *res, size_t rlen)
{
	size_t i, cap = 64 * 1024;
	unsigned char *b = xmalloc(cap);
	for (i = 0; i < cap; i++)
		b[i] = rlen ? res[i % rlen] : 0;
	if (len > cap) len = cap;
	memcpy(b, pkt, len);
	return b;
}

/* readname <length> <offset> <hexresidue> <hexpacket> -> rv=<n> src=<offset after> dst=<hex of dst up to rv or first NUL> */
static void op_readname(char **tok, int ntok)
{
	size_t length, off, plen, rlen;
	unsigned char *pkt, *res, *b;
	char *dst, *src;
	int rv;

	if (ntok != 5) { puts("bad-op"); return; }
	length = strtoul(tok[1], NULL, 10);
	off = strtoul(tok[2], NULL, 10);
	res = hex_alloc(tok[3], &rlen);
	pkt = hex_alloc(tok[4], &plen);
	if (!res || !pkt || length < 3 || off > plen) { puts("bad-op"); return; }
	b = rx_buffer(pkt, plen, res, rlen);
	dst = xmalloc(length);
	memset(dst, 0, length);
	src = (char *) b + off;
	rv = readname((char *) b, plen, &src, dst, length);
	printf("rv=%d src=%ld dst=", rv, (long) (src - (char *) b));
	print_hex((unsigned char *) dst, strnlen(dst, length));
	putchar('\n');
	free(dst); free(b); free(pkt); free(res);
}

/* putname <buflen> <hexhost> -> rv=<n> adv=<bytes the pointer moved> out=<hex> */
static void op_putname(char **tok, int ntok)
{
	size_t buflen, hlen;
	unsigned char *h;
	char *host, *buf, *p;
	int rv;

	if (ntok != 3) { puts("bad-op"); return; }
	buflen = strtoul(tok[1], NULL, 10);
	h = hex_alloc(tok[2], &hlen);
	if (!h) { puts("bad-op"); return; }
	host = xmalloc(hlen + 1);
	memcpy(host, h, hlen);
	host[hlen] = 0;
	buf = xmalloc(buflen + 1);	/* +1: the root byte is written without a length check */
	memset(buf, 0x5a, buflen + 1);
	p = buf;
	rv = putname(&p, buflen, host);
	printf("rv=%d adv=%ld out=", rv, (long) (p - buf));
	print_hex((unsigned char *) buf, p - buf);
	putchar('\n');
	free(buf); free(host); free(h);
}

static void fill_query(struct query *q, unsigned id, unsigned type, const unsigned char *name, size_t nlen)
{
	memset(q, 0, sizeof(*q));
	q->id = id;
	q->type = type;
	if (nlen > sizeof(q->name) - 1) nlen = sizeof(q->name) - 1;
	memcpy(q->name, name, nlen);
	q->name[nlen] = 0;
}

/* dnsenc a <id> <type> <buflen> <hexname> <hexdata>   (QR_ANSWER; data is used as the C passes it: for
 *   CNAME/A/MX/SRV a NUL-terminated (double-NUL for MX/SRV) string, the harness appends two NULs)
 * dnsenc q <id> <type> <edns0> <buflen> <hexname>       (QR_QUERY as the client sends it)
 *   -> len=<n> pkt=<hex> */
static void op_dnsenc(char **tok, int ntok)
{
	struct query q;
	size_t buflen, nlen, dlen = 0;
	unsigned char *name, *data = NULL;
	char *buf, *d2;
	int len;

	if (ntok < 2) { puts("bad-op"); return; }
	if (!strcmp(tok[1], "a") && ntok == 7) {
		buflen = strtoul(tok[4], NULL, 10);
		name = hex_alloc(tok[5], &nlen);
		data = hex_alloc(tok[6], &dlen);
		if (!name || !data) { puts("bad-op"); return; }
		fill_query(&q, atoi(tok[2]), atoi(tok[3]), name, nlen);
		d2 = xmalloc(dlen + 2);
		memcpy(d2, data, dlen);
		d2[dlen] = 0; d2[dlen + 1] = 0;
		buf = xmalloc(buflen);
		len = dns_encode(buf, buflen, &q, QR_ANSWER, d2, dlen);
		free(d2);
	} else if (!strcmp(tok[1], "q") && ntok == 7) {
		char *host;
		buflen = strtoul(tok[5], NULL, 10);
		name = hex_alloc(tok[6], &nlen);
		if (!name) { puts("bad-op"); return; }
		fill_query(&q, atoi(tok[2]), atoi(tok[3]), (unsigned char *) "", 0);
		dnsc_use_edns0 = atoi(tok[4]);
		host = xmalloc(nlen + 1);
		memcpy(host, name, nlen);
		host[nlen] = 0;
		buf = xmalloc(buflen);
		len = dns_encode(buf, buflen, &q, QR_QUERY, host, strlen(host));
		free(host);
	} else { puts("bad-op"); return; }
	printf("len=%d pkt=", len);
	print_hex((unsigned char *) buf, len > 0 ? len : 0);
	putchar('\n');
	free(buf); free(name); free(data);
}

/* dnsdec <q|a> <buflen> <hexresidue> <hexpacket>
 *   -> rv=<n> id=<id> type=<t> rcode=<r> name=<hex of q.name> buf=<hex of buf[0..rv)> */
static void op_dnsdec(char **tok, int ntok)
{
	struct query q;
	size_t buflen, plen, rlen;
	unsigned char *pkt, *res, *b;
	char *buf;
	int rv, isq;

	if (ntok != 5) { puts("bad-op"); return; }
	isq = !strcmp(tok[1], "q");
	buflen = strtoul(tok[2], NULL, 10);
	res = hex_alloc(tok[3], &rlen);
	pkt = hex_alloc(tok[4], &plen);
	if (!res || !pkt) { puts("bad-op"); return; }
	b = rx_buffer(pkt, plen, res, rlen);
	memset(&q, 0, sizeof(q));
	buf = xmalloc(buflen + 1);
	memset(buf, 0, buflen + 1);
	rv = dns_decode(isq ? NULL : buf, isq ? 0 : buflen, &q, isq ? QR_QUERY : QR_ANSWER, (char *) b, plen);
	printf("rv=%d id=%u type=%u rcode=%u name=", rv, q.id, q.type, q.rcode);
	print_hex((unsigned char *) q.name, strnlen(q.name, sizeof(q.name)));
	printf(" buf=");
	print_hex((unsigned char *) buf, (!isq && rv > 0) ? (size_t) rv : 0);
	putchar('\n');
	free(buf); free(b); free(pkt); free(res);
}

/* txt p <bufremain> <hexdata> -> rv= out= ; txt r <dstremain> <srcremain> <hexresidue> <hexsrc> -> rv= out= */
static void op_txt(char **tok, int ntok)
{
	if (ntok == 4 && !strcmp(tok[1], "p")) {
		size_t rem = strtoul(tok[2], NULL, 10), dlen;
		unsigned char *d = hex_alloc(tok[3], &dlen);
		char *buf, *p;
		int rv;
		if (!d) { puts("bad-op"); return; }
		buf = xmalloc(rem);
		p = buf;
		rv = puttxtbin(&p, rem, (char *) d, dlen);
		printf("rv=%d out=", rv);
		print_hex((unsigned char *) buf, p - buf);
		putchar('\n');
		free(buf); free(d);
	} else if (ntok == 6 && !strcmp(tok[1], "r")) {
		size_t drem = strtoul(tok[2], NULL, 10), srem = strtoul(tok[3], NULL, 10), slen, rlen;
		unsigned char *res = hex_alloc(tok[4], &rlen), *s = hex_alloc(tok[5], &slen), *b;
		char *dst, *src;
		int rv;
		if (!s || !res || srem > slen) { puts("bad-op"); return; }
		b = rx_buffer(s, slen, res, rlen);
		dst = xmalloc(drem);
		src = (char *) b;
		rv = readtxtbin((char *) b, &src, srem, dst, drem);
		printf("rv=%d out=", rv);
		print_hex((unsigned char *) dst, rv > 0 ? rv : 0);
		putchar('\n');
		free(dst); free(b); free(s); free(res);
	} else puts("bad-op");
}

/* Added S1 ops: the two special responses of iodined (same style as h_wire.h; include after it).
 *
 * dnsns <id> <type> <buflen> <hexname> <hextopdomain> <hexaddr|->  -> len=<n> pkt=<hex>
 *     dns_encode_ns_response(buf, buflen, q, topdomain); q->destination is AF_INET with the four given
 *     address bytes (memory order), or AF_INET6 when the address is "-".
 * dnsa <id> <type> <buflen> <hexname> <hexaddr|->                  -> len=<n> pkt=<hex>
 *     dns_encode_a_response(buf, buflen, q)
 * The output buffer is an exactly sized heap object (ASan sees any store beyond buflen). */
static int fill_dest(struct query *q, const char *hx)
{
	size_t alen;
	unsigned char *a = hex_alloc(hx, &alen);
	struct sockaddr_in *dest = (struct sockaddr_in *) &q->destination;

	if (!a) return -1;
	if (alen == 0) {
		q->destination.ss_family = AF_INET6;
	} else if (alen == 4) {
		dest->sin_family = AF_INET;
		memcpy(&dest->sin_addr.s_addr, a, 4);
		q->dest_len = sizeof(*dest);
	} else { free(a); return -1; }
	free(a);
	return 0;
}

static void op_dnsns(char **tok, int ntok)
{
	struct query q;
	size_t buflen, nlen, tlen;
	unsigned char *name, *top;
	char *buf, *td;
	int len;

	if (ntok != 7) { puts("bad-op"); return; }
	buflen = strtoul(tok[3], NULL, 10);
	name = hex_alloc(tok[4], &nlen);
	top = hex_alloc(tok[5], &tlen);
	if (!name || !top) { puts("bad-op"); return; }
	fill_query(&q, atoi(tok[1]), atoi(tok[2]), name, nlen);
	if (fill_dest(&q, tok[6]) < 0) { puts("bad-op"); free(name); free(top); return; }
	td = xmalloc(tlen + 1);
	memcpy(td, top, tlen);
	td[tlen] = 0;
	buf = xmalloc(buflen);
	len = dns_encode_ns_response(buf, buflen, &q, td);
	printf("len=%d pkt=", len);
	print_hex((unsigned char *) buf, len > 0 ? len : 0);
	putchar('\n');
	free(buf); free(td); free(name); free(top);
}

static void op_dnsa(char **tok, int ntok)
{
	struct query q;
	size_t buflen, nlen;
	unsigned char *name;
	char *buf;
	int len;

	if (ntok != 6) { puts("bad-op"); return; }
	buflen = strtoul(tok[3], NULL, 10);
	name = hex_alloc(tok[4], &nlen);
	if (!name) { puts("bad-op"); return; }
	fill_query(&q, atoi(tok[1]), atoi(tok[2]), name, nlen);
	if (fill_dest(&q, tok[5]) < 0) { puts("bad-op"); free(name); return; }
	buf = xmalloc(buflen);
	len = dns_encode_a_response(buf, buflen, &q);
	printf("len=%d pkt=", len);
	print_hex((unsigned char *) buf, len > 0 ? len : 0);
	putchar('\n');
	free(buf); free(name);
}
