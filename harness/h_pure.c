/* Tie 2, pure cores: answers the line protocol by calling the REAL functions of
 * /repo/src (linked from the current working tree, ASan+UBSan).  Every buffer handed
 * to the code under test is heap-allocated at exactly the size the callee's contract
 * allows, so that a write or read outside it is reported by ASan.
 *
 * One op per line on stdin, one answer line per op on stdout (same lines are fed to the
 * Lean driver `iodmodel`). */
#include "h_common.h"

#include "common.h"
#include "encoding.h"

static const struct encoder *codec_by_name(const char *n)
{
	if (!strcmp(n, "b32")) return &base32_ops;
	if (!strcmp(n, "b64")) return &base64_ops;
	if (!strcmp(n, "b64u")) return &base64u_ops;
	if (!strcmp(n, "b128")) return &base128_ops;
	return NULL;
}

/* enc <codec> <cap> <hex>  ->  r=<ret> used=<*buflen> out=<hex> */
static void op_enc(char **tok, int ntok, int also_dec)
{
	const struct encoder *e;
	size_t cap, dlen, used;
	unsigned char *d, *dcopy;
	char *buf;
	int r;

	if (ntok != 4 || !(e = codec_by_name(tok[1]))) { puts("bad-op"); return; }
	cap = strtoul(tok[2], NULL, 10);
	d = hex_alloc(tok[3], &dlen);
	if (!d) { puts("bad-op"); return; }
	dcopy = xmalloc(dlen ? dlen : 1);
	memcpy(dcopy, d, dlen);
	buf = xmalloc(cap + 1);	/* contract: one more than *buflen */
	memset(buf, 0x5a, cap + 1);
	used = cap;
	r = e->encode(buf, &used, d, dlen);
	if (memcmp(dcopy, d, dlen)) { puts("input-modified"); goto out; }
	if (r < 0 || (size_t) r > cap) { printf("r=%d out-of-contract\n", r); goto out; }
	if (buf[r] != 0) { printf("r=%d noterm\n", r); goto out; }
	printf("r=%d used=%zu out=", r, used);
	print_hex((unsigned char *) buf, r);
	if (also_dec) {
		/* decode what was emitted, into a buffer that can hold everything */
		size_t dcap = dlen + 8;
		unsigned char *o = xmalloc(dcap + 1);
		char *s = xmalloc(r + 1);
		int n;
		memcpy(s, buf, r + 1);
		n = e->decode(o, &dcap, s, r);
		printf(" dec=");
		print_hex(o, n < 0 ? 0 : n);
		free(o);
		free(s);
	}
	putchar('\n');
out:
	free(buf);
	free(d);
	free(dcopy);
}

/* dec <codec> <cap> <slen> <hex>  ->  r=<ret> out=<hex>   (slen <= number of bytes given) */
static void op_dec(char **tok, int ntok)
{
	const struct encoder *e;
	size_t cap, slen, len, c;
	unsigned char *s;
	unsigned char *buf;
	int r;

	if (ntok != 5 || !(e = codec_by_name(tok[1]))) { puts("bad-op"); return; }
	cap = strtoul(tok[2], NULL, 10);
	slen = strtoul(tok[3], NULL, 10);
	s = hex_alloc(tok[4], &len);
	if (!s || slen > len) { puts("bad-op"); free(s); return; }
	buf = xmalloc(cap + 1);
	memset(buf, 0x5a, cap + 1);
	c = cap;
	r = e->decode(buf, &c, (char *) s, slen);
	if (r < 0 || (size_t) r > cap) { printf("r=%d out-of-contract\n", r); goto out; }
	printf("r=%d out=", r);
	print_hex(buf, r);
	putchar('\n');
out:
	free(buf);
	free(s);
}


/* bh <codec> <maxlen> <buflen> <prev> <hextd> <hexdata> -> r=<ret> name=<hex>
 * build_hostname is called on buf+1 of an exactly sized heap buffer, buf[0] = prev. */
static void op_bh(char **tok, int ntok)
{
	const struct encoder *e;
	size_t maxlen, buflen, tdlen, dlen;
	unsigned char *tdraw, *d;
	char *td, *buf;
	int prev, r;

	if (ntok != 7 || !(e = codec_by_name(tok[1]))) { puts("bad-op"); return; }
	maxlen = strtoul(tok[2], NULL, 10);
	buflen = strtoul(tok[3], NULL, 10);
	prev = atoi(tok[4]);
	tdraw = hex_alloc(tok[5], &tdlen);
	d = hex_alloc(tok[6], &dlen);
	if (!tdraw || !d) { puts("bad-op"); return; }
	if ((maxlen < buflen ? maxlen : buflen) < tdlen + 8) { puts("underflow"); free(tdraw); free(d); return; }
	td = xmalloc(tdlen + 1);
	memcpy(td, tdraw, tdlen);
	td[tdlen] = 0;
	buf = xmalloc(buflen + 1);
	memset(buf, 0x5a, buflen + 1);
	buf[0] = (char) prev;
	r = build_hostname(buf + 1, buflen, (char *) d, dlen, td, e, (int) maxlen);
	printf("r=%d name=", r);
	print_hex((unsigned char *) buf + 1, strnlen(buf + 1, buflen));
	putchar('\n');
	free(buf); free(td); free(tdraw); free(d);
}

/* dotify <hex> -> r=<ret> out=<hex>  (buffer large enough, as for all callers) */
static void op_dotify(char **tok, int ntok)
{
	size_t len;
	unsigned char *s;
	char *buf;
	int r;

	if (ntok != 2 || !(s = hex_alloc(tok[1], &len))) { puts("bad-op"); return; }
	buf = xmalloc(len + len / 57 + 2);
	memcpy(buf, s, len);
	buf[len] = 0;
	r = inline_dotify(buf, len + len / 57 + 1);
	printf("r=%d out=", r);
	print_hex((unsigned char *) buf, strlen(buf));
	putchar('\n');
	free(buf); free(s);
}

/* unpack <codec> <cap> <hex> -> r=<ret> out=<hex> */
static void op_unpack(char **tok, int ntok, int extract)
{
	const struct encoder *e;
	size_t cap, len, h = 0, dlen;
	unsigned char *s, *out;
	char *in;
	int r;

	if (!(e = codec_by_name(tok[1]))) { puts("bad-op"); return; }
	if (extract) {
		/* extract <codec> <h> <dlen> <hexname>: what the server does with an accepted name */
		if (ntok != 5) { puts("bad-op"); return; }
		h = strtoul(tok[2], NULL, 10);
		dlen = strtoul(tok[3], NULL, 10);
		s = hex_alloc(tok[4], &len);
		cap = 64 * 1024;
		if (!s || dlen > len || h > dlen || dlen >= 512) { puts("bad-op"); free(s); return; }
		in = xmalloc(512);
		memcpy(in, s, dlen);
		in[dlen] = 0;
		out = xmalloc(cap);
		r = unpack_data((char *) out, cap, in + h, dlen - h, e);
	} else {
		if (ntok != 4) { puts("bad-op"); return; }
		cap = strtoul(tok[2], NULL, 10);
		s = hex_alloc(tok[3], &len);
		if (!s) { puts("bad-op"); return; }
		in = xmalloc(len + 1);
		memcpy(in, s, len);
		out = xmalloc(cap + 1);
		r = unpack_data((char *) out, cap, in, len, e);
	}
	printf("r=%d out=", r);
	print_hex(out, r < 0 ? 0 : r);
	putchar('\n');
	free(in); free(out); free(s);
}

int main(void)
{
	char *line = NULL;
	size_t n = 0;
	char *tok[16];
	int ntok;

	setvbuf(stdout, NULL, _IOFBF, 1 << 16);
	while (getline(&line, &n, stdin) > 0) {
		ntok = split(line, tok, 16);
		if (ntok == 0) { puts("bad-op"); continue; }
		if (!strcmp(tok[0], "enc")) op_enc(tok, ntok, 0);
		else if (!strcmp(tok[0], "encdec")) op_enc(tok, ntok, 1);
		else if (!strcmp(tok[0], "dec")) op_dec(tok, ntok);
		else if (!strcmp(tok[0], "bh")) op_bh(tok, ntok);
		else if (!strcmp(tok[0], "dotify")) op_dotify(tok, ntok);
		else if (!strcmp(tok[0], "unpack")) op_unpack(tok, ntok, 0);
		else if (!strcmp(tok[0], "extract")) op_unpack(tok, ntok, 1);
		else puts("bad-op");
	}
	fflush(stdout);
	free(line);
	return 0;
}
