/* Tie 2, pure cores: answers the line protocol by calling the REAL functions of
 * /repo/src (linked from the current working tree, ASan+UBSan).  Every buffer handed
 * to the code under test is heap-allocated at exactly the size the callee's contract
 * allows, so that a write or read outside it is reported by ASan.
 *
 * One op per line on stdin, one answer line per op on stdout (same lines are fed to the
 * Lean driver `iodmodel`). */
#include "h_common.h"

#include <arpa/inet.h>
#include "common.h"
#include "encoding.h"
#include "user.h"
#include "login.h"
#include "md5.h"
#include "fw_query.h"

static time_t vnow;
time_t verif_time(time_t *t) { if (t) *t = vnow; return vnow; }
extern unsigned usercount;

static const struct encoder *codec_by_name(const char *n)
{
	if (!strcmp(n, "b32")) return &base32_ops;
	if (!strcmp(n, "b64")) return &base64_ops;
	if (!strcmp(n, "b64u")) return &base64u_ops;
	if (!strcmp(n, "b128")) return &base128_ops;
	return NULL;
}

/* enc <codec> <cap> <hex>  ->  r=<ret> used=<*buflen> out=<hex> */
static void op_enc(char **tok, int ntok, int also_dec)
{
	const struct encoder *e;
	size_t cap, dlen, used;
	unsigned char *d, *dcopy;
	char *buf;
	int r;

	if (ntok != 4 || !(e = codec_by_name(tok[1]))) { puts("bad-op"); return; }
	cap = strtoul(tok[2], NULL, 10);
	d = hex_alloc(tok[3], &dlen);
	if (!d) { puts("bad-op"); return; }
	dcopy = xmalloc(dlen ? dlen : 1);
	memcpy(dcopy, d, dlen);
	buf = xmalloc(cap + 1);	/* contract: one more than *buflen */
	memset(buf, 0x5a, cap + 1);
	used = cap;
	r = e->encode(buf, &used, d, dlen);
	if (memcmp(dcopy, d, dlen)) { puts("input-modified"); goto out; }
	if (r < 0 || (size_t) r > cap) { printf("r=%d out-of-contract\n", r); goto out; }
	if (buf[r] != 0) { printf("r=%d noterm\n", r); goto out; }
	printf("r=%d used=%zu out=", r, used);
	print_hex((unsigned char *) buf, r);
	if (also_dec) {
		/* decode what was emitted, into a buffer that can hold everything */
		size_t dcap = dlen + 8;
		unsigned char *o = xmalloc(dcap + 1);
		char *s = xmalloc(r + 1);
		int n;
		memcpy(s, buf, r + 1);
		n = e->decode(o, &dcap, s, r);
		printf(" dec=");
		print_hex(o, n < 0 ? 0 : n);
		free(o);
		free(s);
	}
	putchar('\n');
out:
	free(buf);
	free(d);
	free(dcopy);
}

/* dec <codec> <cap> <slen> <hex>  ->  r=<ret> out=<hex>   (slen <= number of bytes given) */
static void op_dec(char **tok, int ntok)
{
	const struct encoder *e;
	size_t cap, slen, len, c;
	unsigned char *s;
	unsigned char *buf;
	int r;

	if (ntok != 5 || !(e = codec_by_name(tok[1]))) { puts("bad-op"); return; }
	cap = strtoul(tok[2], NULL, 10);
	slen = strtoul(tok[3], NULL, 10);
	s = hex_alloc(tok[4], &len);
	if (!s || slen > len) { puts("bad-op"); free(s); return; }
	buf = xmalloc(cap + 1);
	memset(buf, 0x5a, cap + 1);
	c = cap;
	r = e->decode(buf, &c, (char *) s, slen);
	if (r < 0 || (size_t) r > cap) { printf("r=%d out-of-contract\n", r); goto out; }
	printf("r=%d out=", r);
	print_hex(buf, r);
	putchar('\n');
out:
	free(buf);
	free(s);
}


/* bh <codec> <maxlen> <buflen> <prev> <hextd> <hexdata> -> r=<ret> name=<hex>
 * build_hostname is called on buf+1 of an exactly sized heap buffer, buf[0] = prev. */
static void op_bh(char **tok, int ntok)
{
	const struct encoder *e;
	size_t maxlen, buflen, tdlen, dlen;
	unsigned char *tdraw, *d;
	char *td, *buf;
	int prev, r;

	if (ntok != 7 || !(e = codec_by_name(tok[1]))) { puts("bad-op"); return; }
	maxlen = strtoul(tok[2], NULL, 10);
	buflen = strtoul(tok[3], NULL, 10);
	prev = atoi(tok[4]);
	tdraw = hex_alloc(tok[5], &tdlen);
	d = hex_alloc(tok[6], &dlen);
	if (!tdraw || !d) { puts("bad-op"); return; }
	if ((maxlen < buflen ? maxlen : buflen) < tdlen + 8) { puts("underflow"); free(tdraw); free(d); return; }
	td = xmalloc(tdlen + 1);
	memcpy(td, tdraw, tdlen);
	td[tdlen] = 0;
	buf = xmalloc(buflen + 1);
	memset(buf, 0x5a, buflen + 1);
	buf[0] = (char) prev;
	r = build_hostname(buf + 1, buflen, (char *) d, dlen, td, e, (int) maxlen);
	printf("r=%d name=", r);
	print_hex((unsigned char *) buf + 1, strnlen(buf + 1, buflen));
	putchar('\n');
	free(buf); free(td); free(tdraw); free(d);
}

/* dotify <hex> -> r=<ret> out=<hex>  (buffer large enough, as for all callers) */
static void op_dotify(char **tok, int ntok)
{
	size_t len;
	unsigned char *s;
	char *buf;
	int r;

	if (ntok != 2 || !(s = hex_alloc(tok[1], &len))) { puts("bad-op"); return; }
	buf = xmalloc(len + len / 57 + 2);
	memcpy(buf, s, len);
	buf[len] = 0;
	r = inline_dotify(buf, len + len / 57 + 1);
	printf("r=%d out=", r);
	print_hex((unsigned char *) buf, strlen(buf));
	putchar('\n');
	free(buf); free(s);
}

/* unpack <codec> <cap> <hex> -> r=<ret> out=<hex> */
static void op_unpack(char **tok, int ntok, int extract)
{
	const struct encoder *e;
	size_t cap, len, h = 0, dlen;
	unsigned char *s, *out;
	char *in;
	int r;

	if (!(e = codec_by_name(tok[1]))) { puts("bad-op"); return; }
	if (extract) {
		/* extract <codec> <h> <dlen> <hexname>: what the server does with an accepted name */
		if (ntok != 5) { puts("bad-op"); return; }
		h = strtoul(tok[2], NULL, 10);
		dlen = strtoul(tok[3], NULL, 10);
		s = hex_alloc(tok[4], &len);
		cap = 64 * 1024;
		if (!s || dlen > len || h > dlen || dlen >= 512) { puts("bad-op"); free(s); return; }
		in = xmalloc(512);
		memcpy(in, s, dlen);
		in[dlen] = 0;
		out = xmalloc(cap);
		r = unpack_data((char *) out, cap, in + h, dlen - h, e);
	} else {
		if (ntok != 4) { puts("bad-op"); return; }
		cap = strtoul(tok[2], NULL, 10);
		s = hex_alloc(tok[3], &len);
		if (!s) { puts("bad-op"); return; }
		in = xmalloc(len + 1);
		memcpy(in, s, len);
		out = xmalloc(cap + 1);
		r = unpack_data((char *) out, cap, in, len, e);
	}
	printf("r=%d out=", r);
	print_hex(out, r < 0 ? 0 : r);
	putchar('\n');
	free(in); free(out); free(s);
}

/* ---- C18: init_users / find_user_by_ip / find_available_user on the real users[] ---- */
static void op_initusers(char **tok, int ntok, int keep)
{
	unsigned long ip;
	int nb, n, i;

	if (ntok != 3) { puts("bad-op"); return; }
	ip = strtoul(tok[1], NULL, 10);
	nb = atoi(tok[2]);
	if (users) { free(users); users = NULL; }
	n = init_users(htonl((uint32_t) ip), nb);
	if (keep) { printf("n=%d\n", n); return; }
	printf("n=%d ips=", n);
	if (n == 0) putchar('-');
	for (i = 0; i < n; i++)
		printf("%s%u", i ? "," : "", (unsigned) ntohl(users[i].tun_ip));
	putchar('\n');
}

static void op_users(char **tok, int ntok)
{
	if (!strcmp(tok[0], "uset") && ntok == 6) {
		unsigned i = atoi(tok[1]);
		if (!users || i >= usercount) { puts("bad-op"); return; }
		users[i].active = atoi(tok[2]);
		users[i].authenticated = atoi(tok[3]);
		users[i].disabled = atoi(tok[4]);
		users[i].last_pkt = strtol(tok[5], NULL, 10);
		puts("ok");
	} else if (!strcmp(tok[0], "ufind") && ntok == 3) {
		vnow = strtol(tok[1], NULL, 10);
		printf("r=%d\n", find_user_by_ip(htonl((uint32_t) strtoul(tok[2], NULL, 10))));
	} else if (!strcmp(tok[0], "uavail") && ntok == 2) {
		vnow = strtol(tok[1], NULL, 10);
		printf("r=%d\n", find_available_user());
	} else if (!strcmp(tok[0], "uget") && ntok == 2) {
		unsigned i = atoi(tok[1]);
		if (!users || i >= usercount) { puts("bad-op"); return; }
		printf("a=%d u=%d d=%d t=%ld ip=%u\n", users[i].active ? 1 : 0, users[i].authenticated ? 1 : 0,
		       users[i].disabled ? 1 : 0, (long) users[i].last_pkt, (unsigned) ntohl(users[i].tun_ip));
	} else puts("bad-op");
}

/* ---- C19: md5 / login_calculate ---- */
static void op_md5(char **tok, int ntok)
{
	size_t len;
	unsigned char *d, out[16];
	md5_state_t ctx;

	if (ntok != 2 || !(d = hex_alloc(tok[1], &len))) { puts("bad-op"); return; }
	md5_init(&ctx);
	md5_append(&ctx, d, len);
	md5_finish(&ctx, out);
	printf("out="); print_hex(out, 16); putchar('\n');
	free(d);
}

/* login <seed decimal, may be negative> <hex of the typed password>: the password goes through the same
 * strncpy into a zeroed char[33] that iodine.c/iodined.c use */
static void op_login(char **tok, int ntok)
{
	size_t len;
	unsigned char *d;
	char *typed, password[33], *out;
	long long seed;

	if (ntok != 3 || !(d = hex_alloc(tok[2], &len))) { puts("bad-op"); return; }
	seed = strtoll(tok[1], NULL, 10);
	typed = xmalloc(len + 1);
	memcpy(typed, d, len);
	typed[len] = 0;
	memset(password, 0, sizeof(password));
	strncpy(password, typed, sizeof(password));
	password[sizeof(password) - 1] = 0;
	out = xmalloc(16);
	login_calculate(out, 16, password, (int) (uint32_t) seed);
	printf("out="); print_hex((unsigned char *) out, 16); putchar('\n');
	free(out); free(typed); free(d);
}

/* ---- C20: the fw_query ring; the asker number is stored in the address bytes ---- */
static void op_fw(char **tok, int ntok)
{
	if (!strcmp(tok[0], "fwinit") && ntok == 1) {
		fw_query_init();
		puts("ok");
	} else if (!strcmp(tok[0], "fwput") && ntok == 3) {
		struct fw_query q;
		uint32_t a = strtoul(tok[1], NULL, 10);
		memset(&q, 0, sizeof(q));
		memcpy(&q.addr, &a, sizeof(a));
		q.addrlen = sizeof(a);
		q.id = (unsigned short) strtoul(tok[2], NULL, 10);
		fw_query_put(&q);
		puts("ok");
	} else if (!strcmp(tok[0], "fwget") && ntok == 2) {
		struct fw_query *q;
		uint32_t a;
		fw_query_get((unsigned short) strtoul(tok[1], NULL, 10), &q);
		if (!q) { puts("r=none"); return; }
		memcpy(&a, &q->addr, sizeof(a));
		printf("r=%u\n", (unsigned) a);
	} else puts("bad-op");
}

/* ---- C17: check_topdomain / query_datalen ---- */
static char *cstr_from_hex(const char *hx)
{
	size_t len;
	unsigned char *d = hex_alloc(hx, &len);
	char *s;
	if (!d) return NULL;
	s = xmalloc(len + 1);	/* exact: over-reads past the NUL are reported */
	memcpy(s, d, len);
	s[len] = 0;
	free(d);
	return s;
}

static void op_topdom(char **tok, int ntok)
{
	char *s, *err = NULL;
	if (ntok != 3 || !(s = cstr_from_hex(tok[2]))) { puts("bad-op"); return; }
	printf("r=%d\n", check_topdomain(s, atoi(tok[1]), &err));
	free(s);
}

static void op_qdl(char **tok, int ntok)
{
	char *q, *t;
	if (ntok != 3 || !(q = cstr_from_hex(tok[1]))) { puts("bad-op"); return; }
	if (!(t = cstr_from_hex(tok[2]))) { free(q); puts("bad-op"); return; }
	printf("r=%d\n", query_datalen(q, t));
	free(q); free(t);
}

#include "h_wire.h"

int main(void)
{
	char *line = NULL;
	size_t n = 0;
	char *tok[16];
	int ntok;

	if (getenv("VERIF_LINEBUF")) setvbuf(stdout, NULL, _IOLBF, 0);
	else setvbuf(stdout, NULL, _IOFBF, 1 << 16);
	while (getline(&line, &n, stdin) > 0) {
		ntok = split(line, tok, 16);
		if (ntok == 0) { puts("bad-op"); continue; }
		if (!strcmp(tok[0], "enc")) op_enc(tok, ntok, 0);
		else if (!strcmp(tok[0], "encdec")) op_enc(tok, ntok, 1);
		else if (!strcmp(tok[0], "dec")) op_dec(tok, ntok);
		else if (!strcmp(tok[0], "bh")) op_bh(tok, ntok);
		else if (!strcmp(tok[0], "dotify")) op_dotify(tok, ntok);
		else if (!strcmp(tok[0], "unpack")) op_unpack(tok, ntok, 0);
		else if (!strcmp(tok[0], "extract")) op_unpack(tok, ntok, 1);
		else if (!strcmp(tok[0], "readname")) op_readname(tok, ntok);
		else if (!strcmp(tok[0], "putname")) op_putname(tok, ntok);
		else if (!strcmp(tok[0], "dnsenc")) op_dnsenc(tok, ntok);
		else if (!strcmp(tok[0], "dnsdec")) op_dnsdec(tok, ntok);
		else if (!strcmp(tok[0], "txt")) op_txt(tok, ntok);
		else if (!strcmp(tok[0], "dnsns")) op_dnsns(tok, ntok);
		else if (!strcmp(tok[0], "dnsa")) op_dnsa(tok, ntok);
		else if (!strcmp(tok[0], "topdom")) op_topdom(tok, ntok);
		else if (!strcmp(tok[0], "qdl")) op_qdl(tok, ntok);
		else if (!strcmp(tok[0], "rseq") && ntok == 3) printf("r=%d\n", recent_seqno(atoi(tok[1]), atoi(tok[2])));
		else if (!strcmp(tok[0], "initusers")) op_initusers(tok, ntok, 0);
		else if (!strcmp(tok[0], "uinit")) op_initusers(tok, ntok, 1);
		else if (tok[0][0] == 'u') op_users(tok, ntok);
		else if (!strcmp(tok[0], "md5selftest")) {
			/* RFC 1321 vector through the real md5.c */
			unsigned char out[16]; md5_state_t ctx;
			static const unsigned char want[16] = {0x90,0x01,0x50,0x98,0x3c,0xd2,0x4f,0xb0,0xd6,0x96,0x3f,0x7d,0x28,0xe1,0x7f,0x72};
			md5_init(&ctx); md5_append(&ctx, (const md5_byte_t *) "abc", 3); md5_finish(&ctx, out);
			puts(memcmp(out, want, 16) ? "fail" : "ok");
		}
		else if (!strcmp(tok[0], "md5")) op_md5(tok, ntok);
		else if (!strcmp(tok[0], "login")) op_login(tok, ntok);
		else if (!strncmp(tok[0], "fw", 2)) op_fw(tok, ntok);
		else puts("bad-op");
	}
	fflush(stdout);
	free(line);
	return 0;
}
