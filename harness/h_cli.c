/* Tie 2, client side: runs REAL functions of /repo/src/client.c (included below, so every static
 * function is the repository's own) and tun.c in a worker thread with strict hand-off at select().
 * The environment (clock, rand, select, sockets, tun device, system(), exit/errx, zlib) is substituted at
 * compile time by shim_srv.h + the extra defines at the top of this file.
 *
 * ops (one per line):
 *   ccfg <topdomainhex> <pwhex> <maxlen> <qtype> <downenc char|-> <lazy> <selecttimeout> <userid> <conn 0 raw|1 dns> <edns0>
 *   crand <v>...           ctime <t>
 *   start login <seed> | start version | start handshake <raw_mode> <autofrag> <fragsize> | start tunnel
 *       | start sendchunks <n> <hexpayload>   (n times: outpkt := payload, send_chunk; no answers needed)
 *       | start readq <buflen>               (one read_dns_withq on the next datagram)
 *       | start sendone ping|version|login|probe|setfrag|rawlogin|lazy|downenctest <arg>   (one send_* call)
 *       | start rawudp <seed>                (handshake_raw_udp)
 *   ans <hexdatagram>      the DNS socket is readable with this datagram
 *   tun <hexframe>         the tun device is readable
 *   tick                   select times out
 * answer line: events ` | `-separated, then `sel to=<µs> tun=<0|1> dns=<0|1>` (what the parked select asked for) or `idle`
 *   (no function running), then the client state digest.
 * events: tx <hex> (sendto to the nameserver) | rawtx <hex> | tunw <hex> | sys <hexcmd> | ret <value> | exit <code> |
 *         errx <code> | tunskip | buf <hex> (readq result) */
#include "h_common.h"
#include <pthread.h>
#include <semaphore.h>
#include <stdarg.h>
#include <setjmp.h>

void verif_errx(int code, const char *fmt, ...) __attribute__((noreturn));
void verif_err(int code, const char *fmt, ...) __attribute__((noreturn));
void verif_warnx(const char *fmt, ...);
#define errx(...) verif_errx(__VA_ARGS__)
#define err(...) verif_err(__VA_ARGS__)
#define warnx(...) verif_warnx(__VA_ARGS__)
#define warn(...) verif_warnx(__VA_ARGS__)
#define exit(x) verif_exit(x)
#define fprintf(...) verif_fprintf(__VA_ARGS__)
int verif_fprintf(FILE *f, const char *fmt, ...);

#include "client.c"

#undef errx
#undef err
#undef warnx
#undef warn
#undef exit
#undef fprintf
#undef time
#undef rand
#undef srand
#undef select
#undef recvmsg
#undef recvfrom
#undef recv
#undef sendto
#undef read
#undef write
#undef syslog
#undef compress2
#undef uncompress
#undef system
#undef sleep

#define TUN_FD 1001
#define DNS_FD 1002

static time_t vnow = 1000;
static int randq[4096], randq_n, randq_i;
static int use_real_z;

time_t verif_time(time_t *t) { if (t) *t = vnow; return vnow; }
int verif_rand(void) { return randq_i < randq_n ? randq[randq_i++] : 0; }
void verif_srand(unsigned s) { (void) s; }
void verif_syslog(int pri, const char *fmt, ...) { (void) pri; (void) fmt; }
unsigned verif_sleep(unsigned s) { vnow += s; return 0; }
int verif_fprintf(FILE *f, const char *fmt, ...) { (void) f; (void) fmt; return 0; }
void verif_warnx(const char *fmt, ...) { (void) fmt; }
ssize_t verif_recvmsg(int fd, struct msghdr *msg, int flags) { (void) fd; (void) msg; (void) flags; return -1; }

int verif_compress2(Bytef *dest, uLongf *destLen, const Bytef *source, uLong sourceLen, int level)
{
	if (use_real_z) return compress2(dest, destLen, source, sourceLen, level);
	if (*destLen < sourceLen + 1) return Z_BUF_ERROR;
	dest[0] = 0x5a;
	memcpy(dest + 1, source, sourceLen);
	*destLen = sourceLen + 1;
	return Z_OK;
}

int verif_uncompress(Bytef *dest, uLongf *destLen, const Bytef *source, uLong sourceLen)
{
	if (use_real_z) return uncompress(dest, destLen, source, sourceLen);
	if (sourceLen < 1 || source[0] != 0x5a || *destLen < sourceLen - 1) return Z_DATA_ERROR;
	memcpy(dest, source + 1, sourceLen - 1);
	*destLen = sourceLen - 1;
	return Z_OK;
}

/* ------------------------------------------------------------------ events */
static char *evbuf;
static size_t evlen, evcap;
static int nevents;

static void ev_raw(const char *s, size_t n)
{
	if (evlen + n + 1 > evcap) {
		evcap = (evlen + n + 1) * 2;
		evbuf = realloc(evbuf, evcap);
		if (!evbuf) abort();
	}
	memcpy(evbuf + evlen, s, n);
	evlen += n;
	evbuf[evlen] = 0;
}
static void ev_str(const char *s) { ev_raw(s, strlen(s)); }
static void ev_hex(const unsigned char *p, size_t n)
{
	static const char hx[] = "0123456789abcdef";
	size_t i;
	char c[2];
	if (n == 0) { ev_str("-"); return; }
	for (i = 0; i < n; i++) { c[0] = hx[p[i] >> 4]; c[1] = hx[p[i] & 15]; ev_raw(c, 2); }
}
static void ev_begin(const char *kind)
{
	if (nevents++) ev_str(" | ");
	ev_str(kind);
}

/* ------------------------------------------------------------------ worker hand-off */
enum { IN_NONE, IN_DNS, IN_TUN, IN_TICK, IN_KILL };
static int in_kind;
static unsigned char *in_data;
static size_t in_len;
static int tun_skipped;
static int fd_offered, fd_consumed;   /* a descriptor was reported readable by select / was then read */
static long sel_to = -1;
static int sel_tun, sel_dns;
static sem_t sem_main, sem_worker;
static pthread_t worker;
static int worker_alive, worker_parked;

static void worker_finish(void) __attribute__((noreturn));
static void worker_finish(void)
{
	worker_parked = 0;
	worker_alive = 0;
	sem_post(&sem_main);
	pthread_exit(NULL);
}

void verif_exit(int code)
{
	char b[32];
	snprintf(b, sizeof(b), "exit %d", code);
	ev_begin(b);
	worker_finish();
}

void verif_errx(int code, const char *fmt, ...)
{
	char b[32];
	(void) fmt;
	snprintf(b, sizeof(b), "errx %d", code);
	ev_begin(b);
	worker_finish();
}

void verif_err(int code, const char *fmt, ...)
{
	char b[32];
	(void) fmt;
	snprintf(b, sizeof(b), "errx %d", code);
	ev_begin(b);
	worker_finish();
}

int verif_system(const char *cmd)
{
	ev_begin("sys ");
	ev_hex((const unsigned char *) cmd, strlen(cmd));
	return 0;
}

int verif_select(int nfds, fd_set *r, fd_set *w, fd_set *e, struct timeval *tv)
{
	int n = 0, had_tun, had_dns;
	(void) nfds; (void) w; (void) e;
	sel_to = tv ? (long) tv->tv_sec * 1000000L + tv->tv_usec : -1;
	sel_tun = FD_ISSET(TUN_FD, r) ? 1 : 0;
	sel_dns = FD_ISSET(DNS_FD, r) ? 1 : 0;
	worker_parked = 1;
	sem_post(&sem_main);
	sem_wait(&sem_worker);
	worker_parked = 0;
	had_tun = FD_ISSET(TUN_FD, r);
	had_dns = FD_ISSET(DNS_FD, r);
	FD_ZERO(r);
	switch (in_kind) {
	case IN_DNS: if (had_dns) { FD_SET(DNS_FD, r); n = 1; fd_offered = 1; } break;
	case IN_TUN: if (had_tun) { FD_SET(TUN_FD, r); n = 1; fd_offered = 1; } else tun_skipped = 1; break;
	case IN_KILL: running = 0; worker_finish();
	default: n = 0;
	}
	/* a select that timed out consumed its timeout */
	if (n == 0 && tv && in_kind == IN_TICK)
		vnow += (tv->tv_sec > 0 ? tv->tv_sec : 0);
	return n;
}

ssize_t verif_recvfrom(int fd, void *buf, size_t len, int flags, struct sockaddr *from, socklen_t *fromlen)
{
	size_t n;
	(void) flags;
	if (fd != DNS_FD || !in_data) return -1;
	fd_consumed = 1;
	n = in_len < len ? in_len : len;
	memcpy(buf, in_data, n);
	if (from && fromlen && *fromlen >= (socklen_t) nameserv_len && nameserv_len > 0) {
		memcpy(from, &nameserv, nameserv_len);
		*fromlen = nameserv_len;
	}
	return (ssize_t) n;
}

ssize_t verif_recv(int fd, void *buf, size_t len, int flags)
{
	return verif_recvfrom(fd, buf, len, flags, NULL, NULL);
}

ssize_t verif_read(int fd, void *buf, size_t len)
{
	size_t n;
	if (fd != TUN_FD) return read(fd, buf, len);
	if (!in_data) return -1;
	fd_consumed = 1;
	n = in_len < len ? in_len : len;
	memcpy(buf, in_data, n);
	return (ssize_t) n;
}

ssize_t verif_write(int fd, const void *buf, size_t len)
{
	if (fd != TUN_FD) return write(fd, buf, len);
	ev_begin("tunw ");
	ev_hex(buf, len);
	return (ssize_t) len;
}

ssize_t verif_sendto(int fd, const void *buf, size_t len, int flags, const struct sockaddr *to, socklen_t tolen)
{
	const unsigned char *p = buf;
	(void) fd; (void) flags; (void) to; (void) tolen;
	if (len >= RAW_HDR_LEN && !memcmp(p, raw_header, RAW_HDR_IDENT_LEN)) ev_begin("rawtx ");
	else ev_begin("tx ");
	ev_hex(p, len);
	if (!(len >= RAW_HDR_LEN && !memcmp(p, raw_header, RAW_HDR_IDENT_LEN))) {
		/* the same query at the level the client model speaks: id, type, name (decoded with the repository's own decoder) */
		struct query q;
		char b[64];
		unsigned char *copy = xmalloc(64 * 1024);
		memset(copy, 0, 64 * 1024);
		memcpy(copy, p, len > 64 * 1024 ? 64 * 1024 : len);
		memset(&q, 0, sizeof(q));
		dns_decode(NULL, 0, &q, QR_QUERY, (char *) copy, len);
		free(copy);
		snprintf(b, sizeof(b), "query %u %u ", (unsigned) q.id, (unsigned) q.type);
		ev_begin(b);
		ev_hex((unsigned char *) q.name, strnlen(q.name, sizeof(q.name)));
	}
	return (ssize_t) len;
}

/* ------------------------------------------------------------------ what the worker runs */
static struct {
	int kind;
	int a, b, c;
	unsigned char *payload;
	size_t plen;
} job;
enum { J_LOGIN = 1, J_VERSION, J_HANDSHAKE, J_TUNNEL, J_SENDCHUNKS, J_READQ, J_SENDONE, J_RAWUDP };

static void *worker_main(void *arg)
{
	char b[64];
	int r = 0;
	(void) arg;
	running = 1;
	switch (job.kind) {
	case J_LOGIN: r = handshake_login(DNS_FD, job.a); break;
	case J_VERSION: { int seed = 0; r = handshake_version(DNS_FD, &seed); snprintf(b, sizeof(b), "seed %d", seed); ev_begin(b); break; }
	case J_HANDSHAKE: r = client_handshake(DNS_FD, job.a, job.b, job.c); break;
	case J_TUNNEL: r = client_tunnel(TUN_FD, DNS_FD); break;
	case J_SENDCHUNKS: {
		int i;
		for (i = 0; i < job.a; i++) {
			size_t n = job.plen < sizeof(outpkt.data) ? job.plen : sizeof(outpkt.data);
			memcpy(outpkt.data, job.payload, n);
			outpkt.len = (int) n;
			outpkt.offset = 0;
			outpkt.sentlen = 0;
			outpkt.seqno = (outpkt.seqno + 1) & 7;
			outpkt.fragment = 0;
			send_chunk(DNS_FD);
			snprintf(b, sizeof(b), "sentlen %d", outpkt.sentlen);
			ev_begin(b);
		}
		break;
	}
	case J_SENDONE: {
		/* one sender, no answer awaited: a = which, b = argument */
		char login[16];
		switch (job.a) {
		case 0: send_ping(DNS_FD); break;
		case 1: send_version(DNS_FD, (uint32_t) job.b); break;
		case 2: login_calculate(login, 16, password, job.b); send_login(DNS_FD, login, 16); break;
		case 3: send_fragsize_probe(DNS_FD, job.b); break;
		case 4: send_set_downstream_fragsize(DNS_FD, job.b); break;
		case 5: send_raw_udp_login(DNS_FD, job.b); break;
		case 6: send_lazy_switch(DNS_FD); break;
		case 7: send_downenctest(DNS_FD, (char) job.b, 1); break;
		default: break;
		}
		break;
	}
	case J_RAWUDP: r = handshake_raw_udp(DNS_FD, job.a); break;
	case J_READQ: {
		struct query q;
		char *buf = xmalloc(job.a > 0 ? job.a : 1);
		fd_set fds;
		struct timeval tv = { 5, 0 };
		FD_ZERO(&fds);
		FD_SET(DNS_FD, &fds);
		if (verif_select(DNS_FD + 1, &fds, NULL, NULL, &tv) > 0) {
			memset(&q, 0, sizeof(q));
			memset(buf, 0, job.a);
			r = read_dns_withq(DNS_FD, TUN_FD, buf, job.a, &q);
			snprintf(b, sizeof(b), "q %u %u %u", (unsigned) q.id, (unsigned) q.type, (unsigned) q.rcode);
			ev_begin(b);
			ev_begin("buf ");
			ev_hex((unsigned char *) buf, r > 0 ? (size_t) r : 0);
		}
		free(buf);
		break;
	}
	}
	snprintf(b, sizeof(b), "ret %d", r);
	ev_begin(b);
	worker_finish();
	return NULL;
}

static void kill_worker(void)
{
	if (!worker_alive) return;
	in_kind = IN_KILL;
	in_data = NULL;
	sem_post(&sem_worker);
	sem_wait(&sem_main);
	pthread_join(worker, NULL);
	evlen = 0; nevents = 0;
}

static void start_job(void)
{
	pthread_attr_t at;
	kill_worker();
	pthread_attr_init(&at);
	pthread_attr_setstacksize(&at, 64UL * 1024 * 1024);
	worker_alive = 1;
	if (pthread_create(&worker, &at, worker_main, NULL)) abort();
	sem_wait(&sem_main);	/* parked in select, or finished */
	if (!worker_alive) pthread_join(worker, NULL);
}

static unsigned wsum(const unsigned char *p, size_t n)
{
	unsigned long s = 0;
	size_t i;
	for (i = 0; i < n; i++) s = (s + (unsigned long) (i + 1) * p[i]) % 65521UL;
	return (unsigned) s;
}

static void finish_line(void)
{
	char b[512];
	if (tun_skipped) ev_begin("tunskip");
	if (nevents) ev_str(" | ");
	if (worker_alive && worker_parked) snprintf(b, sizeof(b), "sel to=%ld tun=%d dns=%d", sel_to, sel_tun, sel_dns);
	else snprintf(b, sizeof(b), "idle");
	ev_str(b);
	snprintf(b, sizeof(b), " | st now=%ld run=%d cid=%u/%u/%u rs=%u out=%d/%d/%d/%d/%d/%u in=%d/%d/%d/%u ocr=%d conn=%d lazy=%d sps=%ld ldt=%ld lrp=%ld sel=%d enc=%s dn=%c qt=%u uid=%d ml=%d e0=%d",
		 (long) vnow, running, (unsigned) chunkid, (unsigned) chunkid_prev, (unsigned) chunkid_prev2, (unsigned) rand_seed,
		 outpkt.len, outpkt.offset, outpkt.sentlen, (int) outpkt.seqno, (int) outpkt.fragment,
		 wsum((unsigned char *) outpkt.data, outpkt.len > 0 && outpkt.len <= (int) sizeof(outpkt.data) ? (size_t) outpkt.len : 0),
		 inpkt.len, (int) inpkt.seqno, (int) inpkt.fragment,
		 wsum((unsigned char *) inpkt.data, inpkt.len > 0 && inpkt.len <= (int) sizeof(inpkt.data) ? (size_t) inpkt.len : 0),
		 outchunkresent, (int) conn, lazymode, send_ping_soon, (long) lastdownstreamtime, (long) lastrawping, selecttimeout,
		 dataenc == &base32_ops ? "b32" : dataenc == &base64_ops ? "b64" : dataenc == &base64u_ops ? "b64u" : dataenc == &base128_ops ? "b128" : "none",
		 downenc ? downenc : '0', (unsigned) do_qtype, (int) userid, hostname_maxlen, dnsc_use_edns0);
	ev_str(b);
	fwrite(evbuf, 1, evlen, stdout);
	putchar('\n');
	evlen = 0; nevents = 0;
}

static void feed(int kind, unsigned char *data, size_t len)
{
	if (!worker_alive) { puts("idle"); return; }
	in_kind = kind;
	in_data = data;
	in_len = len;
	if (kind == IN_DNS && conn == CONN_DNS_NULL) {
		/* what read_dns_withq() makes of this datagram (DNS mode: no side effects): the client model is fed this */
		static char rbuf[64 * 1024];
		struct query q;
		char b[96];
		int rv;
		memset(&q, 0, sizeof(q));
		rv = read_dns_withq(DNS_FD, TUN_FD, rbuf, sizeof(rbuf), &q);
		snprintf(b, sizeof(b), "rq %d %u %u %u %u ", rv, (unsigned) q.id, (unsigned) q.type, (unsigned) q.rcode, (unsigned) (unsigned char) q.name[0]);
		ev_begin(b);
		ev_hex((unsigned char *) rbuf, rv > 0 ? (size_t) rv : 0);
	}
	tun_skipped = 0;
	fd_offered = fd_consumed = 0;
	sem_post(&sem_worker);
	sem_wait(&sem_main);
	/* select() said "readable" and the program came back to select() without reading: a real select() would return again at once (busy loop) */
	if (fd_offered && !fd_consumed && worker_alive && worker_parked) ev_begin(kind == IN_TUN ? "tunleft" : "dnsleft");
	if (!worker_alive) pthread_join(worker, NULL);
	in_data = NULL;
	finish_line();
}

static char td_buf[512], pw_buf[128];

int main(void)
{
	char *line = NULL;
	size_t cap = 0;
	char *tok[16];
	int ntok;
	const char *z = getenv("VERIF_Z");
	struct sockaddr_in ns;

	use_real_z = z && !strcmp(z, "real");
	if (getenv("VERIF_LINEBUF")) setvbuf(stdout, NULL, _IOLBF, 0);
	sem_init(&sem_main, 0, 0);
	sem_init(&sem_worker, 0, 0);
	evcap = 1 << 16;
	evbuf = xmalloc(evcap);
	evbuf[0] = 0;
	memset(&ns, 0, sizeof(ns));
	ns.sin_family = AF_INET;
	ns.sin_addr.s_addr = htonl(0x0a000035);
	ns.sin_port = htons(53);

	while (getline(&line, &cap, stdin) > 0) {
		ntok = split(line, tok, 16);
		if (ntok == 0) { puts("bad-op"); continue; }
		if (!strcmp(tok[0], "ccfg") && ntok == 11) {
			size_t n;
			unsigned char *b;
			kill_worker();
			b = hex_alloc(tok[1], &n);
			if (!b || n >= sizeof(td_buf)) { puts("bad-op"); continue; }
			memcpy(td_buf, b, n); td_buf[n] = 0; free(b);
			b = hex_alloc(tok[2], &n);
			if (!b || n >= sizeof(pw_buf)) { puts("bad-op"); continue; }
			memcpy(pw_buf, b, n); pw_buf[n] = 0; free(b);
			vnow = 1000; randq_n = randq_i = 0;
			client_init();
			client_set_nameserver((struct sockaddr_storage *) &ns, sizeof(ns));
			client_set_topdomain(td_buf);
			client_set_password(pw_buf);
			hostname_maxlen = 0xFF;
			client_set_hostname_maxlen(atoi(tok[3]));
			do_qtype = (unsigned short) atoi(tok[4]);
			downenc = tok[5][0] == '-' ? ' ' : tok[5][0];
			client_set_lazymode(atoi(tok[6]));
			client_set_selecttimeout(atoi(tok[7]));
			userid = (char) atoi(tok[8]);
			userid_char = "0123456789abcdef"[userid & 15];
			userid_char2 = "0123456789ABCDEF"[userid & 15];
			conn = atoi(tok[9]) ? CONN_DNS_NULL : CONN_RAW_UDP;
			dnsc_use_edns0 = atoi(tok[10]);
			dataenc = &base32_ops;
			send_ping_soon = 1;
			send_query_sendcnt = -1;
			send_query_recvcnt = 0;
			memcpy(&raw_serv, &ns, sizeof(ns));
			raw_serv_len = sizeof(ns);
			puts("ok");
		}
		else if (!strcmp(tok[0], "cenc") && ntok == 2) {
			dataenc = !strcmp(tok[1], "b64") ? &base64_ops : !strcmp(tok[1], "b64u") ? &base64u_ops : !strcmp(tok[1], "b128") ? &base128_ops : &base32_ops;
			puts("ok");
		}
		else if (!strcmp(tok[0], "ctime") && ntok == 2) { vnow = (time_t) atol(tok[1]); puts("ok"); }
		else if (!strcmp(tok[0], "crand")) {
			int i;
			for (i = 1; i < ntok && randq_n < 4096; i++) randq[randq_n++] = atoi(tok[i]);
			puts("ok");
		}
		else if (!strcmp(tok[0], "start") && ntok >= 2) {
			memset(&job, 0, sizeof(job));
			if (!strcmp(tok[1], "login") && ntok == 3) { job.kind = J_LOGIN; job.a = (int) strtol(tok[2], NULL, 10); }
			else if (!strcmp(tok[1], "version") && ntok == 2) job.kind = J_VERSION;
			else if (!strcmp(tok[1], "handshake") && ntok == 5) { job.kind = J_HANDSHAKE; job.a = atoi(tok[2]); job.b = atoi(tok[3]); job.c = atoi(tok[4]); }
			else if (!strcmp(tok[1], "tunnel") && ntok == 2) job.kind = J_TUNNEL;
			else if (!strcmp(tok[1], "sendchunks") && ntok == 4) { job.kind = J_SENDCHUNKS; job.a = atoi(tok[2]); job.payload = hex_alloc(tok[3], &job.plen); if (!job.payload) { puts("bad-op"); continue; } }
			else if (!strcmp(tok[1], "sendone") && ntok == 4) {
				static const char *names[] = { "ping", "version", "login", "probe", "setfrag", "rawlogin", "lazy", "downenctest", NULL };
				int k;
				job.kind = J_SENDONE; job.a = -1; job.b = (int) strtol(tok[3], NULL, 10);
				for (k = 0; names[k]; k++) if (!strcmp(tok[2], names[k])) job.a = k;
				if (job.a < 0) { puts("bad-op"); continue; }
			}
			else if (!strcmp(tok[1], "rawudp") && ntok == 3) { job.kind = J_RAWUDP; job.a = (int) strtol(tok[2], NULL, 10); }
			else if (!strcmp(tok[1], "readq") && ntok == 3) { job.kind = J_READQ; job.a = atoi(tok[2]); }
			else { puts("bad-op"); continue; }
			start_job();
			finish_line();
		}
		else if (!strcmp(tok[0], "tick") && ntok == 1) feed(IN_TICK, NULL, 0);
		else if (!strcmp(tok[0], "ans") && ntok == 2) {
			size_t n;
			unsigned char *d = hex_alloc(tok[1], &n);
			if (!d) { puts("bad-op"); continue; }
			feed(IN_DNS, d, n);
			free(d);
		}
		else if (!strcmp(tok[0], "tun") && ntok == 2) {
			size_t n;
			unsigned char *d = hex_alloc(tok[1], &n);
			if (!d) { puts("bad-op"); continue; }
			feed(IN_TUN, d, n);
			free(d);
		}
		else puts("bad-op");
	}
	kill_worker();
	free(line);
	return 0;
}
