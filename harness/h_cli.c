/* Tie 2, client side: runs REAL functions of /repo/src/client.c (included below, so every static
 * function is the repository's own) and tun.c in a worker thread with strict hand-off at select().
 * The environment (clock, rand, select, sockets, tun device, system(), exit/errx, zlib) is substituted at
 * compile time by shim_srv.h + the extra defines at the top of this file.
 *
 * ops (one per line):
 *   ccfg <topdomainhex> <pwhex> <maxlen> <qtype> <downenc char|-> <lazy> <selecttimeout> <userid> <conn 0 raw|1 dns> <edns0>
 *   crand <v>...           ctime <t>
 *   start login <seed> | start version | start handshake <raw_mode> <autofrag> <fragsize> | start tunnel
 *       | start sendchunks <n> <hexpayload>   (n times: outpkt := payload, send_chunk; no answers needed)
 *       | start readq <buflen>               (one read_dns_withq on the next datagram)
 *       | start sendone ping|version|login|probe|setfrag|rawlogin|lazy|downenctest <arg>   (one send_* call)
 *       | start rawudp <seed>                (handshake_raw_udp)
 *   ans <hexdatagram>      the DNS socket is readable with this datagram
 *   tun <hexframe>         the tun device is readable
 *   tick                   select times out
 * answer line: events ` | `-separated, then `sel to=<µs> tun=<0|1> dns=<0|1>` (what the parked select asked for) or `idle`
 *   (no function running), then the client state digest.
 * events: tx <hex> (sendto to the nameserver) | rawtx <hex> | tunw <hex> | sys <hexcmd> | ret <value> | exit <code> |
 *         errx <code> | tunskip | buf <hex> (readq result) */
#include "h_common.h"
#include <pthread.h>
#include <semaphore.h>
#include <stdarg.h>
#include <setjmp.h>

void verif_errx(int code, const char *fmt, ...) __attribute__((noreturn));
void verif_err(int code, const char *fmt, ...) __attribute__((noreturn));
void verif_warnx(const char *fmt, ...);
#define errx(...) verif_errx(__VA_ARGS__)
#define err(...) verif_err(__VA_ARGS__)
#define warnx(...) verif_warnx(__VA_ARGS__)
#define warn(...) verif_warnx(__VA_ARGS__)
#define exit(x) verif_exit(x)
#define fprintf(...) verif_fprintf(__VA_ARGS__)
int verif_fprintf(FILE *f, const char *fmt, ...);

#include "client.c"

/* ---- op `main`: the REAL main() of iodine.c (option handling, start-up validation) up to client_handshake();
 * everything that touches the operating system is substituted, every substituted call is logged */
#include <setjmp.h>
#include <grp.h>
#include <pwd.h>
#include <netdb.h>
#include <getopt.h>
#include <stdbool.h>
#include <sys/param.h>
#include <fcntl.h>
struct passwd;
int verif_getopt(int argc, char *const argv[], const char *optstring);
char *verif_getenv(const char *name);
struct passwd *verif_getpwnam(const char *name);
int verif_setgroups(size_t n, const gid_t *g);
int verif_setgid(gid_t g);
int verif_setuid(uid_t u);
void verif_check_superuser(void);
char *verif_get_resolvconf_addr(void);
int verif_get_addr(char *host, int port, int family, int flags, struct sockaddr_storage *out);
int verif_open_dns_from_host(char *host, int port, int family, int flags);
void verif_close_dns(int fd);
void verif_do_chroot(char *dir);
void verif_do_setcon(char *ctx);
void verif_do_detach(void);
void verif_do_pidfile(char *file);
int verif_open_tun(const char *dev);
void verif_close_tun(int fd);
int verif_client_handshake_stub(int dns_fd, int raw_mode, int autodetect_frag_size, int fragsize);
int verif_client_tunnel_stub(int tun_fd, int dns_fd);
#define getopt(a, b, c) verif_getopt(a, b, c)
#define getenv(x) verif_getenv(x)
#define getpwnam(x) verif_getpwnam(x)
#define setgroups(a, b) verif_setgroups(a, b)
#define setgid(x) verif_setgid(x)
#define setuid(x) verif_setuid(x)
#define signal(a, b) ((void) (b))
#define check_superuser verif_check_superuser
#define get_resolvconf_addr verif_get_resolvconf_addr
#define get_addr verif_get_addr
#define open_dns_from_host verif_open_dns_from_host
#define close_dns verif_close_dns
#define do_chroot verif_do_chroot
#define do_setcon verif_do_setcon
#define do_detach verif_do_detach
#define do_pidfile verif_do_pidfile
#define open_tun verif_open_tun
#define close_tun verif_close_tun
#define client_handshake verif_client_handshake_stub
#define client_tunnel verif_client_tunnel_stub
#define main iodine_main
#include "iodine.c"
#undef main
#undef getopt
#undef getenv
#undef getpwnam
#undef setgroups
#undef setgid
#undef setuid
#undef signal
#undef check_superuser
#undef get_resolvconf_addr
#undef get_addr
#undef open_dns_from_host
#undef close_dns
#undef do_chroot
#undef do_setcon
#undef do_detach
#undef do_pidfile
#undef open_tun
#undef close_tun
#undef client_handshake
#undef client_tunnel

#undef errx
#undef err
#undef warnx
#undef warn
#undef exit
#undef fprintf
#undef time
#undef rand
#undef srand
#undef select
#undef recvmsg
#undef recvfrom
#undef recv
#undef sendto
#undef read
#undef write
#undef syslog
#undef compress2
#undef uncompress
#undef system
#undef sleep

#define TUN_FD 1001
#define DNS_FD 1002

static time_t vnow = 1000;
static int randq[4096], randq_n, randq_i;
static int use_real_z;

time_t verif_time(time_t *t) { if (t) *t = vnow; return vnow; }
int verif_rand(void) { return randq_i < randq_n ? randq[randq_i++] : 0; }
void verif_srand(unsigned s) { (void) s; }
void verif_syslog(int pri, const char *fmt, ...) { (void) pri; (void) fmt; }
unsigned verif_sleep(unsigned s) { vnow += s; return 0; }
static int mm;			/* op `main` is running (on the main thread) */
static jmp_buf mm_jb;
static int mm_code;
static const char *mm_kind, *mm_tag, *mm_ftag;
int verif_fprintf(FILE *f, const char *fmt, ...)
{
	(void) f;
	if (!mm) return 0;
	if (strstr(fmt, "Git version")) mm_ftag = "version";
	else if (strstr(fmt, "Options to try")) mm_ftag = "help";
	else if (strstr(fmt, "Usage: ")) mm_ftag = "usage";
	return 0;
}
static const char *mm_class(const char *fmt)
{
	static const struct { const char *key, *tag; } tab[] = {
		{ "Use a max frag size", "fragsize" }, { "No nameserver found", "nons" }, { "Invalid topdomain", "topdomain" },
		{ "does not exist", "nouser" }, { "Could not switch", "setuid" }, { "Invalid query type", "qtype" },
		{ "Cannot lookup nameserver", "lookup" }, { NULL, NULL } };
	int i;
	for (i = 0; tab[i].key; i++) if (strstr(fmt, tab[i].key)) return tab[i].tag;
	return "other";
}
void verif_warnx(const char *fmt, ...) { if (mm) mm_tag = mm_class(fmt); }
ssize_t verif_recvmsg(int fd, struct msghdr *msg, int flags) { (void) fd; (void) msg; (void) flags; return -1; }

int verif_compress2(Bytef *dest, uLongf *destLen, const Bytef *source, uLong sourceLen, int level)
{
	if (use_real_z) return compress2(dest, destLen, source, sourceLen, level);
	if (*destLen < sourceLen + 1) return Z_BUF_ERROR;
	dest[0] = 0x5a;
	memcpy(dest + 1, source, sourceLen);
	*destLen = sourceLen + 1;
	return Z_OK;
}

int verif_uncompress(Bytef *dest, uLongf *destLen, const Bytef *source, uLong sourceLen)
{
	if (use_real_z) return uncompress(dest, destLen, source, sourceLen);
	if (sourceLen < 1 || source[0] != 0x5a || *destLen < sourceLen - 1) return Z_DATA_ERROR;
	memcpy(dest, source + 1, sourceLen - 1);
	*destLen = sourceLen - 1;
	return Z_OK;
}

/* ------------------------------------------------------------------ events */
static char *evbuf;
static size_t evlen, evcap;
static int nevents;

static void ev_raw(const char *s, size_t n)
{
	if (evlen + n + 1 > evcap) {
		evcap = (evlen + n + 1) * 2;
		evbuf = realloc(evbuf, evcap);
		if (!evbuf) abort();
	}
	memcpy(evbuf + evlen, s, n);
	evlen += n;
	evbuf[evlen] = 0;
}
static void ev_str(const char *s) { ev_raw(s, strlen(s)); }
static void ev_hex(const unsigned char *p, size_t n)
{
	static const char hx[] = "0123456789abcdef";
	size_t i;
	char c[2];
	if (n == 0) { ev_str("-"); return; }
	for (i = 0; i < n; i++) { c[0] = hx[p[i] >> 4]; c[1] = hx[p[i] & 15]; ev_raw(c, 2); }
}
static void ev_begin(const char *kind)
{
	if (nevents++) ev_str(" | ");
	ev_str(kind);
}

/* ------------------------------------------------------------------ worker hand-off */
enum { IN_NONE, IN_DNS, IN_TUN, IN_TICK, IN_KILL };
static int in_kind;
static unsigned char *in_data;
static size_t in_len;
static int tun_skipped;
static int fd_offered, fd_consumed;   /* a descriptor was reported readable by select / was then read */
static long sel_to = -1;
static int sel_tun, sel_dns;
static sem_t sem_main, sem_worker;
static pthread_t worker;
static int worker_alive, worker_parked;

static void worker_finish(void) __attribute__((noreturn));
static void worker_finish(void)
{
	worker_parked = 0;
	worker_alive = 0;
	sem_post(&sem_main);
	pthread_exit(NULL);
}

void verif_exit(int code)
{
	char b[32];
	if (mm) { mm_kind = "exit"; mm_code = code; longjmp(mm_jb, 1); }
	snprintf(b, sizeof(b), "exit %d", code);
	ev_begin(b);
	worker_finish();
}

void verif_errx(int code, const char *fmt, ...)
{
	char b[32];
	if (mm) { mm_kind = "errx"; mm_code = code; mm_tag = mm_class(fmt); longjmp(mm_jb, 1); }
	snprintf(b, sizeof(b), "errx %d", code);
	ev_begin(b);
	worker_finish();
}

void verif_err(int code, const char *fmt, ...)
{
	char b[32];
	(void) fmt;
	snprintf(b, sizeof(b), "errx %d", code);
	ev_begin(b);
	worker_finish();
}

int verif_system(const char *cmd)
{
	ev_begin("sys ");
	ev_hex((const unsigned char *) cmd, strlen(cmd));
	return 0;
}

int verif_select(int nfds, fd_set *r, fd_set *w, fd_set *e, struct timeval *tv)
{
	int n = 0, had_tun, had_dns;
	(void) nfds; (void) w; (void) e;
	sel_to = tv ? (long) tv->tv_sec * 1000000L + tv->tv_usec : -1;
	sel_tun = FD_ISSET(TUN_FD, r) ? 1 : 0;
	sel_dns = FD_ISSET(DNS_FD, r) ? 1 : 0;
	worker_parked = 1;
	sem_post(&sem_main);
	sem_wait(&sem_worker);
	worker_parked = 0;
	had_tun = FD_ISSET(TUN_FD, r);
	had_dns = FD_ISSET(DNS_FD, r);
	FD_ZERO(r);
	switch (in_kind) {
	case IN_DNS: if (had_dns) { FD_SET(DNS_FD, r); n = 1; fd_offered = 1; } break;
	case IN_TUN: if (had_tun) { FD_SET(TUN_FD, r); n = 1; fd_offered = 1; } else tun_skipped = 1; break;
	case IN_KILL: running = 0; worker_finish();
	default: n = 0;
	}
	/* a select that timed out consumed its timeout */
	if (n == 0 && tv && in_kind == IN_TICK)
		vnow += (tv->tv_sec > 0 ? tv->tv_sec : 0);
	return n;
}

ssize_t verif_recvfrom(int fd, void *buf, size_t len, int flags, struct sockaddr *from, socklen_t *fromlen)
{
	size_t n;
	(void) flags;
	if (fd != DNS_FD || !in_data) return -1;
	fd_consumed = 1;
	n = in_len < len ? in_len : len;
	memcpy(buf, in_data, n);
	if (from && fromlen && *fromlen >= (socklen_t) nameserv_len && nameserv_len > 0) {
		memcpy(from, &nameserv, nameserv_len);
		*fromlen = nameserv_len;
	}
	return (ssize_t) n;
}

ssize_t verif_recv(int fd, void *buf, size_t len, int flags)
{
	return verif_recvfrom(fd, buf, len, flags, NULL, NULL);
}

ssize_t verif_read(int fd, void *buf, size_t len)
{
	size_t n;
	if (fd != TUN_FD) return read(fd, buf, len);
	if (!in_data) return -1;
	fd_consumed = 1;
	n = in_len < len ? in_len : len;
	memcpy(buf, in_data, n);
	return (ssize_t) n;
}

ssize_t verif_write(int fd, const void *buf, size_t len)
{
	if (fd != TUN_FD) return write(fd, buf, len);
	ev_begin("tunw ");
	ev_hex(buf, len);
	return (ssize_t) len;
}

ssize_t verif_sendto(int fd, const void *buf, size_t len, int flags, const struct sockaddr *to, socklen_t tolen)
{
	const unsigned char *p = buf;
	(void) fd; (void) flags; (void) to; (void) tolen;
	if (len >= RAW_HDR_LEN && !memcmp(p, raw_header, RAW_HDR_IDENT_LEN)) ev_begin("rawtx ");
	else ev_begin("tx ");
	ev_hex(p, len);
	if (!(len >= RAW_HDR_LEN && !memcmp(p, raw_header, RAW_HDR_IDENT_LEN))) {
		/* the same query at the level the client model speaks: id, type, name (decoded with the repository's own decoder) */
		struct query q;
		char b[64];
		unsigned char *copy = xmalloc(64 * 1024);
		memset(copy, 0, 64 * 1024);
		memcpy(copy, p, len > 64 * 1024 ? 64 * 1024 : len);
		memset(&q, 0, sizeof(q));
		dns_decode(NULL, 0, &q, QR_QUERY, (char *) copy, len);
		free(copy);
		snprintf(b, sizeof(b), "query %u %u ", (unsigned) q.id, (unsigned) q.type);
		ev_begin(b);
		ev_hex((unsigned char *) q.name, strnlen(q.name, sizeof(q.name)));
	}
	return (ssize_t) len;
}

/* ------------------------------------------------------------------ what the worker runs */
static struct {
	int kind;
	int a, b, c;
	unsigned char *payload;
	size_t plen;
} job;
enum { J_LOGIN = 1, J_VERSION, J_HANDSHAKE, J_TUNNEL, J_SENDCHUNKS, J_READQ, J_SENDONE, J_RAWUDP };

static void *worker_main(void *arg)
{
	char b[64];
	int r = 0;
	(void) arg;
	running = 1;
	switch (job.kind) {
	case J_LOGIN: r = handshake_login(DNS_FD, job.a); break;
	case J_VERSION: { int seed = 0; r = handshake_version(DNS_FD, &seed); snprintf(b, sizeof(b), "seed %d", seed); ev_begin(b); break; }
	case J_HANDSHAKE: r = client_handshake(DNS_FD, job.a, job.b, job.c); break;
	case J_TUNNEL: r = client_tunnel(TUN_FD, DNS_FD); break;
	case J_SENDCHUNKS: {
		int i;
		for (i = 0; i < job.a; i++) {
			size_t n = job.plen < sizeof(outpkt.data) ? job.plen : sizeof(outpkt.data);
			memcpy(outpkt.data, job.payload, n);
			outpkt.len = (int) n;
			outpkt.offset = 0;
			outpkt.sentlen = 0;
			outpkt.seqno = (outpkt.seqno + 1) & 7;
			outpkt.fragment = 0;
			send_chunk(DNS_FD);
			snprintf(b, sizeof(b), "sentlen %d", outpkt.sentlen);
			ev_begin(b);
		}
		break;
	}
	case J_SENDONE: {
		/* one sender, no answer awaited: a = which, b = argument */
		char login[16];
		switch (job.a) {
		case 0: send_ping(DNS_FD); break;
		case 1: send_version(DNS_FD, (uint32_t) job.b); break;
		case 2: login_calculate(login, 16, password, job.b); send_login(DNS_FD, login, 16); break;
		case 3: send_fragsize_probe(DNS_FD, job.b); break;
		case 4: send_set_downstream_fragsize(DNS_FD, job.b); break;
		case 5: send_raw_udp_login(DNS_FD, job.b); break;
		case 6: send_lazy_switch(DNS_FD); break;
		case 7: send_downenctest(DNS_FD, (char) job.b, 1); break;
		default: break;
		}
		break;
	}
	case J_RAWUDP: r = handshake_raw_udp(DNS_FD, job.a); break;
	case J_READQ: {
		struct query q;
		char *buf = xmalloc(job.a > 0 ? job.a : 1);
		fd_set fds;
		struct timeval tv = { 5, 0 };
		FD_ZERO(&fds);
		FD_SET(DNS_FD, &fds);
		if (verif_select(DNS_FD + 1, &fds, NULL, NULL, &tv) > 0) {
			memset(&q, 0, sizeof(q));
			memset(buf, 0, job.a);
			r = read_dns_withq(DNS_FD, TUN_FD, buf, job.a, &q);
			snprintf(b, sizeof(b), "q %u %u %u", (unsigned) q.id, (unsigned) q.type, (unsigned) q.rcode);
			ev_begin(b);
			ev_begin("buf ");
			ev_hex((unsigned char *) buf, r > 0 ? (size_t) r : 0);
		}
		free(buf);
		break;
	}
	}
	snprintf(b, sizeof(b), "ret %d", r);
	ev_begin(b);
	worker_finish();
	return NULL;
}

static void kill_worker(void)
{
	if (!worker_alive) return;
	in_kind = IN_KILL;
	in_data = NULL;
	sem_post(&sem_worker);
	sem_wait(&sem_main);
	pthread_join(worker, NULL);
	evlen = 0; nevents = 0;
}

static void start_job(void)
{
	pthread_attr_t at;
	kill_worker();
	pthread_attr_init(&at);
	pthread_attr_setstacksize(&at, 64UL * 1024 * 1024);
	worker_alive = 1;
	if (pthread_create(&worker, &at, worker_main, NULL)) abort();
	sem_wait(&sem_main);	/* parked in select, or finished */
	if (!worker_alive) pthread_join(worker, NULL);
}

static unsigned wsum(const unsigned char *p, size_t n)
{
	unsigned long s = 0;
	size_t i;
	for (i = 0; i < n; i++) s = (s + (unsigned long) (i + 1) * p[i]) % 65521UL;
	return (unsigned) s;
}

/* every static of client.c the tunnel / handshake machines read (docs/CLI_PROTOCOL.md) */
static void st_digest(char *b, size_t n)
{
	snprintf(b, n, " | st now=%ld run=%d cid=%u/%u/%u rs=%u out=%d/%d/%d/%d/%d/%u in=%d/%d/%d/%u ocr=%d conn=%d lazy=%d sps=%ld ldt=%ld lrp=%ld sel=%d enc=%s dn=%c qt=%u uid=%d ml=%d e0=%d",
		 (long) vnow, running, (unsigned) chunkid, (unsigned) chunkid_prev, (unsigned) chunkid_prev2, (unsigned) rand_seed,
		 outpkt.len, outpkt.offset, outpkt.sentlen, (int) outpkt.seqno, (int) outpkt.fragment,
		 wsum((unsigned char *) outpkt.data, outpkt.len > 0 && outpkt.len <= (int) sizeof(outpkt.data) ? (size_t) outpkt.len : 0),
		 inpkt.len, (int) inpkt.seqno, (int) inpkt.fragment,
		 wsum((unsigned char *) inpkt.data, inpkt.len > 0 && inpkt.len <= (int) sizeof(inpkt.data) ? (size_t) inpkt.len : 0),
		 outchunkresent, (int) conn, lazymode, send_ping_soon, (long) lastdownstreamtime, (long) lastrawping, selecttimeout,
		 dataenc == &base32_ops ? "b32" : dataenc == &base64_ops ? "b64" : dataenc == &base64u_ops ? "b64u" : dataenc == &base128_ops ? "b128" : "none",
		 downenc ? downenc : '0', (unsigned) do_qtype, (int) userid, hostname_maxlen, dnsc_use_edns0);
}

static void finish_line(void)
{
	char b[512];
	if (tun_skipped) ev_begin("tunskip");
	if (nevents) ev_str(" | ");
	if (worker_alive && worker_parked) snprintf(b, sizeof(b), "sel to=%ld tun=%d dns=%d", sel_to, sel_tun, sel_dns);
	else snprintf(b, sizeof(b), "idle");
	ev_str(b);
	st_digest(b, sizeof(b));
	ev_str(b);
	fwrite(evbuf, 1, evlen, stdout);
	putchar('\n');
	evlen = 0; nevents = 0;
}

static void feed(int kind, unsigned char *data, size_t len)
{
	if (!worker_alive) { puts("idle"); return; }
	in_kind = kind;
	in_data = data;
	in_len = len;
	if (kind == IN_DNS && conn == CONN_DNS_NULL) {
		/* what read_dns_withq() makes of this datagram (DNS mode: no side effects): the client model is fed this */
		static char rbuf[64 * 1024];
		struct query q;
		char b[96];
		int rv;
		memset(&q, 0, sizeof(q));
		rv = read_dns_withq(DNS_FD, TUN_FD, rbuf, sizeof(rbuf), &q);
		snprintf(b, sizeof(b), "rq %d %u %u %u %u ", rv, (unsigned) q.id, (unsigned) q.type, (unsigned) q.rcode, (unsigned) (unsigned char) q.name[0]);
		ev_begin(b);
		ev_hex((unsigned char *) rbuf, rv > 0 ? (size_t) rv : 0);
	}
	tun_skipped = 0;
	fd_offered = fd_consumed = 0;
	sem_post(&sem_worker);
	sem_wait(&sem_main);
	/* select() said "readable" and the program came back to select() without reading: a real select() would return again at once (busy loop) */
	if (fd_offered && !fd_consumed && worker_alive && worker_parked) ev_begin(kind == IN_TUN ? "tunleft" : "dnsleft");
	if (!worker_alive) pthread_join(worker, NULL);
	in_data = NULL;
	finish_line();
}

static char td_buf[512], pw_buf[128];

/* ------------------------------------------------------------------ op `main`: the real main() of iodine.c up to client_handshake()
 * main [E=<hex IODINE_PASS>] [T=<hex typed at the prompt>] [RC=<hex nameserver of resolv.conf>] [HS=<return value of the handshake>] <hex argv0> ...
 * answer: `exit <code> <class>` | `errx <code> <class>` | `ret <code>` | `run <code>`, ` | ev <substituted calls in order>`, for `run`: ` | <digest of client.c's statics when client_handshake() is called>` */
static int mm_getopt_err, mm_hs_ret;
static char *mm_env_pass, *mm_typed, *mm_resolv;
static char mm_evbuf[16384], mm_digest[2048];
static size_t mm_evlen;
static struct passwd mm_pw;

static void mm_ev(const char *fmt, ...)
{
	va_list ap;
	int n;
	if (mm_evlen + 2 >= sizeof(mm_evbuf)) return;
	mm_evbuf[mm_evlen++] = ' ';
	va_start(ap, fmt);
	n = vsnprintf(mm_evbuf + mm_evlen, sizeof(mm_evbuf) - mm_evlen, fmt, ap);
	va_end(ap);
	if (n > 0) mm_evlen += (size_t) n < sizeof(mm_evbuf) - mm_evlen ? (size_t) n : sizeof(mm_evbuf) - mm_evlen - 1;
}
static const char *mm_hs(const char *s)
{
	static char b[4][2100];
	static int k;
	char *o = b[k = (k + 1) & 3];
	size_t i, n;
	if (!s) return "null";
	n = strlen(s);
	if (n == 0) return "-";
	if (n > 1000) n = 1000;
	for (i = 0; i < n; i++) sprintf(o + 2 * i, "%02x", (unsigned char) s[i]);
	return o;
}
int verif_getopt(int argc, char *const argv[], const char *optstring)
{
	int r = getopt(argc, argv, optstring);
	mm_getopt_err = (r != -1);		/* an exit while this is set comes from inside the option loop */
	return r;
}
char *verif_getenv(const char *name)
{
	if (mm) return !strcmp(name, "IODINE_PASS") ? mm_env_pass : NULL;
	return getenv(name);
}
struct passwd *verif_getpwnam(const char *name)
{
	if (name[0] == '!') return NULL;
	memset(&mm_pw, 0, sizeof(mm_pw));
	mm_pw.pw_uid = name[0] == '~' ? 1001 : 1000;
	mm_pw.pw_gid = 1000;
	return &mm_pw;
}
int verif_setgroups(size_t n, const gid_t *g) { (void) n; (void) g; return 0; }
int verif_setgid(gid_t g) { (void) g; return 0; }
int verif_setuid(uid_t u) { mm_ev("setuid:%u", (unsigned) u); return u == 1001 ? -1 : 0; }
void verif_check_superuser(void) { }
char *verif_get_resolvconf_addr(void) { mm_ev("resolvconf"); return mm_resolv; }
int verif_fscanf(FILE *f, const char *fmt, ...)
{
	va_list ap;
	char *dst;
	size_t n = 0;
	(void) f;
	if (!mm || strcmp(fmt, "%79[^\n]")) abort();
	mm_ev("prompt");
	va_start(ap, fmt);
	dst = va_arg(ap, char *);
	va_end(ap);
	while (mm_typed && mm_typed[n] && mm_typed[n] != '\n' && n < 79) n++;
	if (n == 0) return mm_typed && mm_typed[0] ? 0 : EOF;
	memcpy(dst, mm_typed, n);
	dst[n] = 0;
	return 1;
}
int verif_tcgetattr(int fd, struct termios *t) { (void) fd; memset(t, 0, sizeof(*t)); return 0; }
int verif_tcsetattr(int fd, int act, const struct termios *t) { (void) fd; (void) act; (void) t; return 0; }
int verif_get_addr(char *host, int port, int family, int flags, struct sockaddr_storage *out)
{
	mm_ev("ga:%d:%s:%d:%d", family == AF_INET6 ? 6 : family == AF_INET ? 4 : 0, mm_hs(host), port, flags);
	memset(out, 0, sizeof(*out));
	if (family == AF_INET6) {
		struct sockaddr_in6 *a = (struct sockaddr_in6 *) out;
		if (host && host[0] == '!') return -1;
		a->sin6_family = AF_INET6;
		a->sin6_port = htons((unsigned short) port);
		return sizeof(*a);
	} else {
		struct sockaddr_in *a = (struct sockaddr_in *) out;
		a->sin_family = AF_INET;
		a->sin_port = htons((unsigned short) port);
		if (!host) a->sin_addr.s_addr = htonl(INADDR_ANY);
		else if (inet_pton(AF_INET, host, &a->sin_addr) != 1) {
			if (host[0] == '!' || host[0] == 0) return -1;
			a->sin_addr.s_addr = htonl(0xc6336435);	/* any other name "resolves" to 198.51.100.53 */
		}
		return sizeof(*a);
	}
}
int verif_open_dns_from_host(char *host, int port, int family, int flags)
{
	mm_ev("odh:%s:%d:%d:%d", mm_hs(host), port, family == AF_INET6 ? 6 : 4, flags);
	return DNS_FD;
}
void verif_close_dns(int fd) { mm_ev("cd:%d", fd); }
void verif_do_chroot(char *dir) { mm_ev("chroot:%s", mm_hs(dir)); }
void verif_do_setcon(char *ctx) { mm_ev("setcon:%s", mm_hs(ctx)); }
void verif_do_detach(void) { mm_ev("detach"); }
void verif_do_pidfile(char *file) { mm_ev("pidfile:%s", mm_hs(file)); }
int verif_open_tun(const char *dev) { mm_ev("tun:%s", mm_hs(dev)); return dev && dev[0] == '!' ? -1 : TUN_FD; }
void verif_close_tun(int fd) { mm_ev("ct:%d", fd); }
int verif_client_handshake_stub(int dns_fd, int raw_mode, int autodetect_frag_size, int fragsize)
{
	char pwh[80];
	int i;
	struct sockaddr_in *a = (struct sockaddr_in *) &nameserv;
	mm_ev("hs:%d:%d:%d:%d", dns_fd, raw_mode, autodetect_frag_size, fragsize);
	/* client_set_password() stored a pointer to main()'s 33-byte array */
	for (i = 0; i < 33; i++) sprintf(pwh + 2 * i, "%02x", password ? (unsigned char) password[i] : 0);
	snprintf(mm_digest, sizeof(mm_digest), "pw=%s td=%s ml=%d qt=%u dn=%d sel=%d lazy=%d nsl=%d nsf=%d nsip=%08x nsport=%u conn=%d run=%d rs=%u cid=%u",
		 pwh, mm_hs(topdomain), hostname_maxlen, (unsigned) do_qtype, (int) downenc, selecttimeout, lazymode, nameserv_len,
		 nameserv.ss_family == AF_INET6 ? 6 : nameserv.ss_family == AF_INET ? 4 : 0,
		 nameserv.ss_family == AF_INET ? (unsigned) ntohl(a->sin_addr.s_addr) : 0u, (unsigned) ntohs(a->sin_port),
		 (int) conn, running, (unsigned) rand_seed, (unsigned) chunkid);
	st_digest(mm_digest + strlen(mm_digest), sizeof(mm_digest) - strlen(mm_digest));	/* " | st …": the statics as the handshake machine finds them */
	return mm_hs_ret;
}
int verif_client_tunnel_stub(int tun_fd, int dns_fd) { mm_ev("tunnel:%d:%d", tun_fd, dns_fd); return 0; }

static void op_main(char **tok, int ntok)
{
	static char *args[70], *keep[70];
	static int argc, rv, exited;
	int i;
	size_t n;
	unsigned char *b;
	kill_worker();
	free(mm_env_pass); free(mm_typed); free(mm_resolv);
	mm_env_pass = mm_typed = mm_resolv = NULL;
	mm_hs_ret = 0;
	argc = 0;
	for (i = 1; i < ntok; i++) {
		if (!strncmp(tok[i], "E=", 2) || !strncmp(tok[i], "T=", 2) || !strncmp(tok[i], "RC=", 3)) {
			char *z;
			const char *v = strchr(tok[i], '=') + 1;
			b = hex_alloc(v, &n);
			if (!b) { puts("bad-op"); return; }
			z = xmalloc(n + 1);
			memcpy(z, b, n); z[n] = 0; free(b);
			if (tok[i][0] == 'E') mm_env_pass = z; else if (tok[i][0] == 'T') mm_typed = z; else mm_resolv = z;
		} else if (!strncmp(tok[i], "HS=", 3)) mm_hs_ret = atoi(tok[i] + 3);
		else {
			b = hex_alloc(tok[i], &n);
			if (!b || argc >= 64) { puts("bad-op"); return; }
			args[argc] = xmalloc(n + 1);
			memcpy(args[argc], b, n); args[argc][n] = 0; free(b);
			keep[argc] = args[argc];
			argc++;
		}
	}
	if (argc < 1) { puts("bad-op"); return; }
	args[argc] = NULL;
	/* client.c's statics as the loader leaves them */
	topdomain = NULL; password = NULL;
	do_qtype = T_UNSET; downenc = ' ';
	selecttimeout = 0; lazymode = 0; hostname_maxlen = 0xFF;
	memset(&nameserv, 0, sizeof(nameserv)); nameserv_len = 0;
	conn = 0; running = 0; rand_seed = 0; chunkid = 0;
	chunkid_prev = chunkid_prev2 = 0;
	memset(&outpkt, 0, sizeof(outpkt)); memset(&inpkt, 0, sizeof(inpkt));
	outchunkresent = 0; send_ping_soon = 0; lastdownstreamtime = 0; lastrawping = 0;
	dataenc = &base32_ops; userid = 0; userid_char = userid_char2 = 0;
	dnsc_use_edns0 = 1;		/* dns.c: int dnsc_use_edns0 = 1 */
	send_query_sendcnt = -1; send_query_recvcnt = 0;
	vnow = 1000; randq_n = randq_i = 0;
	optind = 0; opterr = 0;
	mm_evlen = 0; mm_evbuf[0] = 0; mm_digest[0] = 0;
	mm_tag = mm_ftag = mm_kind = NULL;
	mm_getopt_err = 0;
	mm = 1;
	exited = 0;
	if (!setjmp(mm_jb)) rv = iodine_main(argc, args);
	else exited = 1;
	mm = 0;
	if (exited && !strcmp(mm_kind, "errx")) printf("errx %d %s", mm_code, mm_tag ? mm_tag : "other");
	else if (exited) {
		const char *f = mm_ftag ? mm_ftag : "none";
		if (!strcmp(f, "usage")) printf("exit %d usage:%s", mm_code, mm_tag ? mm_tag : mm_getopt_err ? "getopt" : "argc");
		else printf("exit %d %s", mm_code, f);
	} else if (!mm_digest[0]) printf("ret %d", rv);
	else printf("run %d", rv);
	printf(" | ev%s", mm_evlen ? mm_evbuf : " -");
	if (mm_digest[0]) printf(" | %s", mm_digest);
	putchar('\n');
	for (i = 0; i < argc; i++) free(keep[i]);
	topdomain = NULL; password = NULL;
}

int main(void)
{
	char *line = NULL;
	size_t cap = 0;
	char *tok[80];
	int ntok;
	const char *z = getenv("VERIF_Z");
	struct sockaddr_in ns;

	use_real_z = z && !strcmp(z, "real");
	if (getenv("VERIF_LINEBUF")) setvbuf(stdout, NULL, _IOLBF, 0);
	sem_init(&sem_main, 0, 0);
	sem_init(&sem_worker, 0, 0);
	evcap = 1 << 16;
	evbuf = xmalloc(evcap);
	evbuf[0] = 0;
	memset(&ns, 0, sizeof(ns));
	ns.sin_family = AF_INET;
	ns.sin_addr.s_addr = htonl(0x0a000035);
	ns.sin_port = htons(53);

	while (getline(&line, &cap, stdin) > 0) {
		ntok = split(line, tok, 80);
		if (ntok == 0) { puts("bad-op"); continue; }
		if (!strcmp(tok[0], "ccfg") && ntok == 11) {
			size_t n;
			unsigned char *b;
			kill_worker();
			b = hex_alloc(tok[1], &n);
			if (!b || n >= sizeof(td_buf)) { puts("bad-op"); continue; }
			memcpy(td_buf, b, n); td_buf[n] = 0; free(b);
			b = hex_alloc(tok[2], &n);
			if (!b || n >= sizeof(pw_buf)) { puts("bad-op"); continue; }
			memcpy(pw_buf, b, n); pw_buf[n] = 0; free(b);
			vnow = 1000; randq_n = randq_i = 0;
			client_init();
			client_set_nameserver((struct sockaddr_storage *) &ns, sizeof(ns));
			client_set_topdomain(td_buf);
			client_set_password(pw_buf);
			hostname_maxlen = 0xFF;
			client_set_hostname_maxlen(atoi(tok[3]));
			do_qtype = (unsigned short) atoi(tok[4]);
			downenc = tok[5][0] == '-' ? ' ' : tok[5][0];
			client_set_lazymode(atoi(tok[6]));
			client_set_selecttimeout(atoi(tok[7]));
			userid = (char) atoi(tok[8]);
			userid_char = "0123456789abcdef"[userid & 15];
			userid_char2 = "0123456789ABCDEF"[userid & 15];
			conn = atoi(tok[9]) ? CONN_DNS_NULL : CONN_RAW_UDP;
			dnsc_use_edns0 = atoi(tok[10]);
			dataenc = &base32_ops;
			send_ping_soon = 1;
			send_query_sendcnt = -1;
			send_query_recvcnt = 0;
			memcpy(&raw_serv, &ns, sizeof(ns));
			raw_serv_len = sizeof(ns);
			puts("ok");
		}
		else if (!strcmp(tok[0], "main")) op_main(tok, ntok);
		else if (!strcmp(tok[0], "cenc") && ntok == 2) {
			dataenc = !strcmp(tok[1], "b64") ? &base64_ops : !strcmp(tok[1], "b64u") ? &base64u_ops : !strcmp(tok[1], "b128") ? &base128_ops : &base32_ops;
			puts("ok");
		}
		else if (!strcmp(tok[0], "ctime") && ntok == 2) { vnow = (time_t) atol(tok[1]); puts("ok"); }
		else if (!strcmp(tok[0], "crand")) {
			int i;
			for (i = 1; i < ntok && randq_n < 4096; i++) randq[randq_n++] = atoi(tok[i]);
			puts("ok");
		}
		else if (!strcmp(tok[0], "start") && ntok >= 2) {
			memset(&job, 0, sizeof(job));
			if (!strcmp(tok[1], "login") && ntok == 3) { job.kind = J_LOGIN; job.a = (int) strtol(tok[2], NULL, 10); }
			else if (!strcmp(tok[1], "version") && ntok == 2) job.kind = J_VERSION;
			else if (!strcmp(tok[1], "handshake") && ntok == 5) { job.kind = J_HANDSHAKE; job.a = atoi(tok[2]); job.b = atoi(tok[3]); job.c = atoi(tok[4]); }
			else if (!strcmp(tok[1], "tunnel") && ntok == 2) job.kind = J_TUNNEL;
			else if (!strcmp(tok[1], "sendchunks") && ntok == 4) { job.kind = J_SENDCHUNKS; job.a = atoi(tok[2]); job.payload = hex_alloc(tok[3], &job.plen); if (!job.payload) { puts("bad-op"); continue; } }
			else if (!strcmp(tok[1], "sendone") && ntok == 4) {
				static const char *names[] = { "ping", "version", "login", "probe", "setfrag", "rawlogin", "lazy", "downenctest", NULL };
				int k;
				job.kind = J_SENDONE; job.a = -1; job.b = (int) strtol(tok[3], NULL, 10);
				for (k = 0; names[k]; k++) if (!strcmp(tok[2], names[k])) job.a = k;
				if (job.a < 0) { puts("bad-op"); continue; }
			}
			else if (!strcmp(tok[1], "rawudp") && ntok == 3) { job.kind = J_RAWUDP; job.a = (int) strtol(tok[2], NULL, 10); }
			else if (!strcmp(tok[1], "readq") && ntok == 3) { job.kind = J_READQ; job.a = atoi(tok[2]); }
			else { puts("bad-op"); continue; }
			start_job();
			finish_line();
		}
		else if (!strcmp(tok[0], "tick") && ntok == 1) feed(IN_TICK, NULL, 0);
		else if (!strcmp(tok[0], "ans") && ntok == 2) {
			size_t n;
			unsigned char *d = hex_alloc(tok[1], &n);
			if (!d) { puts("bad-op"); continue; }
			feed(IN_DNS, d, n);
			free(d);
		}
		else if (!strcmp(tok[0], "tun") && ntok == 2) {
			size_t n;
			unsigned char *d = hex_alloc(tok[1], &n);
			if (!d) { puts("bad-op"); continue; }
			feed(IN_TUN, d, n);
			free(d);
		}
		else puts("bad-op");
	}
	kill_worker();
	free(line);
	return 0;
}
