/* Tie 2, server session machine: answers the line protocol of docs/SRV_PROTOCOL.md by running the
 * REAL tunnel() loop of /repo/src/iodined.c (included below, so every static function is the
 * repository's own) in a second thread with strict hand-off.  The environment (clock, rand, select,
 * sockets, tun device, syslog, zlib) is substituted at compile time by shim_srv.h.
 * Built with -DIODINE_VERIF: write_dns() reports its arguments through verif_hook_write_dns(). */
#include <errno.h>
#include "h_common.h"
#include <pthread.h>
#include <semaphore.h>
#include <stdarg.h>

/* ---- op `main`: the REAL main() of iodined.c (option handling, start-up validation) up to the call of tunnel();
 * everything that touches the operating system is substituted below, every substituted call is logged.
 * The real tunnel() is a `static` function of the same file; its definition and the one call in main() are told
 * apart by the first token of the first argument (`int tun_fd` in the definition, `tun_fd` in the call). */
#include <setjmp.h>
#include <grp.h>
#include <pwd.h>
#include <netdb.h>
#include <getopt.h>
#include <termios.h>
#ifdef HAVE_SYSTEMD
#include <systemd/sd-daemon.h>
#endif
struct dnsfd;
struct passwd;
static int verif_tunnel_stub(int tun_fd, struct dnsfd *dns_fds, int bind_fd, int max_idle_time);
void verif_warnx(const char *fmt, ...);
void verif_warn(const char *fmt, ...);
int verif_fprintf(FILE *f, const char *fmt, ...);
int verif_getopt(int argc, char *const argv[], const char *optstring);
char *verif_getenv(const char *name);
struct passwd *verif_getpwnam(const char *name);
int verif_setgroups(size_t n, const gid_t *g);
int verif_setgid(gid_t g);
int verif_setuid(uid_t u);
int verif_sd_listen_fds(int unset);
int verif_sd_is_socket(int fd, int family, int type, int listening);
int verif_setsockopt(int fd, int level, int name, const void *val, socklen_t len);
void verif_check_superuser(void);
int verif_get_addr(char *host, int port, int family, int flags, struct sockaddr_storage *out);
int verif_open_dns(struct sockaddr_storage *sa, size_t len);
int verif_open_dns_opt(struct sockaddr_storage *sa, size_t len, int v6only);
int verif_open_dns_from_host(char *host, int port, int family, int flags);
void verif_close_dns(int fd);
void verif_do_chroot(char *dir);
void verif_do_setcon(char *ctx);
void verif_do_detach(void);
void verif_do_pidfile(char *file);
int verif_open_tun(const char *dev);
void verif_close_tun(int fd);
int verif_tun_setip(const char *ip, const char *other, int netbits);
int verif_tun_setmtu(const unsigned mtu);
#define exit(x) verif_exit(x)
#define warnx(...) verif_warnx(__VA_ARGS__)
#define warn(...) verif_warn(__VA_ARGS__)
#define fprintf(...) verif_fprintf(__VA_ARGS__)
#define getopt(a, b, c) verif_getopt(a, b, c)
#define getenv(x) verif_getenv(x)
#define getpwnam(x) verif_getpwnam(x)
#define setgroups(a, b) verif_setgroups(a, b)
#define setgid(x) verif_setgid(x)
#define setuid(x) verif_setuid(x)
#define signal(a, b) ((void) (b))
#define openlog(a, b, c) ((void) 0)
#define sd_listen_fds(x) verif_sd_listen_fds(x)
#define sd_is_socket(a, b, c, d) verif_sd_is_socket(a, b, c, d)
#define setsockopt(a, b, c, d, e) verif_setsockopt(a, b, c, d, e)
#define check_superuser verif_check_superuser
#define get_addr verif_get_addr
#define open_dns verif_open_dns
#define open_dns_opt verif_open_dns_opt
#define open_dns_from_host verif_open_dns_from_host
#define close_dns verif_close_dns
#define do_chroot verif_do_chroot
#define do_setcon verif_do_setcon
#define do_detach verif_do_detach
#define do_pidfile verif_do_pidfile
#define open_tun verif_open_tun
#define close_tun verif_close_tun
#define tun_setip verif_tun_setip
#define tun_setmtu verif_tun_setmtu
#define tunnel(a, b, c, d) VERIF_TUNNEL_##a, b, c, d)
#define VERIF_TUNNEL_int real_tunnel(int
#define VERIF_TUNNEL_tun_fd verif_tunnel_stub(tun_fd

#define main iodined_main
#include "iodined.c"
#undef main

#undef exit
#undef warnx
#undef warn
#undef fprintf
#undef getopt
#undef getenv
#undef getpwnam
#undef setgroups
#undef setgid
#undef setuid
#undef signal
#undef openlog
#undef sd_listen_fds
#undef sd_is_socket
#undef setsockopt
#undef check_superuser
#undef get_addr
#undef open_dns
#undef open_dns_opt
#undef open_dns_from_host
#undef close_dns
#undef do_chroot
#undef do_setcon
#undef do_detach
#undef do_pidfile
#undef open_tun
#undef close_tun
#undef tun_setip
#undef tun_setmtu
#undef tunnel

/* from here on the harness talks to the real libc */
#undef time
#undef rand
#undef srand
#undef select
#undef recvmsg
#undef recvfrom
#undef recv
#undef sendto
#undef read
#undef write
#undef syslog
#undef compress2
#undef uncompress
#undef system
#undef sleep

extern unsigned usercount;

#define TUN_FD 1001
#define V4_FD 1002
#define V6_FD 1003
#define BIND_FD 1004

/* ------------------------------------------------------------------ virtual environment */
static time_t vnow = 1000;
static int randq[4096], randq_n, randq_i;
static int use_real_z;

time_t verif_time(time_t *t) { if (t) *t = vnow; return vnow; }
int verif_rand(void) { return randq_i < randq_n ? randq[randq_i++] : 0; }
void verif_srand(unsigned s) { (void) s; }
static int mm;			/* op `main` is running */
static void mm_ev(const char *fmt, ...);
void verif_syslog(int pri, const char *fmt, ...)
{
	(void) pri;
	if (mm && strstr(fmt, "started")) {
		va_list ap;
		va_start(ap, fmt);
		mm_ev("started:%d", va_arg(ap, int));
		va_end(ap);
	}
}
int verif_system(const char *cmd) { (void) cmd; return 0; }
unsigned verif_sleep(unsigned s) { (void) s; return 0; }
static ssize_t mm_recv(void *buf, size_t len);
static int mm_select(void);
ssize_t verif_recv(int fd, void *buf, size_t len, int flags) { (void) fd; (void) flags; return mm ? mm_recv(buf, len) : -1; }

int verif_compress2(Bytef *dest, uLongf *destLen, const Bytef *source, uLong sourceLen, int level)
{
	if (use_real_z) return compress2(dest, destLen, source, sourceLen, level);
	if (*destLen < sourceLen + 1) return Z_BUF_ERROR;
	dest[0] = 0x5a;
	memcpy(dest + 1, source, sourceLen);
	*destLen = sourceLen + 1;
	return Z_OK;
}

int verif_uncompress(Bytef *dest, uLongf *destLen, const Bytef *source, uLong sourceLen)
{
	if (use_real_z) return uncompress(dest, destLen, source, sourceLen);
	if (sourceLen < 1 || source[0] != 0x5a || *destLen < sourceLen - 1) return Z_DATA_ERROR;
	memcpy(dest, source + 1, sourceLen - 1);
	*destLen = sourceLen - 1;
	return Z_OK;
}

/* ------------------------------------------------------------------ event buffer */
static char *evbuf;
static size_t evlen, evcap;
static int nevents;

static void ev_raw(const char *s, size_t n)
{
	if (evlen + n + 1 > evcap) {
		evcap = (evlen + n + 1) * 2;
		evbuf = realloc(evbuf, evcap);
		if (!evbuf) abort();
	}
	memcpy(evbuf + evlen, s, n);
	evlen += n;
	evbuf[evlen] = 0;
}
static void ev_str(const char *s) { ev_raw(s, strlen(s)); }
static void ev_hex(const unsigned char *p, size_t n)
{
	static const char hx[] = "0123456789abcdef";
	size_t i;
	char c[2];
	if (n == 0) { ev_str("-"); return; }
	for (i = 0; i < n; i++) { c[0] = hx[p[i] >> 4]; c[1] = hx[p[i] & 15]; ev_raw(c, 2); }
}
static void ev_begin(const char *kind)
{
	if (nevents++) ev_str(" | ");
	ev_str(kind);
}
static void ev_addr(const struct sockaddr *sa, socklen_t len)
{
	char b[128];
	if (sa && len >= sizeof(struct sockaddr_in) && sa->sa_family == AF_INET) {
		const struct sockaddr_in *a = (const struct sockaddr_in *) sa;
		snprintf(b, sizeof(b), "4:%08x:%u", (unsigned) ntohl(a->sin_addr.s_addr), (unsigned) ntohs(a->sin_port));
		ev_str(b);
	} else if (sa && len >= sizeof(struct sockaddr_in6) && sa->sa_family == AF_INET6) {
		const struct sockaddr_in6 *a = (const struct sockaddr_in6 *) sa;
		ev_str("6:");
		ev_hex(a->sin6_addr.s6_addr, 16);
		snprintf(b, sizeof(b), ":%u", (unsigned) ntohs(a->sin6_port));
		ev_str(b);
	} else {
		/* not a well-formed destination: family / length as the kernel would judge them */
		snprintf(b, sizeof(b), "bad:fam%d:len%u", sa ? sa->sa_family : -1, (unsigned) len);
		ev_str(b);
	}
}

/* ------------------------------------------------------------------ scripted input of one iteration */
enum { IN_NONE, IN_DNS4, IN_DNS6, IN_TUN, IN_BIND, IN_TICK, IN_QUIT };
static int in_kind;
static unsigned char *in_data;
static size_t in_len;
static struct sockaddr_storage in_src;
static socklen_t in_srclen;
static unsigned char cfg_dest4[4], cfg_dest6[16];
static int after_ans;		/* the next sendto on a DNS fd is the encoded answer announced by `ans` */
static int in_bind_op;
static int tun_skipped;

static long sel_to = -1;
static int sel_tun;

static sem_t sem_main, sem_worker;
static pthread_t worker;
static int worker_alive;

static void mm_sent(const unsigned char *p, size_t len);
int verif_select(int nfds, fd_set *r, fd_set *w, fd_set *e, struct timeval *tv)
{
	int n = 0;
	(void) nfds; (void) w; (void) e;
	if (mm) return mm_select();
	sel_to = tv ? (long) tv->tv_sec * 1000000L + tv->tv_usec : -1;
	sel_tun = FD_ISSET(TUN_FD, r) ? 1 : 0;
	/* iteration finished: hand over to the main thread, wait for the next scripted input */
	sem_post(&sem_main);
	sem_wait(&sem_worker);
	{
		int had_tun = FD_ISSET(TUN_FD, r);
		FD_ZERO(r);
		switch (in_kind) {
		case IN_DNS4: FD_SET(V4_FD, r); n = 1; break;
		case IN_DNS6: FD_SET(V6_FD, r); n = 1; break;
		case IN_BIND: FD_SET(BIND_FD, r); n = 1; break;
		case IN_TUN:
			if (had_tun) { FD_SET(TUN_FD, r); n = 1; }
			else tun_skipped = 1;
			break;
		case IN_QUIT: running = 0; n = 0; break;
		default: n = 0;
		}
	}
	return n;
}

ssize_t verif_recvmsg(int fd, struct msghdr *msg, int flags)
{
	size_t n;
	struct cmsghdr *c;
	(void) flags;
	if ((fd != V4_FD && fd != V6_FD) || !in_data) return -1;
	n = in_len < msg->msg_iov[0].iov_len ? in_len : msg->msg_iov[0].iov_len;
	memcpy(msg->msg_iov[0].iov_base, in_data, n);
	memcpy(msg->msg_name, &in_src, in_srclen);
	msg->msg_namelen = in_srclen;
	/* destination address as ancillary data, like IP_PKTINFO / IPV6_PKTINFO */
	memset(msg->msg_control, 0, msg->msg_controllen);
	c = CMSG_FIRSTHDR(msg);
	if (fd == V4_FD) {
		struct in_pktinfo pi;
		memset(&pi, 0, sizeof(pi));
		memcpy(&pi.ipi_addr, cfg_dest4, 4);
		memcpy(&pi.ipi_spec_dst, cfg_dest4, 4);
		c->cmsg_level = IPPROTO_IP;
		c->cmsg_type = IP_PKTINFO;
		c->cmsg_len = CMSG_LEN(sizeof(pi));
		memcpy(CMSG_DATA(c), &pi, sizeof(pi));
		msg->msg_controllen = CMSG_SPACE(sizeof(pi));
	} else {
		struct in6_pktinfo pi;
		memset(&pi, 0, sizeof(pi));
		memcpy(&pi.ipi6_addr, cfg_dest6, 16);
		c->cmsg_level = IPPROTO_IPV6;
		c->cmsg_type = IPV6_PKTINFO;
		c->cmsg_len = CMSG_LEN(sizeof(pi));
		memcpy(CMSG_DATA(c), &pi, sizeof(pi));
		msg->msg_controllen = CMSG_SPACE(sizeof(pi));
	}
	return (ssize_t) n;
}

ssize_t verif_recvfrom(int fd, void *buf, size_t len, int flags, struct sockaddr *from, socklen_t *fromlen)
{
	size_t n;
	(void) flags;
	if (fd != BIND_FD || !in_data) return -1;
	n = in_len < len ? in_len : len;
	memcpy(buf, in_data, n);
	if (from && fromlen && *fromlen >= sizeof(struct sockaddr_in)) {
		struct sockaddr_in a;
		memset(&a, 0, sizeof(a));
		a.sin_family = AF_INET;
		a.sin_addr.s_addr = htonl(0x7f000001);
		a.sin_port = htons(bind_port);
		memcpy(from, &a, sizeof(a));
		*fromlen = sizeof(a);
	}
	return (ssize_t) n;
}

ssize_t verif_read(int fd, void *buf, size_t len)
{
	size_t n;
	if (fd != TUN_FD) return read(fd, buf, len);
	if (!in_data) return -1;
	n = in_len < len ? in_len : len;
	memcpy(buf, in_data, n);
	return (ssize_t) n;
}

ssize_t verif_write(int fd, const void *buf, size_t len)
{
	if (fd != TUN_FD) return write(fd, buf, len);
	ev_begin("tunw ");
	ev_hex(buf, len);
	return (ssize_t) len;
}

ssize_t verif_sendto(int fd, const void *buf, size_t len, int flags, const struct sockaddr *to, socklen_t tolen)
{
	const unsigned char *p = buf;
	const char *kind;
	(void) flags;
	if (mm) { mm_sent(p, len); return (ssize_t) len; }
	/* what the kernel does with a destination of the other address family (a v6 address on the v4 socket or the reverse, a v6 address on the
	   forward socket): EAFNOSUPPORT, nothing is sent.  Reported as an event of its own: the model never produces it. */
	if (to && ((fd == V4_FD && to->sa_family == AF_INET6) || (fd == V6_FD && to->sa_family == AF_INET) || (fd == BIND_FD && to->sa_family == AF_INET6))) {
		/* printed as `badfam <kind> <dst> <hex>`: what was attempted, so that the model comparison can still look at it */
		ev_begin("badfam ");
		ev_str(fd == BIND_FD ? "fwd" : after_ans ? "tx" : in_bind_op ? "rly" : (len >= RAW_HDR_LEN && !memcmp(p, raw_header, RAW_HDR_IDENT_LEN)) ? "raw" : "nsa");
		after_ans = 0;
		ev_str(" ");
		ev_addr(to, tolen);
		ev_str(" ");
		ev_hex(p, len);
		errno = EAFNOSUPPORT;
		return -1;
	}
	if (fd == BIND_FD) kind = "fwd";
	else if (after_ans) kind = "tx";
	else if (in_bind_op) kind = "rly";
	else if (len >= RAW_HDR_LEN && !memcmp(p, raw_header, RAW_HDR_IDENT_LEN)) kind = "raw";
	else kind = "nsa";
	after_ans = 0;
	ev_begin(kind);
	ev_str(" ");
	ev_addr(to, tolen);
	ev_str(" ");
	ev_hex(p, len);
	return (ssize_t) len;
}

void verif_hook_write_dns(struct query *q, const char *data, int datalen, char downenc)
{
	char b[64];
	ev_begin("ans ");
	ev_addr((struct sockaddr *) &q->from, q->fromlen);
	snprintf(b, sizeof(b), " %u %u %c ", (unsigned) q->id, (unsigned) q->type, downenc ? downenc : '0');
	ev_str(b);
	ev_hex((unsigned char *) q->name, strnlen(q->name, sizeof(q->name)));
	ev_str(" ");
	ev_hex((const unsigned char *) data, datalen > 0 ? (size_t) datalen : 0);
	after_ans = 1;
}

void verif_hook_sweep(void)
{
	ev_begin("sweep");
	after_ans = 0;
}

/* ------------------------------------------------------------------ worker = the real tunnel() */
static void *worker_main(void *arg)
{
	struct dnsfd fds;
	(void) arg;
	fds.v4fd = V4_FD;
	fds.v6fd = V6_FD;
	running = 1;
	real_tunnel(TUN_FD, &fds, bind_port ? BIND_FD : 0, 0);
	sem_post(&sem_main);
	return NULL;
}

static void stop_worker(void)
{
	if (!worker_alive) return;
	in_kind = IN_QUIT;
	in_data = NULL;
	sem_post(&sem_worker);
	sem_wait(&sem_main);
	pthread_join(worker, NULL);
	worker_alive = 0;
	evlen = 0; nevents = 0; after_ans = 0;
}

static void start_worker(void)
{
	pthread_attr_t at;
	pthread_attr_init(&at);
	pthread_attr_setstacksize(&at, 64UL * 1024 * 1024);	/* tunnel() call chain holds several 64 KiB arrays */
	if (pthread_create(&worker, &at, worker_main, NULL)) abort();
	worker_alive = 1;
	sem_wait(&sem_main);	/* parked in its first select() */
}

/* ------------------------------------------------------------------ helpers */
static int parse_addr(const char *s, struct sockaddr_storage *ss, socklen_t *len)
{
	size_t n;
	unsigned char *b;
	const char *c2;
	char hexs[40];
	memset(ss, 0, sizeof(*ss));
	if (s[0] == '4' && s[1] == ':') {
		struct sockaddr_in *a = (struct sockaddr_in *) ss;
		c2 = strchr(s + 2, ':');
		if (!c2 || c2 - (s + 2) != 8) return 0;
		memcpy(hexs, s + 2, 8); hexs[8] = 0;
		b = hex_alloc(hexs, &n);
		if (!b || n != 4) return 0;
		a->sin_family = AF_INET;
		memcpy(&a->sin_addr, b, 4);
		a->sin_port = htons((unsigned short) atoi(c2 + 1));
		free(b);
		*len = sizeof(*a);
		return 4;
	}
	if (s[0] == '6' && s[1] == ':') {
		struct sockaddr_in6 *a = (struct sockaddr_in6 *) ss;
		c2 = strchr(s + 2, ':');
		if (!c2 || c2 - (s + 2) != 32) return 0;
		memcpy(hexs, s + 2, 32); hexs[32] = 0;
		b = hex_alloc(hexs, &n);
		if (!b || n != 16) return 0;
		a->sin6_family = AF_INET6;
		memcpy(&a->sin6_addr, b, 16);
		a->sin6_port = htons((unsigned short) atoi(c2 + 1));
		free(b);
		*len = sizeof(*a);
		return 6;
	}
	return 0;
}

static unsigned wsum(const unsigned char *p, size_t n)
{
	unsigned long s = 0;
	size_t i;
	for (i = 0; i < n; i++) s = (s + (unsigned long) (i + 1) * p[i]) % 65521UL;
	return (unsigned) s;
}

static const char *encname(const struct encoder *e)
{
	if (e == &base32_ops) return "b32";
	if (e == &base64_ops) return "b64";
	if (e == &base64u_ops) return "b64u";
	if (e == &base128_ops) return "b128";
	return "none";
}

/* every field of users[u] the session machine reads; `all` = also for an inactive slot (op `main`: the state tunnel() is entered with),
 * then preceded by active / disabled / id / tun_ip, and with the encoder of a never-used slot (NULL until the first V request) printed as `-` */
static void slot_digest(int u, int all)
{
	int i;
	char b[512];
	{
		struct tun_user *t = &users[u];
		unsigned long s;
		if (all) {
			snprintf(b, sizeof(b), "a=%d dis=%d id=%d ip=%08x ", t->active, t->disabled, (int) t->id, (unsigned) ntohl(t->tun_ip));
			ev_str(b);
		}
		snprintf(b, sizeof(b), "u=%d au=%d ar=%d ol=%d lp=%ld seed=%d host=", u, t->authenticated, t->authenticated_raw,
			 t->options_locked, (long) t->last_pkt, t->seed);
		ev_str(b);
		if (t->hostlen) ev_addr((struct sockaddr *) &t->host, t->hostlen); else ev_str("none");
		snprintf(b, sizeof(b), " conn=%d lazy=%d fs=%d enc=%s dn=%c", (int) t->conn, t->lazy, t->fragsize, all && !t->encoder ? "-" : encname(t->encoder),
			 t->downenc ? t->downenc : '0');
		ev_str(b);
		snprintf(b, sizeof(b), " q=%u/%u/%u/%u qs=%u/%u/%u/%u/%d", (unsigned) t->q.id, (unsigned) t->q.id2, (unsigned) t->q.type,
			 wsum((unsigned char *) t->q.name, strnlen(t->q.name, sizeof(t->q.name))),
			 (unsigned) t->q_sendrealsoon.id, (unsigned) t->q_sendrealsoon.id2, (unsigned) t->q_sendrealsoon.type,
			 wsum((unsigned char *) t->q_sendrealsoon.name, strnlen(t->q_sendrealsoon.name, sizeof(t->q_sendrealsoon.name))),
			 t->q_sendrealsoon_new);
		ev_str(b);
		snprintf(b, sizeof(b), " in=%d/%d/%d/%d/%u out=%d/%d/%d/%d/%d/%u ofr=%d", t->inpacket.len, t->inpacket.offset,
			 (int) t->inpacket.seqno, (int) t->inpacket.fragment,
			 wsum((unsigned char *) t->inpacket.data, t->inpacket.len > 0 && t->inpacket.len <= (int) sizeof(t->inpacket.data) ? (size_t) t->inpacket.len : 0),
			 t->outpacket.len, t->outpacket.offset, t->outpacket.sentlen, (int) t->outpacket.seqno, (int) t->outpacket.fragment,
			 wsum((unsigned char *) t->outpacket.data, t->outpacket.len > 0 && t->outpacket.len <= (int) sizeof(t->outpacket.data) ? (size_t) t->outpacket.len : 0),
			 t->outfragresent);
		ev_str(b);
		snprintf(b, sizeof(b), " oq=%d/%d/", t->outpacketq_nexttouse, t->outpacketq_filled);
		ev_str(b);
		if (t->outpacketq_filled <= 0) ev_str("-");
		for (i = 0; i < t->outpacketq_filled && i < OUTPACKETQ_LEN; i++) {
			snprintf(b, sizeof(b), "%s%d", i ? "," : "", t->outpacketq[(t->outpacketq_nexttouse + i) % OUTPACKETQ_LEN].len);
			ev_str(b);
		}
		snprintf(b, sizeof(b), " dc=%d/", t->dnscache_lastfilled);
		ev_str(b);
		for (i = 0; i < DNSCACHE_LEN; i++) {
			int al = t->dnscache_answerlen[i];
			snprintf(b, sizeof(b), "%s%u:%d:%u", i ? "," : "", (unsigned) t->dnscache_q[i].id, al,
				 wsum((unsigned char *) t->dnscache_answer[i], al > 0 && al <= 4096 ? (size_t) al : 0));
			ev_str(b);
		}
		s = 0;
		for (i = 0; i < QMEMPING_LEN; i++)
			if (t->qmemping_type[i] != T_UNSET)
				s += t->qmemping_type[i] + t->qmemping_cmc[4 * i] + t->qmemping_cmc[4 * i + 1] + t->qmemping_cmc[4 * i + 2] + t->qmemping_cmc[4 * i + 3];
		snprintf(b, sizeof(b), " mp=%d/%lu", t->qmemping_lastfilled, s);
		ev_str(b);
		s = 0;
		for (i = 0; i < QMEMDATA_LEN; i++)
			if (t->qmemdata_type[i] != T_UNSET)
				s += t->qmemdata_type[i] + t->qmemdata_cmc[4 * i] + t->qmemdata_cmc[4 * i + 1] + t->qmemdata_cmc[4 * i + 2] + t->qmemdata_cmc[4 * i + 3];
		snprintf(b, sizeof(b), " md=%d/%lu", t->qmemdata_lastfilled, s);
		ev_str(b);
	}
}

static void digest(void)
{
	int u, first = 1;
	ev_str("st");
	for (u = 0; u < (int) usercount; u++) {
		if (!users[u].active) continue;
		ev_str(first ? " " : " ; ");
		first = 0;
		slot_digest(u, 0);
	}
}

/* how the real decoder sees a datagram (the model is fed the decoded query) */
static void emit_dq(const unsigned char *d, size_t n)
{
	struct query q;
	char b[64];
	int rv;
	unsigned char *copy;
	if (n >= RAW_HDR_LEN && !memcmp(d, raw_header, RAW_HDR_IDENT_LEN)) return;
	copy = xmalloc(64 * 1024);
	memset(copy, 0, 64 * 1024);
	memcpy(copy, d, n > 64 * 1024 ? 64 * 1024 : n);
	memset(&q, 0, sizeof(q));
	rv = n ? dns_decode(NULL, 0, &q, QR_QUERY, (char *) copy, n) : 0;
	free(copy);
	ev_begin("dq");
	snprintf(b, sizeof(b), " %d %u %u ", rv, (unsigned) q.id, (unsigned) q.type);
	ev_str(b);
	ev_hex((unsigned char *) q.name, strnlen(q.name, sizeof(q.name)));
}

/* run one iteration of tunnel() with the scripted input, print the answer line */
static void iteration(int kind, unsigned char *data, size_t len)
{
	char b[64];
	long to = sel_to;
	int tsel = sel_tun;
	if (!worker_alive) { puts("no-cfg"); return; }
	in_kind = kind;
	in_data = data;
	in_len = len;
	tun_skipped = 0;
	in_bind_op = (kind == IN_BIND);
	sem_post(&sem_worker);
	sem_wait(&sem_main);
	in_data = NULL;
	in_bind_op = 0;
	after_ans = 0;
	if (tun_skipped) ev_begin("tunskip");
	if (nevents) ev_str(" | ");
	snprintf(b, sizeof(b), "to=%ld tunsel=%d | ", to, tsel);
	ev_str(b);
	digest();
	fwrite(evbuf, 1, evlen, stdout);
	putchar('\n');
	evlen = 0; nevents = 0;
}

static char topdomain_buf[512];

static void op_cfg(char **tok, int ntok)
{
	size_t n;
	unsigned char *b;
	struct in_addr ia;
	if (ntok != 11) { puts("bad-op"); return; }
	stop_worker();
	check_ip = atoi(tok[1]);
	b = hex_alloc(tok[2], &n);
	if (!b) { puts("bad-op"); return; }
	memset(password, 0, sizeof(password));
	memcpy(password, b, n > 32 ? 32 : n);
	free(b);
	b = hex_alloc(tok[3], &n);
	if (!b || n != 4) { puts("bad-op"); return; }
	memcpy(&ia, b, 4);
	free(b);
	my_ip = ia.s_addr;
	netmask = atoi(tok[4]);
	b = hex_alloc(tok[5], &n);
	if (!b || n >= sizeof(topdomain_buf)) { puts("bad-op"); return; }
	memcpy(topdomain_buf, b, n);
	topdomain_buf[n] = 0;
	free(b);
	topdomain = topdomain_buf;
	my_mtu = atoi(tok[6]);
	b = hex_alloc(tok[7], &n);
	if (!b || n != 4) { puts("bad-op"); return; }
	memcpy(&ns_ip, b, 4);
	free(b);
	bind_port = atoi(tok[8]);
	b = hex_alloc(tok[9], &n);
	if (!b || n != 4) { puts("bad-op"); return; }
	memcpy(cfg_dest4, b, 4);
	free(b);
	b = hex_alloc(tok[10], &n);
	if (!b || n != 16) { puts("bad-op"); return; }
	memcpy(cfg_dest6, b, 16);
	free(b);
	debug = 0;
	if (users) { free(users); users = NULL; }
	created_users = init_users(my_ip, netmask);
	fw_query_init();
	vnow = 1000;
	randq_n = randq_i = 0;
	start_worker();
	printf("ok users=%d\n", created_users);
}

/* ------------------------------------------------------------------ op `main`: the real main() up to tunnel()
 * main [E=<hex IODINED_PASS>] [T=<hex typed at the password prompt>] [X=<hex8 external ip>|X=fail] [V6=0] [SD=<n>] <hex argv0> <hex argv1> ...
 * answer: `exit <code> <class>` | `ret <code>` | `run <code>`, then ` | ev <substituted OS calls in order>`, for `run` then ` | <digest of the globals>`
 * stubs that can fail do so on names starting with '!': -u !x (getpwnam), -d !x (open_tun), -L !x (get_addr v6), -l <not a dotted quad starting with !> */
static jmp_buf mm_jb;
static int mm_code;
static const char *mm_tag, *mm_ftag;
static int mm_getopt_err;
static char *mm_env_pass, *mm_typed;
static int mm_ext_ok, mm_v6_ok, mm_sd;
static unsigned char mm_ext_ip[4];
static char mm_evbuf[16384];
static size_t mm_evlen;
static unsigned char mm_lastq[1024];
static size_t mm_lastq_len;
static struct passwd mm_pw;

static void mm_ev(const char *fmt, ...)
{
	va_list ap;
	int n;
	if (mm_evlen + 2 >= sizeof(mm_evbuf)) return;
	mm_evbuf[mm_evlen++] = ' ';
	va_start(ap, fmt);
	n = vsnprintf(mm_evbuf + mm_evlen, sizeof(mm_evbuf) - mm_evlen, fmt, ap);
	va_end(ap);
	if (n > 0) mm_evlen += (size_t) n < sizeof(mm_evbuf) - mm_evlen ? (size_t) n : sizeof(mm_evbuf) - mm_evlen - 1;
}

/* hex of a C string, "-" if empty, "null" for NULL (rotating static buffers) */
static const char *mm_hs(const char *s)
{
	static char b[4][2100];
	static int k;
	char *o = b[k = (k + 1) & 3];
	size_t i, n;
	if (!s) return "null";
	n = strlen(s);
	if (n == 0) return "-";
	if (n > 1000) n = 1000;
	for (i = 0; i < n; i++) sprintf(o + 2 * i, "%02x", (unsigned char) s[i]);
	return o;
}

void verif_exit(int code)
{
	if (!mm) exit(code);
	mm_code = code;
	longjmp(mm_jb, 1);
}

void verif_warnx(const char *fmt, ...)
{
	static const struct { const char *key, *tag; } tab[] = {
		{ "Bad IP address to use inside tunnel", "myip" }, { "Invalid topdomain", "topdomain" }, { "does not exist", "nouser" },
		{ "Bad MTU", "mtu" }, { "Bad port number", "port" }, { "Bad IPv4 address to listen", "listen4" },
		{ "Failed to get IPv6 address", "listen6" }, { "Bad DNS server port", "bindport" }, { "Forward port is same", "loop" },
		{ "Bad IP address to return as nameserver", "nsip" }, { "Bad netmask", "netmask" }, { "Could not switch", "setuid" },
		{ "IPv6 not supported, skipping", "v6skip" }, { "file descriptors from systemd", "sderr" }, { "Unknown socket", "sdunknown" },
		{ "Too many file descriptors", "sdmany" }, { NULL, NULL } };
	int i;
	if (!mm) return;
	mm_tag = "other";
	for (i = 0; tab[i].key; i++) if (strstr(fmt, tab[i].key)) mm_tag = tab[i].tag;
	if (!strcmp(mm_tag, "v6skip") || !strncmp(mm_tag, "sd", 2)) { mm_ev("warn:%s", mm_tag); mm_tag = NULL; }
}
void verif_warn(const char *fmt, ...) { (void) fmt; }

int verif_fprintf(FILE *f, const char *fmt, ...)
{
	(void) f;
	if (!mm) return 0;
	if (strstr(fmt, "Git version")) mm_ftag = "version";
	else if (strstr(fmt, "Available options")) mm_ftag = "help";
	else if (strstr(fmt, "Usage: ")) { if (!mm_ftag || strcmp(mm_ftag, "helphead")) mm_ftag = "usage"; }
	else if (strstr(fmt, "iodine IP over DNS tunneling server\n\n")) mm_ftag = "helphead";
	else if (strstr(fmt, "Failed to get external IP")) mm_ftag = "extip";
	else if (strstr(fmt, "IPv6 not supported")) mm_ftag = "nov6";
	return 0;
}

int verif_getopt(int argc, char *const argv[], const char *optstring)
{
	int r = getopt(argc, argv, optstring);
	mm_getopt_err = (r != -1);		/* an exit while this is set comes from inside the option loop */
	return r;
}

char *verif_getenv(const char *name)
{
	if (mm) return !strcmp(name, "IODINED_PASS") ? mm_env_pass : NULL;
	return getenv(name);
}

struct passwd *verif_getpwnam(const char *name)
{
	if (name[0] == '!') return NULL;
	memset(&mm_pw, 0, sizeof(mm_pw));
	mm_pw.pw_uid = name[0] == '~' ? 1001 : 1000;
	mm_pw.pw_gid = 1000;
	return &mm_pw;
}
int verif_setgroups(size_t n, const gid_t *g) { (void) n; (void) g; return 0; }
int verif_setgid(gid_t g) { (void) g; return 0; }
int verif_setuid(uid_t u) { mm_ev("setuid:%u", (unsigned) u); return u == 1001 ? -1 : 0; }
int verif_sd_listen_fds(int unset) { (void) unset; mm_ev("sd"); return mm_sd; }
int verif_sd_is_socket(int fd, int family, int type, int listening)
{
	(void) type; (void) listening;
	return (fd == 3 && family == AF_INET) || (fd == 4 && family == AF_INET6);
}
int verif_setsockopt(int fd, int level, int name, const void *val, socklen_t len)
{
	(void) fd; (void) level; (void) name; (void) val; (void) len;
	return 0;
}
void verif_check_superuser(void) { }

int verif_fscanf(FILE *f, const char *fmt, ...)
{
	va_list ap;
	char *dst;
	size_t n = 0;
	(void) f;
	if (!mm || strcmp(fmt, "%79[^\n]")) abort();
	mm_ev("prompt");
	va_start(ap, fmt);
	dst = va_arg(ap, char *);
	va_end(ap);
	while (mm_typed && mm_typed[n] && mm_typed[n] != '\n' && n < 79) n++;
	if (n == 0) return mm_typed && mm_typed[0] ? 0 : EOF;		/* a scanset conversion that matches nothing stores nothing */
	memcpy(dst, mm_typed, n);
	dst[n] = 0;
	return 1;
}
int verif_tcgetattr(int fd, struct termios *t) { (void) fd; memset(t, 0, sizeof(*t)); return 0; }
int verif_tcsetattr(int fd, int act, const struct termios *t) { (void) fd; (void) act; (void) t; return 0; }

int verif_get_addr(char *host, int port, int family, int flags, struct sockaddr_storage *out)
{
	mm_ev("ga:%d:%s:%d:%d", family == AF_INET6 ? 6 : 4, mm_hs(host), port, flags);
	memset(out, 0, sizeof(*out));
	if (family == AF_INET6) {
		struct sockaddr_in6 *a = (struct sockaddr_in6 *) out;
		if (host ? host[0] == '!' : !mm_v6_ok) return -1;
		a->sin6_family = AF_INET6;
		a->sin6_port = htons((unsigned short) port);
		return sizeof(*a);
	} else {
		struct sockaddr_in *a = (struct sockaddr_in *) out;
		a->sin_family = AF_INET;
		a->sin_port = htons((unsigned short) port);
		if (!host) a->sin_addr.s_addr = htonl(INADDR_ANY);
		else if (inet_pton(AF_INET, host, &a->sin_addr) != 1) {
			if (host[0] == '!' || host[0] == 0) return -1;
			a->sin_addr.s_addr = htonl(0xc6336435);	/* any other name "resolves" to 198.51.100.53 */
		}
		return sizeof(*a);
	}
}
int verif_open_dns(struct sockaddr_storage *sa, size_t len)
{
	struct sockaddr_in *a = (struct sockaddr_in *) sa;
	mm_ev("od4:%08x:%u:%u", (unsigned) ntohl(a->sin_addr.s_addr), (unsigned) ntohs(a->sin_port), (unsigned) len);
	return V4_FD;
}
int verif_open_dns_opt(struct sockaddr_storage *sa, size_t len, int v6only)
{
	struct sockaddr_in6 *a = (struct sockaddr_in6 *) sa;
	mm_ev("od6:%u:%u:%d", (unsigned) ntohs(a->sin6_port), (unsigned) len, v6only);
	return V6_FD;
}
int verif_open_dns_from_host(char *host, int port, int family, int flags)
{
	mm_ev("odh:%s:%d:%d:%d", mm_hs(host), port, family == AF_INET6 ? 6 : 4, flags);
	return flags ? 1005 : BIND_FD;
}
void verif_close_dns(int fd) { mm_ev("cd:%d", fd); }
void verif_do_chroot(char *dir) { mm_ev("chroot:%s", mm_hs(dir)); }
void verif_do_setcon(char *ctx) { mm_ev("setcon:%s", mm_hs(ctx)); }
void verif_do_detach(void) { mm_ev("detach"); }
void verif_do_pidfile(char *file) { mm_ev("pidfile:%s", mm_hs(file)); }
int verif_open_tun(const char *dev) { mm_ev("tun:%s", mm_hs(dev)); return dev && dev[0] == '!' ? -1 : TUN_FD; }
void verif_close_tun(int fd) { mm_ev("ct:%d", fd); }
int verif_tun_setip(const char *ip, const char *other, int netbits) { mm_ev("setip:%s:%s:%d", mm_hs(ip), mm_hs(other), netbits); return 0; }
int verif_tun_setmtu(const unsigned mtu) { mm_ev("setmtu:%u", mtu); return 0; }

/* get_external_ip() runs unchanged: its query is answered with X=<ip> (or never, X=fail) */
static void mm_sent(const unsigned char *p, size_t len)
{
	mm_ev("extq");
	mm_lastq_len = len < sizeof(mm_lastq) ? len : sizeof(mm_lastq);
	memcpy(mm_lastq, p, mm_lastq_len);
}
static int mm_select(void) { return mm_ext_ok ? 1 : 0; }
static ssize_t mm_recv(void *buf, size_t len)
{
	unsigned char r[1100];
	size_t i = 12, n;
	static const unsigned char rr[] = { 0xc0, 0x0c, 0, 1, 0, 1, 0, 0, 0, 60, 0, 4 };
	if (mm_lastq_len < 17) return -1;
	while (i < mm_lastq_len && mm_lastq[i]) i += 1 + mm_lastq[i];
	i += 5;
	if (i > mm_lastq_len) return -1;
	memcpy(r, mm_lastq, i);
	r[2] |= 0x84; r[3] = 0;
	r[6] = 0; r[7] = 1; r[8] = r[9] = r[10] = r[11] = 0;
	memcpy(r + i, rr, sizeof(rr));
	memcpy(r + i + sizeof(rr), mm_ext_ip, 4);
	n = i + sizeof(rr) + 4;
	if (n > len) n = len;
	memcpy(buf, r, n);
	return (ssize_t) n;
}

static int verif_tunnel_stub(int tun_fd, struct dnsfd *dns_fds, int bind_fd, int max_idle_time)
{
	mm_ev("tunnel:%d:%d:%d:%d:%d", tun_fd, dns_fds->v4fd, dns_fds->v6fd, bind_fd, max_idle_time);
	return 0;
}

static void op_main(char **tok, int ntok)
{
	static char *args[70], *keep[70];
	static int argc, rv, exited;
	int i;
	size_t n;
	unsigned char *b;
	stop_worker();
	free(mm_env_pass); free(mm_typed);
	mm_env_pass = mm_typed = NULL;
	mm_ext_ok = 1; mm_v6_ok = 1; mm_sd = 0;
	mm_ext_ip[0] = 192; mm_ext_ip[1] = 0; mm_ext_ip[2] = 2; mm_ext_ip[3] = 99;
	argc = 0;
	for (i = 1; i < ntok; i++) {
		if (!strncmp(tok[i], "E=", 2) || !strncmp(tok[i], "T=", 2)) {
			char *z;
			b = hex_alloc(tok[i] + 2, &n);
			if (!b) { puts("bad-op"); return; }
			z = xmalloc(n + 1);
			memcpy(z, b, n); z[n] = 0; free(b);
			if (tok[i][0] == 'E') mm_env_pass = z; else mm_typed = z;
		} else if (!strcmp(tok[i], "X=fail")) mm_ext_ok = 0;
		else if (!strncmp(tok[i], "X=", 2)) {
			b = hex_alloc(tok[i] + 2, &n);
			if (!b || n != 4) { puts("bad-op"); return; }
			memcpy(mm_ext_ip, b, 4); free(b);
		} else if (!strncmp(tok[i], "V6=", 3)) mm_v6_ok = atoi(tok[i] + 3);
		else if (!strncmp(tok[i], "SD=", 3)) mm_sd = atoi(tok[i] + 3);
		else {
			b = hex_alloc(tok[i], &n);
			if (!b || argc >= 64) { puts("bad-op"); return; }
			args[argc] = xmalloc(n + 1);		/* exactly sized: ASan sees any overread */
			memcpy(args[argc], b, n); args[argc][n] = 0; free(b);
			keep[argc] = args[argc];
			argc++;
		}
	}
	if (argc < 1) { puts("bad-op"); return; }
	args[argc] = NULL;
	/* the globals as the loader leaves them */
	memset(password, 0, sizeof(password));
	topdomain = NULL;
	my_ip = 0; netmask = 0; my_mtu = 0; check_ip = 0; ns_ip = 0; bind_port = 0; debug = 0; created_users = 0;
	running = 1;
	if (users) { free(users); users = NULL; }
	usercount = 0;
	optind = 0; opterr = 0;
	mm_evlen = 0; mm_evbuf[0] = 0;
	mm_tag = mm_ftag = NULL;
	mm_getopt_err = 0;
	mm_lastq_len = 0;
	{	/* a stale entry in the forward ring: fw_query_init() in main() must remove it */
		struct fw_query stale;
		memset(&stale, 0, sizeof(stale));
		stale.id = 7;
		fw_query_put(&stale);
	}
	mm = 1;
	exited = 0;
	if (!setjmp(mm_jb)) rv = iodined_main(argc, args);
	else exited = 1;
	mm = 0;
	if (exited) {
		const char *f = mm_ftag ? mm_ftag : "none";
		if (!strcmp(f, "usage")) printf("exit %d usage:%s", mm_code, mm_tag ? mm_tag : mm_getopt_err ? "getopt" : "argc");
		else printf("exit %d %s", mm_code, f);
	} else if (!strstr(mm_evbuf, " tunnel:")) printf("ret %d", rv);
	else printf("run %d", rv);
	printf(" | ev%s", mm_evlen ? mm_evbuf : " -");
	if (!exited && strstr(mm_evbuf, " tunnel:")) {
		printf(" | pw=");
		for (i = 0; i < 33; i++) printf("%02x", (unsigned char) password[i]);
		printf(" td=%s ip=%08x nm=%d mtu=%d cip=%d ns=%08x bport=%d dbg=%d users=%d pool=", mm_hs(topdomain), (unsigned) ntohl(my_ip), netmask,
		       my_mtu, check_ip, (unsigned) ntohl(ns_ip), bind_port, debug, created_users);
		for (i = 0; i < created_users; i++) printf("%s%08x", i ? "," : "", (unsigned) ntohl(users[i].tun_ip));
		if (created_users <= 0) printf("-");
		/* the whole of users[] as tunnel() finds it (the model: Server.start) */
		evlen = 0; nevents = 0;
		for (i = 0; i < (int) usercount; i++) {
			ev_str(i ? " ; " : " | sl ");
			slot_digest(i, 1);
		}
		ev_str("");
		{
			struct fw_query *q7, *q0;
			fw_query_get(7, &q7);
			fw_query_get(0, &q0);
			printf(" fw=%s", !q7 && q0 && q0->addrlen == 0 ? "clean" : "dirty");
		}
		printf(" uc=%u%s", usercount, evlen ? evbuf : "");
		evlen = 0; nevents = 0;
	}
	putchar('\n');
	for (i = 0; i < argc; i++) free(keep[i]);
	if (users) { free(users); users = NULL; }
	created_users = 0; usercount = 0;
}

int main(void)
{
	char *line = NULL;
	size_t cap = 0;
	char *tok[80];
	int ntok;
	const char *z = getenv("VERIF_Z");

	use_real_z = z && !strcmp(z, "real");
	if (getenv("VERIF_LINEBUF")) setvbuf(stdout, NULL, _IOLBF, 0);
	sem_init(&sem_main, 0, 0);
	sem_init(&sem_worker, 0, 0);
	evcap = 1 << 16;
	evbuf = xmalloc(evcap);
	evbuf[0] = 0;

	while (getline(&line, &cap, stdin) > 0) {
		ntok = split(line, tok, 80);
		if (ntok == 0) { puts("bad-op"); continue; }
		if (!strcmp(tok[0], "cfg")) op_cfg(tok, ntok);
		else if (!strcmp(tok[0], "main")) op_main(tok, ntok);
		else if (!strcmp(tok[0], "time") && ntok == 2) { vnow = (time_t) atol(tok[1]); puts("ok"); }
		else if (!strcmp(tok[0], "rand")) {
			int i;
			for (i = 1; i < ntok && randq_n < 4096; i++) randq[randq_n++] = atoi(tok[i]);
			puts("ok");
		}
		else if (!strcmp(tok[0], "tick") && ntok == 1) iteration(IN_TICK, NULL, 0);
		else if (!strcmp(tok[0], "nop") && ntok == 1) puts("nop");
		else if (!strcmp(tok[0], "q") && ntok == 5) {
			/* build the query datagram with the repository's own encoder */
			struct query q;
			size_t nlen;
			unsigned char *name = hex_alloc(tok[4], &nlen);
			char host[600];
			char *pkt;
			int len, fam, save;
			memset(&q, 0, sizeof(q));
			fam = parse_addr(tok[1], &in_src, &in_srclen);
			if (!name || !fam || nlen >= sizeof(host)) { puts("bad-op"); free(name); continue; }
			q.id = (unsigned short) atoi(tok[2]);
			q.type = (unsigned short) atoi(tok[3]);
			memcpy(host, name, nlen);
			host[nlen] = 0;
			free(name);
			pkt = xmalloc(4096);
			save = dnsc_use_edns0;
			dnsc_use_edns0 = 0;
			len = dns_encode(pkt, 4096, &q, QR_QUERY, host, strlen(host));
			dnsc_use_edns0 = save;
			if (len < 1) { puts("encode-failed"); free(pkt); continue; }
			emit_dq((unsigned char *) pkt, (size_t) len);
			iteration(fam == 4 ? IN_DNS4 : IN_DNS6, (unsigned char *) pkt, (size_t) len);
			free(pkt);
		}
		else if (!strcmp(tok[0], "dns") && ntok == 3) {
			size_t n;
			unsigned char *d = hex_alloc(tok[2], &n);
			int fam = parse_addr(tok[1], &in_src, &in_srclen);
			if (!d || !fam) { puts("bad-op"); free(d); continue; }
			emit_dq(d, n);
			iteration(fam == 4 ? IN_DNS4 : IN_DNS6, d, n);
			free(d);
		}
		else if (!strcmp(tok[0], "wd") && ntok == 6) {
			/* wd <id> <type> <downenc char> <hexname> <hexpayload>: write_dns() called directly (C09/C10): answer `tx` bytes */
			struct query q;
			size_t nlen, plen;
			unsigned char *name = hex_alloc(tok[4], &nlen), *pay = hex_alloc(tok[5], &plen);
			struct sockaddr_in *a = (struct sockaddr_in *) &q.from;
			if (!name || !pay || nlen >= sizeof(q.name)) { puts("bad-op"); free(name); free(pay); continue; }
			memset(&q, 0, sizeof(q));
			q.id = (unsigned short) atoi(tok[1]);
			q.type = (unsigned short) atoi(tok[2]);
			memcpy(q.name, name, nlen);
			a->sin_family = AF_INET;
			a->sin_addr.s_addr = htonl(0x0a630001);
			a->sin_port = htons(53);
			q.fromlen = sizeof(*a);
			write_dns(V4_FD, &q, (char *) pay, (int) plen, tok[3][0]);
			after_ans = 0;
			if (!nevents) ev_str("none");
			fwrite(evbuf, 1, evlen, stdout);
			putchar('\n');
			evlen = 0; nevents = 0;
			free(name); free(pay);
		}
		else if (!strcmp(tok[0], "tun") && ntok == 2) {
			size_t n;
			unsigned char *d = hex_alloc(tok[1], &n);
			if (!d) { puts("bad-op"); continue; }
			iteration(IN_TUN, d, n);
			free(d);
		}
		else if (!strcmp(tok[0], "bind") && ntok == 2) {
			size_t n;
			unsigned char *d = hex_alloc(tok[1], &n);
			if (!d) { puts("bad-op"); continue; }
			iteration(IN_BIND, d, n);
			free(d);
		}
		else puts("bad-op");
	}
	stop_worker();
	free(line);
	return 0;
}
