/* Tie 2, server session machine: answers the line protocol of docs/SRV_PROTOCOL.md by running the
 * REAL tunnel() loop of /repo/src/iodined.c (included below, so every static function is the
 * repository's own) in a second thread with strict hand-off.  The environment (clock, rand, select,
 * sockets, tun device, syslog, zlib) is substituted at compile time by shim_srv.h.
 * Built with -DIODINE_VERIF: write_dns() reports its arguments through verif_hook_write_dns(). */
#include "h_common.h"
#include <pthread.h>
#include <semaphore.h>
#include <stdarg.h>

#define main iodined_main
#include "iodined.c"
#undef main

/* from here on the harness talks to the real libc */
#undef time
#undef rand
#undef srand
#undef select
#undef recvmsg
#undef recvfrom
#undef recv
#undef sendto
#undef read
#undef write
#undef syslog
#undef compress2
#undef uncompress
#undef system
#undef sleep

extern unsigned usercount;

#define TUN_FD 1001
#define V4_FD 1002
#define V6_FD 1003
#define BIND_FD 1004

/* ------------------------------------------------------------------ virtual environment */
static time_t vnow = 1000;
static int randq[4096], randq_n, randq_i;
static int use_real_z;

time_t verif_time(time_t *t) { if (t) *t = vnow; return vnow; }
int verif_rand(void) { return randq_i < randq_n ? randq[randq_i++] : 0; }
void verif_srand(unsigned s) { (void) s; }
void verif_syslog(int pri, const char *fmt, ...) { (void) pri; (void) fmt; }
int verif_system(const char *cmd) { (void) cmd; return 0; }
unsigned verif_sleep(unsigned s) { (void) s; return 0; }
ssize_t verif_recv(int fd, void *buf, size_t len, int flags) { (void) fd; (void) buf; (void) len; (void) flags; return -1; }

int verif_compress2(Bytef *dest, uLongf *destLen, const Bytef *source, uLong sourceLen, int level)
{
	if (use_real_z) return compress2(dest, destLen, source, sourceLen, level);
	if (*destLen < sourceLen + 1) return Z_BUF_ERROR;
	dest[0] = 0x5a;
	memcpy(dest + 1, source, sourceLen);
	*destLen = sourceLen + 1;
	return Z_OK;
}

int verif_uncompress(Bytef *dest, uLongf *destLen, const Bytef *source, uLong sourceLen)
{
	if (use_real_z) return uncompress(dest, destLen, source, sourceLen);
	if (sourceLen < 1 || source[0] != 0x5a || *destLen < sourceLen - 1) return Z_DATA_ERROR;
	memcpy(dest, source + 1, sourceLen - 1);
	*destLen = sourceLen - 1;
	return Z_OK;
}

/* ------------------------------------------------------------------ event buffer */
static char *evbuf;
static size_t evlen, evcap;
static int nevents;

static void ev_raw(const char *s, size_t n)
{
	if (evlen + n + 1 > evcap) {
		evcap = (evlen + n + 1) * 2;
		evbuf = realloc(evbuf, evcap);
		if (!evbuf) abort();
	}
	memcpy(evbuf + evlen, s, n);
	evlen += n;
	evbuf[evlen] = 0;
}
static void ev_str(const char *s) { ev_raw(s, strlen(s)); }
static void ev_hex(const unsigned char *p, size_t n)
{
	static const char hx[] = "0123456789abcdef";
	size_t i;
	char c[2];
	if (n == 0) { ev_str("-"); return; }
	for (i = 0; i < n; i++) { c[0] = hx[p[i] >> 4]; c[1] = hx[p[i] & 15]; ev_raw(c, 2); }
}
static void ev_begin(const char *kind)
{
	if (nevents++) ev_str(" | ");
	ev_str(kind);
}
static void ev_addr(const struct sockaddr *sa, socklen_t len)
{
	char b[128];
	if (sa && len >= sizeof(struct sockaddr_in) && sa->sa_family == AF_INET) {
		const struct sockaddr_in *a = (const struct sockaddr_in *) sa;
		snprintf(b, sizeof(b), "4:%08x:%u", (unsigned) ntohl(a->sin_addr.s_addr), (unsigned) ntohs(a->sin_port));
		ev_str(b);
	} else if (sa && len >= sizeof(struct sockaddr_in6) && sa->sa_family == AF_INET6) {
		const struct sockaddr_in6 *a = (const struct sockaddr_in6 *) sa;
		ev_str("6:");
		ev_hex(a->sin6_addr.s6_addr, 16);
		snprintf(b, sizeof(b), ":%u", (unsigned) ntohs(a->sin6_port));
		ev_str(b);
	} else {
		/* not a well-formed destination: family / length as the kernel would judge them */
		snprintf(b, sizeof(b), "bad:fam%d:len%u", sa ? sa->sa_family : -1, (unsigned) len);
		ev_str(b);
	}
}

/* ------------------------------------------------------------------ scripted input of one iteration */
enum { IN_NONE, IN_DNS4, IN_DNS6, IN_TUN, IN_BIND, IN_TICK, IN_QUIT };
static int in_kind;
static unsigned char *in_data;
static size_t in_len;
static struct sockaddr_storage in_src;
static socklen_t in_srclen;
static unsigned char cfg_dest4[4], cfg_dest6[16];
static int after_ans;		/* the next sendto on a DNS fd is the encoded answer announced by `ans` */
static int in_bind_op;
static int tun_skipped;

static long sel_to = -1;
static int sel_tun;

static sem_t sem_main, sem_worker;
static pthread_t worker;
static int worker_alive;

int verif_select(int nfds, fd_set *r, fd_set *w, fd_set *e, struct timeval *tv)
{
	int n = 0;
	(void) nfds; (void) w; (void) e;
	sel_to = tv ? (long) tv->tv_sec * 1000000L + tv->tv_usec : -1;
	sel_tun = FD_ISSET(TUN_FD, r) ? 1 : 0;
	/* iteration finished: hand over to the main thread, wait for the next scripted input */
	sem_post(&sem_main);
	sem_wait(&sem_worker);
	{
		int had_tun = FD_ISSET(TUN_FD, r);
		FD_ZERO(r);
		switch (in_kind) {
		case IN_DNS4: FD_SET(V4_FD, r); n = 1; break;
		case IN_DNS6: FD_SET(V6_FD, r); n = 1; break;
		case IN_BIND: FD_SET(BIND_FD, r); n = 1; break;
		case IN_TUN:
			if (had_tun) { FD_SET(TUN_FD, r); n = 1; }
			else tun_skipped = 1;
			break;
		case IN_QUIT: running = 0; n = 0; break;
		default: n = 0;
		}
	}
	return n;
}

ssize_t verif_recvmsg(int fd, struct msghdr *msg, int flags)
{
	size_t n;
	struct cmsghdr *c;
	(void) flags;
	if ((fd != V4_FD && fd != V6_FD) || !in_data) return -1;
	n = in_len < msg->msg_iov[0].iov_len ? in_len : msg->msg_iov[0].iov_len;
	memcpy(msg->msg_iov[0].iov_base, in_data, n);
	memcpy(msg->msg_name, &in_src, in_srclen);
	msg->msg_namelen = in_srclen;
	/* destination address as ancillary data, like IP_PKTINFO / IPV6_PKTINFO */
	memset(msg->msg_control, 0, msg->msg_controllen);
	c = CMSG_FIRSTHDR(msg);
	if (fd == V4_FD) {
		struct in_pktinfo pi;
		memset(&pi, 0, sizeof(pi));
		memcpy(&pi.ipi_addr, cfg_dest4, 4);
		memcpy(&pi.ipi_spec_dst, cfg_dest4, 4);
		c->cmsg_level = IPPROTO_IP;
		c->cmsg_type = IP_PKTINFO;
		c->cmsg_len = CMSG_LEN(sizeof(pi));
		memcpy(CMSG_DATA(c), &pi, sizeof(pi));
		msg->msg_controllen = CMSG_SPACE(sizeof(pi));
	} else {
		struct in6_pktinfo pi;
		memset(&pi, 0, sizeof(pi));
		memcpy(&pi.ipi6_addr, cfg_dest6, 16);
		c->cmsg_level = IPPROTO_IPV6;
		c->cmsg_type = IPV6_PKTINFO;
		c->cmsg_len = CMSG_LEN(sizeof(pi));
		memcpy(CMSG_DATA(c), &pi, sizeof(pi));
		msg->msg_controllen = CMSG_SPACE(sizeof(pi));
	}
	return (ssize_t) n;
}

ssize_t verif_recvfrom(int fd, void *buf, size_t len, int flags, struct sockaddr *from, socklen_t *fromlen)
{
	size_t n;
	(void) flags;
	if (fd != BIND_FD || !in_data) return -1;
	n = in_len < len ? in_len : len;
	memcpy(buf, in_data, n);
	if (from && fromlen && *fromlen >= sizeof(struct sockaddr_in)) {
		struct sockaddr_in a;
		memset(&a, 0, sizeof(a));
		a.sin_family = AF_INET;
		a.sin_addr.s_addr = htonl(0x7f000001);
		a.sin_port = htons(bind_port);
		memcpy(from, &a, sizeof(a));
		*fromlen = sizeof(a);
	}
	return (ssize_t) n;
}

ssize_t verif_read(int fd, void *buf, size_t len)
{
	size_t n;
	if (fd != TUN_FD) return read(fd, buf, len);
	if (!in_data) return -1;
	n = in_len < len ? in_len : len;
	memcpy(buf, in_data, n);
	return (ssize_t) n;
}

ssize_t verif_write(int fd, const void *buf, size_t len)
{
	if (fd != TUN_FD) return write(fd, buf, len);
	ev_begin("tunw ");
	ev_hex(buf, len);
	return (ssize_t) len;
}

ssize_t verif_sendto(int fd, const void *buf, size_t len, int flags, const struct sockaddr *to, socklen_t tolen)
{
	const unsigned char *p = buf;
	const char *kind;
	(void) flags;
	if (fd == BIND_FD) kind = "fwd";
	else if (after_ans) kind = "tx";
	else if (in_bind_op) kind = "rly";
	else if (len >= RAW_HDR_LEN && !memcmp(p, raw_header, RAW_HDR_IDENT_LEN)) kind = "raw";
	else kind = "nsa";
	after_ans = 0;
	ev_begin(kind);
	ev_str(" ");
	ev_addr(to, tolen);
	ev_str(" ");
	ev_hex(p, len);
	return (ssize_t) len;
}

void verif_hook_write_dns(struct query *q, const char *data, int datalen, char downenc)
{
	char b[64];
	ev_begin("ans ");
	ev_addr((struct sockaddr *) &q->from, q->fromlen);
	snprintf(b, sizeof(b), " %u %u %c ", (unsigned) q->id, (unsigned) q->type, downenc ? downenc : '0');
	ev_str(b);
	ev_hex((unsigned char *) q->name, strnlen(q->name, sizeof(q->name)));
	ev_str(" ");
	ev_hex((const unsigned char *) data, datalen > 0 ? (size_t) datalen : 0);
	after_ans = 1;
}

void verif_hook_sweep(void)
{
	ev_begin("sweep");
	after_ans = 0;
}

/* ------------------------------------------------------------------ worker = the real tunnel() */
static void *worker_main(void *arg)
{
	struct dnsfd fds;
	(void) arg;
	fds.v4fd = V4_FD;
	fds.v6fd = V6_FD;
	running = 1;
	tunnel(TUN_FD, &fds, bind_port ? BIND_FD : 0, 0);
	sem_post(&sem_main);
	return NULL;
}

static void stop_worker(void)
{
	if (!worker_alive) return;
	in_kind = IN_QUIT;
	in_data = NULL;
	sem_post(&sem_worker);
	sem_wait(&sem_main);
	pthread_join(worker, NULL);
	worker_alive = 0;
	evlen = 0; nevents = 0; after_ans = 0;
}

static void start_worker(void)
{
	pthread_attr_t at;
	pthread_attr_init(&at);
	pthread_attr_setstacksize(&at, 64UL * 1024 * 1024);	/* tunnel() call chain holds several 64 KiB arrays */
	if (pthread_create(&worker, &at, worker_main, NULL)) abort();
	worker_alive = 1;
	sem_wait(&sem_main);	/* parked in its first select() */
}

/* ------------------------------------------------------------------ helpers */
static int parse_addr(const char *s, struct sockaddr_storage *ss, socklen_t *len)
{
	size_t n;
	unsigned char *b;
	const char *c2;
	char hexs[40];
	memset(ss, 0, sizeof(*ss));
	if (s[0] == '4' && s[1] == ':') {
		struct sockaddr_in *a = (struct sockaddr_in *) ss;
		c2 = strchr(s + 2, ':');
		if (!c2 || c2 - (s + 2) != 8) return 0;
		memcpy(hexs, s + 2, 8); hexs[8] = 0;
		b = hex_alloc(hexs, &n);
		if (!b || n != 4) return 0;
		a->sin_family = AF_INET;
		memcpy(&a->sin_addr, b, 4);
		a->sin_port = htons((unsigned short) atoi(c2 + 1));
		free(b);
		*len = sizeof(*a);
		return 4;
	}
	if (s[0] == '6' && s[1] == ':') {
		struct sockaddr_in6 *a = (struct sockaddr_in6 *) ss;
		c2 = strchr(s + 2, ':');
		if (!c2 || c2 - (s + 2) != 32) return 0;
		memcpy(hexs, s + 2, 32); hexs[32] = 0;
		b = hex_alloc(hexs, &n);
		if (!b || n != 16) return 0;
		a->sin6_family = AF_INET6;
		memcpy(&a->sin6_addr, b, 16);
		a->sin6_port = htons((unsigned short) atoi(c2 + 1));
		free(b);
		*len = sizeof(*a);
		return 6;
	}
	return 0;
}

static unsigned wsum(const unsigned char *p, size_t n)
{
	unsigned long s = 0;
	size_t i;
	for (i = 0; i < n; i++) s = (s + (unsigned long) (i + 1) * p[i]) % 65521UL;
	return (unsigned) s;
}

static const char *encname(const struct encoder *e)
{
	if (e == &base32_ops) return "b32";
	if (e == &base64_ops) return "b64";
	if (e == &base64u_ops) return "b64u";
	if (e == &base128_ops) return "b128";
	return "none";
}

static void digest(void)
{
	int u, i, first = 1;
	char b[512];
	ev_str("st");
	for (u = 0; u < (int) usercount; u++) {
		struct tun_user *t = &users[u];
		unsigned long s;
		if (!t->active) continue;
		ev_str(first ? " " : " ; ");
		first = 0;
		snprintf(b, sizeof(b), "u=%d au=%d ar=%d ol=%d lp=%ld seed=%d host=", u, t->authenticated, t->authenticated_raw,
			 t->options_locked, (long) t->last_pkt, t->seed);
		ev_str(b);
		if (t->hostlen) ev_addr((struct sockaddr *) &t->host, t->hostlen); else ev_str("none");
		snprintf(b, sizeof(b), " conn=%d lazy=%d fs=%d enc=%s dn=%c", (int) t->conn, t->lazy, t->fragsize, encname(t->encoder),
			 t->downenc ? t->downenc : '0');
		ev_str(b);
		snprintf(b, sizeof(b), " q=%u/%u/%u/%u qs=%u/%u/%u/%u/%d", (unsigned) t->q.id, (unsigned) t->q.id2, (unsigned) t->q.type,
			 wsum((unsigned char *) t->q.name, strnlen(t->q.name, sizeof(t->q.name))),
			 (unsigned) t->q_sendrealsoon.id, (unsigned) t->q_sendrealsoon.id2, (unsigned) t->q_sendrealsoon.type,
			 wsum((unsigned char *) t->q_sendrealsoon.name, strnlen(t->q_sendrealsoon.name, sizeof(t->q_sendrealsoon.name))),
			 t->q_sendrealsoon_new);
		ev_str(b);
		snprintf(b, sizeof(b), " in=%d/%d/%d/%d/%u out=%d/%d/%d/%d/%d/%u ofr=%d", t->inpacket.len, t->inpacket.offset,
			 (int) t->inpacket.seqno, (int) t->inpacket.fragment,
			 wsum((unsigned char *) t->inpacket.data, t->inpacket.len > 0 && t->inpacket.len <= (int) sizeof(t->inpacket.data) ? (size_t) t->inpacket.len : 0),
			 t->outpacket.len, t->outpacket.offset, t->outpacket.sentlen, (int) t->outpacket.seqno, (int) t->outpacket.fragment,
			 wsum((unsigned char *) t->outpacket.data, t->outpacket.len > 0 && t->outpacket.len <= (int) sizeof(t->outpacket.data) ? (size_t) t->outpacket.len : 0),
			 t->outfragresent);
		ev_str(b);
		snprintf(b, sizeof(b), " oq=%d/%d/", t->outpacketq_nexttouse, t->outpacketq_filled);
		ev_str(b);
		if (t->outpacketq_filled <= 0) ev_str("-");
		for (i = 0; i < t->outpacketq_filled && i < OUTPACKETQ_LEN; i++) {
			snprintf(b, sizeof(b), "%s%d", i ? "," : "", t->outpacketq[(t->outpacketq_nexttouse + i) % OUTPACKETQ_LEN].len);
			ev_str(b);
		}
		snprintf(b, sizeof(b), " dc=%d/", t->dnscache_lastfilled);
		ev_str(b);
		for (i = 0; i < DNSCACHE_LEN; i++) {
			int al = t->dnscache_answerlen[i];
			snprintf(b, sizeof(b), "%s%u:%d:%u", i ? "," : "", (unsigned) t->dnscache_q[i].id, al,
				 wsum((unsigned char *) t->dnscache_answer[i], al > 0 && al <= 4096 ? (size_t) al : 0));
			ev_str(b);
		}
		s = 0;
		for (i = 0; i < QMEMPING_LEN; i++)
			if (t->qmemping_type[i] != T_UNSET)
				s += t->qmemping_type[i] + t->qmemping_cmc[4 * i] + t->qmemping_cmc[4 * i + 1] + t->qmemping_cmc[4 * i + 2] + t->qmemping_cmc[4 * i + 3];
		snprintf(b, sizeof(b), " mp=%d/%lu", t->qmemping_lastfilled, s);
		ev_str(b);
		s = 0;
		for (i = 0; i < QMEMDATA_LEN; i++)
			if (t->qmemdata_type[i] != T_UNSET)
				s += t->qmemdata_type[i] + t->qmemdata_cmc[4 * i] + t->qmemdata_cmc[4 * i + 1] + t->qmemdata_cmc[4 * i + 2] + t->qmemdata_cmc[4 * i + 3];
		snprintf(b, sizeof(b), " md=%d/%lu", t->qmemdata_lastfilled, s);
		ev_str(b);
	}
}

/* how the real decoder sees a datagram (the model is fed the decoded query) */
static void emit_dq(const unsigned char *d, size_t n)
{
	struct query q;
	char b[64];
	int rv;
	unsigned char *copy;
	if (n >= RAW_HDR_LEN && !memcmp(d, raw_header, RAW_HDR_IDENT_LEN)) return;
	copy = xmalloc(64 * 1024);
	memset(copy, 0, 64 * 1024);
	memcpy(copy, d, n > 64 * 1024 ? 64 * 1024 : n);
	memset(&q, 0, sizeof(q));
	rv = n ? dns_decode(NULL, 0, &q, QR_QUERY, (char *) copy, n) : 0;
	free(copy);
	ev_begin("dq");
	snprintf(b, sizeof(b), " %d %u %u ", rv, (unsigned) q.id, (unsigned) q.type);
	ev_str(b);
	ev_hex((unsigned char *) q.name, strnlen(q.name, sizeof(q.name)));
}

/* run one iteration of tunnel() with the scripted input, print the answer line */
static void iteration(int kind, unsigned char *data, size_t len)
{
	char b[64];
	long to = sel_to;
	int tsel = sel_tun;
	if (!worker_alive) { puts("no-cfg"); return; }
	in_kind = kind;
	in_data = data;
	in_len = len;
	tun_skipped = 0;
	in_bind_op = (kind == IN_BIND);
	sem_post(&sem_worker);
	sem_wait(&sem_main);
	in_data = NULL;
	in_bind_op = 0;
	after_ans = 0;
	if (tun_skipped) ev_begin("tunskip");
	if (nevents) ev_str(" | ");
	snprintf(b, sizeof(b), "to=%ld tunsel=%d | ", to, tsel);
	ev_str(b);
	digest();
	fwrite(evbuf, 1, evlen, stdout);
	putchar('\n');
	evlen = 0; nevents = 0;
}

static char topdomain_buf[512];

static void op_cfg(char **tok, int ntok)
{
	size_t n;
	unsigned char *b;
	struct in_addr ia;
	if (ntok != 11) { puts("bad-op"); return; }
	stop_worker();
	check_ip = atoi(tok[1]);
	b = hex_alloc(tok[2], &n);
	if (!b) { puts("bad-op"); return; }
	memset(password, 0, sizeof(password));
	memcpy(password, b, n > 32 ? 32 : n);
	free(b);
	b = hex_alloc(tok[3], &n);
	if (!b || n != 4) { puts("bad-op"); return; }
	memcpy(&ia, b, 4);
	free(b);
	my_ip = ia.s_addr;
	netmask = atoi(tok[4]);
	b = hex_alloc(tok[5], &n);
	if (!b || n >= sizeof(topdomain_buf)) { puts("bad-op"); return; }
	memcpy(topdomain_buf, b, n);
	topdomain_buf[n] = 0;
	free(b);
	topdomain = topdomain_buf;
	my_mtu = atoi(tok[6]);
	b = hex_alloc(tok[7], &n);
	if (!b || n != 4) { puts("bad-op"); return; }
	memcpy(&ns_ip, b, 4);
	free(b);
	bind_port = atoi(tok[8]);
	b = hex_alloc(tok[9], &n);
	if (!b || n != 4) { puts("bad-op"); return; }
	memcpy(cfg_dest4, b, 4);
	free(b);
	b = hex_alloc(tok[10], &n);
	if (!b || n != 16) { puts("bad-op"); return; }
	memcpy(cfg_dest6, b, 16);
	free(b);
	debug = 0;
	if (users) { free(users); users = NULL; }
	created_users = init_users(my_ip, netmask);
	fw_query_init();
	vnow = 1000;
	randq_n = randq_i = 0;
	start_worker();
	printf("ok users=%d\n", created_users);
}

int main(void)
{
	char *line = NULL;
	size_t cap = 0;
	char *tok[16];
	int ntok;
	const char *z = getenv("VERIF_Z");

	use_real_z = z && !strcmp(z, "real");
	if (getenv("VERIF_LINEBUF")) setvbuf(stdout, NULL, _IOLBF, 0);
	sem_init(&sem_main, 0, 0);
	sem_init(&sem_worker, 0, 0);
	evcap = 1 << 16;
	evbuf = xmalloc(evcap);
	evbuf[0] = 0;

	while (getline(&line, &cap, stdin) > 0) {
		ntok = split(line, tok, 16);
		if (ntok == 0) { puts("bad-op"); continue; }
		if (!strcmp(tok[0], "cfg")) op_cfg(tok, ntok);
		else if (!strcmp(tok[0], "time") && ntok == 2) { vnow = (time_t) atol(tok[1]); puts("ok"); }
		else if (!strcmp(tok[0], "rand")) {
			int i;
			for (i = 1; i < ntok && randq_n < 4096; i++) randq[randq_n++] = atoi(tok[i]);
			puts("ok");
		}
		else if (!strcmp(tok[0], "tick") && ntok == 1) iteration(IN_TICK, NULL, 0);
		else if (!strcmp(tok[0], "nop") && ntok == 1) puts("nop");
		else if (!strcmp(tok[0], "q") && ntok == 5) {
			/* build the query datagram with the repository's own encoder */
			struct query q;
			size_t nlen;
			unsigned char *name = hex_alloc(tok[4], &nlen);
			char host[600];
			char *pkt;
			int len, fam, save;
			memset(&q, 0, sizeof(q));
			fam = parse_addr(tok[1], &in_src, &in_srclen);
			if (!name || !fam || nlen >= sizeof(host)) { puts("bad-op"); free(name); continue; }
			q.id = (unsigned short) atoi(tok[2]);
			q.type = (unsigned short) atoi(tok[3]);
			memcpy(host, name, nlen);
			host[nlen] = 0;
			free(name);
			pkt = xmalloc(4096);
			save = dnsc_use_edns0;
			dnsc_use_edns0 = 0;
			len = dns_encode(pkt, 4096, &q, QR_QUERY, host, strlen(host));
			dnsc_use_edns0 = save;
			if (len < 1) { puts("encode-failed"); free(pkt); continue; }
			emit_dq((unsigned char *) pkt, (size_t) len);
			iteration(fam == 4 ? IN_DNS4 : IN_DNS6, (unsigned char *) pkt, (size_t) len);
			free(pkt);
		}
		else if (!strcmp(tok[0], "dns") && ntok == 3) {
			size_t n;
			unsigned char *d = hex_alloc(tok[2], &n);
			int fam = parse_addr(tok[1], &in_src, &in_srclen);
			if (!d || !fam) { puts("bad-op"); free(d); continue; }
			emit_dq(d, n);
			iteration(fam == 4 ? IN_DNS4 : IN_DNS6, d, n);
			free(d);
		}
		else if (!strcmp(tok[0], "wd") && ntok == 6) {
			/* wd <id> <type> <downenc char> <hexname> <hexpayload>: write_dns() called directly (C09/C10): answer `tx` bytes */
			struct query q;
			size_t nlen, plen;
			unsigned char *name = hex_alloc(tok[4], &nlen), *pay = hex_alloc(tok[5], &plen);
			struct sockaddr_in *a = (struct sockaddr_in *) &q.from;
			if (!name || !pay || nlen >= sizeof(q.name)) { puts("bad-op"); free(name); free(pay); continue; }
			memset(&q, 0, sizeof(q));
			q.id = (unsigned short) atoi(tok[1]);
			q.type = (unsigned short) atoi(tok[2]);
			memcpy(q.name, name, nlen);
			a->sin_family = AF_INET;
			a->sin_addr.s_addr = htonl(0x0a630001);
			a->sin_port = htons(53);
			q.fromlen = sizeof(*a);
			write_dns(V4_FD, &q, (char *) pay, (int) plen, tok[3][0]);
			after_ans = 0;
			if (!nevents) ev_str("none");
			fwrite(evbuf, 1, evlen, stdout);
			putchar('\n');
			evlen = 0; nevents = 0;
			free(name); free(pay);
		}
		else if (!strcmp(tok[0], "tun") && ntok == 2) {
			size_t n;
			unsigned char *d = hex_alloc(tok[1], &n);
			if (!d) { puts("bad-op"); continue; }
			iteration(IN_TUN, d, n);
			free(d);
		}
		else if (!strcmp(tok[0], "bind") && ntok == 2) {
			size_t n;
			unsigned char *d = hex_alloc(tok[1], &n);
			if (!d) { puts("bad-op"); continue; }
			iteration(IN_BIND, d, n);
			free(d);
		}
		else puts("bad-op");
	}
	stop_worker();
	free(line);
	return 0;
}
