/* Compile-time substitution of the environment for the session harnesses (h_srv, h_cli, h_world):
 * every repository file is compiled with `-include shim_srv.h`.  The system headers are included
 * first so that only the CALLS in the repository sources are redirected to the harness. */
#ifndef VERIF_SHIM_SRV_H
#define VERIF_SHIM_SRV_H
#include <stdio.h>
#include <stdlib.h>
#include <string.h>
#include <stdint.h>
#include <time.h>
#include <unistd.h>
#include <signal.h>
#include <sys/types.h>
#include <sys/time.h>
#include <sys/select.h>
#include <sys/socket.h>
#include <sys/stat.h>
#include <sys/ioctl.h>
#include <netinet/in.h>
#include <arpa/inet.h>
#include <netdb.h>
#include <syslog.h>
#include <err.h>
#include <zlib.h>
#include <termios.h>

time_t verif_time(time_t *t);
int verif_rand(void);
void verif_srand(unsigned s);
int verif_select(int nfds, fd_set *r, fd_set *w, fd_set *e, struct timeval *tv);
ssize_t verif_recvmsg(int fd, struct msghdr *msg, int flags);
ssize_t verif_recvfrom(int fd, void *buf, size_t len, int flags, struct sockaddr *from, socklen_t *fromlen);
ssize_t verif_recv(int fd, void *buf, size_t len, int flags);
ssize_t verif_sendto(int fd, const void *buf, size_t len, int flags, const struct sockaddr *to, socklen_t tolen);
ssize_t verif_read(int fd, void *buf, size_t len);
ssize_t verif_write(int fd, const void *buf, size_t len);
void verif_syslog(int pri, const char *fmt, ...);
int verif_compress2(Bytef *dest, uLongf *destLen, const Bytef *source, uLong sourceLen, int level);
int verif_uncompress(Bytef *dest, uLongf *destLen, const Bytef *source, uLong sourceLen);
int verif_system(const char *cmd);
unsigned verif_sleep(unsigned s);
void verif_exit(int code) __attribute__((noreturn));
/* read_password() (common.c) runs unchanged: the terminal is substituted (op `main` of h_srv / h_cli) */
int verif_fscanf(FILE *f, const char *fmt, ...);
int verif_tcgetattr(int fd, struct termios *t);
int verif_tcsetattr(int fd, int act, const struct termios *t);

#define time(x) verif_time(x)
#define rand() verif_rand()
#define srand(x) verif_srand(x)
#define select(a, b, c, d, e) verif_select(a, b, c, d, e)
#define recvmsg(a, b, c) verif_recvmsg(a, b, c)
#define recvfrom(a, b, c, d, e, f) verif_recvfrom(a, b, c, d, e, f)
#define recv(a, b, c, d) verif_recv(a, b, c, d)
#define sendto(a, b, c, d, e, f) verif_sendto(a, b, c, d, e, f)
#define read(a, b, c) verif_read(a, b, c)
#define write(a, b, c) verif_write(a, b, c)
#define syslog(...) verif_syslog(__VA_ARGS__)
#define compress2(a, b, c, d, e) verif_compress2(a, b, c, d, e)
#define uncompress(a, b, c, d) verif_uncompress(a, b, c, d)
#define system(x) verif_system(x)
#define sleep(x) verif_sleep(x)
#define fscanf(...) verif_fscanf(__VA_ARGS__)
#define tcgetattr(a, b) verif_tcgetattr(a, b)
#define tcsetattr(a, b, c) verif_tcsetattr(a, b, c)
#endif
