/* compile-time substitution of time(): the harness owns the clock (virtual time) */
#ifndef VERIF_SHIM_TIME_H
#define VERIF_SHIM_TIME_H
#include <time.h>
#include <sys/time.h>
time_t verif_time(time_t *t);
#define time(x) verif_time(x)
#endif
