"""C08 — upstream query names are legal, within the limit, and decode to what was sent.

Theorems: lean/IodineModel/Props/C08.lean (build_hostname + header model, legality automaton,
server-side extraction).  Correspondence: build_hostname / unpack_data / inline_dotify of the
current tree against the model, exhaustively over (L, codec) and over boundary + sampled domain
lengths (thorough: every domain length), plus the property clauses evaluated on the C results."""
import vlib
from vlib import hx, unhx

CODECS = ["b32", "b64", "b64u", "b128"]
BUFLEN = {1: 4095, 5: 4091}


def parse(line):
    d = {}
    for t in line.split():
        if "=" in t:
            a, b = t.split("=", 1)
            d[a] = b
    return d


def gen_domain(rng, n):
    """a valid tunnel domain of exactly n characters (3 <= n <= 128)"""
    alpha = b"abcdefghijklmnopqrstuvwxyzABCDEFGHIJKLMNOPQRSTUVWXYZ0123456789-"
    while True:
        # choose label lengths summing to n - (labels-1)
        nl = rng.randrange(2, max(3, min(6, (n + 1) // 2 + 1)))
        rest = n - (nl - 1)
        if rest < nl:
            nl = 2
            rest = n - 1
        cuts = sorted(rng.sample(range(1, rest), nl - 1)) if rest > nl - 1 and nl > 1 else []
        lens = [b - a for a, b in zip([0] + cuts, cuts + [rest])]
        if any(l < 1 or l > 63 for l in lens):
            continue
        return b".".join(bytes(rng.choice(alpha) for _ in range(l)) for l in lens)


def legal_name(name):
    labels = name.split(b".")
    return all(1 <= len(l) <= 63 for l in labels) and len(name) + 2 <= 255


def gen_cases(chk):
    rng, thorough = chk.rng, chk.tier == "thorough"
    cases = []
    for L in range(100, 256):
        tdmax = min(128, L - 24)
        tds = set([3, 4, tdmax - 1, tdmax]) | {rng.randrange(3, tdmax + 1) for _ in range(3)}
        if thorough:
            tds = set(range(3, tdmax + 1))
        for tl in sorted(tds):
            td = gen_domain(rng, tl)
            for c in CODECS:
                for h in (1, 5):
                    if thorough or rng.random() < 0.6:
                        plens = {1, 2, rng.randrange(1, 300), 2048 if rng.random() < 0.1 else rng.randrange(100, 400)}
                        for pl in sorted(plens):
                            style = rng.randrange(3)
                            d = bytes([255] * pl) if style == 0 else bytes(rng.randrange(256) for _ in range(pl))
                            cases.append((c, L, h, td, d))
    # payload lengths around the capacity boundary for a few configurations
    for _ in range(300 if not thorough else 3000):
        L = rng.randrange(100, 256); td = gen_domain(rng, rng.randrange(3, min(128, L - 24) + 1))
        c = rng.choice(CODECS); h = rng.choice((1, 5))
        k = {"b32": 5, "b64": 6, "b64u": 6, "b128": 7}[c]
        space0 = L - len(td) - 8
        space = space0 - space0 // 57
        cap_bytes = space * k // 8
        for pl in (cap_bytes - 1, cap_bytes, cap_bytes + 1, cap_bytes + 2):
            if pl >= 1:
                cases.append((c, L, h, td, bytes(rng.randrange(256) for _ in range(pl))))
    return cases


def hdr(h, rng):
    return b"p" if h == 1 else bytes([rng.choice(b"0123456789abcdef")]) + bytes(rng.choice(b"abcdefghijklmnopqrstuvwxyz012345") for _ in range(3)) + bytes([rng.choice(b"abcdefghijklmnopqrstuvwxyz0123456789")])


def run(chk):
    proof_ok = chk.proofs()
    # "the server's extraction of the data part of that name yields exactly that prefix" is a statement about the session machine too (which codec
    # a user slot decodes with, also after the slot was re-used): generated sessions through the real loop and the Lean server model
    import srvcheck
    srvcheck.model_only(chk, "C08", runs=24 if chk.tier == "thorough" else 8, nsteps=300, seed_mul=32452843)
    exe = vlib.build_harness("h_pure", ["h_pure.c"], vlib.PURE_OBJS)
    cases = gen_cases(chk)
    heads = [hdr(h, chk.rng) for (_, _, h, _, _) in cases]
    ops1 = ["bh %s %d %d %d %s %s" % (c, L, BUFLEN[h], hd[-1], hx(td), hx(d)) for (c, L, h, td, d), hd in zip(cases, heads)]
    c1, m1, diffs1 = vlib.differential(chk, exe, ops1)
    bad = 0
    ops2, idx2 = [], []
    nontriv = set()
    for i, ((c, L, h, td, d), hd, line) in enumerate(zip(cases, heads, c1.lines)):
        r = parse(line)
        why = None
        if "name" not in r:
            why = "no name built: " + line
        else:
            name = hd + unhx(r["name"]); used = int(r["r"])
            if len(name) > L:
                why = "name of %d characters exceeds L=%d" % (len(name), L)
            elif not legal_name(name):
                why = "illegal DNS name (label lengths %s, total %d)" % ([len(l) for l in name.split(b".")][:8], len(name))
            elif not name.endswith(b"." + td):
                why = "name does not end in the tunnel domain"
            elif not (1 <= used <= len(d)):
                why = "reported used=%d for %d payload bytes" % (used, len(d))
            else:
                dlen = len(name) - len(td)
                ops2.append("extract %s %d %d %s" % (c, h, dlen, hx(name)))
                idx2.append(i)
        if why:
            bad += 1
            chk.violation("C08 fails on the implementation: %s (codec=%s L=%d |td|=%d h=%d |payload|=%d)" % (why, c, L, len(td), h, len(d)),
                          [ops1[i]], key="c08:" + why.split("(")[0].split(":")[0][:30])
    c2, m2, diffs2 = vlib.differential(chk, exe, ops2)
    for j, i in enumerate(idx2):
        (c, L, h, td, d) = cases[i]
        used = int(parse(c1.lines[i])["r"])
        got = parse(c2.lines[j]).get("out") if j < len(c2.lines) else None
        if got is None or unhx(got) != d[:used]:
            bad += 1
            chk.violation("C08 fails on the implementation: server extraction yields %s, client reported the first %d bytes of %s (codec=%s L=%d |td|=%d)"
                          % (str(got)[:60], used, hx(d)[:60], c, L, len(td)), [ops1[i], ops2[j]], key="c08:extract")
        else:
            nontriv.add((c, L, len(td), h, len(d) > used))
    cb_bad, cb_names = client_builders(chk, exe)
    bad += cb_bad
    chk.notes["client_builder_names_checked"] = cb_names
    for c_ in (c1, c2):
        if c_.rc != 0:
            i = c_.abort_index or 0
            ops = ops1 if c_ is c1 else ops2
            chk.violation("C harness aborted (sanitizer or crash), rc=%d on op: %s\n%s" % (c_.rc, ops[i][:200], c_.stderr[-1500:]), [ops[i]])
            bad += 1
    chk.cov["evaluations"] = len(ops1) + len(ops2) + cb_names
    chk.cov["distinct_nontrivial"] = len(nontriv)
    chk.cov["traces_validated_against_impl"] = len(ops1) + len(ops2)
    chk.cov["exhaustive"] = False
    chk.cov["rule"] = ("cases = (codec, L in 100..255 (all), domain length (boundary+sampled; thorough: all 3..min(128,L-24)), header 1|5, payload); "
                       "op1 build_hostname on C and model, op2 server-side extraction (query data part, undotify, decode) on C and model; "
                       "oracle: length<=L, labels 1..63, wire<=255, suffix, 1<=used<=|payload|, extraction == payload[:used]. "
                       "distinct by (codec,L,|td|,header,truncated?)")
    chk.notes["configs"] = len({(c, L, len(td)) for (c, L, h, td, d) in cases})
    for i in (0, len(ops1) // 2, len(ops1) - 1):
        chk.sample({"op": ops1[i][:160], "impl": c1.lines[i][:200]})
    nd = (len(diffs1) if diffs1 else 0) + (len(diffs2) if diffs2 else 0)
    chk.notes["correspondence_diffs"] = nd if diffs1 is not None else None
    if (not proof_ok or diffs1 is None or nd) and bad == 0:
        if nd:
            ops, d_, c_, m_ = (ops1, diffs1, c1, m1) if diffs1 else (ops2, diffs2, c2, m2)
            i = d_[0]
            chk.violation("correspondence broken: model and implementation differ on %d ops; the property oracle found no failing input.\nfirst: %s\n impl: %s\n model: %s"
                          % (nd, ops[i][:200], c_.lines[i][:200], m_.lines[i][:200]),
                          ["# correspondence Encoding.buildHostname/serverExtract vs encoding.c no longer checks"] + [ops[j] for j in d_[:5]], no_input=True)
        else:
            chk.violation("proof obligation no longer checks: " + chk.proof_detail,
                          ["# theorems of Props/C08.lean: " + ", ".join(vlib.prop_theorems("C08")), "# " + chk.proof_detail.replace("\n", "\n# ")], no_input=True)


def client_builders(chk, exe_pure):
    """the client's real message builders (send_chunk, send_ping, send_version, send_login, send_fragsize_probe,
    send_set_downstream_fragsize) run in h_cli for long sequences in one process; every emitted query must satisfy the
    property and the real server-side extraction must return what was sent.  Returns (#bad, #names checked)."""
    import struct
    import iodproto as P
    import iodclient as C
    rng, thorough = chk.rng, chk.tier == "thorough"
    exe = vlib.build_cli()
    cfgs = []
    Ls = [100, 101, 119, 177, 254, 255] + [rng.randrange(100, 256) for _ in range(10 if thorough else 3)]
    for L in Ls:
        for c in CODECS:
            tl = rng.choice([3, min(128, L - 24), rng.randrange(3, min(128, L - 24) + 1)])
            cfgs.append((L, c, gen_domain(rng, tl), rng.randrange(16), bytes(rng.randrange(1, 256) for _ in range(rng.choice([0, 5, 32, 40]))),
                         bytes(rng.randrange(256) for _ in range(rng.choice([1, 2, 50, 300, 700])))))
    bad, names, ext_ops, ext_meta = 0, 0, [], []
    for L, codec, td, uid, pw, payload in cfgs:
        nchunks = 80
        f1, f2, ver, seed = rng.choice([2, 100, 1200, 2047]), rng.choice([2, 100, 1200, 65535]), rng.choice([0x502, 0, 0xffffffff]), rng.randrange(1 << 31)
        ops = ["ccfg %s %s %d 10 T 0 5 %d 1 0" % (hx(td), hx(pw), L, uid), "cenc " + codec, "start sendchunks %d %s" % (nchunks, hx(payload)),
               "start sendone ping 0", "start sendone probe %d" % f1, "start sendone setfrag %d" % f2, "start sendone version %d" % (ver if ver < 2 ** 31 else ver - 2 ** 32),
               "start sendone login %d" % seed, "start sendone ping 0"]
        r = vlib.run_lines(exe, ops)
        if r.rc != 0 or len(r.lines) < len(ops):
            chk.violation("client harness aborted (sanitizer or crash, rc=%d) in the message builders:\n%s" % (r.rc, r.stderr[-1200:]), ops, key="c08:abort")
            bad += 1
            continue
        rs = 0          # rand_seed after client_init with an empty rand() queue
        items = []      # (query bytes, header length, codec, expected payload, exact length or None)
        ev = r.lines[2].split(" | ")
        txs = [unhx(e.split()[1]) for e in ev if e.startswith("tx ")]
        sent = [int(e.split()[1]) for e in ev if e.startswith("sentlen ")]
        for qb, n in zip(txs, sent):
            items.append((qb, 5, codec, payload, n, "data chunk"))
        def one(line):
            t = [unhx(e.split()[1]) for e in line.split(" | ") if e.startswith("tx ")]
            return t[0] if t else None
        rsb = struct.pack(">H", rs); items.append((one(r.lines[3]), 1, "b32", bytes([uid, 0]) + rsb, None, "ping")); rs += 1
        probe = bytearray([max(1, rs & 0xff)] * 256); probe[1] = max(1, (rs >> 8) & 0xff)
        items.append((one(r.lines[4]), 5, codec, bytes(probe), None, "fragsize probe")); rs += 1
        items.append((one(r.lines[5]), 1, "b32", bytes([uid]) + struct.pack(">H", f2) + struct.pack(">H", rs), None, "set fragsize")); rs += 1
        items.append((one(r.lines[6]), 1, "b32", struct.pack(">I", ver) + struct.pack(">H", rs), None, "version")); rs += 1
        items.append((one(r.lines[7]), 1, "b32", bytes([uid]) + C.login_hash(pw, seed) + struct.pack(">H", rs), None, "login")); rs += 1
        items.append((one(r.lines[8]), 1, "b32", bytes([uid, 0]) + struct.pack(">H", rs), None, "ping"))
        for k, (qb, h, cdc, expect, n, what) in enumerate(items):
            names += 1
            ctx = "(%s #%d, codec=%s L=%d |td|=%d)" % (what, k + 1, cdc, L, len(td))
            why = None
            if qb is None:
                why = "no query was sent"
            else:
                try:
                    m = P.parse(qb)
                    name = m["qd"][0][0]
                except P.Malformed as e:
                    why = "the query is not a well-formed DNS message: %s" % e
            if why is None:
                if len(name) > L:
                    why = "name of %d characters exceeds L=%d" % (len(name), L)
                elif not legal_name(name):
                    why = "illegal DNS name %r" % name[:60]
                elif not name.endswith(b"." + td):
                    why = "name %r does not end in the tunnel domain" % name[:60]
                elif n is not None and not (1 <= n <= len(expect)):
                    why = "builder reported %d of %d payload bytes" % (n, len(expect))
            if why:
                bad += 1
                chk.violation("C08 fails on the implementation: %s %s" % (why, ctx), ops, key="c08:cli:" + why[:24])
                continue
            dlen = len(name) - len(td)
            ext_ops.append("extract %s %d %d %s" % (cdc, h, dlen, hx(name)))
            ext_meta.append((expect, n, ctx, ops, name, td))
            ext_ops.append("qdl %s %s" % (hx(name), hx(td)))
            ext_meta.append(("qdl", dlen, ctx, ops, name, td))
            if td.count(b".") >= 1:
                ext_ops.append("qdl %s %s" % (hx(name), hx(b"*." + td.split(b".", 1)[1])))
                ext_meta.append(("qdl", dlen, ctx + " wildcard-served", ops, name, td))
    c = vlib.run_parallel(exe_pure, ext_ops)
    for op, line, (expect, n, ctx, ops, name, td) in zip(ext_ops, c.lines, ext_meta):
        if expect == "qdl":
            if parse(line).get("r") != str(n):
                bad += 1
                chk.violation("C08 fails on the implementation: the server computes data length %s for a name whose data part has %d characters %s" % (parse(line).get("r"), n, ctx), ops + ["# " + op], key="c08:cli:qdl")
            continue
        got = parse(line).get("out")
        got = unhx(got) if got else b""
        ok = (got == expect[:n]) if n is not None else (len(got) >= 1 and got == expect[:len(got)])
        if not ok:
            bad += 1
            chk.violation("C08 fails on the implementation: server extraction yields %s, sent was %s (reported length %s) %s" % (hx(got)[:60], hx(expect)[:60], n, ctx), ops + ["# " + op], key="c08:cli:extract")
    return bad, names


def replay(chk, path):
    exe = vlib.build_harness("h_pure", ["h_pure.c"], vlib.PURE_OBJS)
    ops = [l.strip() for l in open(path) if l.strip() and not l.startswith("#")]
    c = vlib.run_lines(exe, ops)
    for o, l in zip(ops, c.lines):
        print(o[:100], "->", l[:200])
    return 1 if c.rc else 0
