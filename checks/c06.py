"""C06 — the client survives arbitrary replies (memory safety, termination).  PARTIAL (see DESIGN.md and Props/C06.lean).

World runs in which the path to the REAL client (h_cli, ASan + UBSan, no recover, 60 s per-op deadline) is hostile: during the whole handshake
(every one of its ~15 steps) and during tunnelling a share of the server's answers is replaced or followed by hostile datagrams — answers with
the right id/name but hostile payloads under every downstream codec prefix and record type, directed malformations of real answers (RDLENGTH
games, truncations, compression loops, counts), 250+ MX/SRV records with odd preferences, bad TXT chunking, oversized answers, raw-mode
frames, replies to older/unknown ids, random bytes.  Oracle: no sanitizer report, crash or timeout; a reply that matches none of the three most
recent query ids (or not the expected first character) causes no tun write and leaves the reassembly state unchanged.
Theorems: Props/C06.lean (answer decoding never faults and uses the datagram's own bytes only; the login reply path runs at most two
commands made of validated text).

`hostile_server_part`: the same client against a fully hostile but PLAUSIBLE server (checks/fakesrv.py) that plays along with the whole protocol —
so that what lies BEHIND an answer that changes the client's view of the session (another user id, another seed, …) is reached, which a hostile
path in front of the REAL server cannot do (the real server refuses what follows).  Oracle: no sanitizer report / crash / hang (60 s per op); every
`system()` is a validated C13 command; the Lean handshake + tunnel model is diffed on every run."""
import os, random, struct
import vlib
import iodproto as P
import iodclient as C
import wiregen
import world
import worldcheck as W

LEVEL = "proof"
STRINGS = [b"VACK", b"VNAK", b"VFUL", b"LNAK", b"BADIP", b"BADLEN", b"BADCODEC", b"BADFRAG", b"Base32", b"Base64", b"Base64u", b"Base128", b"Raw", b"Lazy", b"Immediate", b"I"]


class HostileWorld(W.FaultyWorld):
    hostility = 0.35

    def hostile_payload(self, first):
        rng = self.rng
        k = rng.random()
        if k < 0.25:
            s = rng.choice(STRINGS)
            return s + bytes(rng.randrange(256) for _ in range(rng.choice([0, 1, 4, 5, 9, 16, 17, 100])))
        if k < 0.4:
            return bytes([0x80 | rng.randrange(128), rng.randrange(256)]) + bytes(rng.randrange(256) for _ in range(rng.choice([0, 1, 100, 1200, 4094])))
        if k < 0.5:
            n = rng.choice([2, 100, 2047, 2048])          # a fragment-size probe answer with a lying length / broken pattern
            return struct.pack(">H", rng.choice([n, n + 1, 0, 65535])) + bytes([107]) + bytes((17 + 107 * i) & 0xff for i in range(max(0, n - 3)))
        if k < 0.6:
            return rng.choice([b"10.0.0.1-10.0.0.2-1130-27", b"10.0.0.1-10.0.0.2 ;id-1130-27", b"1-2-99999999999-33", b"-" * 300, b"A" * 65 + b"-B-1-1"])
        if k < 0.7:
            return bytes(rng.randrange(256) for _ in range(rng.choice([4095, 4096, 4097, 8000])))
        return bytes(rng.randrange(256) for _ in range(rng.randrange(0, 64)))

    def tamper(self, answer):
        rng = self.rng
        if rng.random() > self.hostility or answer[:3] == C.RAW_HEADER[:3]:
            return [answer]
        out = []
        qs = getattr(self, "last_queries", [])
        q = rng.choice(qs[-3:]) if qs and rng.random() < 0.8 else (rng.choice(qs) if qs else None)
        k = rng.random()
        try:
            pq = P.parse(q) if q and q[:3] != C.RAW_HEADER[:3] else None
        except P.Malformed:
            pq = None
        if pq and rng.random() < 0.04:
            # two consecutive fragments of one new downstream packet, each an MX/SRV answer that decodes to far more than one 4 KiB answer could
            # carry (the MX/SRV path is not bounded by the 4 KiB rdata buffer): reassembly must stay inside its buffer
            pq2 = dict(pq); pq2["qd"] = [(pq["qd"][0][0], rng.choice([15, 33]), 1)]
            seq, dn = rng.randrange(8), rng.choice("TV")
            n = rng.choice([20000, 36000, 50000])
            for frag, last in ((0, 0), (1, rng.choice([0, 1]))):
                pay = bytes([0x80 | rng.randrange(128), (seq << 5) | (frag << 1) | last]) + bytes(rng.randrange(256) for _ in range(n))
                out.append(C.server_answer(pq2, pay, dn))
            return out
        if k < 0.45 and pq:
            first = pq["qd"][0][0][:1]
            pay = self.hostile_payload(first)
            dn = rng.choice("TSUVR")
            a = C.server_answer(pq, pay, dn, rcode=rng.choice([0, 0, 0, 2, 3, 5]))
            if rng.random() < 0.3:
                # the same content under another record type than asked
                pq2 = dict(pq); pq2["qd"] = [(pq["qd"][0][0], rng.choice([10, 16, 5, 15, 33, 1, 65399]), 1)]
                a = C.server_answer(pq2, pay, dn)
            out.append(a)
        elif k < 0.7:
            m = wiregen.mutations(rng, answer, 8) + wiregen.rdlength_games(rng, answer)
            if rng.random() < 0.06:
                m = (wiregen.pointer_cycle(rng, answer, 8100) if rng.random() < 0.5 else wiregen.pointer_chains(rng, answer, (rng.choice([200, 3000, 8100]),))) or m      # very long chains of backward pointers (stack depth)
            out.append(rng.choice(m) if m else answer)
        elif k < 0.8 and pq:
            # many MX/SRV records: complete preference tables (10, 20, … exactly n records), odd preferences, targets that are compression
            # pointers to one long name (a small datagram that decodes to a lot), well-formed up to the last byte
            name, qt = pq["qd"][0][0], rng.choice([15, 33])
            n = rng.choice([1, 20, 30, 60, 249, 250, 251, 300])
            exact = rng.random() < 0.6
            longhost = b".".join([b"h" + bytes(rng.choice(b"abcdefghijklmnopqrstuvwxyz012345") for _ in range(56))] + [bytes(rng.choice(b"abcdefghijklmnopqrstuvwxyz012345") for _ in range(57)) for _ in range(3)]) + b".xy"
            msg = P.header(pq["id"], 0x8400, 1, n) + P.question(name, qt)
            first_target = None
            for i in range(n):
                pref = 10 * (i + 1) if exact else rng.choice([10 * (i + 1), 10 * (i + 1) + 1, 0, 2490, 2500, 65530])
                pre = struct.pack(">H", pref) + (struct.pack(">HH", 10, 5060) if qt == 33 else b"")
                if first_target is None or rng.random() < 0.1:
                    rd = pre + P.wire_name(longhost if rng.random() < 0.7 else b"hab.xy")
                    target_off = len(msg) + 2 + 10 + len(pre)
                    if first_target is None:
                        first_target = target_off
                else:
                    rd = pre + bytes([0xc0 | (first_target >> 8), first_target & 0xff])
                msg += P.rr(b"\xc0\x0c", qt, rd)
                if len(msg) > 60000:
                    break
            out.append(msg)
        elif k < 0.88 and pq:
            # TXT with bad chunking
            name = pq["qd"][0][0]
            rd = bytes([rng.choice([0, 1, 200, 255])]) + bytes(rng.randrange(256) for _ in range(rng.choice([0, 1, 199, 300])))
            out.append(P.answer(pq["id"], name, 16, [rd]))
        elif k < 0.94:
            out.append(C.RAW_HEADER[:3] + bytes([rng.randrange(256)]) + bytes(rng.randrange(256) for _ in range(rng.choice([0, 1, 16, 100, 5000]))))
        else:
            out.append(bytes(rng.randrange(256) for _ in range(rng.choice([0, 1, 11, 12, 40, 600, 65000]))))
        if rng.random() < 0.6:
            out.append(answer)         # the genuine answer still arrives (a spoofer races the server)
        rng.shuffle(out)
        return out


def one(args):
    seed, cfg, real_z = args
    rng = random.Random(seed)
    w = HostileWorld(rng, vlib.build_srv(), vlib.build_cli(), relay=world.Relay(rng=rng), real_z=real_z, qtype=cfg["qtype"], downenc=cfg["downenc"], lazy=cfg["lazy"],
                     maxlen=cfg["maxlen"], seltimeout=cfg["seltimeout"], raw_mode=cfg["raw_mode"], autofrag=cfg["autofrag"], fragsize=cfg["fragsize"])
    hs = w.handshake(200000)
    offered = []
    if hs == ("ret", 0) and not w.dead():
        w.start_tunnel()
        for i in range(6):
            f = W.frame_to_client(rng, rng.choice(W.SIZES)); offered.append(f); w.offer_to_server(f)
            g = W.frame_to_server_side(rng, rng.choice(W.SIZES)); w.offer_to_client(g)
            w.settle(rng.choice([300, 3000]))
            if w.dead():
                break
    # unmatched replies: `rq` id not among the client's three most recent ids -> no tun write, reassembly unchanged
    unmatched_bad = None
    prev_in, cids = None, None
    for op, line in zip(w.c.ops, w.c.lines):
        ev, sel, st = world.parse_cli(line)
        if op.startswith("ans ") and cids is not None and st.get("conn") == "1":
            rq = next((e for e in ev if e[0] == "rq"), None)
            if rq is not None and rq[2] not in cids and st.get("run") == "1" and "sps" in st:
                if any(e[0] == "tunw" for e in ev) or (prev_in is not None and st.get("in") != prev_in):
                    unmatched_bad = (op[:120], line[:300])
        if st:
            prev_in, cids = st.get("in"), st.get("cid", "").split("/")
    d = w.dead()
    out = {"seed": seed, "cfg": cfg, "handshake": hs, "dead": (("server" if w.s.dead else "client"), d[0][:200], d[1], d[2][-1500:]) if d else None,
           "log": w.replay_lines(), "cops": list(w.c.ops), "clines": list(w.c.lines), "ncops": len(w.c.ops), "tunw_c": [f for _, f in w.tunw_c], "offered": offered, "unmatched_bad": unmatched_bad,
           "slowest": 0.0}
    w.close()
    return out


def abort_kind(stderr):
    """what distinguishes one abort from another: the sanitizer's own line, without the scratch build path and the offending values"""
    import re
    for l in stderr.split("\n"):
        if "runtime error:" in l:
            m = re.search(r"([\w.]+\.[ch]:\d+):\d+: runtime error: (.*)", l)
            return ("%s %s" % (m.group(1), re.sub(r"-?\d+", "N", m.group(2))))[:90] if m else l[-90:]
        if "ERROR: AddressSanitizer" in l:
            m = re.search(r"AddressSanitizer: (\S+)", l)
            frame = next((m2 for m2 in (re.search(r" in (\w+) .*?([\w.]+\.[ch]:\d+)", x) for x in stderr.split("\n") if x.strip().startswith("#") and "libsanitizer" not in x) if m2), None)
            return ("asan %s %s" % (m.group(1) if m else "?", "%s %s" % (frame.group(1), frame.group(2)) if frame else ""))[:90]
        if "TIMEOUT" in l:
            return "timeout"
    return "crash"


def same_abort(ops, kind):
    r = vlib.run_lines(vlib.build_cli(), ops, timeout=120, env_extra={"VERIF_LINEBUF": "1"})
    return r.rc != 0 and abort_kind(r.stderr) == kind


def minimise(ops, kind, budget=400):
    """greedy removal of single client ops (replies the client ignored, duplicates, frames) that keeps the same abort; the op list of a
    handshake is a chain (every query id and name follows from the ones before), so most ops cannot go"""
    if kind == "timeout" or len(ops) > budget or not same_abort(ops, kind):
        return ops
    i = len(ops) - 2
    while i >= 2:
        cand = ops[:i] + ops[i + 1:]
        if same_abort(cand, kind):
            ops = cand
        i -= 1
    return ops


def hostile_server_part(chk):
    """runs of the REAL client against checks/fakesrv.FakeServer; returns the runs (for the client-model diff)"""
    import fakesrv, c13
    thorough = chk.tier == "thorough"
    n, steps = (4000, 300) if thorough else (720, 200)
    res = fakesrv.run_batch(chk.seed, n, steps)
    aborts, badcmd, ncmd, rets, srvstats = {}, 0, 0, {}, {}
    for r in res:
        rets[str(r["handshake"])] = rets.get(str(r["handshake"]), 0) + 1
        for k, v in r["srv"].items():
            srvstats[k] = srvstats.get(k, 0) + v
        ncmd += len(r["sys"])
        for cmd in r["sys"]:
            if not c13.command_ok(cmd):
                badcmd += 1
                chk.violation("C06/C13 fails on the implementation: a hostile server made the client run the shell command %r (fake-server run, seed %d)" % (cmd[:200], r["seed"]),
                              ["C " + o for o in r["cops"]], key="c06:fakesrv-cmd")
        if r["dead"]:
            kind = abort_kind(r["dead"][2])
            aborts.setdefault(kind, []).append(r)
    for kind, rs in sorted(aborts.items()):
        r = min(rs, key=lambda x: len(x["cops"]))
        ops = minimise(list(r["cops"]), kind)
        chk.violation("C06 fails on the implementation: the client aborted (rc=%s; sanitizer report, crash or hang) against a hostile but plausible server: %s  [%d of %d fake-server runs; "
                      "shortest: seed %d, user id told %d, configuration %s; replay = its client ops, %d after removing what the abort does not need] on %s\n%s"
                      % (r["dead"][1], kind, len(rs), len(res), r["seed"], r["uid"], r["cfg"], len(ops), r["dead"][0][:160], r["dead"][2][:2600]),
                      ["C " + o for o in ops], key="c06:fakesrv-abort:" + kind)
    neg = {}
    for r in res:
        if r["handshake"] == ("ret", 0):
            k = "qt=%s enc=%s dn=%s lazy=%s conn=%s e0=%s" % tuple(r["state"].get(x) for x in ("qt", "enc", "dn", "lazy", "conn", "e0"))
            neg[k] = neg.get(k, 0) + 1
    chk.notes["hostile_server"] = {"runs": len(res), "client_ops": sum(r["ncops"] for r in res), "queries_answered": sum(r["nq"] for r in res), "handshake_results": rets,
                                   "handshakes_completed": rets.get("('ret', 0)", 0), "distinct_negotiated_settings": len(neg), "tun_writes": sum(r["ntunw"] for r in res),
                                   "tunnel_returned_on_its_own": sum(1 for r in res if r["client_ret"] is not None), "commands_run": ncmd, "unvalidated_commands": badcmd,
                                   "aborts": {k: len(v) for k, v in aborts.items()}, "real_zlib_runs": sum(1 for r in res if r["real_z"]),
                                   "user_ids_told_16_or_more": sum(1 for r in res if r["uid"] > 15), "slowest_op_s": round(max(r["slowest"] for r in res), 2),
                                   "server_answer_kinds": srvstats}
    chk.sample({"hostile server run": res[0]["cfg"], "handshake": str(res[0]["handshake"]), "user id told": res[0]["uid"], "client_ops": res[0]["ncops"]})
    return res


def run(chk):
    rng, thorough = chk.rng, chk.tier == "thorough"
    proof_ok = chk.proofs()
    jobs = [(chk.seed * 6000 + k, W.random_config(rng, {"raw_mode": 1} if k % 7 == 6 else ({"qtype": 65432} if k % 3 == 0 else None)), False) for k in range(480 if thorough else 128)]
    from concurrent.futures import ProcessPoolExecutor
    vlib.build_srv(); vlib.build_cli()
    with ProcessPoolExecutor(16) as ex:
        res = list(ex.map(one, jobs))
    nops, hs_ok = 0, 0
    for r in res:
        nops += r["ncops"]
        hs_ok += 1 if r["handshake"] == ("ret", 0) else 0
        if r["dead"] and r["dead"][0] == "client":
            kind = r["dead"][3].split("runtime error:")[-1].split("\n")[0].strip()[:60] if "runtime error" in r["dead"][3] else ("timeout" if "TIMEOUT" in r["dead"][3] else "asan")
            chk.violation("C06 fails on the implementation: the client aborted (rc=%s; sanitizer report, crash or timeout) on %s\n%s" % (r["dead"][2], r["dead"][1], r["dead"][3]),
                          r["log"], key="c06:abort:" + kind)
        elif r["dead"]:
            chk.violation("server harness aborted in a hostile-client-path world (rc=%s) on %s\n%s" % (r["dead"][2], r["dead"][1], r["dead"][3]), r["log"], key="c06:srv-abort")
        if r["unmatched_bad"]:
            chk.violation("C06 fails on the implementation: a reply matching none of the three most recent query ids changed the client's reassembly state or wrote to tun: %s -> %s" % r["unmatched_bad"],
                          r["log"], key="c06:unmatched")
        for f in r["tunw_c"]:
            if f not in r["offered"]:
                pass        # with the test compression a hostile server CAN inject packets (it is the server); integrity is C01's subject
    chk.cov["evaluations"] = nops
    chk.cov["distinct_nontrivial"] = hs_ok
    chk.cov["traces_validated_against_impl"] = len(res)
    chk.cov["partial"] = True
    chk.cov["rule"] = ("%d world runs with a hostile downstream path (35%% of the answers replaced/accompanied by hostile datagrams during the handshake and the tunnel phase: hostile payloads for "
                       "the query actually outstanding under every codec prefix and record type, malformed variants of the genuine answer, 250+ MX/SRV records, bad TXT chunking, raw frames, random bytes), "
                       "all configurations incl. raw mode and type autodetection, ASan+UBSan client with a 60 s per-op deadline; non-trivial = handshake that still completed" % len(res))
    chk.notes["client_ops"] = nops
    for r in res[:2]:
        chk.sample({"cfg": r["cfg"], "handshake": str(r["handshake"]), "client_ops": r["ncops"]})
    # directed handshake runs (checks/hs_corr.py): lossy / hostile / relay-family / wrong-password / lost-raw-login handshakes, so that every retry
    # loop and failure exit of client_handshake() is reached; a harness abort there is a C06 violation, every op is diffed against the handshake model
    import hs_corr
    from concurrent.futures import ProcessPoolExecutor
    with ProcessPoolExecutor(min(16, os.cpu_count() or 4)) as ex:
        res2 = list(ex.map(hs_corr.one, [(chk.seed * 100000 + k,) for k in range(480 if thorough else 160)]))
    rets = {}
    for r in res2:
        rets[str(r["handshake"])] = rets.get(str(r["handshake"]), 0) + 1
        if r["dead"]:
            chk.violation("C06 fails on the implementation: the client harness aborted during a %s handshake (rc=%s) on: %s\n%s" % (r["kind"], r["dead"][1], r["dead"][0], r["dead"][2]),
                          ["C " + o for o in r["cops"]], key="c06:hs-abort")
    chk.notes["directed_handshakes"] = {"runs": len(res2), "results": rets}
    # the client against a hostile server that plays along (checks/fakesrv.py)
    res3 = hostile_server_part(chk)
    chk.cov["evaluations"] = nops + sum(r["ncops"] for r in res3)
    chk.cov["distinct_nontrivial"] = hs_ok + sum(1 for r in res3 if r["handshake"] == ("ret", 0))
    chk.cov["traces_validated_against_impl"] = len(res) + len(res2) + len(res3)
    chk.cov["rule"] += ("; plus %d runs against a scripted hostile server that answers every query of the whole protocol with adversarial but plausible fields (user id, seed, "
                        "login text, addresses, echoes, codec / option names, probe answers, data headers, lengths to 64 KiB, stale ids, other record types, raw frames), "
                        "so that the handshake completes and the tunnel phase is reached whatever the client was told" % len(res3))
    W.report_client_model(chk, res + res2 + [r for r in res3 if not r["real_z"]], "C06")
    W.report_server_model(chk, res, "C06")
    if not chk.violations and not proof_ok:
        chk.violation("proof obligation no longer checks: " + chk.proof_detail,
                      ["# theorems of Props/C06.lean: " + ", ".join(vlib.prop_theorems("C06")), "# " + chk.proof_detail.replace("\n", "\n# ")], no_input=True)


def replay(chk, path):
    lines = [l.rstrip("\n") for l in open(path) if l.strip() and not l.startswith("#")]
    if not any(l.startswith("S ") or l.startswith("C ") for l in lines):
        # plain client ops (corpus/C06/*.ops)
        r = vlib.run_lines(vlib.build_cli(), lines, env_extra={"VERIF_LINEBUF": "1"})
        for o, l in zip(lines, r.lines):
            print("C", o[:90], "->", l.split(" | st")[0][:200])
        if r.rc:
            print(r.stderr[:3000])
        chk.cov.update({"evaluations": 1, "distinct_nontrivial": 0})
        return 1 if r.rc else 0
    d = W.replay_world(path)
    chk.cov.update({"evaluations": 1, "distinct_nontrivial": 0})
    return 1 if (d[0] or d[1]) else 0
