"""Generators of DNS datagrams for the S1 checks (C05, C06, C10, C12): valid messages built with the
independent library plus directed malformations aimed at the end of the datagram (where stale-buffer reads
happen), at length fields and at compression pointers."""
import struct
import iodproto as P

RESIDUES = ["00", "ff", "0673656372657403743031036f726700", "3f" + "41" * 63, "c00c"]


def valid_queries(rng, n):
    out = []
    for _ in range(n):
        labs = [bytes(rng.choice(b"abcxyz019-") for _ in range(rng.choice([1, 2, 5, 30, 62, 63]))) for _ in range(rng.randrange(1, 5))]
        name = b".".join(labs + [b"t01", b"org"])[:250]
        out.append(P.query(rng.randrange(1, 65536), name, rng.choice([P.T_NULL, P.T_TXT, P.T_MX, P.T_CNAME, P.T_A, P.T_SRV, P.T_PRIVATE, P.T_NS]),
                           edns=rng.random() < 0.5))
    # names around the longest legal one (253 characters = 255 bytes on the wire), built by hand (labels of legal size)
    for total in (251, 252, 253, 254, 255, 256, 257, 260):
        rest, labs = total, []
        while rest > 0:
            k = min(63, rest)
            labs.append(bytes(rng.choice(b"abcxyz019") for _ in range(k)))
            rest -= k + 1
        wire = b"".join(bytes([len(l)]) + l for l in labs) + b"\0"
        out.append(struct.pack(">HHHHHH", rng.randrange(1, 65536), 0x0100, 1, 0, 0, 0) + wire + struct.pack(">HH", rng.choice([10, 16, 1]), 1))
    return out


def valid_answers(rng, n):
    out = []
    for _ in range(n):
        qname = bytes(rng.choice(b"abcxyz019") for _ in range(rng.randrange(3, 40))) + b".t01.org"
        t = rng.choice([P.T_NULL, P.T_PRIVATE, P.T_TXT, P.T_MX, P.T_SRV, P.T_CNAME, P.T_A])
        pay = bytes(rng.randrange(256) for _ in range(rng.choice([2, 3, 10, 100, 200, 600])))
        if t in (P.T_NULL, P.T_PRIVATE):
            m = P.answer(rng.randrange(65536), qname, t, [pay])
        elif t == P.T_TXT:
            m = P.answer(rng.randrange(65536), qname, t, [P.txt_rdata(b"t" + P.enc("b32", pay)[:600])])
        elif t in (P.T_CNAME, P.T_A):
            host = b"h" + P.dotify(P.enc("b32", pay)[:150]) + b".xy"
            m = P.answer(rng.randrange(65536), qname, t, [P.wire_name(host.replace(b"..", b"."))], atype=P.T_CNAME)
        else:
            rds = []
            for i in range(rng.randrange(1, 5)):
                host = b"h" + P.dotify(P.enc("b32", pay)[:100]) + b".xy"
                pre = struct.pack(">H", 10 * (i + 1)) + (struct.pack(">HH", 10, 5060) if t == P.T_SRV else b"")
                rds.append(pre + P.wire_name(host.replace(b"..", b".")))
            m = P.answer(rng.randrange(65536), qname, t, rds)
        out.append(m)
    return out


def mutations(rng, m, budget):
    """directed malformations of one valid message"""
    out = []
    L = len(m)
    # truncations: every length near structure boundaries, sampled elsewhere
    cuts = set(range(max(0, L - 24), L)) | set(range(10, min(L, 40))) | {rng.randrange(L) for _ in range(6)}
    for c in sorted(cuts):
        out.append(m[:c])
    # pointer games at the question name
    for tgt in (L, L - 1, L + 1, L - 2, 12, 13, 0x3fff, L + 100):
        if 0 <= tgt <= 0x3fff:
            out.append(m[:12] + bytes([0xc0 | (tgt >> 8), tgt & 0xff]) + m[-4:])
    # chains of backward pointers around the jump budget; now and then a very long one
    out += pointer_chains(rng, m, (9, 10, 11, 12) if rng.random() < 0.3 else ())
    if rng.random() < 0.03:
        out += pointer_chains(rng, m, (60, 2000, 8100)) + pointer_cycle(rng, m, rng.choice([5, 100, 8100]))
    # a pointer as the very last two bytes, and as the last byte only
    out.append(m[:12] + b"\x01a" + bytes([0xc0, L & 0xff])[:2])
    out.append(m[:12] + b"\x01a\xc0")
    # label length bytes that overrun / are reserved
    for lb in (0x3f, 0x40, 0x41, 0x7f, 0x80, 0xbf, 0xc0, 0xff, 5):
        for tail in (b"", b"ab", b"abcdefgh"):
            out.append(m[:12] + bytes([lb]) + tail)
        mm = bytearray(m); mm[12] = lb; out.append(bytes(mm))
    # counts
    for off in (4, 6, 8, 10):
        for v in (0, 1, 2, 255, 0xffff):
            mm = bytearray(m); mm[off:off + 2] = struct.pack(">H", v); out.append(bytes(mm))
    # byte flips, preferably late in the message (RDLENGTH, TXT chunk lengths, preferences live there)
    for _ in range(budget):
        mm = bytearray(m)
        pos = rng.randrange(max(0, L - 40), L) if rng.random() < 0.5 and L > 1 else rng.randrange(L)
        mm[pos] = rng.choice([0, 1, 0x3f, 0x40, 0x7f, 0x80, 0xc0, 0xff, mm[pos] ^ (1 << rng.randrange(8)), rng.randrange(256)])
        if rng.random() < 0.3:
            mm = mm[:rng.randrange(max(1, L - 20), L + 1)]
        out.append(bytes(mm))
    return out


def pointer_cycle(rng, m, n):
    """as pointer_chains, but the chain is closed into a cycle by ONE forward pointer (the first link points to the last): only forward jumps are
    what a careless budget would count, so the whole chain is walked once per unit of budget"""
    tail = m[12:][-4:] if len(m) >= 16 else b"\x00\x0a\x00\x01"
    a = 12 + 2 + 4
    last = a + 2 * n                       # offset of the last link
    if last > 0x3fff:
        return []
    chain = bytes([0xc0 | (last >> 8), last & 0xff])      # link 0 (at a): forward to the last link
    for i in range(1, n + 1):
        tgt = a + 2 * (i - 1)
        chain += bytes([0xc0 | (tgt >> 8), tgt & 0xff])  # link i (at a+2i): back to link i-1
    return [m[:12] + bytes([0xc0 | (last >> 8), last & 0xff]) + tail + chain]


def pointer_chains(rng, m, lengths):
    """the question name is a compression pointer to the END of a chain of n backward pointers (each points to the one before it, the first to a
    real name): every jump goes strictly backwards, so only a jump budget - not a "no forward pointers" rule - bounds the work"""
    out = []
    for n in lengths:
        tail = m[12:][-4:] if len(m) >= 16 else b"\x00\x0a\x00\x01"
        a = 12 + 2 + 4                                  # where the real name sits
        body = b"\x03abc\x01t\x00"
        chain, tgt = b"", a
        for i in range(n):
            off = a + len(body) + 2 * i
            if tgt > 0x3fff:
                break
            chain += bytes([0xc0 | (tgt >> 8), tgt & 0xff])
            tgt = off
        if tgt > 0x3fff:
            continue
        out.append(m[:12] + bytes([0xc0 | (tgt >> 8), tgt & 0xff]) + tail + body + chain)
    return out


def rdlength_games(rng, m):
    """set the first answer's RDLENGTH to values around what is present"""
    out = []
    try:
        p = P.parse(m)
    except P.Malformed:
        return out
    if not p["an"]:
        return out
    # locate: after question (name + 4) comes c00c + 10 header bytes
    qlen = len(P.wire_name(p["qd"][0][0])) + 4
    rl_off = 12 + qlen + 2 + 8
    have = len(m) - (rl_off + 2)
    for v in (0, 1, 2, have - 1, have, have + 1, have + 2, have + 40, 4095, 4096, 4097, 0xffff):
        if 0 <= v <= 0xffff:
            mm = bytearray(m); mm[rl_off:rl_off + 2] = struct.pack(">H", v)
            out.append(bytes(mm))
            out.append(bytes(mm[:rl_off + 2 + min(have, 2)]))
    return out
