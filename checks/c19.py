"""C19 — login response follows the documented challenge-response for all inputs.

Theorems: Props/C19.lean (word-wise ntohl/xor/htonl == byte-wise xor with the big-endian challenge; dependence of
the hashed block on every byte; raw-mode +-1 blocks differ).  Correspondence: md5.c and login_calculate vs the Lean
MD5/loginCalcC.  Oracle: Python hashlib (independent MD5) on the documented block."""
import hashlib
import vlib
from vlib import hx, unhx


def pad32(typed):
    cut = typed.split(b"\0")[0][:32]
    return cut + b"\0" * (32 - len(cut))


def oracle(op, line):
    t = op.split()
    if not line.startswith("out="):
        return ("no answer: " + line, None, None)
    got = line[4:]
    if t[0] == "md5":
        want = hashlib.md5(unhx(t[1])).hexdigest()
        if got != want:
            return ("md5 of %d bytes is %s, independent MD5 says %s" % (len(unhx(t[1])), got, want), None, "c19:md5")
        return (None, ("m", len(unhx(t[1]))), None)
    if t[0] == "login":
        seed = int(t[1]) % (1 << 32)
        pw = pad32(unhx(t[2]))
        block = bytes(a ^ b for a, b in zip(pw, seed.to_bytes(4, "big") * 8))
        want = hashlib.md5(block).hexdigest()
        if got != want:
            return ("login response for challenge %#x is %s, documented md5(pass32 xor challenge x8) is %s" % (seed, got, want), None, "c19:login")
        return (None, ("l", seed % 97, len(unhx(t[2]))), None)
    return (None, None, None)


def run(chk):
    rng, thorough = chk.rng, chk.tier == "thorough"
    ops = ["md5selftest"]
    for n in list(range(0, 201)) + [255, 256, 257, 1000]:
        for _ in range(3 if thorough else 1):
            ops.append("md5 " + hx(bytes(rng.randrange(256) for _ in range(n))))
        ops.append("md5 " + hx(b"\xff" * n))
    seeds = [0, 1, 2, 0x7fffffff, 0x80000000, 0x80000001, 0xffffffff, 0xfffffffe, 0x01020304, 0xff000000, 0x00ff0000, 0x0000ff00, 0x000000ff]
    for _ in range(4000 if thorough else 600):
        n = rng.choice([0, 1, 2, 31, 32, 33, 40, rng.randrange(0, 41)])
        pw = bytes(rng.randrange(1, 256) if rng.random() < 0.97 else 0 for _ in range(n))
        sd = rng.choice(seeds) if rng.random() < 0.5 else rng.randrange(1 << 32)
        if rng.random() < 0.2:
            sd -= 1 << 32          # the C takes a signed int
        ops.append("login %d %s" % (sd, hx(pw)))
    # single-byte and single-bit sensitivity of the first 32 bytes, insensitivity beyond
    base = bytes(rng.randrange(1, 256) for _ in range(40))
    for i in range(40):
        for bit in (0, 7):
            v = bytearray(base); v[i] ^= 1 << bit
            if 0 not in v:
                ops.append("login 305419896 " + hx(bytes(v)))
    rule = ("md5: every length 0..200 (+255..257,1000) random and all-0xFF content; login: passwords of 0..40 bytes with boundary and random "
            "challenges (signed and unsigned forms), single-bit changes of each of 40 password bytes. non-trivial = answer equals hashlib's; "
            "distinct by (kind, length, challenge class)")
    c, m, diffs, bad = vlib.pure_check(chk, ops, lambda o, l: (None, None, None) if o == "md5selftest" else oracle(o, l), rule,
                                       "Login.md5/loginCalcC vs md5.c/login.c")
    if c.lines and c.lines[0] != "bad-op":
        pass
    chk.assumptions.append("raw-mode challenge+1/-1 call sites (client.c, iodined.c) are exercised by the session harness checks (C03), here the blocks are proved distinct")


def replay(chk, path):
    return vlib.pure_replay(chk, path, oracle)
