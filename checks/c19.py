"""C19 — login response follows the documented challenge-response for all inputs.

Theorems: Props/C19.lean (word-wise ntohl/xor/htonl == byte-wise xor with the big-endian challenge; dependence of
the hashed block on every byte; raw-mode +-1 blocks differ).  Correspondence: md5.c and login_calculate vs the Lean
MD5/loginCalcC.  Oracle: Python hashlib (independent MD5) on the documented block."""
import hashlib
import vlib
from vlib import hx, unhx


def pad32(typed):
    cut = typed.split(b"\0")[0][:32]
    return cut + b"\0" * (32 - len(cut))


def oracle(op, line):
    t = op.split()
    if not line.startswith("out="):
        return ("no answer: " + line, None, None)
    got = line[4:]
    if t[0] == "md5":
        want = hashlib.md5(unhx(t[1])).hexdigest()
        if got != want:
            return ("md5 of %d bytes is %s, independent MD5 says %s" % (len(unhx(t[1])), got, want), None, "c19:md5")
        return (None, ("m", len(unhx(t[1]))), None)
    if t[0] == "login":
        seed = int(t[1]) % (1 << 32)
        pw = pad32(unhx(t[2]))
        block = bytes(a ^ b for a, b in zip(pw, seed.to_bytes(4, "big") * 8))
        want = hashlib.md5(block).hexdigest()
        if got != want:
            return ("login response for challenge %#x is %s, documented md5(pass32 xor challenge x8) is %s" % (seed, got, want), None, "c19:login")
        return (None, ("l", seed % 97, len(unhx(t[2]))), None)
    return (None, None, None)


def session_part(chk):
    """the call sites: the real server (h_srv) must accept exactly md5-login(challenge) in DNS mode and md5-login(challenge+1) in raw
    mode and answer raw mode with md5-login(challenge-1); the real client (h_cli) must send exactly those for every password.
    The expected values come from hashlib on the documented block."""
    import struct, random
    import iodclient as C
    import iodproto as P
    import srvgen
    rng, thorough = chk.rng, chk.tier == "thorough"
    bad, n = 0, 0
    srv = vlib.build_srv()
    cli = vlib.build_cli()
    seeds = [0, 1, 0x7fffffff, 0x7ffffffe, 0x12345678] + [rng.randrange(1 << 31) for _ in range(6 if thorough else 2)]
    pws = [b"", b"a", b"secret", bytes(range(1, 32)), bytes(range(1, 33)), bytes(range(1, 41)), b"l\xc3\xb6senord", b"\xff" * 32] + \
          [bytes(rng.randrange(1, 256) for _ in range(rng.randrange(0, 41))) for _ in range(8 if thorough else 3)]
    td = b"t.example.com"
    for pw in pws:
        for seed in seeds:
            # ---- server side
            h = srvgen.Harness(srv)
            src = "4:0a630004:5353"
            c = C.Client(td, pw, random.Random(1)); c.seed = seed; c.userid = 0
            h.send("cfg 1 %s 0a000001 27 %s 1130 00000000 0 7f000001 %s" % (vlib.hx(pw), vlib.hx(td), "00" * 15 + "01"))
            h.send("rand %d" % seed)
            st = h.send("q %s 11 10 %s" % (src, vlib.hx(c.version())))
            why = None
            wrong = h.send("q %s 12 10 %s" % (src, vlib.hx(c.login(seed=(seed + 1) & 0xffffffff)))) if st else None
            good = h.send("q %s 13 10 %s" % (src, vlib.hx(c.login()))) if wrong else None
            if good is None:
                why = "server harness aborted: %s" % (h.dead[2][-600:] if h.dead else "?")
            else:
                if not any(e[0] == "ans" and vlib.unhx(e[6]) == b"LNAK" for e in wrong.events):
                    why = "DNS login with the response for challenge+1 was not refused"
                elif not any(e[0] == "ans" and vlib.unhx(e[6]).count(b"-") == 3 for e in good.events):
                    why = "DNS login with md5(pass32 xor challenge x8) was refused"
            if why is None:
                for delta, expect in ((0, False), (2, False), (-1, False), (1, True)):
                    frame = c.raw_frame(0x10, C.login_hash(pw, (seed + delta) & 0xffffffff))
                    st = h.send("dns %s %s" % (src, vlib.hx(frame)))
                    if st is None:
                        why = "server harness aborted: %s" % (h.dead[2][-600:] if h.dead else "?"); break
                    rw = [e for e in st.events if e[0] == "raw"]
                    if expect:
                        want = C.RAW_HEADER[:3] + bytes([0x10]) + C.login_hash(pw, (seed - 1) & 0xffffffff)
                        if not rw or vlib.unhx(rw[0][2]) != want:
                            why = "raw login with the response for challenge+1 was answered with %s, documented answer is the response for challenge-1 (%s)" % (rw[0][2] if rw else "nothing", vlib.hx(want))
                    elif rw:
                        why = "raw login with the response for challenge%+d was accepted" % delta
                    if why:
                        break
            h.close()
            n += 8
            if why:
                chk.violation("C19 fails on the implementation (server, challenge %#x, password of %d bytes): %s" % (seed, len(pw), why), [s_.op for s_ in h.steps], key="c19:srv")
                bad += 1
            # ---- client side
            sd = seed if seed < (1 << 31) else seed - (1 << 32)
            ops = ["ccfg %s %s 255 10 T 0 5 0 1 0" % (vlib.hx(td), vlib.hx(pw)), "start sendone login %d" % sd, "start sendone rawlogin %d" % sd]
            r = vlib.run_lines(cli, ops)
            n += 2
            why = None
            if r.rc or len(r.lines) < 3:
                why = "client harness aborted: " + r.stderr[-600:]
            else:
                tx = [e for e in r.lines[1].split(" | ") if e.startswith("tx ")]
                rt = [e for e in r.lines[2].split(" | ") if e.startswith("rawtx ")]
                try:
                    name = P.parse(vlib.unhx(tx[0].split()[1]))["qd"][0][0]
                    data = P.dec("b32", bytes(ch for ch in name[1:len(name) - len(td) - 1] if ch != 46))
                    if bytes(data[1:17]) != C.login_hash(pw, seed):
                        why = "client's DNS login carries %s, documented response is %s" % (vlib.hx(bytes(data[1:17])), vlib.hx(C.login_hash(pw, seed)))
                except Exception as e:
                    why = "client sent no parsable login query (%s)" % e
                if why is None:
                    want = C.RAW_HEADER[:3] + bytes([0x10]) + C.login_hash(pw, (seed + 1) & 0xffffffff)
                    if not rt or vlib.unhx(rt[0].split()[1]) != want:
                        why = "client's raw login is %s, documented is the response for challenge+1 (%s)" % (rt[0].split()[1] if rt else None, vlib.hx(want))
            if why:
                chk.violation("C19 fails on the implementation (client, challenge %#x, password of %d bytes): %s" % (seed, len(pw), why), ops, key="c19:cli")
                bad += 1
    chk.notes["session_ops"] = n
    return bad, n


def run(chk):
    rng, thorough = chk.rng, chk.tier == "thorough"
    sbad, sn = session_part(chk)
    ops = ["md5selftest"]
    for n in list(range(0, 201)) + [255, 256, 257, 1000]:
        for _ in range(3 if thorough else 1):
            ops.append("md5 " + hx(bytes(rng.randrange(256) for _ in range(n))))
        ops.append("md5 " + hx(b"\xff" * n))
    seeds = [0, 1, 2, 0x7fffffff, 0x80000000, 0x80000001, 0xffffffff, 0xfffffffe, 0x01020304, 0xff000000, 0x00ff0000, 0x0000ff00, 0x000000ff]
    for _ in range(4000 if thorough else 600):
        n = rng.choice([0, 1, 2, 31, 32, 33, 40, rng.randrange(0, 41)])
        pw = bytes(rng.randrange(1, 256) if rng.random() < 0.97 else 0 for _ in range(n))
        sd = rng.choice(seeds) if rng.random() < 0.5 else rng.randrange(1 << 32)
        if rng.random() < 0.2:
            sd -= 1 << 32          # the C takes a signed int
        ops.append("login %d %s" % (sd, hx(pw)))
    # single-byte and single-bit sensitivity of the first 32 bytes, insensitivity beyond
    base = bytes(rng.randrange(1, 256) for _ in range(40))
    for i in range(40):
        for bit in (0, 7):
            v = bytearray(base); v[i] ^= 1 << bit
            if 0 not in v:
                ops.append("login 305419896 " + hx(bytes(v)))
    rule = ("md5: every length 0..200 (+255..257,1000) random and all-0xFF content; login: passwords of 0..40 bytes with boundary and random "
            "challenges (signed and unsigned forms), single-bit changes of each of 40 password bytes. non-trivial = answer equals hashlib's; "
            "distinct by (kind, length, challenge class)")
    c, m, diffs, bad = vlib.pure_check(chk, ops, lambda o, l: (None, None, None) if o == "md5selftest" else oracle(o, l), rule,
                                       "Login.md5/loginCalcC vs md5.c/login.c")
    chk.cov["evaluations"] = chk.cov.get("evaluations", 0) + sn
    # the login call sites live in the session machine: generated sessions (right, wrong and repeated DNS and raw logins, logins on sessions that
    # are already logged in, after expiry, with other ids) through the real loop and the Lean server model
    import srvcheck
    srvcheck.model_only(chk, "C19", runs=24 if thorough else 8, nsteps=300)
    # where the 32-byte block comes from: the real main() of both programs on generated command lines and environments (-P once, repeated with
    # longer / shorter values, attached, IODINE[D]_PASS, the prompt; lengths 0,1,31,32,33,40,79,80,100): the block must be the effective
    # password cut at 32 and ZERO PADDED
    import maincheck
    maincheck.run(chk, "C19")
    chk.cov["rule"] += ("; main(): password block after the real option handling of iodined and iodine (checks/maincheck.py); call sites: real server (h_srv) accepts exactly the documented DNS and raw (challenge+1) responses and answers raw mode with challenge-1, real client "
                        "(h_cli) sends them, for boundary/random challenges x passwords of 0..40 bytes incl. bytes >= 0x80")


def replay(chk, path):
    import maincheck
    if maincheck.is_main_replay(path):
        return maincheck.replay(chk, path)
    return vlib.pure_replay(chk, path, oracle)
