"""C05 — the server survives arbitrary datagrams (memory safety, termination).  PARTIAL (see DESIGN.md and Props/C05.lean).

Theorems: Props/C05.lean (receive path never faults and terminates, bad slots never touch users[], other sessions framed).
Correspondence + sanitizers: the REAL tunnel() loop (h_srv, ASan + UBSan, -fno-sanitize-recover) is fed sessions in which about half of
all datagrams are hostile (every command letter with arbitrary arguments/userids, directed malformations of valid queries, raw frames of
every length, random bytes up to 65507, names of bytes >= 0x80, pointer-only names), interleaved with healthy sessions in every
handshake/transfer state; each op has a 60 s deadline.  A sanitizer report, a crash, a timeout, a refused ping of a healthy session, or any
difference to the Lean model on the same ops is reported."""
import srvcheck

LEVEL = "proof"


def run(chk):
    thorough = chk.tier == "thorough"
    res = srvcheck.run(chk, "C05", which=("C05",), runs=(128 if thorough else 32), nsteps=(900 if thorough else 450), gen_kw={"hostile": 0.5})
    slow = max([r.get("slowest", 0.0) for r in res] or [0.0])
    if slow > 10.0:
        chk.violation("an op took %.1f s in the server loop (bounded time)" % slow, ["# slowest op %.1f s" % slow], no_input=True)
    chk.cov["partial"] = True
    chk.cov["rule"] = "hostile mix 50%: " + chk.cov.get("rule", "")
    chk.notes["unproved"] = ("undefined behaviour of kinds the model does not represent (uninitialised reads, aliasing, libc/zlib internals, stack use) is covered only by "
                             "the ASan/UBSan runs; the byte encoders on hostile names only by those runs")


def replay(chk, path):
    return srvcheck.replay(chk, path, "C05", which=("C05",))
