"""Property monitors over traces of the server harness (ops + answer lines of h_srv).

Each monitor is written from the property text, in terms of what went in (datagrams, tun frames, clock) and what
came out (answers, raw frames, tun writes) plus the per-slot digest; it does not share code with the Lean model.
They are the oracles that look for a concrete failing input on the IMPLEMENTATION's trace (DESIGN.md §2.2).

A monitor is fed steps in order: m.step(op_tokens, events, slots, sel) and collects (step index, message) violations."""
import struct
import iodproto as P
import iodclient as C
from c17 import match_len, lower
import vlib

B32REV = {}
for i, ch in enumerate(P.TABLES["b32"][1]):
    B32REV[ch] = i
    if 97 <= ch <= 122:
        B32REV[ch - 32] = i


def b32v(ch):
    return B32REV.get(ch, 0)


def b32dec(text):
    return P.dec("b32", bytes(text))


def undot(s):
    return bytes(c for c in s if c != 46)


class Q:
    """a received query, as the property sees it"""

    def __init__(self, src, id_, qtype, name, srvtd):
        self.src, self.id, self.type, self.name = src, id_, qtype, name
        self.dlen = match_len(name, srvtd)
        self.cmd = None
        self.user = None          # the userid the query names (None: names no session)
        self.args = b""
        if self.dlen is None or self.dlen < 2:
            return
        d = name[:self.dlen]
        c = chr(d[0]).lower()
        self.cmd = c
        if c in "lnp":
            self.args = b32dec(undot(d[1:]))
            if self.args:
                self.user = self.args[0] if self.args[0] < 128 else self.args[0] - 256
        elif c in "iso":
            self.user = b32v(d[1])
        elif c == "r":
            self.user = (b32v(d[1]) >> 1) & 15
        elif c in "0123456789abcdef":
            self.cmd = "D"
            self.user = int(c, 16)
        elif c in "vyz":
            pass
        else:
            self.cmd = None

    @property
    def host(self):
        return self.src.rsplit(":", 1)[0]       # family + ip, without the port


def host_of(a):
    return a.rsplit(":", 1)[0]


class Trace:
    """shared bookkeeping: configuration, clock, the query of the current op, slot digests before/after"""

    def __init__(self):
        self.cfg = None
        self.now = 1000
        self.prev = {}
        self.i = -1

    def feed(self, t):
        if t[0] == "cfg":
            self.cfg = {"check_ip": t[1] == "1", "pw": vlib.unhx(t[2]), "myip": int(t[3], 16), "netbits": int(t[4]),
                        "td": vlib.unhx(t[5]), "mtu": int(t[6]), "bind": int(t[8])}
            self.now = 1000
            self.prev = {}
        elif t[0] == "time":
            self.now = int(t[1])


def query_of(t, events, srvtd):
    """the DNS query the server decoded in this op (None when the datagram was no acceptable query)"""
    if t[0] not in ("q", "dns"):
        return None
    dq = next((e for e in events if e[0] == "dq"), None)
    if dq is None or int(dq[1]) <= 0:
        return None
    return Q(t[1], int(dq[2]), int(dq[3]), vlib.unhx(dq[4]), srvtd)


def raw_of(t):
    if t[0] != "dns":
        return None
    b = vlib.unhx(t[2])
    if len(b) >= 4 and b[:3] == C.RAW_HEADER[:3]:
        return {"src": t[1], "cmd": b[3] & 0xf0, "user": b[3] & 0x0f, "payload": b[4:]}
    return None


STREAM = ("in", "out", "oq")


def stream_state(d):
    """upstream reassembly + downstream position, without resend counters: in=len/offset/seqno/fragment/sum,
    out=len/offset/sentlen/seqno/fragment/sum -> sentlen dropped"""
    o = d["out"].split("/")
    return (d["in"], (o[0], o[1], o[3], o[4], o[5]), d["oq"])


class Monitors:
    def __init__(self, which=("C03", "C04", "C14", "C15", "C16")):
        self.which = set(which)
        self.tr = Trace()
        self.viol = []                    # (prop, step index, message)
        self.reset()

    def reset(self):
        self.pending = {}                 # C14: (dst, id, type, name) -> count of received, not yet answered
        self.seed = {}                    # slot -> current challenge (from VACK)
        self.authed = {}                  # C03: slot -> answered the current challenge
        self.rawauthed = {}
        self.tunip = {}                   # slot -> assigned tunnel address (from the login reply)
        self.F = {}                       # C15: slot -> negotiated fragment size
        self.frag = {}                    # C15: slot -> (seq, frag, last_seen, assembled bytes by frag)
        self.cfloor = {}                  # slot -> length of `answered` when the answer cache was last emptied (accepted N)
        self.answered = {}                # C16: slot -> list of (lname, type, name, payload, kind) fresh answers in order
        self.byid = {}                    # (slot, dns id) -> (name, type) of received ping/data queries, to recognise what a slot holds
        self.offered = {}                 # slot -> list of compressed images offered for it (tun frames, forwards)
        self.stats = {"ans": 0, "data_ans": 0, "redelivered": 0, "replays_checked": 0, "foreign": 0, "tun_routed": 0,
                      "privileged": 0, "expired_refused": 0, "vack": 0, "frag_checked": 0}

    def bad(self, prop, msg):
        if prop in self.which:
            self.viol.append((prop, self.tr.i, msg))

    # ------------------------------------------------------------------
    def step(self, t, events, slots, sel):
        tr = self.tr
        tr.i += 1
        if t[0] in ("cfg", "time", "rand", "nop"):
            tr.feed(t)
            if t[0] == "cfg":
                self.reset()
            return
        cfg = tr.cfg
        if cfg is None:
            return
        prev = tr.prev
        now = tr.now
        q = query_of(t, events, cfg["td"])
        raw = raw_of(t)
        kinds = [e[0] for e in events]
        cut = kinds.index("sweep") if "sweep" in kinds else len(events)
        hev, sev = events[:cut], events[cut + 1:]        # caused by this op's input / by the end-of-iteration sweep
        anss = [e for e in events if e[0] == "ans"]      # all answers of the iteration
        hans = [e for e in hev if e[0] == "ans"]
        tunws = [e for e in hev if e[0] == "tunw"]
        raws = [e for e in hev if e[0] == "raw"]
        if any(e[0] in ("tunw", "raw") for e in sev):
            self.bad("C03", "the send-realsoon sweep wrote to the tun device or sent a raw frame")
        hist_before = {u: list(h) for u, h in self.answered.items()}
        swept = {u for u, d in prev.items() if int(d["qs"].split("/")[0]) != 0}      # sessions the sweep will serve

        # ---- C05: an established session keeps being served whatever else arrived in between
        if q is not None and q.cmd == "p" and q.user is not None and q.user in prev and q.id != 0:
            pz = prev[q.user]
            if pz["au"] == "1" and pz["conn"] == "1" and int(pz["lp"]) + 60 >= now and (not cfg["check_ip"] or (pz["host"] != "none" and q.host == host_of(pz["host"]))):
                self.stats["served"] = self.stats.get("served", 0) + 1
                if any(e[1] == q.src and int(e[2]) == q.id and vlib.unhx(e[6]) == b"BADIP" for e in hans):
                    self.bad("C05", "a ping of the live, logged-in session %d from its own address was refused with BADIP" % q.user)
        # ---- C14: answers are injected into received queries
        if q is not None:
            k = (q.src, q.id, q.type, q.name)
            self.pending[k] = self.pending.get(k, 0) + 1
        for e in anss:
            self.stats["ans"] += 1
            k = (e[1], int(e[2]), int(e[3]), vlib.unhx(e[5]))
            if self.pending.get(k, 0) <= 0:
                self.bad("C14", "answer to %s id=%d type=%d name=%s matches no received, unanswered query" % (e[1], k[1], k[2], k[3][:40]))
            else:
                self.pending[k] -= 1
        for e in events:
            if e[0] == "nsa":
                # NS / A responses answer the query of this very op
                b = vlib.unhx(e[2])
                if q is None or e[1] != q.src or len(b) < 2 or struct.unpack(">H", b[:2])[0] != q.id:
                    self.bad("C14", "NS/A response to %s does not answer the query of this datagram" % e[1])
                else:
                    k = (q.src, q.id, q.type, q.name)
                    if self.pending.get(k, 0) <= 0:
                        self.bad("C14", "second answer to the same query %s id=%d" % (q.src, q.id))
                    else:
                        self.pending[k] -= 1
        # a held query must not vanish without an answer (C14: "answering the older one when a newer one arrives")
        for u, d in prev.items():
            if u not in slots:
                continue
            if self._reallocated(u, anss):
                continue
            for fld in ("q", "qs"):
                hid = int(d[fld].split("/")[0])
                if hid == 0:
                    continue
                still = any(int(slots[u][f2].split("/")[0]) == hid for f2 in ("q", "qs"))
                answered = any(int(e[2]) == hid for e in anss)
                overwritten_by_raw = raw is not None and raw["user"] == u
                if not still and not answered and not overwritten_by_raw and d["conn"] == "1":
                    self.bad("C14", "held query id=%d of session %d disappeared without being answered" % (hid, u))

        # ---- bookkeeping from handshake answers (what a client learns)
        vack_slot = None
        for e in anss:
            data = vlib.unhx(e[6])
            r = C.parse_version_reply(data)
            if r and q is not None and q.cmd == "v":
                s, u = r
                vack_slot = u
                self.stats["vack"] += 1
                # C04: never take over a slot that was active during the last 60 seconds
                if u in prev and int(prev[u]["lp"]) + 60 >= now:
                    self.bad("C04", "version request took over slot %d whose session was active %d s ago" % (u, now - int(prev[u]["lp"])))
                self.seed[u] = s
                self.authed[u] = False
                self.rawauthed[u] = False
                self.F[u] = 100
                self.frag.pop(u, None)
                self.answered[u] = []
                self.cfloor[u] = 0
                self.offered[u] = []
                self.tunip.pop(u, None)
        if q is not None and q.cmd == "l" and len(q.args) >= 17 and q.user in self.seed:
            if bytes(q.args[1:17]) == C.login_hash(cfg["pw"], self.seed[q.user]):
                self.authed[q.user] = True       # the current challenge of that slot has been answered
        if raw is not None and raw["cmd"] == 0x10 and raw["user"] in self.seed and len(raw["payload"]) >= 16:
            if raw["payload"][:16] == C.login_hash(cfg["pw"], (self.seed[raw["user"]] + 1) & 0xffffffff):
                self.rawauthed[raw["user"]] = True
        for e in anss:
            parts = vlib.unhx(e[6]).split(b"-")
            if q is not None and q.cmd == "l" and len(parts) == 4:
                try:
                    ip = struct.unpack(">I", bytes(int(x) for x in parts[1].split(b".")))[0]
                    self.tunip[q.user] = ip
                    mask = (0xffffffff << (32 - cfg["netbits"])) & 0xffffffff
                    if ip & mask != cfg["myip"] & mask or ip in (cfg["myip"], cfg["myip"] & mask, (cfg["myip"] & mask) | (~mask & 0xffffffff)):
                        self.bad("C18", "session %s was given the tunnel address %08x (server %08x/%d): outside the subnet or the server's / network / broadcast address" % (q.user, ip, cfg["myip"], cfg["netbits"]))
                    if any(v == ip for k, v in self.tunip.items() if k != q.user):
                        self.bad("C18", "session %s was given the tunnel address %08x which another session holds" % (q.user, ip))
                except Exception:
                    pass

        # ---- C03: privileged effects only for sessions that answered their current challenge
        actor = q.user if q is not None else (raw["user"] if raw is not None else None)
        def need_auth(what, u):
            self.stats["privileged"] += 1
            if not self.authed.get(u, False):
                self.bad("C03", "%s on behalf of session %s which has not answered its current challenge" % (what, u))
        if t[0] in ("q", "dns"):
            for e in tunws:
                if actor is None:
                    self.bad("C03", "tun write caused by a datagram that names no session")
                else:
                    need_auth("tun write", actor)
                    if raw is not None and not self.rawauthed.get(actor, False):
                        self.bad("C03", "raw-mode data accepted for session %s without a raw login" % actor)
            for e in hans:
                data = vlib.unhx(e[6])
                if q is not None and q.cmd == "i" and data[:1] == b"I" and len(data) in (5, 17):
                    need_auth("address disclosed", q.user)
            for u, d in slots.items():
                if u == vack_slot or u not in prev:
                    continue
                p = prev[u]
                for fld, what in (("enc", "upstream codec changed"), ("dn", "downstream codec changed"), ("lazy", "lazy mode changed"),
                                  ("fs", "fragment size changed"), ("conn", "connection mode changed"), ("ar", "raw authentication changed")):
                    if d[fld] != p[fld]:
                        need_auth(what + " (%s -> %s)" % (p[fld], d[fld]), u)
                        if fld in ("conn", "ar") and not self.rawauthed.get(u, False):
                            self.bad("C03", "session %d switched to raw mode without a valid raw login (challenge+1)" % u)
                # a packet forwarded into another session's downstream
                if u != actor and (d["out"].split("/")[0] != p["out"].split("/")[0] or d["oq"] != p["oq"]) and \
                        int(d["out"].split("/")[0]) + sum(int(x) for x in d["oq"].split("/")[2].split(",") if x.isdigit()) > \
                        int(p["out"].split("/")[0]) + sum(int(x) for x in p["oq"].split("/")[2].split(",") if x.isdigit()):
                    if actor is None:
                        self.bad("C03", "packet queued for session %d by a datagram that names no session" % u)
                    else:
                        need_auth("packet forwarded to session %d" % u, actor)

        # ---- C04: source check, routing by tunnel address, expiry
        if q is not None and q.user is not None and q.cmd not in ("v", "y", "z") and q.user in prev:
            p = prev[q.user]
            bound = host_of(p["host"]) if p["host"] != "none" else None
            expired = int(p["lp"]) + 60 < now
            foreign = cfg["check_ip"] and bound is not None and q.host != bound
            if foreign or expired:
                self.stats["foreign" if foreign else "expired_refused"] += 1
                why = "from a foreign address" if foreign else "for a session silent for more than 60 s"
                for e in hans:
                    # a refusal: BADIP, or BADLEN for a request too short to be looked at (the length test comes first); both change nothing
                    if not (e[1] == q.src and vlib.unhx(e[6]) in (b"BADIP", b"BADLEN")):
                        self.bad("C04", "request naming session %d %s was not refused: answer %s to %s" % (q.user, why, vlib.unhx(e[6])[:20], e[1]))
                if tunws or raws:
                    self.bad("C04", "request naming session %d %s had an effect (tun write / raw frame)" % (q.user, why))
                if q.user in slots and slots[q.user] != p and vack_slot != q.user and q.user not in swept:
                    diff = [k for k in p if slots[q.user].get(k) != p[k]]
                    self.bad("C04", "request naming session %d %s changed its state: %s" % (q.user, why, ",".join(diff)))
        if t[0] == "tun":
            frame = vlib.unhx(t[1])
            dst = struct.unpack(">I", frame[20:24])[0] if len(frame) >= 24 else None
            owners = [u for u, ip in self.tunip.items() if ip == dst and u in prev and prev[u]["au"] == "1" and int(prev[u]["lp"]) + 60 > now]
            for e in hans + raws:
                self.stats["tun_routed"] += 1
                if not owners:
                    for pr in ("C04", "C18"):
                        self.bad(pr, "tun packet for %s sent although no live logged-in session owns that address" % (("%08x" % dst) if dst is not None else None))
                    continue
                u = owners[0]
                held = [prev[u]["host"]]
                if cfg["check_ip"] and host_of(e[1]) != host_of(prev[u]["host"]) and not any(k[0] == e[1] for k in self.pending):
                    for pr in ("C04", "C18"):
                        self.bad(pr, "tun packet for session %d sent to %s, not to that session's address %s" % (u, e[1], prev[u]["host"]))
            for u, d in slots.items():
                if u in prev and stream_state(d)[1:] != stream_state(prev[u])[1:] and u not in owners and u not in swept:
                    self.bad("C04", "tun packet for %s changed the downstream of session %d which does not own that address" % (("%08x" % dst) if dst is not None else None, u))
            if owners and len(frame) >= 24:
                self.offered.setdefault(owners[0], []).append(b"\x5a" + frame)

        # ---- C15: fragment size, numbering, last flag
        if q is not None and q.cmd == "n" and len(q.args) >= 3:
            size = (q.args[1] << 8) | q.args[2]
            for e in anss:
                data = vlib.unhx(e[6])
                if data == bytes(q.args[1:3]):
                    if size < 2:
                        self.bad("C15", "fragment size %d (< 2) was accepted for session %s" % (size, q.user))
                    self.F[q.user] = size
                    self.cfloor[q.user] = len(self.answered.get(q.user, []))      # the cache is emptied with the size change
        for e in anss:
            eq = Q(e[1], int(e[2]), int(e[3]), vlib.unhx(e[5]), cfg["td"])
            data = vlib.unhx(e[6])
            if eq.cmd not in ("p", "D") or eq.user is None or len(data) < 2 or not (data[0] & 0x80):
                continue
            u = eq.user
            self.stats["data_ans"] += 1
            F = self.F.get(u)
            if F is not None and len(data) - 2 > F:
                self.bad("C15", "answer for session %d carries %d payload bytes, negotiated fragment size is %d" % (u, len(data) - 2, F))
            # fresh or replayed?
            hist = self.answered.setdefault(u, [])
            cached = hist[max(self.cfloor.get(u, 0), len(hist) - 4):]
            replay = any(h[2] == eq.name and h[1] == eq.type for h in cached) and q is not None and q.name == eq.name
            if not replay and data != b"":
                seq, frag, last = data[1] >> 5, (data[1] >> 1) & 15, data[1] & 1
                payload = data[2:]
                self.stats["frag_checked"] += 1
                cur = self.frag.get(u)
                if payload:
                    if cur is not None and cur["seq"] == seq and cur.get("done") and frag == (cur["frag"] + 1) % 16:
                        self.bad("C15", "fragment %d of packet %d of session %d follows a fragment that carried the last-fragment flag" % (frag, seq, u))
                        cur["frag"] = frag
                    elif cur is not None and cur["seq"] == seq and cur.get("done") and frag == cur["frag"]:
                        # the final fragment again, possibly re-cut after a fragment size change (then it need not be final any more)
                        cur["parts"][frag] = payload
                        cur["done"] = bool(last)
                    elif cur is None or cur["seq"] != seq or cur.get("done"):
                        if False:
                            pass
                        else:
                            if frag != 0:
                                self.bad("C15", "first fragment of downstream packet %d of session %d is numbered %d, not 0" % (seq, u, frag))
                            cur = {"seq": seq, "frag": frag, "parts": {frag: payload}, "done": bool(last)}
                            self.frag[u] = cur
                    else:
                        if frag == cur["frag"]:
                            if payload != cur["parts"].get(frag) and F == self.F.get(u):
                                pass    # same fragment re-cut after a fragment size change: allowed
                            cur["parts"][frag] = payload
                        elif frag == (cur["frag"] + 1) % 16:
                            if cur.get("done"):
                                self.bad("C15", "fragment %d of packet %d of session %d follows a fragment that carried the last-fragment flag" % (frag, seq, u))
                            cur["frag"] = frag
                            cur["parts"][frag] = payload
                        else:
                            self.bad("C15", "downstream fragment %d follows fragment %d in packet %d of session %d" % (frag, cur["frag"], seq, u))
                        if last:
                            cur["done"] = True
            if not replay:
                hist.append((lower(eq.name), eq.type, eq.name, data, eq.cmd))

        # ---- C16: re-delivered queries are not processed twice
        if q is not None and q.cmd in ("p", "D") and q.user is not None and q.user in prev and q.user in slots and vack_slot is None:
            u = q.user
            p = prev[u]
            old = hist_before.get(u, [])
            bound_ok = (not cfg["check_ip"]) or (p["host"] != "none" and q.host == host_of(p["host"]))
            live = p["au"] == "1" and int(p["lp"]) + 60 >= now and p["conn"] == "1"
            if bound_ok and live and q.id != 0:
                # (c) a duplicate of a query the server is still holding (exact name and type; `q` only counts in lazy mode)
                heldq = []
                for fld in ("q", "qs"):
                    hid = int(p[fld].split("/")[0])
                    if hid and (fld == "qs" or p["lazy"] == "1") and (u, hid) in self.byid:
                        heldq.append(self.byid[(u, hid)])
                cache0 = old[max(self.cfloor.get(u, 0), len(old) - 4):]
                if (q.name, q.type) in heldq and not any(h[2] == q.name and h[1] == q.type for h in cache0):
                    self.stats["redelivered"] += 1
                    if hans or tunws:
                        self.bad("C16", "repeat of a query session %d is still holding was processed again (handler answered %d queries, %d tun writes)" % (u, len(hans), len(tunws)))
                cache = old[max(self.cfloor.get(u, 0), len(old) - 4):]
                in_cache = any(h[2] == q.name and h[1] == q.type for h in cache)
                if q.cmd == "D":
                    key = lower(q.name[1:5])
                    in_qmem = any(h[4] == "D" and lower(h[2][1:5]) == key and h[1] == q.type for h in [x for x in old if x[4] == "D"][-15:])
                else:
                    key = bytes(q.args[:4])
                    in_qmem = any(h[4] == "p" and b32dec(undot(h[2][1:match_len(h[2], cfg["td"])]))[:4] == key and h[1] == q.type
                                  for h in [x for x in old if x[4] == "p"][-30:])
                if in_cache or in_qmem:
                    self.stats["redelivered"] += 1
                    if stream_state(slots[u]) != stream_state(p) and u not in swept:
                        self.bad("C16", "re-delivered %s query of session %d (%s) changed the stream state: %s -> %s" % (
                            "data" if q.cmd == "D" else "ping", u, "cached" if in_cache else "remembered", stream_state(p), stream_state(slots[u])))
                    if tunws:
                        self.bad("C16", "re-delivered query of session %d caused a tun write" % u)
                    if in_cache:
                        orig = next(h for h in reversed(cache) if h[2] == q.name and h[1] == q.type)
                        mine = [vlib.unhx(e[6]) for e in anss if e[1] == q.src and int(e[2]) == q.id]
                        self.stats["replays_checked"] += 1
                        if mine and mine[0] != orig[3]:
                            self.bad("C16", "repeat of a cached query of session %d answered with a different payload" % u)
                        if not mine:
                            self.bad("C16", "repeat of a cached query of session %d was not answered from the cache" % u)

        if q is not None and q.cmd in ("p", "D") and q.user is not None and q.id != 0:
            self.byid[(q.user, q.id)] = (q.name, q.type)
        tr.prev = dict(slots)

    def _reallocated(self, u, anss):
        for e in anss:
            r = C.parse_version_reply(vlib.unhx(e[6]))
            if r and r[1] == u:
                return True
        return False


def run_monitors(steps, which=("C03", "C04", "C14", "C15", "C16")):
    m = Monitors(which)
    for st in steps:
        m.step(st.op.split(), st.events, st.slots, st.sel)
    return m
