"""C10 — every DNS message emitted is well-formed and answers echo their question.

Theorems: Props/C10.lean (dns_encode for queries and every answer type, the NS and A responses, against an independent strict RFC 1035
parser written in Lean).  Correspondence: putname / puttxtbin / dns_encode / dns_encode_ns_response / dns_encode_a_response of the current tree
vs the model, byte for byte, including tight buffers.  Oracle: every datagram the REAL server loop (h_srv sessions, all record types and codecs),
the REAL write_dns and the REAL client builders (h_cli) emit is parsed by two independent strict parsers — the Lean one (`strict` op of the
driver, the specification the theorems use) and a Python one — and answers are compared with the query they answer."""
import random, struct
import vlib
import iodproto as P
import iodclient as C
import srvgen

LEVEL = "proof"
TYPES = [10, 65399, 16, 33, 15, 5, 1]


def legal_name(rng, total=None):
    labs = []
    n = rng.choice([1, 2, 3, 5]) if total is None else 99
    size = 0
    while len(labs) < n:
        l = rng.choice([1, 2, 7, 30, 62, 63])
        if total is not None:
            if size + l + (1 if labs else 0) > total:
                l = total - size - (1 if labs else 0)
                if l < 1:
                    break
        labs.append(bytes(rng.choice(b"abcxyzABC019-_\xbc\xfd") for _ in range(l)))
        size += l + (1 if len(labs) > 1 else 0)
        if total is not None and size >= total:
            break
    name = b".".join(labs)
    while len(name) > 253:
        name = name[:-1] if not name.endswith(b".", 0, len(name) - 1) else name[:-2]
    return name.strip(b".") or b"a"


def wire_ops(chk):
    rng, thorough = chk.rng, chk.tier == "thorough"
    ops = []
    n = 4000 if thorough else 800
    for _ in range(n):
        qn = legal_name(rng, rng.choice([None, None, 253, 200]))
        t = rng.choice(TYPES + [2, 28, 255, 0])
        id_ = rng.randrange(65536)
        k = rng.random()
        if k < 0.2:
            ops.append("dnsenc q %d %d %d %d %s" % (id_, t, rng.randrange(2), rng.choice([4096, 4096, len(qn) + rng.randrange(10, 40)]), vlib.hx(qn)))
        elif k < 0.75:
            if t in (5, 1, 15, 33):
                names = [legal_name(rng) for _ in range(1 if t in (5, 1) else rng.choice([1, 2, 5, 40]))]
                data = b"\0".join(names)
                need = len(qn) + 18 + sum(len(x) + 20 for x in names)
            elif t == 16:
                data = bytes(rng.randrange(256) for _ in range(rng.choice([1, 2, 251, 252, 253, 600, 3000])))
                need = len(qn) + 32 + len(data) + len(data) // 252
            else:
                data = bytes(rng.randrange(256) for _ in range(rng.choice([0, 1, 2, 100, 4000])))
                need = len(qn) + 30 + len(data)
            buflen = rng.choice([65536, 65536, need, need + 1, max(12, need - rng.randrange(1, 30))])
            ops.append("dnsenc a %d %d %d %s %s" % (id_, t, buflen, vlib.hx(qn), vlib.hx(data)))
        elif k < 0.82:
            ops.append("putname %d %s" % (rng.choice([256, 30, 10, 5]), vlib.hx(rng.choice([qn, qn + b".", b"." + qn, qn.replace(b".", b"..", 1), b"a" * 64 + b"." + qn]))))
        elif k < 0.88:
            d = bytes(rng.randrange(256) for _ in range(rng.choice([0, 1, 252, 253, 504, 505, 1000])))
            ops.append("txt p %d %s" % (max(0, rng.choice([5000, len(d) + len(d) // 252 + rng.randrange(-3, 4) + 1, 10])), vlib.hx(d)))
        elif k < 0.95:
            top = legal_name(rng, rng.choice([None, 60, 128]))
            sub = rng.choice([b"", b"x.", b"abc.def."])
            ops.append("dnsns %d 2 65536 %s %s %s" % (id_, vlib.hx(sub + top), vlib.hx(top), rng.choice(["7f000001", "0a000001", "-"])))
        else:
            top = legal_name(rng)
            ops.append("dnsa %d 1 65536 %s %s" % (id_, vlib.hx(rng.choice([b"ns.", b"www."]) + top), rng.choice(["7f000001", "c0a80001"])))
    return ops


def question_in_scope(op):
    """C10 quantifies over "queries whose labels contain no '.' or NUL byte" (iodine keeps names as dotted C strings): False for a `dns` op whose
    question has such a label (the echo clause is then not demanded; well-formedness of what is emitted still is)"""
    t = op.split()
    if t[0] != "dns" or len(t) < 3:
        return True
    d = vlib.unhx(t[2])
    i, hops = 12, 0
    while i < len(d) and hops < 128:
        n = d[i]
        if n == 0:
            return True
        if n & 0xc0 == 0xc0:
            if i + 1 >= len(d):
                return True
            i = ((n & 0x3f) << 8) | d[i + 1]
            hops += 1
            continue
        lab = d[i + 1:i + 1 + n]
        if b"." in lab or b"\0" in lab:
            return False
        i += 1 + n
    return True


def nodot(name):
    """a dotted C string with a trailing '.' (what the lenient dns_decode leaves when a name breaks off after a label) names the same label sequence"""
    return name[:-1] if name.endswith(b".") else name


def strict_both(chk, msgs, what):
    """msgs: list of (bytes, context ops, expectation dict or None).  Returns #bad."""
    bad = 0
    drv = chk.driver()
    lean = vlib.run_parallel(drv, ["strict " + vlib.hx(m) for m, _, _ in msgs]).lines if drv else []
    for i, (m, ctx, exp) in enumerate(msgs):
        why = None
        try:
            p = P.parse(m)
        except P.Malformed as e:
            why = "not a well-formed RFC 1035 message (%s)" % e
            p = None
        if why is None and lean and i < len(lean) and not lean[i].startswith("ok"):
            why = "rejected by the strict parser of the specification (%s)" % lean[i]
        if why is None and exp:
            if exp.get("id") is not None and p["id"] != exp["id"]:
                why = "carries id %d, the query had id %d" % (p["id"], exp["id"])
            elif exp.get("name") is not None and (len(p["qd"]) != 1 or nodot(p["qd"][0][0]) != nodot(exp["name"]) or p["qd"][0][1] != exp["type"]):
                why = "does not echo the question (%r type %s), has %r" % (exp["name"][:40], exp["type"], p["qd"][:1])
            elif exp.get("answer") and not p["an"]:
                why = "has no answer record"
            elif exp.get("answer") and any(a[0] != exp["name"] for a in p["an"]):
                why = "has an answer record owned by another name"
            elif exp.get("ns") is not None:
                want = b"ns." + exp["ns"]
                if not (len(p["an"]) == 1 and p["an"][0][1] == P.T_NS and p["an"][0][4].lower() == want.lower()):
                    why = "NS query not answered with %r: %r" % (want, [a[4] for a in p["an"]][:2])
            elif exp.get("a") and not (len(p["an"]) == 1 and p["an"][0][1] == P.T_A):
                why = "A query for ns./www. not answered with one address record"
        if why:
            bad += 1
            chk.violation("C10 fails on the implementation: %s %s: %s" % (what, vlib.hx(m)[:80], why), ctx, key="c10:" + why[:30])
            if bad > 5:
                break
    return bad


def session_messages(chk):
    """everything the real server emits in generated sessions + everything the real client emits in handshake/tunnel starts"""
    rng, thorough = chk.rng, chk.tier == "thorough"
    srv, cli = vlib.build_srv(), vlib.build_cli()
    msgs = []
    echo_viol = []
    chk._echo_viol = echo_viol
    # corpus first: recorded server sessions (cfg + ops) on which a datagram the server emitted was once malformed
    import glob, os
    for f in sorted(glob.glob(os.path.join(vlib.VERIF, "corpus", "C10", "*.srv.ops"))):
        cops = [l.strip() for l in open(f) if l.strip() and not l.startswith("#")]
        hh = srvgen.Harness(srv)
        for o in cops:
            st = hh.send(o)
            if st is None:
                break
            for e in st.events:
                if e[0] in ("tx", "nsa", "fwd"):
                    msgs.append((vlib.unhx(e[2]), cops, None))
        hh.close()
        if hh.dead:
            chk.violation("the server harness aborted on corpus file %s: %s" % (os.path.basename(f), hh.dead[2][-600:]), cops, key="c10:corpus-abort")
    for k in range(32 if thorough else 12):
        g = srvgen.Gen(random.Random(chk.seed * 104729 + k), srv, bind=5353, wild=(True if k % 3 == 1 else None), other=(3.0 if k % 3 == 1 else 1.0),
                       scenario=("lazy" if k % 4 == 0 else None))
        h = g.run(400)
        ops = [s.op for s in h.steps]
        # "each answer carries the id, name and type of the query it answers": every answer must match a received, unanswered query
        import srvmon
        mon = srvmon.run_monitors(h.steps, ("C14",))
        for p_, i_, msg_ in mon.viol[:1]:
            echo_viol.append((ops[:i_ + 1], msg_))
        base = g.srvtd[2:] if g.srvtd.startswith(b"*.") else g.srvtd
        for i, st in enumerate(h.steps):
            last_ans = None
            dq = next((e for e in st.events if e[0] == "dq"), None)
            scope = question_in_scope(st.op)
            ns_answered = False
            for e in st.events:
                if e[0] in ("nsa", "fwd") and not scope:
                    msgs.append((vlib.unhx(e[2]), ops[:i + 1][-40:], None))        # out of the quantifier's scope for the echo clause
                    continue
                if e[0] == "ans":
                    last_ans = e
                elif e[0] == "tx" and last_ans is not None:
                    msgs.append((vlib.unhx(e[2]), ops[:i + 1][-40:], {"id": int(last_ans[2]), "name": vlib.unhx(last_ans[5]), "type": int(last_ans[3]), "answer": True}))
                    last_ans = None
                elif e[0] == "nsa" and dq is not None:
                    ns_answered = True
                    name = vlib.unhx(dq[4])
                    exp = {"id": int(dq[2]), "name": name, "type": int(dq[3]), "answer": True}
                    if int(dq[3]) == 2:
                        # the domain the name was matched against: with a wildcard server domain, the label standing for '*' belongs to it
                        dl = srvgen.srvmon_match(name, g.srvtd) if hasattr(srvgen, "srvmon_match") else None
                        exp["ns"] = None
                    else:
                        exp["a"] = True
                    msgs.append((vlib.unhx(e[2]), ops[:i + 1][-40:], exp))
                elif e[0] == "fwd":
                    msgs.append((vlib.unhx(e[2]), ops[:i + 1][-40:], {"id": int(dq[2]) if dq else None, "name": vlib.unhx(dq[4]) if dq else None, "type": int(dq[3]) if dq else None}))
            # "NS queries under the tunnel domain are answered with ns.<domain>": the generator's own NS queries (plain or wildcard-served domain,
            # legal names) must get an answer at all
            if st.meta.get("kind") == "ns" and scope and dq is not None and int(dq[1]) > 0 and not ns_answered and not chk.violations:
                chk.violation("C10 fails on the implementation: the NS query for %r (server domain %r) got no answer" % (vlib.unhx(dq[4])[:60], g.srvtd), ops[:i + 1], key="c10:ns-unanswered")
    # write_dns for every type and downstream codec with payloads around the capacity of a host name / TXT chunk boundaries
    wd = []
    for t in TYPES:
        for dn in "TSUVR":
            for n in sorted(set(list(range(2, 12)) + list(range(140, 262, 1 if thorough else 3)) + [500, 503, 504, 505, 1000, 4096])):
                wd.append("wd %d %d %s %s %s" % (rng.randrange(1, 65536), t, dn, vlib.hx(rng.choice([b"paaaa.t.co", b"p" + b"a" * 61 + b"." + b"b" * 62 + b".t.co"])),
                                                 vlib.hx(bytes(rng.randrange(256) for _ in range(n)))))
    rw = vlib.run_parallel(srv, wd)
    for o, line in zip(wd, rw.lines):
        t = o.split()
        for e in line.split(" | "):
            if e.startswith("tx "):
                msgs.append((vlib.unhx(e.split()[2]), [o], {"id": int(t[1]), "name": vlib.unhx(t[4]), "type": int(t[2]), "answer": True}))
    # NS answers with ns.<domain>: directed
    for td in (b"t.example.com", b"a.bc"):
        for sub in (b"", b"x9.", b"abc.def."):
            o = ["cfg 1 %s 0a000001 27 %s 1130 00000000 0 7f000001 %s" % (vlib.hx(b"pw"), vlib.hx(td), "00" * 15 + "01"), "q 4:0a630001:53 77 2 %s" % vlib.hx(sub + td)]
            r = vlib.run_lines(srv, o)
            for e in (r.lines[1].split(" | ") if len(r.lines) > 1 else []):
                if e.startswith("nsa "):
                    msgs.append((vlib.unhx(e.split()[2]), o, {"id": 77, "name": sub + td, "type": 2, "answer": True, "ns": td}))
    # client side: query datagrams of every builder, both EDNS0 settings, several name limits
    for L in (255, 100, 177):
        for e0 in (0, 1):
            td = b"t.example.com"
            o = ["ccfg %s %s %d %d T 0 5 3 1 %d" % (vlib.hx(td), vlib.hx(b"pw"), L, rng.choice(TYPES), e0), "cenc " + rng.choice(["b32", "b64", "b64u", "b128"]),
                 "start sendchunks 40 " + vlib.hx(bytes(rng.randrange(256) for _ in range(500))), "start sendone ping 0", "start sendone probe 1200", "start sendone setfrag 1200",
                 "start sendone version 1282", "start sendone login 77", "start sendone lazy 0", "start sendone downenctest 84"]
            r = vlib.run_lines(cli, o)
            for line in r.lines:
                for e in line.split(" | "):
                    if e.startswith("tx "):
                        msgs.append((vlib.unhx(e.split()[1]), o, {"client": True}))
    return msgs


def run(chk):
    msgs = session_messages(chk)
    bad = strict_both(chk, msgs, "datagram emitted by the real code")
    for ops_, msg_ in getattr(chk, "_echo_viol", []):
        chk.violation("C10 fails on the implementation: an answer does not carry the id, name and type of a query it answers: " + msg_, ops_, key="c10:echo-session")
        bad += 1
    ops = wire_ops(chk)
    # ops on which the MODEL predicts a store beyond the given buffer (only with buffer sizes no caller of iodine uses: the callers pass
    # 4096 / 64 KiB for names of at most 255 bytes) are not run on the C side — ASan would abort on them; they are counted and listed
    drv = chk.driver()
    latent = []
    if drv:
        pre = vlib.run_parallel(drv, ops)
        latent = [o for o, l in zip(ops, pre.lines) if "fault=" in l]
        ops = [o for o, l in zip(ops, pre.lines) if "fault=" not in l]
    chk.notes["latent_overflow_ops_skipped"] = len(latent)
    chk.notes["latent_overflow_examples"] = latent[:3]

    def oracle(op, line):
        t = op.split()
        if t[0] == "dnsenc" and "pkt=" in line and line.split("pkt=")[1] not in ("-", ""):
            # legal inputs with room must give a strictly parsable message that echoes id / name / type
            roomy = int(t[4] if t[1] == "a" else t[5]) in (4096, 65536)      # the buffer sizes the callers use
            if roomy and int(t[3]) in TYPES:
                m = vlib.unhx(line.split("pkt=")[1])
                try:
                    p = P.parse(m)
                    qn = vlib.unhx(t[5] if t[1] == "a" else t[6])
                    if p["id"] != int(t[2]) or p["qd"][0][0] != qn or p["qd"][0][1] != int(t[3]):
                        return ("message does not carry id/name/type of its query", None, "c10:echo")
                    return (None, (t[1], int(t[3])), None)
                except P.Malformed as e:
                    if t[1] == "a" and int(t[3]) == 16 and t[6] == "-":
                        return (None, None, None)       # empty TXT payload: never produced by iodined (always a type letter)
                    return ("dns_encode produced a malformed message: %s" % e, None, "c10:malformed")
        return (None, None, None)
    rule = ("putname/puttxtbin/dns_encode (query+EDNS0, every answer type, NS and A responses) on legal names incl. 63-byte labels and 253-character names, "
            "bytes >= 0x80, tight and roomy buffers, vs the Lean model byte for byte; plus %d datagrams emitted by the real server loop, write_dns and the real client "
            "builders parsed by the Lean strict parser and an independent Python one, with id/name/type echo, ns.<domain> and A-record checks" % len(msgs))
    c, m, diffs, b2 = vlib.pure_check(chk, ops, oracle, rule, "Wire.DnsEncode/Put vs dns.c/read.c")
    chk.cov["evaluations"] = chk.cov.get("evaluations", 0) + len(msgs)
    chk.notes["emitted_datagrams_parsed"] = len(msgs)


def replay(chk, path):
    ops = [l.strip() for l in open(path) if l.strip() and not l.startswith("#")]
    if ops and ops[0].split()[0] in ("cfg", "ccfg"):
        exe = vlib.build_srv() if ops[0].startswith("cfg") else vlib.build_cli()
        r = vlib.run_lines(exe, ops)
        bad = 1 if r.rc else 0
        for o, l in zip(ops, r.lines):
            print(o[:100], "->", l.split(" | st")[0][:200])
            for e in l.split(" | "):
                f = e.split()
                if f and f[0] in ("tx", "nsa", "fwd"):
                    try:
                        P.parse(vlib.unhx(f[-1]))
                    except P.Malformed as ex:
                        print("   MALFORMED:", ex); bad += 1
        chk.cov.update({"evaluations": len(ops), "distinct_nontrivial": 0})
        return 1 if bad else 0
    return vlib.pure_replay(chk, path)
