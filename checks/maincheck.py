"""The two main()s: option handling and start-up validation (work package M).

The REAL main() of iodined.c / iodine.c runs in the harnesses (op `main` of h_srv / h_cli: the operating system is
substituted, every substituted call is logged, the run stops where tunnel() / client_handshake() would start) on generated
argument vectors and environments; the Lean models (Server/Options.lean, Client/Options.lean; driver ops `smain` / `cmain`)
answer the same line.  On top of the line-by-line differential, property oracles written from the documentation (not from the
model) judge every configuration the implementation starts the session machine with:

  C19  password block = the effective password (last -P, else IODINE[D]_PASS, else the line typed at the prompt), cut at 32
       bytes and ZERO PADDED to 32 (+ NUL) — the block login_calculate() hashes (found with Python's own GNU getopt);
  C18  netmask 8..30, pool = min(16, 2^(32-n)-3) distinct addresses of the server's subnet, none of them the server's, the
       network's or the broadcast address;
  C17  the top domain is a valid domain (wildcard allowed on the server only);
  C10  0 < mtu < 2^31;   C08  hostname_maxlen in 10..255 (what main() guarantees; C08's theorems need 100..255).
Called from checks/c17.py, c18.py, c19.py (focus = which part of the argument space is sampled most densely)."""
import getopt
import os
import vlib
from vlib import hx, unhx

SRV_OPTS = "46vcsfhDu:t:d:m:l:L:p:n:b:P:z:F:i:"
CLI_OPTS = "46vfhru:t:d:R:P:m:M:F:T:O:L:I:"

NUMS = [b"-1", b"0", b"1", b"2", b"7", b"8", b"9", b"10", b"27", b"29", b"30", b"31", b"32", b"33", b"52", b"53", b"54", b"99", b"100",
        b"101", b"254", b"255", b"256", b"1130", b"1200", b"3072", b"5353", b"65534", b"65535", b"65536", b"65537", b"2147483647",
        b"2147483648", b"-2147483648", b"-2147483649", b"4294967295", b"4294967296", b"4294967297", b"4294967349",
        b"9223372036854775807", b"9223372036854775808", b"-9223372036854775809", b"18446744073709551669", b"99999999999999999999",
        b"", b"abc", b" 12", b"\t 30", b"+5", b"+24", b"-0", b"12abc", b"0x10", b"010", b"- 5", b"--5", b"1e3", b"24 ", b"24/8"]
IPS = [b"10.0.0.1", b"10.0.0.1", b"10.9.8.1", b"192.168.99.1", b"172.16.0.254", b"10.0.0.255", b"10.0.0.0", b"1.2.3.4", b"10.1", b"10.0.1",
       b"0x0a.0.0.1", b"0X0A.1.2.3", b"012.0.0.1", b"08.0.0.1", b"0x.0.0.1", b"255.255.255.255", b"255.255.255.254", b"0.0.0.0", b"167772161",
       b"4294967295", b"4294967296", b"10.0.0.256", b"10.0.0", b"10.0.0.1.", b"10.0.0.1.5", b"10..0.1", b"", b"a.b.c.d", b"10.0.0.1 x", b"10.0.0.1x",
       b" 10.0.0.1", b"+10.0.0.1", b"10.0.0.1\t", b"1.16777215", b"1.16777216", b"1.2.65535", b"1.2.65536", b"10.0.0.1\x80", b"0b1.0.0.1",
       b"00.00.00.07", b"0x00000000000a.1.1.1", b"99999999999999999999", b"10.0.0.250", b"10.0.0.17", b"10.0.0.2"]
DOMS = [b"t.example.com", b"t.example.com", b"tunnel.example.org", b"a.b", b"T.Example.COM", b"*.t.example.com", b"*.a.b", b"x-1.y-2.zz",
        b"ab", b"a.", b".a.b", b"a..b", b"a_b.c", b"t.example.com.", b"*t.example.com", b"t.*.com", b"**.a.b", b"*.", b"*", b"-", b"",
        b"a" * 63 + b".b", b"a" * 64 + b".b", b"t.ex\xe4mple.com", b"t.example.com ", b"t/example.com"]
NAMES = [b"dns0", b"tun7", b"nobody", b"root", b"/var/empty", b"/run/iodine.pid", b"!missing", b"~denied", b"x", b"a b", b"-f", b"--", b"-",
         b"system_u:system_r:iodined_t:s0", b"\xff\xfe", b"d" * 15, b"d" * 16, b"d" * 249, b"d" * 250, b"d" * 300, b"p" * 900]


def dom_of_len(n):
    """a valid domain of exactly n characters (labels of at most 63)"""
    out, left = [], n
    while left > 0:
        k = min(60, left)
        if left - k == 1:
            k -= 1
        out.append(b"x" * k)
        left -= k + 1
    return b".".join(out)


def passwords(rng):
    base = [b"", b"a", b"hunter2", b"secret", b"factory-default-password-2014", bytes(range(1, 32)), bytes(range(1, 33)), bytes(range(1, 34)),
            bytes(range(1, 41)), b"p" * 31, b"p" * 32, b"q" * 33, b"r" * 40, b"s" * 78, b"t" * 79, b"u" * 80, b"v" * 100, b"l\xc3\xb6senord",
            b"\xff" * 32, b"with space", b"-P", b"--", b"line1\nline2", b"\nx"]
    base.append(bytes(rng.randrange(1, 256) for _ in range(rng.randrange(0, 45))))
    return base


def _num(rng, around=()):
    if around and rng.random() < 0.5:
        return str(rng.choice(around) + rng.choice([-1, 0, 1])).encode()
    return rng.choice(NUMS)


def gen_server(rng, n, focus):
    """list of (env tokens, argv) for iodined"""
    out = []
    pws = None
    for k in range(n):
        if pws is None or k % 50 == 0:
            pws = passwords(rng)
        env, opts = [], []
        valid = rng.random() < 0.75
        # password: -P once / twice / three times (long then short!), attached or separate, or environment / prompt
        r = rng.random()
        npw = 0 if r < 0.2 else 1 if r < (0.45 if focus == "C19" else 0.7) else 2 if r < 0.92 else 3
        for _ in range(npw):
            p = rng.choice(pws)
            if p[:1] == b"\n" or b"\n" in p and rng.random() < 0.5:
                p = p.replace(b"\n", b"n")
            if p and rng.random() < 0.3:
                opts.append([b"-P" + p])
            else:
                opts.append([b"-P", p])
        if rng.random() < (0.6 if npw == 0 else 0.2):
            env.append("E=" + hx(rng.choice(pws).replace(b"\n", b"")))
        if rng.random() < (0.6 if npw == 0 else 0.2):
            env.append("T=" + hx(rng.choice(pws)))
        # flags, bundled in one element or separate
        fl = [f for f in "fcsD46" if rng.random() < (0.5 if f == "f" else 0.15)]
        if rng.random() < 0.1:
            fl += ["D"] * rng.randrange(1, 4)
        if not valid and rng.random() < 0.1:
            fl.append(rng.choice("hvxXzP?:;-"))
        rng.shuffle(fl)
        if fl and rng.random() < 0.5:
            opts.append([("-" + "".join(fl)).encode()])
        else:
            opts += [[("-" + f).encode()] for f in fl]
        # options with arguments
        for o, p in (("m", 0.25), ("p", 0.2), ("b", 0.2), ("i", 0.15), ("n", 0.2), ("l", 0.2), ("L", 0.1), ("u", 0.15), ("t", 0.1),
                     ("d", 0.2), ("F", 0.1), ("z", 0.1)):
            if rng.random() >= p:
                continue
            if o == "b" and "6" in fl:
                continue        # with -6 the forwarding-loop test reads the never-written dns4addr (uninitialised read): not comparable
            if o in "mpbi":
                a = _num(rng, {"m": (0, 1130, 1 << 31), "p": (0, 53, 65535), "b": (0, 53, 65535), "i": (0, 60)}[o]) if not valid or rng.random() < 0.3 \
                    else {"m": b"1200", "p": b"5353", "b": b"5300", "i": b"60"}[o]
            elif o == "n":
                a = rng.choice([b"auto", b"Auto", b"1.2.3.4", b"192.0.2.1"] + IPS)
            elif o == "l":
                a = rng.choice([b"external", b"127.0.0.1", b"0.0.0.0", b"192.0.2.7", b"!bad", b"localhost", b"", b"10.0.0.1", b"127.1", b"1.2.3.4.5"])
            elif o == "L":
                a = rng.choice([b"::1", b"!bad", b"fe80::1", b""])
            else:
                a = rng.choice(NAMES)
            if a and rng.random() < 0.25:
                opts.append([b"-" + o.encode() + a])
            elif rng.random() < 0.05 and fl:
                opts.append([b"-f" + o.encode(), a])
            else:
                opts.append([b"-" + o.encode(), a])
        # positionals
        ip = rng.choice(IPS[:6]) if valid else rng.choice(IPS)
        r = rng.random()
        if r < 0.35:
            pass
        elif valid and r < 0.9:
            ip += b"/" + str(rng.choice([8, 9, 16, 23, 24, 26, 27, 28, 29, 30])).encode()
        else:
            ip += b"/" + _num(rng, (8, 30))
        if not valid and rng.random() < 0.1:
            ip = rng.choice([b"/24", b"10.0.0.1/24/8", b"10.0.0.1//24", b"/", b"10.0.0.1/ 24", b"10.0.0.1/+24", b"10.0.0.1/24x"])
        if focus == "C17" and rng.random() < 0.5 or rng.random() < 0.12:
            td = dom_of_len(rng.choice([3, 4, 126, 127, 128, 129, 130, 200, 255, 300]))
            if rng.random() < 0.3:
                td = b"*." + td[2:]
        else:
            td = rng.choice(DOMS[:8]) if valid else rng.choice(DOMS)
        pos = [ip, td]
        r = rng.random()
        if not valid and r < 0.15:
            pos = rng.choice([[], [ip], [ip, td, b"extra"], [td], [ip, td, td, td]])
        # arrangement: options first (mostly), options after / between the positionals (GNU permutation), `--`
        rng.shuffle(opts)
        r = rng.random()
        if r < 0.6:
            argv = [x for o in opts for x in o] + pos
        elif r < 0.75:
            argv = pos[:1] + [x for o in opts for x in o] + pos[1:]
        elif r < 0.85:
            argv = pos + [x for o in opts for x in o]
        elif r < 0.95:
            argv = [x for o in opts for x in o] + [b"--"] + pos
        else:
            cut = rng.randrange(len(opts) + 1)
            argv = [x for o in opts[:cut] for x in o] + [b"--"] + [x for o in opts[cut:] for x in o] + pos
        if not valid and rng.random() < 0.05:
            argv.append(rng.choice([b"-P", b"-m", b"-u", b"-"]))
        if rng.random() < 0.1:
            env.append(rng.choice(["X=fail", "X=7f000001", "X=ffffffff", "X=c0000207", "V6=0", "SD=1", "SD=2", "SD=3", "SD=-1", "SD=0"]))
        argv = [b"iodined"] + argv
        if any(b"\0" in a or len(a) > 950 for a in argv) or len(argv) > 60:
            continue
        out.append((env, argv))
    return out


def gen_client(rng, n, focus):
    out = []
    pws = None
    for k in range(n):
        if pws is None or k % 50 == 0:
            pws = passwords(rng)
        env, opts = [], []
        valid = rng.random() < 0.75
        r = rng.random()
        npw = 0 if r < 0.2 else 1 if r < (0.45 if focus == "C19" else 0.7) else 2 if r < 0.92 else 3
        for _ in range(npw):
            p = rng.choice(pws)
            if p and rng.random() < 0.3:
                opts.append([b"-P" + p])
            else:
                opts.append([b"-P", p])
        if rng.random() < (0.6 if npw == 0 else 0.2):
            env.append("E=" + hx(rng.choice(pws).replace(b"\n", b"")))
        if rng.random() < (0.6 if npw == 0 else 0.2):
            env.append("T=" + hx(rng.choice(pws)))
        fl = [f for f in "fr46" if rng.random() < (0.5 if f == "f" else 0.15)]
        if not valid and rng.random() < 0.1:
            fl.append(rng.choice("hvxzDcsR?:;-"))
        rng.shuffle(fl)
        if fl and rng.random() < 0.5:
            opts.append([("-" + "".join(fl)).encode()])
        else:
            opts += [[("-" + f).encode()] for f in fl]
        for o, p in (("m", 0.25), ("M", 0.3 if focus == "C08" else 0.2), ("T", 0.25), ("O", 0.2), ("L", 0.2), ("I", 0.2), ("u", 0.15), ("t", 0.1),
                     ("d", 0.2), ("F", 0.1), ("z", 0.03), ("R", 0.03)):
            reps = 2 if rng.random() < 0.15 else 1
            if rng.random() >= p:
                continue
            for _ in range(reps):
                if o in "mMLI":
                    a = _num(rng, {"m": (0, 1, 65535), "M": (10, 100, 255), "L": (0, 1), "I": (0, 1, 4)}[o]) if not valid or rng.random() < 0.4 \
                        else {"m": b"1200", "M": b"200", "L": rng.choice([b"0", b"1"]), "I": b"2"}[o]
                elif o == "T":
                    a = rng.choice([b"NULL", b"null", b"PRIVATE", b"private", b"TXT", b"txt", b"Txt", b"SRV", b"MX", b"CNAME", b"A", b"a", b"AAAA", b"", b"NUL",
                                    b"NULLL", b"T", b"any", b"txt "])
                elif o == "O":
                    a = rng.choice([b"Base32", b"base32", b"BASE64", b"base64u", b"Base128", b"raw", b"RAW", b"base16", b"", b"base64 ", b"Base"])
                else:
                    a = rng.choice(NAMES)
                if a and rng.random() < 0.25:
                    opts.append([b"-" + o.encode() + a])
                else:
                    opts.append([b"-" + o.encode(), a])
        if focus == "C17" and rng.random() < 0.5 or rng.random() < 0.12:
            td = dom_of_len(rng.choice([3, 4, 76, 126, 127, 128, 129, 130, 200, 231, 232, 255, 300]))
        else:
            td = rng.choice(DOMS[:5]) if valid else rng.choice(DOMS)
        ns = rng.choice([b"10.0.0.53", b"192.0.2.53", b"ns.example.net", b"!nowhere", b"::1", b"", b"127.1", b"8.8.8.8"])
        r = rng.random()
        if r < 0.7:
            pos = [ns, td]
        elif r < 0.92:
            pos = [td]
            if rng.random() < 0.7:
                env.append("RC=" + hx(rng.choice([b"192.168.1.1", b"10.0.0.53", b"!x", b"fe80::1"])))
        else:
            pos = rng.choice([[], [ns, td, b"extra"], [td, td, td]])
        rng.shuffle(opts)
        r = rng.random()
        if r < 0.6:
            argv = [x for o in opts for x in o] + pos
        elif r < 0.75:
            argv = pos[:1] + [x for o in opts for x in o] + pos[1:]
        elif r < 0.85:
            argv = pos + [x for o in opts for x in o]
        else:
            argv = [x for o in opts for x in o] + [b"--"] + pos
        if not valid and rng.random() < 0.05:
            argv.append(rng.choice([b"-P", b"-m", b"-T", b"-"]))
        if rng.random() < 0.1:
            env.append("HS=" + str(rng.choice([0, 1, -1, 5])))
        argv = [b"iodine"] + argv
        if any(b"\0" in a or len(a) > 950 for a in argv) or len(argv) > 60:
            continue
        out.append((env, argv))
    return out


def op_line(op, env, argv):
    return " ".join([op] + list(env) + [hx(a) for a in argv])


# ------------------------------------------------------------------ property oracles on the implementation's answers

def _fields(part):
    return dict(x.split("=", 1) for x in part.split() if "=" in x)


def effective_password(optstring, env, argv, env_name_ok=True):
    """the password the documentation promises: last -P (GNU getopt of Python's standard library), else the environment variable,
    else the first line typed at the prompt (the prompt reads at most 79 characters)"""
    strs = [a.decode("latin1") for a in argv[1:]]
    opts, _ = getopt.gnu_getopt(strs, optstring)
    last = None
    for o, a in opts:
        if o == "-P":
            last = a.encode("latin1")
    e = dict(t.split("=", 1) for t in env)
    if last:
        return last
    if "E" in e:
        return unhx(e["E"])
    typed = unhx(e["T"]) if "T" in e else b""
    return typed.split(b"\n")[0][:79]


def pad32(pw):
    cut = pw[:32]
    return cut + b"\0" * (32 - len(cut))


def valid_domain(s, wild):
    import c17
    return c17.valid_domain(s, wild)


def oracle(kind, env, argv, line):
    """(why, finding key, property) for the first clause the started configuration violates, else None"""
    parts = line.split(" | ")
    if not parts[0].startswith("run ") or len(parts) < 3:
        return None
    f = _fields(parts[2])
    try:
        want = pad32(effective_password(SRV_OPTS if kind == "srv" else CLI_OPTS, env, argv))
    except getopt.GetoptError as e:
        return ("the session machine was started although the command line is not acceptable to getopt (%s)" % e, kind + ":main-getopt", "C19")
    pw = unhx(f["pw"])
    if len(pw) != 33 or pw[:32] != want or pw[32] != 0:
        return ("password block is %s, the documented block (first 32 bytes of the effective password, zero padded) is %s"
                % (hx(pw), hx(want + b"\0")), kind + ":main-password", "C19")
    td = unhx(f["td"])
    if not valid_domain(td, kind == "srv"):
        return ("the session machine was started with top domain %r, which is not a valid domain" % td, kind + ":main-topdomain", "C17")
    if kind == "srv":
        nm, mtu, my = int(f["nm"]), int(f["mtu"]), int(f["ip"], 16)
        if not 8 <= nm <= 30:
            return ("the server was started with a netmask of %d bits" % nm, "srv:main-netmask", "C18")
        size = 1 << (32 - nm)
        net = my - my % size
        pool = [] if f["pool"] == "-" else [int(x, 16) for x in f["pool"].split(",")]
        if int(f["users"]) != min(16, size - 3) or len(pool) != int(f["users"]) or len(set(pool)) != len(pool) \
                or any(p - p % size != net or p in (my, net, net + size - 1) for p in pool):
            return ("the server was started with the pool %s for %s/%d" % (f["pool"], f["ip"], nm), "srv:main-pool", "C18")
        if not 0 < mtu < (1 << 31):
            return ("the server was started with mtu %d" % mtu, "srv:main-mtu", "C10")
        try:
            sopts, _ = getopt.gnu_getopt([a.decode("latin1") for a in argv[1:]], SRV_OPTS)
        except getopt.GetoptError:
            sopts = None
        if sopts is not None and int(f["cip"]) != (0 if any(o == "-c" for o, _ in sopts) else 1):
            return ("the server was started with check_ip=%s although -c was %sgiven (source-address checking is on unless -c)" % (f["cip"], "" if any(o == "-c" for o, _ in sopts) else "not "),
                    "srv:main-checkip", "C04")
        if my == 0xffffffff or int(f["ns"], 16) == 0xffffffff:
            return ("the server was started with INADDR_NONE as its tunnel / nameserver address", "srv:main-ip", "C18")
    else:
        ml = int(f["ml"])
        if not 10 <= ml <= 255:
            return ("the client was started with hostname_maxlen %d" % ml, "cli:main-maxlen", "C08")
        if int(f["qt"]) not in (10, 65399, 16, 33, 15, 5, 1, 65432) or int(f["dn"]) not in (32, 84, 83, 85, 86, 82):
            return ("the client was started with query type %s / downstream codec %s" % (f["qt"], f["dn"]), "cli:main-qtype", "C08")
        if int(f["sel"]) < 1 or f["lazy"] not in ("0", "1"):
            return ("the client was started with selecttimeout %s, lazymode %s" % (f["sel"], f["lazy"]), "cli:main-timeout", "C08")
        hsargs = [e for e in parts[1].split() if e.startswith("hs:")][0].split(":")
        if not 1 <= int(hsargs[4]) <= 65535 or hsargs[2] not in "01" or hsargs[3] not in "01":
            return ("client_handshake was called with %s" % ":".join(hsargs), "cli:main-hsargs", "C08")
    return None


def minimise(kind, exe, env, argv, key):
    """greedy removal of argv elements / environment tokens while the same oracle clause still fires on the implementation"""
    def fires(e, a):
        if len(a) < 1:
            return False
        r = vlib.run_lines(exe, [op_line("main", e, a)])
        o = oracle(kind, e, a, r.lines[0]) if r.lines else None
        return bool(o) and o[1] == key
    changed = True
    while changed:
        changed = False
        for width in (2, 1):
            i = 1
            while i + width <= len(argv):
                cand = argv[:i] + argv[i + width:]
                if fires(env, cand):
                    argv, changed = cand, True
                else:
                    i += 1
        for t in list(env):
            cand = [x for x in env if x != t]
            if fires(cand, argv):
                env, changed = cand, True
    return env, argv


def run(chk, focus=None, n_srv=None, n_cli=None):
    """differential + oracles; records violations on `chk` (only those of chk.prop, or correspondence failures); returns the number of bad results"""
    os.environ.pop("POSIXLY_CORRECT", None)
    focus = focus or chk.prop
    thorough = chk.tier == "thorough"
    n_srv = n_srv if n_srv is not None else (12000 if thorough else 2500)
    n_cli = n_cli if n_cli is not None else (8000 if thorough else 1500)
    rng = chk.rng
    bad = 0
    total = 0
    stats = {}
    for kind, exe, gen, mop, n in (("srv", vlib.build_srv(), gen_server, "smain", n_srv), ("cli", vlib.build_cli(), gen_client, "cmain", n_cli)):
        vecs = gen(rng, n, focus)
        if not vecs:
            continue
        c_ops = [op_line("main", e, a) for e, a in vecs]
        m_ops = [op_line(mop, e, a) for e, a in vecs]
        c = vlib.run_parallel(exe, c_ops)
        drv = chk.driver()
        m = vlib.run_parallel(drv, m_ops) if drv else None
        total += len(vecs)
        if c.rc != 0:
            i = c.abort_index if c.abort_index is not None else 0
            chk.violation("main() of %s aborted (sanitizer or crash), rc=%d on: %s\n%s" % ("iodined" if kind == "srv" else "iodine", c.rc,
                          b" ".join(vecs[min(i, len(vecs) - 1)][1])[:200], c.stderr[-1500:]), [c_ops[min(i, len(c_ops) - 1)]], key=kind + ":main-abort")
            bad += 1
        hits = 0
        outcomes = {}
        per_key = {}
        for i, (e, a) in enumerate(vecs):
            line = c.lines[i] if i < len(c.lines) else "<no-answer>"
            k = line.split(" | ")[0]
            outcomes[k] = outcomes.get(k, 0) + 1
            o = oracle(kind, e, a, line)
            if o:
                why, key, prop = o
                hits += 1
                if (prop == chk.prop or focus == "all") and per_key.get(key, 0) < 3:
                    per_key[key] = per_key.get(key, 0) + 1
                    bad += 1
                    e2, a2 = minimise(kind, exe, list(e), list(a), key)
                    chk.violation("%s fails on the implementation: %s\n command line: %s  environment: %s\n answer: %s\n reduced to: %s  %s"
                                  % (chk.prop, why, b" ".join(a)[:300], " ".join(e), line[:300], b" ".join(a2)[:300], " ".join(e2)), [op_line("main", e2, a2)], key=key)
        stats[kind] = {"vectors": len(vecs), "started": sum(v for k, v in outcomes.items() if k.startswith("run ")),
                       "distinct_outcomes": len(outcomes), "oracle_hits": hits}
        diffs = None if m is None else [i for i in range(len(vecs)) if (c.lines[i] if i < len(c.lines) else "<no-answer>") != (m.lines[i] if i < len(m.lines) else "<no-answer>")]
        stats[kind]["diffs"] = None if diffs is None else len(diffs)
        if diffs and bad == 0:
            i = diffs[0]
            chk.violation("correspondence broken (main() of %s vs %s): model and implementation differ on %d of %d argument vectors; the property oracle found no failing input.\n"
                          "command line: %s  environment: %s\n impl:  %s\n model: %s"
                          % ("iodined.c" if kind == "srv" else "iodine.c", "Server/Options.lean" if kind == "srv" else "Client/Options.lean", len(diffs), len(vecs),
                             b" ".join(vecs[i][1])[:300], " ".join(vecs[i][0]), c.lines[i][:400] if i < len(c.lines) else None, m.lines[i][:400] if i < len(m.lines) else None),
                          ["# correspondence of main() no longer checks"] + [c_ops[j] for j in diffs[:5]], no_input=True)
            bad += 1
        elif m is None and bad == 0:
            chk.violation("model driver does not build: " + vlib.ensure_lean().log[-1500:], ["# lake build iodmodel failed"], no_input=True)
            bad += 1
    chk.notes["main_check"] = stats
    chk.cov["evaluations"] = chk.cov.get("evaluations", 0) + total
    chk.cov["traces_validated_against_impl"] = chk.cov.get("traces_validated_against_impl", 0) + total
    return bad


def replay_line(op):
    """answer of the implementation to one `main …` op taken from a replay file (the program is told by argv[0])"""
    t = op.split()
    argv = [unhx(x) for x in t[1:] if "=" not in x]
    kind = "cli" if argv and argv[0] == b"iodine" else "srv"
    exe = vlib.build_cli() if kind == "cli" else vlib.build_srv()
    r = vlib.run_lines(exe, [op])
    line = r.lines[0] if r.lines else "<no-answer>"
    return kind, [x for x in t[1:] if "=" in x], argv, line


def is_main_replay(path):
    return any(l.startswith("main ") for l in open(path))


def replay(chk, path):
    """replay file of `main …` ops: the implementation's answer and the verdict of the property oracle for each"""
    bad = 0
    n = 0
    for l in open(path):
        l = l.strip()
        if not l.startswith("main "):
            continue
        n += 1
        kind, env, argv, line = replay_line(l)
        print(("iodined" if kind == "srv" else "iodine"), b" ".join(argv[1:])[:200], " ".join(env), "->", line[:400])
        o = oracle(kind, env, argv, line)
        if line == "<no-answer>":
            print("   ABORTED"); bad += 1
        elif o:
            print("   VIOLATES %s: %s" % (o[2], o[0])); bad += 1
    chk.cov.update({"evaluations": max(1, n), "distinct_nontrivial": 0})
    return 1 if bad else 0


if __name__ == "__main__":
    import sys
    sys.path.insert(0, os.path.join(os.path.dirname(os.path.abspath(__file__)), "..", "tools"))
    chk = vlib.Check(sys.argv[1] if len(sys.argv) > 1 else "C19", "quick", int(sys.argv[2]) if len(sys.argv) > 2 else 1)
    b = run(chk, focus="all")
    print("bad:", b, chk.notes["main_check"])
    for v in chk.violations:
        print(v[2][:1500])
