"""C20 — forwarded non-tunnel queries get their reply routed back to the asker.

Theorems: Props/C20.lean (ring invariant slots_are_last_puts; fw_reply_routed; fw_unknown_dropped;
fw_reply_only_to_recent_asker; fw_stale_not_leaked).  Correspondence: fw_query.c ring vs the Lean model on
exhaustive short and random long put/get sequences; oracle: the property text (last-16 window) in Python."""
import itertools
import vlib

SIZE = 16


def oracle_factory():
    st = {"puts": []}

    def oracle(op, line):
        t = op.split()
        if t[0] == "fwinit":
            st["puts"] = []
            return (None, None, None)
        if t[0] == "fwput":
            st["puts"].append((int(t[1]), int(t[2])))
            return (None, None, None)
        if t[0] == "fwget":
            i = int(t[1])
            recent = st["puts"][-SIZE:]
            askers = [a for a, j in recent if j == i]
            r = None if line == "r=none" else int(line[2:]) if line.startswith("r=") else "?"
            if r == "?":
                return ("no answer: " + line, None, None)
            if len(askers) == 1 and r != askers[0]:
                return ("reply id %d goes to %s, the only recent asker with that id is %d" % (i, r, askers[0]), None, "c20:routed")
            if not askers and r not in (None, 0):
                return ("reply id %d matches no remembered query but would be sent to asker %d" % (i, r), None, "c20:leak")
            if askers and r not in askers:
                return ("reply id %d sent to %s who never asked with that id recently (askers %s)" % (i, r, askers), None, "c20:wrong")
            return (None, (len(askers), min(len(st["puts"]), 17), i % 4), None)
        return (None, None, None)
    return oracle


def run(chk):
    rng, thorough = chk.rng, chk.tier == "thorough"
    ops = []
    alphabet = [("fwput", a, i) for a in (1, 2) for i in (0, 1, 2)] + [("fwget", i) for i in (0, 1, 2, 3)]
    depth = 5 if thorough else 4
    for seq in itertools.product(alphabet, repeat=depth):
        ops.append("fwinit")
        ops += [" ".join(str(x) for x in e) for e in seq]
    nseq = len(ops)
    for _ in range(3000 if thorough else 600):
        ops.append("fwinit")
        ids = [[0, 1, 2, 3, 4], list(range(1, 40)), [0, 65535, 7, 7727], [0x0080, 0x12ff, 0x80fe, 0x7f80, 0xff80, 0x00ff, 0x8000],
               [rng.randrange(65536) for _ in range(12)]][rng.randrange(5)]
        outstanding = []
        for _ in range(rng.randrange(1, 70)):
            if rng.random() < 0.6:
                a, i = rng.randrange(1, 6), rng.choice(ids)
                ops.append("fwput %d %d" % (a, i)); outstanding.append(i)
            else:
                i = rng.choice(outstanding + ids) if outstanding else rng.choice(ids)
                ops.append("fwget %d" % i)
    rule = ("every sequence of length %d over {put(asker 1|2, id 0..2), reply(id 0..3)} from an empty ring, plus random sequences of up to 70 "
            "events (more than 16 outstanding, id reuse, ids 0 and 65535). non-trivial = a reply with a window state; distinct by "
            "(#recent askers with that id, ring fill, id class)" % depth)
    chk.cov["exhaustive"] = False
    chk.notes["exhaustive_depth"] = depth
    sbad = server_part(chk)
    vlib.pure_check(chk, ops, oracle_factory(), rule + "; plus forward_query/tunnel_bind in the real server loop (h_srv): askers over IPv4/IPv6, names of 3..253 "
                    "characters, id reuse, replies for remembered and unknown ids", "FwQuery ring vs fw_query.c", sequential=True)
    chk.assumptions.append("forward_query/tunnel_bind glue (re-encoding, sockaddr handling) is covered by the server-harness part of this check when present")


def server_part(chk):
    """forward_query / tunnel_bind of the real iodined loop (h_srv, forwarding enabled): every non-tunnel query must be relayed with the
    same id, name and type; a reply is relayed unchanged to the asker of a remembered query with that id and to nobody else."""
    import struct
    import iodproto as P
    import srvgen
    rng, thorough = chk.rng, chk.tier == "thorough"
    exe = vlib.build_srv()
    bad, nops = 0, 0
    for run_i in range(40 if thorough else 10):
        h = srvgen.Harness(exe)
        td = b"t.example.com"
        h.send("cfg 1 %s 0a000001 27 %s 1130 00000000 5353 7f000001 %s" % (vlib.hx(b"pw"), vlib.hx(td), "00" * 15 + "01"))
        window = []         # (asker address, id) of forwarded queries, oldest first
        ids = [[0, 1, 2, 3, 4], list(range(1, 40)), [0, 65535, 7, 7727], [0x0080, 0x12ff, 0x80fe, 0x7f80, 0xff80, 0x00ff, 0x8000],
               [rng.randrange(65536) for _ in range(12)]][run_i % 5]
        for _ in range(rng.randrange(20, 90)):
            if h.dead:
                break
            if rng.random() < 0.6:
                fam = 6 if rng.random() < 0.3 else 4
                asker = srvgen.addr(0x0a630000 | rng.randrange(1, 5), rng.choice([53, 4000, 4001])) if fam == 4 else srvgen.addr((0xfd00 << 112) | rng.randrange(1, 4), 4000, 6)
                labels = rng.choice([1, 2, 3])
                n = rng.choice([3, 10, 60, 200, 243, 244, 250, 253])
                name = b"x" * min(63, n)
                while len(name) < n:
                    name += b"." + b"y" * min(63, n - len(name) - 1)
                name = name.rstrip(b".")
                if name.lower().endswith(td):
                    name = name[:-1] + b"q"
                id_, qt = rng.choice(ids), rng.choice([1, 16, 28, 15, 255])
                st = h.send("q %s %d %d %s" % (asker, id_, qt, vlib.hx(name)))
                if st is None:
                    break
                nops += 1
                fw = [e for e in st.events if e[0] == "fwd"]
                why = None
                if len(fw) != 1:
                    why = "%d datagrams were sent to the local DNS port" % len(fw)
                elif fw[0][1] != "4:7f000001:5353":
                    why = "relayed to %s, not to 127.0.0.1:5353" % fw[0][1]
                else:
                    try:
                        m = P.parse(vlib.unhx(fw[0][2]))
                        if m["id"] != id_ or len(m["qd"]) != 1 or m["qd"][0][0] != name or m["qd"][0][1] != qt:
                            why = "relayed query has id %d name %r type %d" % (m["id"], m["qd"][0][0][:40] if m["qd"] else None, m["qd"][0][1] if m["qd"] else -1)
                    except P.Malformed as e:
                        why = "relayed query is malformed: %s" % e
                if why:
                    chk.violation("C20 fails on the implementation: query id=%d type=%d name of %d characters from %s: %s" % (id_, qt, len(name), asker, why),
                                  [s_.op for s_ in h.steps], key="c20:fwd")
                    bad += 1
                    break
                window.append((asker, id_))
            else:
                id_ = rng.choice(ids + [w[1] for w in window[-20:]])
                reply = struct.pack(">H", id_) + b"\x81\x80" + bytes(rng.randrange(256) for _ in range(rng.randrange(8, 40)))
                st = h.send("bind " + vlib.hx(reply))
                if st is None:
                    break
                nops += 1
                rl = [e for e in st.events if e[0] == "rly" and not e[1].startswith("bad:")]
                askers = [a for a, i in window[-SIZE:] if i == id_]
                why = None
                if any(vlib.unhx(e[2]) != reply for e in rl):
                    why = "the reply was altered on the way"
                elif len(askers) == 1 and [e[1] for e in rl] != askers:
                    why = "reply id %d relayed to %s, the only recent asker with that id is %s" % (id_, [e[1] for e in rl], askers[0])
                elif not askers and rl:
                    why = "reply id %d matches no remembered query but was sent to %s" % (id_, rl[0][1])
                elif askers and (len(rl) != 1 or rl[0][1] not in askers):
                    why = "reply id %d relayed to %s, recent askers with that id: %s" % (id_, [e[1] for e in rl], askers)
                if why:
                    chk.violation("C20 fails on the implementation: " + why, [s_.op for s_ in h.steps], key="c20:rly")
                    bad += 1
                    break
        h.close()
        if h.dead:
            chk.violation("server harness aborted (rc=%s) on %s\n%s" % (h.dead[1], h.dead[0][:120], h.dead[2][-1200:]), [s_.op for s_ in h.steps] + [h.dead[0]], key="c20:abort")
            bad += 1
    chk.cov["evaluations"] = chk.cov.get("evaluations", 0) + nops
    chk.notes["server_ops"] = nops
    return bad


def replay(chk, path):
    ops = [l.strip() for l in open(path) if l.strip() and not l.startswith("#")]
    if ops and ops[0].startswith("cfg "):
        r = vlib.run_lines(vlib.build_srv(), ops)
        for o, l in zip(ops, r.lines):
            print(o[:100], "->", l.split(" | st")[0][:260])
        print(r.stderr[-800:])
        chk.cov.update({"evaluations": len(ops), "distinct_nontrivial": 0})
        return 1 if r.rc else 0
    return vlib.pure_replay(chk, path, oracle_factory())
