"""C20 — forwarded non-tunnel queries get their reply routed back to the asker.

Theorems: Props/C20.lean (ring invariant slots_are_last_puts; fw_reply_routed; fw_unknown_dropped;
fw_reply_only_to_recent_asker; fw_stale_not_leaked).  Correspondence: fw_query.c ring vs the Lean model on
exhaustive short and random long put/get sequences; oracle: the property text (last-16 window) in Python."""
import itertools
import vlib

SIZE = 16


def oracle_factory():
    st = {"puts": []}

    def oracle(op, line):
        t = op.split()
        if t[0] == "fwinit":
            st["puts"] = []
            return (None, None, None)
        if t[0] == "fwput":
            st["puts"].append((int(t[1]), int(t[2])))
            return (None, None, None)
        if t[0] == "fwget":
            i = int(t[1])
            recent = st["puts"][-SIZE:]
            askers = [a for a, j in recent if j == i]
            r = None if line == "r=none" else int(line[2:]) if line.startswith("r=") else "?"
            if r == "?":
                return ("no answer: " + line, None, None)
            if len(askers) == 1 and r != askers[0]:
                return ("reply id %d goes to %s, the only recent asker with that id is %d" % (i, r, askers[0]), None, "c20:routed")
            if not askers and r not in (None, 0):
                return ("reply id %d matches no remembered query but would be sent to asker %d" % (i, r), None, "c20:leak")
            if askers and r not in askers:
                return ("reply id %d sent to %s who never asked with that id recently (askers %s)" % (i, r, askers), None, "c20:wrong")
            return (None, (len(askers), min(len(st["puts"]), 17), i % 4), None)
        return (None, None, None)
    return oracle


def run(chk):
    rng, thorough = chk.rng, chk.tier == "thorough"
    ops = []
    alphabet = [("fwput", a, i) for a in (1, 2) for i in (0, 1, 2)] + [("fwget", i) for i in (0, 1, 2, 3)]
    depth = 5 if thorough else 4
    for seq in itertools.product(alphabet, repeat=depth):
        ops.append("fwinit")
        ops += [" ".join(str(x) for x in e) for e in seq]
    nseq = len(ops)
    for _ in range(3000 if thorough else 600):
        ops.append("fwinit")
        ids = rng.choice([[0, 1, 2, 3, 4], list(range(1, 40)), [0, 65535, 7, 7727]])
        outstanding = []
        for _ in range(rng.randrange(1, 70)):
            if rng.random() < 0.6:
                a, i = rng.randrange(1, 6), rng.choice(ids)
                ops.append("fwput %d %d" % (a, i)); outstanding.append(i)
            else:
                i = rng.choice(outstanding + ids) if outstanding else rng.choice(ids)
                ops.append("fwget %d" % i)
    rule = ("every sequence of length %d over {put(asker 1|2, id 0..2), reply(id 0..3)} from an empty ring, plus random sequences of up to 70 "
            "events (more than 16 outstanding, id reuse, ids 0 and 65535). non-trivial = a reply with a window state; distinct by "
            "(#recent askers with that id, ring fill, id class)" % depth)
    chk.cov["exhaustive"] = False
    chk.notes["exhaustive_depth"] = depth
    vlib.pure_check(chk, ops, oracle_factory(), rule, "FwQuery ring vs fw_query.c", sequential=True)
    chk.assumptions.append("forward_query/tunnel_bind glue (re-encoding, sockaddr handling) is covered by the server-harness part of this check when present")


def replay(chk, path):
    return vlib.pure_replay(chk, path, oracle_factory())
