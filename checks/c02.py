"""C02 — the tunnel makes progress and recovers after network trouble (no wedge).  PARTIAL (see DESIGN.md).

World runs (real client + real server, scripted network, virtual time).  Clean path: every offered packet that fits in 16 fragments is written to
the peer's tun device exactly once and in order.  Recovery: after a fault period of at most 40 virtual seconds (drop / duplicate / delay / reorder,
neither side starved for 60 s) packets offered on both sides after the path is clean again are delivered within a bounded time, without restart.
Theorems: Props/C02.lean (component lemmas: give-up after 3 resends, tun read gating, seqno window); the recovery part is a TEST (labelled)."""
import random
import vlib
import worldcheck as W

LEVEL = "proof"
RECOVERY_BOUND_MS = 20000


def fragments_needed(frame, res, upstream):
    """rough count of fragments for a frame (test compression = 1 byte longer); None when too close to the 16-fragment limit to judge"""
    size = len(frame) + 1
    if res["negotiated"].get("conn") == "0":
        return 1
    if upstream:
        k = {"b32": 5, "b64": 6, "b64u": 6, "b128": 7}.get(res["negotiated"].get("enc"), 5)
        L = res["cfg"]["maxlen"]
        space = L - len(b"t.example.com") - 8
        space -= space // 57
        per = max(1, space * k // 8)
    else:
        per = max(1, min(res.get("fs", 100), 4094))
    n = -(-size // per)
    return n


def stale_query_loss(r, f):
    """the recorded way a packet for the CLIENT is lost right after a fault period (finding c02:stale-query): the server, in lazy mode, still holds a
    query from before / during the faults; the client's later queries were lost, so that query's id has left the client's window of three ids; a
    packet that fits in ONE fragment is sent as the answer to it in the very iteration that read it from the tun device, is never acknowledged nor
    kept ("Whole packet was sent in one chunk, dont wait for ack", send_chunk_or_dataless), and the client ignores the answer"""
    import world
    hx = vlib.hx(f)
    for op, line in zip(r.get("sops", []), r.get("slines", [])):
        if op == "tun " + hx:
            ev = world.srvgen.parse_line(line)[0]
            ans = [e for e in ev if e[0] == "ans" and e[6].endswith(hx) and len(e[6]) == len(hx) + 6 and int(e[6][2:4], 16) & 1]
            if not ans:
                return False
            qid = ans[0][2]
            for cop, cl in zip(r.get("cops", []), r.get("clines", [])):
                if cop.startswith("ans "):
                    cev, sel, st = world.parse_cli(cl)
                    rq = next((e for e in cev if e[0] == "rq"), None)
                    if rq is not None and rq[2] == qid and rq[6] == ans[0][6]:
                        cur = st.get("cid", "").split("/")
                        return not any(e[0] == "tunw" for e in cev) and qid not in cur
            return False
    return False


def run(chk):
    rng, thorough = chk.rng, chk.tier == "thorough"
    proof_ok = chk.proofs()
    jobs = []
    n = 240 if thorough else 60
    for k in range(n):
        cfg = W.random_config(rng, {"raw_mode": 1} if k % 10 == 9 else None)
        if k % 20 == 16:
            # the user slot of a session that ended is given, more than 60 s later, to a new client program: a fresh session in every respect
            cfg = W.random_config(rng, {"raw_mode": 0, "second_relay": {}})
            jobs.append((chk.seed * 2000 + k, cfg, {}, None, 4, False, "reuse"))
        elif k % 20 == 12:
            cfg = W.random_config(rng, {"raw_mode": 1 if k % 40 == 12 else 0})
            jobs.append((chk.seed * 2000 + k, cfg, {}, None, 0, False, "silence"))
        elif k % 10 == 6:
            # one direction is black for 15-40 s (< 60 s) while packets are offered there and given up; then a clean path
            d = "up" if (k // 10) % 2 == 0 else "down"
            cfg = W.random_config(rng, {"raw_mode": 0, "blackout": {"dir": d, "n": rng.choice([2, 4, 5, 6, 7, 9]), "gap": 5500 if d == "up" else 3000}})
            jobs.append((chk.seed * 2000 + k, cfg, {}, None, 0, False, "blackout"))
        elif k % 10 in (4, 8):
            # clean path for 100 s with traffic in one direction only / none: the give-up timers (60 s on both sides) must not fire
            cfg = W.random_config(rng, {"raw_mode": 1 if k % 20 < 10 else 0})
            jobs.append((chk.seed * 2000 + k, cfg, {}, None, 2, False, ["uponly", "downonly", "idle"][(k // 10 + k) % 3]))
        elif k % 2 == 0:
            if k % 20 == 2:
                cfg["raw_mode"] = 1          # the plain clean scenario in raw mode as well (`clean_path_exactly_once_in_order_raw`)
            jobs.append((chk.seed * 2000 + k, cfg, {}, None, 10 if thorough else 6, False, "clean"))
        else:
            fault = {"drop": rng.choice([0.1, 0.3, 0.6, 1.0]), "dup": rng.choice([0.0, 0.3]), "delay": rng.choice([0, 200, 2000]), "ms": rng.choice([5000, 15000, 40000]),
                     "servfail": rng.choice([0.0, 0.0, 0.3, 0.6])}
            if cfg["raw_mode"] or cfg["seltimeout"] > 2:
                # "never starving either side for 60 s": the client itself only pings every `selecttimeout` (20 s in raw mode) seconds, so a long
                # total black-out plus its own idle gap would exceed the session timeout without the network being bad for 60 s
                fault["ms"] = min(fault["ms"], 15000)
            jobs.append((chk.seed * 2000 + k, cfg, {}, fault, 4, False, "recovery"))
    for j in jobs:
        # every C02 world is run as a schedule of `World.Ev` (checks/world.py, model_clock) so that the joined model can be put next to it
        j[1]["model_clock"] = True
    res = W.run_worlds(jobs)
    bad, delivered = 0, 0
    for r in res:
        if r["dead"]:
            chk.violation("%s harness aborted (rc=%s) in a world run (%s) on: %s\n%s" % (r["dead"][0], r["dead"][2], r["cfg"], r["dead"][1], r["dead"][3]), r["log"], key="c02:abort")
            bad += 1
            continue
        if r.get("spin"):
            chk.violation("C02 fails on the implementation: the client came back to select() without reading a descriptor that select() had just reported readable (client op %d: %s): with a real select() it spins without ever reaching its timeout branch (no resend, no give-up) (configuration %s, scenario %s)"
                          % (r["spin"][0], r["spin"][1][:60], r["cfg"], r["scenario"]), r["log"], key="c02:spin")
            bad += 1
            continue
        if r["handshake"] != ("ret", 0):
            chk.violation("C02 fails on the implementation: the handshake did not complete on a path that delivers everything intact and promptly (%s): %s" % (r["cfg"], r["handshake"]), r["log"], key="c02:handshake")
            bad += 1
            continue
        got_s = [f for _, f in r["tunw_s"]]
        got_c = [f for _, f in r["tunw_c"]]
        delivered += len(got_s) + len(got_c)
        if r["scenario"] == "silence":
            if r["client_ret"] is None:
                chk.violation("C02 fails on the implementation: with nothing getting through in either direction for %d ms the client is still in its tunnel loop (the 60 s give-up did not fire) (%s)" % (r.get("silence_ms", 0), r["cfg"]), r["log"], key="c02:no-giveup")
                bad += 1
            elif r.get("silence_ms", 0) < 60000:
                chk.violation("C02 fails on the implementation: the client left its tunnel loop after only %d ms without traffic (< 60 s) (%s)" % (r.get("silence_ms", 0), r["cfg"]), r["log"], key="c02:early-giveup")
                bad += 1
            continue
        if r["scenario"] == "blackout":
            if r.get("blackout_ms", 0) > 40000:
                continue        # (with whole-timeout clock steps the blackout can overshoot the 40 s the property quantifies over: out of scope)
            if r["client_ret"] is not None:
                chk.violation("C02 fails on the implementation: the client gave up (%s) although only one direction was bad, for %d ms (< 60 s) (%s)" % (r["client_ret"], r.get("blackout_ms", 0), r["cfg"]), r["log"], key="c02:exit")
                bad += 1
                continue
            d = r["cfg"]["blackout"]["dir"]
            late, got = (r.get("late_c", []), [f for _, f in r["tunw_s"]]) if d == "up" else (r.get("late_s", []), [f for _, f in r["tunw_c"]])
            hit = [f in got for _, f in late]
            if not all(hit):
                missing = [i for i, h in enumerate(hit) if not h]
                # the 3-bit sequence number with its "current and 3 back" window: after 4..7 packets were given up in a row the receiver takes the next
                # 1..4 NEW packets for recent duplicates and drops them for good (recorded finding); anything else is a new violation
                prefix_only = missing == list(range(len(missing))) and len(missing) <= 4
                chk.violation("C02 fails on the implementation: after %d ms in which every %sstream datagram was lost (%d packets given up), on a clean path again, %d of the next 6 packets offered (%s) were never delivered; the others were (configuration %s, negotiated %s)"
                              % (r.get("blackout_ms", 0), d, r["cfg"]["blackout"]["n"], len(missing), "the first %d" % len(missing) if prefix_only else "numbers %s" % missing, r["cfg"], r["negotiated"]),
                              r["log"], key="c02:seqno-window" if prefix_only else "c02:recovery")
                bad += 1
            continue
        if r["scenario"] != "recovery":
            if r["client_ret"] is not None:
                chk.violation("C02 fails on the implementation: on a path that delivers every datagram intact and promptly the client left its tunnel loop (%s) after %d s (scenario %s: traffic in one direction only / idle; configuration %s, negotiated %s)"
                              % (r["client_ret"], (r["end_ms"] - 1000000) // 1000, r["scenario"], r["cfg"], r["negotiated"]), r["log"], key="c02:clean-exit")
                bad += 1
                continue
            for side, sent, offered, got, up in (("server", r["accepted_c"], r["sent_c"], got_s, True), ("client", r["accepted_s"], r["sent_s"], got_c, False)):
                must = [f for _, f in sent if fragments_needed(f, r, up) <= 12]
                may = {f for _, f in offered}
                why = None
                if any(f not in may for f in got):
                    why = "a packet was written to the %s's tun device that was never offered" % side
                elif [f for f in got if f in must] != must:
                    missing = [len(f) for f in must if f not in got]
                    why = ("packets that fit in 16 fragments were not delivered to the %s exactly once and in order: offered %s, delivered %s%s"
                           % (side, [len(f) for f in must], [len(f) for f in got if f in must], (", missing sizes %s" % missing) if missing else ""))
                elif len(got) != len(set(got)) and len(set(may)) == len(sent):
                    why = "a packet was delivered twice to the %s on a clean path" % side
                if why:
                    chk.violation("C02 fails on the implementation: %s (configuration %s, negotiated %s)" % (why, r["cfg"], r["negotiated"]), r["log"], key="c02:clean")
                    bad += 1
                    break
        else:
            if r["client_ret"] is not None:
                chk.violation("C02 fails on the implementation: the client gave up (%s) although the path was bad for only %d ms (< 60 s) (%s, faults %s)" % (r["client_ret"], r["fault"]["ms"], r["cfg"], r["fault"]), r["log"], key="c02:exit")
                bad += 1
                continue
            for side, late, got in (("server", r.get("late_c", []), r["tunw_s"]), ("client", r.get("late_s", []), r["tunw_c"])):
                for t, f in late:
                    hit = [tt for tt, g in got if g == f and tt >= t]
                    if not hit or hit[0] - t > RECOVERY_BOUND_MS:
                        key = "c02:stale-query" if (side == "client" and not hit and stale_query_loss(r, f)) else "c02:recovery"
                        chk.violation("C02 fails on the implementation: %d ms after the path became clean a %d-byte packet offered for the %s was %s (configuration %s, negotiated %s, faults %s)"
                                      % (t - r["clean_at"], len(f), side, "not delivered within %d ms" % RECOVERY_BOUND_MS if not hit else "delivered only after %d ms" % (hit[0] - t), r["cfg"], r["negotiated"], r["fault"]),
                                      r["log"], key=key)
                        bad += 1
                        break
    chk.cov["evaluations"] = sum(len(r["log"]) for r in res)
    chk.cov["distinct_nontrivial"] = delivered
    chk.cov["traces_validated_against_impl"] = len(res)
    chk.cov["partial"] = True
    chk.cov["rule"] = ("%d world runs with virtual time: half on a clean prompt path (exactly-once, in-order delivery of every offered packet of at most 12 estimated fragments, nothing else delivered), "
                       "half with a fault period of 5-40 s (drop 10-100%%, duplication, delay up to 2 s) followed by a clean path on which late packets must arrive within %d ms; "
                       "all query types / codecs / hostname limits / lazy+immediate / raw mode; non-trivial = frame delivered" % (len(res), RECOVERY_BOUND_MS))
    chk.notes["recovery_part_is_a_test"] = True
    for r in res[:2]:
        chk.sample({"cfg": r["cfg"], "negotiated": r["negotiated"], "scenario": r["scenario"], "fault": r["fault"], "delivered": len(r["tunw_s"]) + len(r["tunw_c"])})
    W.report_client_model(chk, res, "C02")
    # several clients at once (both address families, user-to-user packets, slot re-use): generated sessions through the real loop and the
    # byte-level server model - the world runs above have one client
    import srvcheck
    srvcheck.model_only(chk, "C02", runs=24 if chk.tier == "thorough" else 8, nsteps=400, seed_mul=122949829)
    W.report_server_model(chk, res, "C02")
    W.report_world_model(chk, res, "C02")
    W.report_rseq(chk, "C02")
    if not chk.violations and not proof_ok:
        chk.violation("proof obligation no longer checks: " + chk.proof_detail,
                      ["# theorems of Props/C02.lean: " + ", ".join(vlib.prop_theorems("C02")), "# " + chk.proof_detail.replace("\n", "\n# ")], no_input=True)


def replay(chk, path):
    d = W.replay_world(path)
    chk.cov.update({"evaluations": 1, "distinct_nontrivial": 0})
    return 1 if (d[0] or d[1]) else 0
