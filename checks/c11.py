"""C11 — automatic negotiation only selects settings that actually work on the path.  PARTIAL for per-character random case (see DESIGN.md).

World runs: the REAL client's handshake (query type, EDNS0, upstream codec, downstream codec, lazy mode, fragment size — forced or autodetected)
through a relay from the product family {case keep/lower/upper/random} x {8-bit clean/strip/reject} x {punctuation keep/mangle '+'/mangle '_'} x
{allowed record types: prefixes of the probe order} x {answer size limit none/4096/1232/512} x {EDNS0 honoured or not} to the REAL server.
Oracle: if the handshake succeeds, packets offered on both sides afterwards are delivered intact (exactly the offered bytes); with autodetection the
handshake must succeed on every relay of the family (all of them pass Base32 names and 512-byte answers for at least one supported type)."""
import random
import vlib
import iodproto as P
import worldcheck as W

LEVEL = "proof"
PROBE_ORDER = [P.T_NULL, P.T_PRIVATE, P.T_TXT, P.T_SRV, P.T_MX, P.T_CNAME, P.T_A]


def relay_family(rng, n):
    out = []
    for _ in range(n):
        cut = rng.randrange(0, 7)
        out.append({"case": rng.choice(["keep", "lower", "upper", "random"]), "hi": rng.choice(["clean", "strip", "reject"]),
                    "punct": rng.choice(["keep", "plus", "underscore"]), "types": PROBE_ORDER[cut:], "limit": rng.choice([None, 4096, 1232, 512]),
                    "edns": rng.random() < 0.5})
    return out


def run(chk):
    rng, thorough = chk.rng, chk.tier == "thorough"
    proof_ok = chk.proofs()
    jobs = []
    fam = relay_family(rng, 400 if thorough else 128)
    for k, rl in enumerate(fam):
        forced = k % 4 == 3
        cfg = W.random_config(rng, {"qtype": 65432, "downenc": "-", "autofrag": 1, "raw_mode": 0})
        if forced:
            cfg["qtype"] = rng.choice(rl["types"])          # a type the path lets through, forced with -T
            cfg["downenc"] = rng.choice(["T", "S", "U", "V"])
        scen = "forced" if forced else "auto"
        if k % 8 == 5:
            # a transparent path with a binding answer-size limit: the wide upstream codecs get selected, the probed fragment size is then used at
            # full load in both directions
            rl.update({"case": "keep", "hi": "clean", "punct": "keep", "types": PROBE_ORDER[rng.choice([0, 2, 3]):], "limit": rng.choice([1232, 512, 1232])})
            scen = "fullsize"
        if k % 16 == 9:
            # the user slot of a client that negotiated wide codecs on a transparent path is re-used, after it expired, by a client behind `rl`
            cfg["second_relay"] = dict(rl)
            rl = {}
            scen = "reuse"
        jobs.append((chk.seed * 3000 + k, cfg, rl, None, 4, False, scen))
    res = W.run_worlds(jobs)
    bad, ok_hs, delivered = 0, 0, 0
    for r in res:
        if r["dead"]:
            chk.violation("%s harness aborted (rc=%s) in a world run (relay %s) on: %s\n%s" % (r["dead"][0], r["dead"][2], r["relay"], r["dead"][1], r["dead"][3]), r["log"], key="c11:abort")
            bad += 1
            continue
        if r["handshake"] != ("ret", 0):
            if r["scenario"] in ("auto", "fullsize", "reuse"):
                chk.violation("C11 fails on the implementation: autodetecting handshake failed (%s) through a relay that passes Base32 names and 512-byte answers for the types %s (%s)"
                              % (r["handshake"], r["relay"], r["cfg"]), r["log"], key="c11:fallback")
                bad += 1
            continue
        ok_hs += 1
        got_s, got_c = [f for _, f in r["tunw_s"]], [f for _, f in r["tunw_c"]]
        delivered += len(got_s) + len(got_c)
        sent_c, sent_s = [f for _, f in r["sent_c"]], [f for _, f in r["sent_s"]]
        # accepted by the sending side and well within 16 fragments at the negotiated sizes (downstream: fragment size; upstream: at least
        # 24 bytes per query even at the smallest hostname limit)
        must_c = [f for _, f in r["accepted_c"] if len(f) + 1 <= 12 * 24]
        must_s = [f for _, f in r["accepted_s"] if len(f) + 1 <= 12 * max(1, min(r.get("fs", 100), 4094))]
        if r["scenario"] == "fullsize":
            must_c = [f for _, f in r["accepted_c"] if W.fragments_needed(f, r, True) <= 12]
            must_s = [f for _, f in r["accepted_s"] if W.fragments_needed(f, r, False) <= 12]
        why = None
        if any(f not in sent_c for f in got_s) or any(f not in sent_s for f in got_c):
            why = "a packet arrived corrupted (not equal to any offered packet)"
        elif [f for f in got_s if f in must_c] != must_c or [f for f in got_c if f in must_s] != must_s:
            why = "packets offered after the handshake were not delivered (client->server %d of %d, server->client %d of %d)" % (
                len([f for f in got_s if f in must_c]), len(must_c), len([f for f in got_c if f in must_s]), len(must_s))
        key = "c11:survive"
        if why and r["negotiated"].get("dn") == "R" and "punct=keep" not in r["relay"]:
            # the downstream codec check string contains neither '+' nor '_': a relay that rewrites those bytes in TXT text passes the Raw test
            key = "c11:raw-punct"
        if why and r["scenario"] == "forced" and ("punct=keep" not in r["relay"] or "8bit=clean" not in r["relay"] or "case=keep" not in r["relay"]):
            # a forced -O codec is not tested by the handshake at all
            key = "c11:forced-unchecked"
        if why:
            chk.violation("C11 fails on the implementation: the handshake settled on type %s, upstream %s, downstream %s, lazy %s through relay [%s] but %s"
                          % (r["negotiated"].get("qt"), r["negotiated"].get("enc"), r["negotiated"].get("dn"), r["negotiated"].get("lazy"), r["relay"], why), r["log"], key=key)
            bad += 1
    chk.cov["evaluations"] = sum(len(r["log"]) for r in res)
    chk.cov["distinct_nontrivial"] = ok_hs
    chk.cov["traces_validated_against_impl"] = len(res)
    chk.cov["partial"] = True
    chk.cov["rule"] = ("%d relays sampled from {case keep/lower/upper/random} x {8-bit clean/strip/reject} x {punctuation keep/mangle +/mangle _} x {allowed types: 7 suffixes of the probe order} x "
                       "{limit none/4096/1232/512} x {EDNS0 honoured or not}; 3 of 4 with full autodetection, 1 of 4 with a forced type/codec; after a successful handshake 4 packets of 0..9000 bytes are offered "
                       "on both sides; non-trivial = handshake that completed" % len(res))
    chk.notes["handshakes_ok"] = ok_hs
    chk.notes["frames_delivered"] = delivered
    for r in res[:3]:
        chk.sample({"relay": r["relay"], "negotiated": r["negotiated"], "handshake": str(r["handshake"])})
    # the negotiation MODEL of the theorems (Lemmas/C11b.lean) against the real client: predicted vs negotiated upstream / downstream codec
    drv = chk.driver()
    npred, nbad = 0, 0
    if drv:
        ops, exp = [], []
        for r, j in zip(res, jobs):
            rl = j[2]
            if r["scenario"] != "auto" or r["handshake"] != ("ret", 0) or rl["case"] == "random" or r["dead"]:
                continue
            ops.append("negot %s %s %s %d %s %s" % (rl["case"], "strip" if rl["hi"] == "strip" else "clean", rl["punct"], 1 if rl["hi"] == "reject" else 0,
                                                    r["negotiated"]["qt"], vlib.hx(b"t.example.com")))
            dn = r["negotiated"].get("dn") or " "
            exp.append("up=%d dn=%d" % ({"b32": 0, "b64": 1, "b64u": 2, "b128": 3}[r["negotiated"]["enc"]], ord(dn[0])))
        out = vlib.run_lines(drv, ops).lines if ops else []
        for o, e, l in zip(ops, exp, out):
            npred += 1
            if e != l and not chk.violations:
                nbad += 1
                chk.violation("correspondence broken (negotiation model of C11 vs the real client): for `%s` the model predicts %s, the real client negotiated %s; no delivery failure found" % (o, l, e),
                              ["# correspondence C11L.upencAutodetect/downencAutodetect vs client.c handshake no longer checks", o], no_input=True)
    chk.notes["negotiation_predictions_compared"] = npred
    # the server side of "Base32 survives every path": sessions of up to 20 clients, some behind relays that upper- or lower-case every query name
    # (user ids 10..15 are the letters a..f / A..F in data queries), through the real loop and the byte-level server model
    import srvcheck
    srvcheck.model_only(chk, "C11", runs=24 if thorough else 8, nsteps=400, seed_mul=86028121)
    W.report_client_model(chk, res, "C11")
    W.report_server_model(chk, res, "C11")
    if not chk.violations and not proof_ok:
        chk.violation("proof obligation no longer checks: " + chk.proof_detail,
                      ["# theorems of Props/C11.lean: " + ", ".join(vlib.prop_theorems("C11")), "# " + chk.proof_detail.replace("\n", "\n# ")], no_input=True)


def replay(chk, path):
    d = W.replay_world(path)
    chk.cov.update({"evaluations": 1, "distinct_nontrivial": 0})
    return 1 if (d[0] or d[1]) else 0
