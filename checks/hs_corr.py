"""Directed correspondence runs for the HANDSHAKE model (lean/IodineModel/Client/Handshake.lean vs client_handshake() of client.c).

Not a registered property check: `python3 checks/hs_corr.py [seed] [runs]` prints statistics and the first difference.  It adds to what
the registered world checks (C01 C02 C06 C11) cover: handshakes on a LOSSY path (drop / duplicate / delay during the whole handshake, so that
every retry loop, the -3 path of handshake_waitdns and late answers to earlier queries are reached), on a HOSTILE path (c06.HostileWorld, up
to 80 % of the answers replaced or accompanied), through the C11 relay family, with a wrong password (LNAK), raw mode with lost raw-login
replies, forced and autodetected query types / codecs, -m and autoprobed fragment sizes, lazy or not."""
import os, sys, random, json
HERE = os.path.dirname(os.path.abspath(__file__))
sys.path.insert(0, os.path.join(os.path.dirname(HERE), "tools"))
sys.path.insert(0, HERE)
import vlib
import world
import worldcheck as W
import c06
import c11


class Chk:
    """the little of vlib.Check that client_model_diff needs"""
    def __init__(self):
        self.st = vlib.ensure_lean()

    def driver(self):
        return self.st.driver if self.st.driver_ok else None


def one(args):
    seed, = args
    rng = random.Random(seed)
    kind = rng.choice(["lossy", "lossy", "hostile", "hostile", "relay", "badpw", "rawloss", "clean"])
    cfg = W.random_config(rng, {"raw_mode": rng.choice([0, 0, 1])})
    if rng.random() < 0.4:
        cfg["qtype"] = 65432
    relay_kw = c11.relay_family(rng, 1)[0] if kind == "relay" or rng.random() < 0.2 else {}
    if relay_kw and cfg["qtype"] != 65432 and cfg["qtype"] not in relay_kw["types"]:
        cfg["qtype"] = 65432
    relay = world.Relay(rng=rng, **relay_kw)
    kw = dict(relay=relay, qtype=cfg["qtype"], downenc=cfg["downenc"], lazy=cfg["lazy"], maxlen=cfg["maxlen"], seltimeout=cfg["seltimeout"],
              raw_mode=cfg["raw_mode"], autofrag=cfg["autofrag"], fragsize=cfg["fragsize"])
    drop = dup = delay = 0
    if kind in ("lossy", "rawloss") or rng.random() < 0.3:
        drop, dup, delay = rng.choice([0.1, 0.3, 0.5, 0.7]), rng.choice([0, 0.2]), rng.choice([0, 500, 2500])
    w = c06.HostileWorld(rng, vlib.build_srv(), vlib.build_cli(), drop=drop, dup=dup, delay=delay, **kw)
    w.hostility = rng.choice([0.35, 0.6, 0.8]) if kind == "hostile" else 0.0
    if kind == "badpw":
        w.cop("ccfg %s %s %d %d %s %d %d 0 1 0" % (vlib.hx(w.td), vlib.hx(b"wrong"), cfg["maxlen"], cfg["qtype"], cfg["downenc"], cfg["lazy"], cfg["seltimeout"]))
    if kind == "rawloss":
        w.hs_args = (1, cfg["autofrag"], cfg["fragsize"])
        # raw frames are lost more often than DNS traffic
        base = w._net
        w._net = lambda: [] if (rng.random() < 0.5) else base()
    hs = w.handshake(600000)
    if hs == ("ret", 0) and not w.dead():
        w.start_tunnel()
        f = W.frame_to_server_side(rng, 100); w.offer_to_client(f)
        g = W.frame_to_client(rng, 100); w.offer_to_server(g)
        w.settle(5000)
    d = w.dead()
    out = {"seed": seed, "kind": kind, "cfg": cfg, "relay": relay.describe(), "handshake": hs, "cops": list(w.c.ops), "clines": list(w.c.lines),
           "dead": (d[0][:100], d[1], d[2][-800:]) if d else None, "state": dict(w.c_state)}
    w.close()
    return out


def main():
    seed = int(sys.argv[1]) if len(sys.argv) > 1 else 1
    n = int(sys.argv[2]) if len(sys.argv) > 2 else 160
    from concurrent.futures import ProcessPoolExecutor
    vlib.build_srv(); vlib.build_cli()
    chk = Chk()
    with ProcessPoolExecutor(min(16, os.cpu_count() or 4)) as ex:
        res = list(ex.map(one, [(seed * 100000 + k,) for k in range(n)]))
    d = W.client_model_diff(chk, res)
    kinds, rets, dead = {}, {}, 0
    for r in res:
        kinds[r["kind"]] = kinds.get(r["kind"], 0) + 1
        rets[str(r["handshake"])] = rets.get(str(r["handshake"]), 0) + 1
        dead += 1 if r["dead"] else 0
    neg = {}
    for r in res:
        if r["handshake"] == ("ret", 0):
            k = "qt=%s enc=%s dn=%s lazy=%s conn=%s e0=%s" % tuple(r["state"].get(x) for x in ("qt", "enc", "dn", "lazy", "conn", "e0"))
            neg[k] = neg.get(k, 0) + 1
    print(json.dumps({"runs": n, "kinds": kinds, "handshake_results": rets, "harness_deaths": dead, "ops_compared": d[0] if d else None,
                      "diffs": d[1] if d else None, "handshake": getattr(W.client_model_diff, "hs", None), "negotiated": len(neg)}, indent=1))
    for r in res:
        if r["dead"]:
            print("DEAD", r["seed"], r["kind"], r["dead"])
    if d and d[2]:
        s, i, o, a, b, pre = d[2]
        print("FIRST DIFF seed", s, "op#", i, "\n op:   ", o[:300], "\n impl: ", a[:700], "\n model:", b[:700])
        r = next(x for x in res if x["seed"] == s)
        print(" kind", r["kind"], r["cfg"], r["relay"])
        open("/tmp/wp_H/hs_first_diff.ops", "w").write("\n".join(pre) + "\n")
    return 1 if (d is None or d[1]) else 0


if __name__ == "__main__":
    sys.exit(main())
