"""C16 — see DESIGN.md §4 C16.  Theorems: Props/C16.lean over the server session model (Server/*.lean);
correspondence: the real tunnel() loop (h_srv) vs the model on generated sessions; oracle: checks/srvmon.py monitor C16."""
import srvcheck

LEVEL = "proof"


def run(chk):
    srvcheck.run(chk, "C16")


def replay(chk, path):
    return srvcheck.replay(chk, path, "C16")
