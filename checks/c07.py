"""C07 — Base32/64/64u/128 codecs lossless, alphabet-pure, capacity-exact.

Decided by: theorems of lean/IodineModel/Props/C07.lean over the generic codec model
instantiated with the tables regenerated from /repo/src (Tie 1), plus the correspondence
check of that model against the real encoders/decoders (Tie 2).  The property clauses are
also evaluated directly on the C functions by an oracle written here independently of the
model (documented alphabets from doc/proto_00000502.txt, ceil(8n/k) arithmetic)."""
import vlib
from vlib import hx, unhx

K = {"b32": 5, "b64": 6, "b64u": 6, "b128": 7}
BLK = {"b32": 5, "b64": 3, "b64u": 3, "b128": 7}
AZ = set(range(97, 123)); AZU = set(range(65, 91)); DIG = set(range(48, 58))
DOC = {
    "b32": AZ | set(range(48, 54)),
    "b64": AZ | AZU | DIG | {ord("-"), ord("+")},
    "b64u": AZ | AZU | DIG | {ord("-"), ord("_")},
    "b128": AZ | AZU | DIG | set(range(0xBC, 0xFE)),
}
INF = 1 << 20


def ceil_chars(k, n):
    return (8 * n + k - 1) // k


def parse(line):
    d = {}
    for t in line.split():
        if "=" in t:
            a, b = t.split("=", 1)
            d[a] = b
    return d


def gen_ops(chk):
    rng, thorough = chk.rng, chk.tier == "thorough"
    ops = []
    triples = set()     # (codec, position in block, b0, b1) covered with unlimited capacity
    # 1. every adjacent byte pair in every block position (complete for the per-character expressions)
    for c in K:
        blk = BLK[c]
        for a in range(256):
            body = bytes(x for b in range(256) for x in (a, b))
            for s in range(blk):
                d = bytes(rng.randrange(256) for _ in range(s)) + body
                ops.append("encdec %s %d %s" % (c, INF, hx(d)))
                for i in range(s, len(d) - 1):
                    triples.add((c, i % blk, d[i], d[i + 1]))
    chk.notes["adjacent_pair_triples_covered"] = len(triples)
    chk.notes["adjacent_pair_triples_total"] = sum(BLK[c] * 65536 for c in K)
    # 2. all inputs of length <= 1 and a seed-dependent slice of length 2, capacities 0..6
    for c in K:
        smalls = [b""] + [bytes([a]) for a in range(256)]
        a0 = rng.randrange(256)
        smalls += [bytes([a0, b]) for b in range(256)] + [bytes([b, a0]) for b in range(256)]
        if thorough:
            smalls += [bytes([a, b]) for a in range(256) for b in range(256)]
        for d in smalls:
            for cap in list(range(0, 7)) + [INF]:
                ops.append("encdec %s %d %s" % (c, cap, hx(d)))
    # 3. capacity logic: every (length, capacity) pair for small lengths; boundary capacities for all lengths
    nmax = 96 if thorough else 40
    for c in K:
        k = K[c]
        for n in range(0, nmax + 1):
            d = bytes(rng.randrange(256) for _ in range(n))
            for cap in [INF] + list(range(0, 2 * n + 3)):
                ops.append("encdec %s %d %s" % (c, cap, hx(d)))
        lens = range(0, 4097) if thorough else sorted(set(list(range(0, 300)) + [rng.randrange(300, 4097) for _ in range(150)] + [4095, 4096]))
        for n in lens:
            style = rng.randrange(4)
            d = bytes([0] * n) if style == 0 else bytes([255] * n) if style == 1 else bytes(rng.randrange(256) for _ in range(n))
            full = ceil_chars(k, n)
            caps = {INF, 0, 1, 2, n, max(0, full - 1), full, full + 1, 2 * n, rng.randrange(0, full + 2)}
            for cap in sorted(caps):
                ops.append("encdec %s %d %s" % (c, cap, hx(d)))
    # 4. decoder on arbitrary character strings: NULs, slen cuts, capacity cuts, non-alphabet characters
    ndec = 6000 if thorough else 1500
    for c in K:
        alpha = sorted(DOC[c])
        for _ in range(ndec):
            n = rng.choice([0, 1, 2, 3, 7, 8, 9, 15, 16, 17, rng.randrange(0, 80), rng.randrange(0, 400)])
            mode = rng.randrange(4)
            hi = 256 if c == "b128" or SIGNED_SAFE else 128
            if mode == 0:
                s = bytes(rng.choice(alpha) for _ in range(n))
            elif mode == 1:
                s = bytes(rng.randrange(1, hi) for _ in range(n))
            elif mode == 2:
                s = bytearray(rng.choice(alpha) for _ in range(n))
                if n:
                    s[rng.randrange(n)] = 0
                s = bytes(s)
            else:
                s = bytes(rng.randrange(0, hi) for _ in range(n))
            slen = rng.choice([n, n, max(0, n - 1), rng.randrange(0, n + 1)])
            cap = rng.choice([INF, INF, 0, 1, rng.randrange(0, n + 2)])
            ops.append("dec %s %d %d %s" % (c, cap, slen, hx(s)))
    return ops


# bytes >= 0x80 index rev32/rev64 through a signed char in the pinned tree (UB, D1); after the repair
# they are ordinary non-alphabet characters.  The decoder ops use them only when the code is safe.
SIGNED_SAFE = True


def oracle(chk, ops, lines):
    """the clauses of C07 evaluated on the implementation's answers"""
    full = {}
    bad = 0
    nontriv = set()
    for op, line in zip(ops, lines):
        t = op.split()
        if t[0] != "encdec":
            continue
        c, cap, d = t[1], int(t[2]), unhx(t[3])
        k, n = K[c], len(unhx(t[3]))
        r = parse(line)
        why = None
        if "out" not in r or "dec" not in r or "used" not in r:
            why = "encoder broke its contract: " + line
        else:
            out, dec, used, ret = unhx(r["out"]), unhx(r["dec"]), int(r["used"]), int(r["r"])
            if ret != len(out) or ret > cap:
                why = "wrote %d characters with capacity %d" % (ret, cap)
            elif any(ch not in DOC[c] for ch in out):
                why = "character outside the documented alphabet"
            elif used > n or dec != d[:used]:
                why = "emitted text decodes to %s, reported used=%d" % (hx(dec), used)
            elif used != n and ceil_chars(k, used + 1) <= cap:
                why = "withheld a byte that fits: used=%d of %d, cap=%d" % (used, n, cap)
            elif cap >= ceil_chars(k, n) and (used != n or ret != ceil_chars(k, n)):
                why = "length ratio: %d bytes -> %d chars (expected %d)" % (n, ret, ceil_chars(k, n))
            elif cap == INF:
                full[(c, d)] = out
            elif (c, d) in full and full[(c, d)][:len(out)] != out:
                why = "capped encoding is not a prefix of the full encoding"
            if why is None and n > 0:
                nontriv.add((c, n, min(cap, ceil_chars(k, n) + 1), d[:4], d[-2:]))
        if why:
            bad += 1
            chk.violation("C07 fails on the implementation: %s (%s cap=%d input=%s)" % (why, c, cap, t[3][:80]),
                          [op], key="c07:" + why.split(":")[0])
    return bad, len(nontriv)


def run(chk):
    proof_ok = chk.proofs()
    exe = vlib.build_harness("h_pure", ["h_pure.c"], vlib.PURE_OBJS)
    ops = gen_ops(chk)
    c, m, diffs = vlib.differential(chk, exe, ops)
    chk.cov["evaluations"] = len(ops)
    chk.cov["rule"] = ("ops = encode(+decode of the emitted text) and decode calls on the real base{32,64,64u,128}_ops and on the Lean "
                       "model; generated from one PRNG (seed); every adjacent byte pair in every block position, all inputs of length <=1, "
                       "every (length,capacity) for small lengths, boundary capacities for lengths up to 4096, arbitrary decoder input. "
                       "non-trivial = non-empty input whose answer passed the oracle; distinct by (codec,length,capacity class,first/last bytes)")
    chk.cov["traces_validated_against_impl"] = len(ops)
    if c.rc != 0:
        i = c.abort_index if c.abort_index is not None else 0
        chk.violation("C harness aborted (sanitizer or crash), rc=%d on op: %s\n%s" % (c.rc, ops[i][:200], c.stderr[-1500:]), [ops[i]], key=None)
    bad, nontriv = oracle(chk, ops, c.lines)
    chk.cov["distinct_nontrivial"] = nontriv
    for i in (0, len(ops) // 3, len(ops) // 2, len(ops) - 1):
        chk.sample({"op": ops[i][:120], "impl": c.lines[i][:160] if i < len(c.lines) else None})
    chk.notes["correspondence_diffs"] = None if diffs is None else len(diffs)
    if not proof_ok or diffs is None or diffs:
        # proof obligation or correspondence broken: the oracle above was the search for a failing input
        if bad == 0:
            if diffs:
                i = diffs[0]
                chk.violation("correspondence broken: model and implementation differ on %d ops, property oracle found no failing input.\nfirst: %s\n impl: %s\n model: %s"
                              % (len(diffs), ops[i][:200], c.lines[i][:200], m.lines[i][:200] if i < len(m.lines) else None),
                              ["# correspondence Codec.enc/Codec.dec vs base*_ops no longer checks"] + [ops[j] for j in diffs[:5]], no_input=True)
            else:
                chk.violation("proof obligation no longer checks: " + chk.proof_detail,
                              ["# theorems of Props/C07.lean: " + ", ".join(vlib.prop_theorems("C07")), "# " + chk.proof_detail.replace("\n", "\n# ")], no_input=True)


def replay(chk, path):
    exe = vlib.build_harness("h_pure", ["h_pure.c"], vlib.PURE_OBJS)
    ops = [l.strip() for l in open(path) if l.strip() and not l.startswith("#")]
    c = vlib.run_lines(exe, ops)
    for o, l in zip(ops, c.lines):
        print(o[:100], "->", l[:200])
    bad, _ = oracle(chk, ops, c.lines)
    chk.cov.update({"evaluations": len(ops), "distinct_nontrivial": 0})
    return 1 if bad or c.rc else 0
