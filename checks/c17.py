"""C17 — tunnel domain validation and query matching follow label boundaries exactly.

Theorems: Props/C17.lean (check_topdomain_iff_spec, query_datalen_iff_spec, uniqueness of the split).
Correspondence: check_topdomain / query_datalen of the current tree vs the Lean model, exhaustively over short
strings from {a,A,b,-,.,*,0} plus boundary and random long inputs.  Oracle: an independent Python transcription
of the property text (not of the C, not of the Lean model)."""
import itertools
import vlib
from vlib import hx, unhx

ALPHA = b"aAb-.*0"
DOMAINS = [b"t.co", b"a.b", b"T.cO", b"ab.a", b"a-0.b", b"0.a.b", b"*.t.co", b"*.a.b", b"*.b.a0", b"*.A.b", b"b.b.b", b"*.0.a"]


def valid_domain(s, wild):
    if not (3 <= len(s) <= 128):
        return False
    body = s
    if wild and s[:1] == b"*":
        if s[1:2] != b".":
            return False
        body = s[1:]
        if len(body) == 0:
            return False
    for ch in body:
        if not (chr(ch).isascii() and (chr(ch).isalnum() or ch in b"-.")):
            return False
    labels = s.split(b".")
    return len(labels) >= 2 and all(1 <= len(l) <= 63 for l in labels)


def lower(s):
    return bytes(c + 32 if 65 <= c <= 90 else c for c in s)


def match_len(q, t):
    """data length if q is tunnel traffic for domain t (property text), else None"""
    if t[:1] == b"*":
        rest = t[1:]           # ".xyz"
        if len(q) < len(rest) + 1 or lower(q[len(q) - len(rest):]) != lower(rest):
            return None
        head = q[:len(q) - len(rest)]
        # the wildcard stands for exactly one non-empty star-free label at the end of head
        i = head.rfind(b".")
        lab, pre = head[i + 1:], head[:i + 1]
        if len(lab) == 0 or b"*" in lab:
            return None
        return len(pre)
    if len(q) < len(t) or lower(q[len(q) - len(t):]) != lower(t):
        return None
    pre = q[:len(q) - len(t)]
    if pre and not pre.endswith(b"."):
        return None
    return len(pre)


def oracle(op, line):
    t = op.split()
    if not line.startswith("r="):
        return ("no answer: " + line, None, None)
    r = int(line[2:])
    if t[0] == "topdom":
        s, wild = unhx(t[2]), t[1] == "1"
        want = 0 if valid_domain(s, wild) else 1
        if r != want:
            return ("domain %r (wildcard allowed=%s) %s but the property says it must be %s" % (s, wild, "accepted" if r == 0 else "rejected", "accepted" if want == 0 else "rejected"), None, "c17:validate")
        return (None, ("v", wild, s) if want == 0 else None, None)
    q, dom = unhx(t[1]), unhx(t[2])
    if b".." in q or not valid_domain(dom, True):
        return (None, None, None)       # outside the property's quantifier; still compared with the model
    want = match_len(q, dom)
    if (want if want is not None else -1) != r:
        return ("query name %r against domain %r: implementation says %d, property says %s" % (q, dom, r, want), None, "c17:match")
    return (None, ("m", q, dom) if want is not None else None, None)


def gen_ops(chk):
    rng, thorough = chk.rng, chk.tier == "thorough"
    ops = []
    # validation: all strings up to length 6 (7 in thorough), both modes
    for n in range(0, (7 if thorough else 6) + 1):
        for tup in itertools.product(ALPHA, repeat=n):
            h = hx(bytes(tup))
            ops.append("topdom 0 " + h)
            ops.append("topdom 1 " + h)
    # length boundaries
    for lab in (62, 63, 64, 65):
        for dom in (b"a" * lab + b".b", b"a." + b"b" * lab, b"*." + b"c" * lab + b".d", b"x." + b"y" * lab + b".z"):
            for w in "01":
                ops.append("topdom %s %s" % (w, hx(dom)))
    for total in (126, 127, 128, 129, 130):
        labs = [b"a" * 60, b"b" * 60]
        rest = total - 122
        dom = b".".join(labs + [b"c" * rest]) if rest > 0 else b".".join(labs)[:total]
        for w in "01":
            ops.append("topdom %s %s" % (w, hx(dom)))
            ops.append("topdom %s %s" % (w, hx(b"*." + dom[2:])))
    # every single-byte substitution (1..255) at every position of template domains: only letters, digits, '-' and '.' may be accepted
    for dom in (b"t-1.example.com", b"a.b", b"*.t1.Example.org", b"x-y.zz", b"0.a.b"):
        for pos in range(len(dom)):
            for c in range(1, 256):
                v = bytearray(dom); v[pos] = c
                for w in "01":
                    ops.append("topdom %s %s" % (w, hx(bytes(v))))
    for _ in range(4000 if thorough else 800):
        n = rng.choice([3, 4, 5, 10, 30, 64, 100, 128, 129, rng.randrange(1, 140)])
        s = bytes(rng.choice(b"abcXYZ019-..__*\x80\xff @[`{") for _ in range(n))
        ops.append("topdom %d %s" % (rng.randrange(2), hx(s)))
    # matching: all names up to length 5 (6 in thorough) against the domain set
    for n in range(0, 6 + 1):
        for tup in itertools.product(ALPHA, repeat=n):
            h = hx(bytes(tup))
            for d in DOMAINS:
                ops.append("qdl %s %s" % (h, hx(d)))
    # every single-bit change of every character of a matching name (only letter case may be ignored)
    for d in DOMAINS + [b"my-tunnel0.Example9.com", b"*.t-1.example.org"]:
        suffix = d[1:] if d[:1] == b"*" else d
        for pre in (b"", b"abc.", b"ab", b"x.y."):
            base = pre + (b"lab" if d[:1] == b"*" else b"") + suffix
            for pos in range(len(base)):
                for bit in range(8):
                    q = bytearray(base); q[pos] ^= 1 << bit
                    if 0 not in q:
                        ops.append("qdl %s %s" % (hx(bytes(q)), hx(d)))
    # names made from the domains themselves (hits), case changes, longer random names up to 255
    alpha2 = b"abAB09-*.xyz"
    for _ in range(30000 if thorough else 6000):
        d = rng.choice(DOMAINS + [b"tunnel.Example.com", b"*.t1.example.org", b"x-y.zz"])
        suffix = d[1:] if d[:1] == b"*" else d
        if rng.random() < 0.5:
            suffix = bytes(c ^ 32 if chr(c).isalpha() and rng.random() < 0.5 else c for c in suffix)
        kind = rng.randrange(6)
        n = rng.choice([0, 1, 2, 5, 57, 100, 200, 255 - len(suffix), rng.randrange(0, 240)])
        pre = bytes(rng.choice(alpha2) for _ in range(max(0, n)))
        if kind == 0:
            q = pre + b"." + suffix.lstrip(b".") if d[:1] != b"*" else pre + suffix
        elif kind == 1:
            q = pre + suffix
        elif kind == 2:
            q = pre + b"." + suffix[1:] if len(suffix) > 1 else pre
        elif kind == 3:
            q = suffix.lstrip(b".")
        elif kind == 4:
            q = pre + b"." + bytes(rng.choice(b"ab") for _ in range(rng.randrange(1, 4))) + (suffix if suffix[:1] == b"." else b"." + suffix)
        else:
            q = bytes(rng.choice(alpha2) for _ in range(rng.randrange(0, 256)))
        q = q[:255]
        if 0 in q:
            continue
        ops.append("qdl %s %s" % (hx(q), hx(d)))
    return ops


RULE = ("topdom: every string of length <= 6 (thorough 7) over {a,A,b,-,.,*,0} in both modes + 62..65-char labels, 126..130-char domains, "
        "random bytes; qdl: every name of length <= 6 over that alphabet against 12 plain/wildcard domains + structured and random "
        "names up to 255. non-trivial = accepted domain / matching name; distinct by the input itself")


def run(chk):
    ops = gen_ops(chk)
    vlib.pure_check(chk, ops, oracle, RULE, "Common.checkTopdomain/queryDatalen vs common.c")
    # the call sites: what tunnel_dns() does with the split (tunnel request / NS and A responses built from the matched domain / forwarding), for
    # plain and wildcard-served domains with wildcard labels of several lengths, in the real loop against the byte-level server model
    import srvcheck
    n = 12 if chk.tier == "thorough" else 4
    ev = chk.cov.get("evaluations", 0)
    srvcheck.model_only(chk, "C17", runs=n, nsteps=250, gen_kw={"wild": True, "other": 3.0, "bind": 5353}, seed_mul=49979687)
    srvcheck.model_only(chk, "C17", runs=n, nsteps=250, gen_kw={"wild": False, "other": 3.0}, seed_mul=67867967)
    chk.cov["rule"] += "; call sites: generated server sessions with plain and wildcard-served domains (NS/A/outside queries boosted) vs the byte-level server model"
    # the call sites: the real main() of both programs on generated command lines (top domains of 3..300 characters, wildcard forms);
    # whatever configuration the session machine is started with must carry a valid domain
    import maincheck
    maincheck.run(chk, "C17")
    chk.cov["rule"] += "; main(): generated command lines for iodined and iodine through the real option handling (checks/maincheck.py)"


def replay(chk, path):
    import maincheck
    if maincheck.is_main_replay(path):
        return maincheck.replay(chk, path)
    return vlib.pure_replay(chk, path, oracle)
