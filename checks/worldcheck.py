"""Common driver of the world checks (C01 C02 C11): runs of the REAL client and REAL server joined by a scripted network (checks/world.py),
with the property oracles evaluated on what both sides write to their tun devices."""
import random
from concurrent.futures import ProcessPoolExecutor
import vlib
import iodproto as P
import iodclient as C
import world

QTYPES = {"NULL": 10, "PRIVATE": 65399, "TXT": 16, "SRV": 33, "MX": 15, "CNAME": 5, "A": 1}
SERVER_TUN_IP = 0x0a000001
CLIENT_TUN_IP = 0x0a000002


class FaultyWorld(world.World):
    """loss / duplication / delay (hence reordering) while `faulty_until` has not passed; clean afterwards"""

    def __init__(self, *a, drop=0.0, dup=0.0, delay=0, faulty_until=None, **kw):
        self.f_drop, self.f_dup, self.f_delay, self.faulty_until = drop, dup, delay, faulty_until
        super().__init__(*a, **kw)

    def _net(self):
        if self.faulty_until is not None and self.ms >= self.faulty_until:
            return [1]
        r = self.rng.random()
        if r < self.f_drop:
            self.stats["dropped"] += 1
            return []
        d = 1 + (self.rng.randrange(self.f_delay) if self.f_delay else 0)
        if r < self.f_drop + self.f_dup:
            self.stats["dup"] += 1
            return [d, 1 + (self.rng.randrange(self.f_delay) if self.f_delay else 5)]
        return [d]

    def net_up(self, msg):
        if getattr(self, "blackout", None) == "up" and self.faulty_until is not None and self.ms < self.faulty_until:
            self.stats["dropped"] += 1
            return []
        if getattr(self, "blackout", None) == "down":
            return [1]
        return self._net()

    def route_up(self, msg):
        """a flaky resolver: during the fault period some queries are answered SERVFAIL by the resolver itself and never reach the server"""
        p = getattr(self, "f_servfail", 0.0)
        if p and (self.faulty_until is None or self.ms < self.faulty_until) and msg[:3] != C.RAW_HEADER[:3] and self.rng.random() < p:
            try:
                q = P.parse(msg)
                if q["qd"]:
                    self.stats["servfail"] = self.stats.get("servfail", 0) + 1
                    self.nlog("unmappable the resolver answered a query SERVFAIL itself")
                    self.n_up += 1
                    self.down.append(self._entry(self.ms + 1 + (self.rng.randrange(self.f_delay) if self.f_delay else 0),
                                                 P.header(q["id"], 0x8182, 1, 0) + P.question(q["qd"][0][0], q["qd"][0][1]), -1))
                    return
            except P.Malformed:
                pass
        super().route_up(msg)

    def net_down(self, msg):
        if getattr(self, "blackout", None) == "down" and self.faulty_until is not None and self.ms < self.faulty_until:
            self.stats["dropped"] += 1
            return []
        if getattr(self, "blackout", None) == "up":
            return [1]
        return self._net()


def random_config(rng, force=None):
    cfg = {"qtype": rng.choice(list(QTYPES.values())), "downenc": rng.choice(["-", "T", "S", "U", "V", "R"]), "lazy": rng.choice([0, 1, 1]),
           "maxlen": rng.choice([255, 255, 200, 120, 100]), "autofrag": rng.choice([1, 1, 0]), "fragsize": rng.choice([50, 100, 150]),
           "raw_mode": 0, "seltimeout": rng.choice([4, 2, 1])}
    if cfg["downenc"] == "R" and cfg["qtype"] not in (10, 65399, 16):
        cfg["downenc"] = "T"
    if force:
        cfg.update(force)
    return cfg


def _trailer(rng, f):
    """now and then the frame is longer than the IPv4 total-length field says (link-layer padding, trailers): the tunnel carries frames, not
    what it believes the IP packet to be"""
    if rng.random() < 0.15:
        return f + bytes(rng.randrange(256) for _ in range(rng.choice([1, 2, 18, 40])))
    return f


def frame_to_server_side(rng, n):
    """a packet a client application sends out through the tunnel (server writes it to its tun)"""
    return _trailer(rng, C.ip_packet(0x08080808, bytes(rng.randrange(256) for _ in range(n)), src_ip=CLIENT_TUN_IP, ident=rng.randrange(1 << 16)))


def frame_to_client(rng, n):
    return _trailer(rng, C.ip_packet(CLIENT_TUN_IP, bytes(rng.randrange(256) for _ in range(n)), src_ip=0x08080808, ident=rng.randrange(1 << 16)))


SIZES = [0, 1, 20, 100, 600, 1400, 3000, 9000]


def one_world(args):
    """a whole scenario in a worker process.  Returns a dict with verdict material (everything picklable)."""
    seed, cfg, relay_kw, fault, nframes, real_z, scenario = args
    rng = random.Random(seed)
    srv, cli = vlib.build_srv(), vlib.build_cli()
    relay = world.Relay(rng=rng, **relay_kw)
    w = FaultyWorld(rng, srv, cli, relay=relay, real_z=real_z, qtype=cfg["qtype"], downenc=cfg["downenc"], lazy=cfg["lazy"], maxlen=cfg["maxlen"],
                    seltimeout=cfg["seltimeout"], raw_mode=cfg["raw_mode"], autofrag=cfg["autofrag"], fragsize=cfg["fragsize"],
                    drop=0, dup=0, delay=0, model_clock=bool(cfg.get("model_clock")))
    out = {"seed": seed, "cfg": cfg, "relay": relay.describe(), "fault": fault, "scenario": scenario, "model_clock": bool(cfg.get("model_clock"))}
    hs = w.handshake(400000)
    out["handshake"] = hs
    out["negotiated"] = {k: w.c_state.get(k) for k in ("qt", "enc", "dn", "lazy", "e0", "conn")}
    sent_c, sent_s = [], []
    if hs == ("ret", 0) and scenario == "reuse":
        # the first client (on a transparent path: wide codecs) works for a while and is stopped; more than 60 s later the same user slot is
        # given to a client that sits behind `relay` and has to get by with what that path lets through
        w.start_tunnel()
        f = frame_to_server_side(rng, 100); w.offer_to_client(f); w.settle(8000)
        out["first_negotiated"] = {k: w.c_state.get(k) for k in ("qt", "enc", "dn", "lazy", "e0", "conn")}
        w.tunw_s, w.tunw_c, w.accepted_c, w.accepted_s = [], [], [], []
        w.c.close(); w.c = world.NullCli(); w.c_sel = w.c_deadline = None
        w.up, w.down = [], []
        t_end = w.ms + rng.choice([61000, 70000, 200000])
        w.run_until(lambda: w.ms >= t_end, 200000)
        w.ms = max(w.ms, t_end); w.set_time()
        w.new_client(relay=world.Relay(rng=rng, **cfg["second_relay"]), qtype=cfg["qtype"], downenc=cfg["downenc"], lazy=cfg["lazy"], maxlen=cfg["maxlen"],
                     seltimeout=cfg["seltimeout"], autofrag=cfg["autofrag"], fragsize=cfg["fragsize"])
        out["relay"] = w.relay.describe()
        hs = w.handshake(400000)
        out["handshake"] = hs
        out["negotiated"] = {k: w.c_state.get(k) for k in ("qt", "enc", "dn", "lazy", "e0", "conn")}
    if hs == ("ret", 0):
        w.start_tunnel()
        t0 = w.ms
        if fault:
            w.f_drop, w.f_dup, w.f_delay = fault["drop"], fault["dup"], fault["delay"]
            w.f_servfail = fault.get("servfail", 0.0)
            w.faulty_until = t0 + fault["ms"]
        # offer packets on both sides, spread over the faulty period and after it
        sizes = SIZES if scenario not in ("auto", "forced") else [0, 1, 20, 60, 100]
        if cfg["raw_mode"] and not real_z:
            # send_raw cuts a frame at 4096 bytes; the real zlib then refuses the cut image, the transparent test compression would not
            sizes = [n for n in sizes if n <= 3000]
        if scenario == "chimera":
            # the 3-bit upstream sequence number wraps while the server still holds fragment 0 of an abandoned packet: an upstream blackout starts
            # right after fragment 0 of packet A arrived, seven more packets are given up, the next packet B gets A's sequence number again; its
            # fragment 0 is taken for a duplicate, the rest is appended to A's fragment 0.  A and B are crafted so that the spliced image inflates
            # (stored deflate blocks, equal lengths, equal Adler-32 of the differing prefixes): real zlib, nothing but loss on the network.
            import zlib
            def srv_in():
                sl = next((x.slots for x in reversed(w.s.steps[-5:]) if x.slots), {})
                return sl.get(0, {}).get("in", "0/0/0/0/0")
            def cli_out():
                return w.c_state.get("out", "0/0/0/0/0/0")
            n = 700
            cal = C.ip_packet(0x08080808, bytes(rng.randrange(256) for _ in range(n)), src_ip=CLIENT_TUN_IP, ident=1)
            sent_c.append((w.ms, cal)); w.offer_to_client(cal); w.pump_tun()
            w.run_until(lambda: cli_out().split("/")[2] != "0", 5000)
            fs_up = int(cli_out().split("/")[2])
            w.settle(8000)
            pre = fs_up - 7                      # frame bytes inside fragment 0 of a stored-block image (2 + 5 header bytes)
            A = bytearray(C.ip_packet(0x08080808, bytes(rng.randrange(256) for _ in range(n)), src_ip=CLIENT_TUN_IP, ident=2))
            B = bytearray(C.ip_packet(0x08080808, bytes(rng.randrange(256) for _ in range(n)), src_ip=CLIENT_TUN_IP, ident=2))
            if pre > 60:
                B[:pre] = A[:pre]
                p_ = 40
                while p_ + 2 < pre and not (A[p_] < 255 and A[p_ + 1] > 1 and A[p_ + 2] < 255):
                    p_ += 1
                B[p_], B[p_ + 1], B[p_ + 2] = A[p_] + 1, A[p_ + 1] - 2, A[p_ + 2] + 1
            A, B = bytes(A), bytes(B)
            out["chimera"] = {"fs_up": fs_up, "spliced_is_neither": (A[:pre] + B[pre:]) not in (A, B), "adler_equal": zlib.adler32(A[:pre] + B[pre:]) == zlib.adler32(B)}
            before = srv_in()
            sent_c.append((w.ms, A)); w.offer_to_client(A); w.pump_tun()
            w.run_until(lambda: srv_in() != before and srv_in().split("/")[0] != "0", 5000)
            w.blackout, w.faulty_until = "up", w.ms + 10 ** 9
            t_black = w.ms
            w.run_until(lambda: cli_out().split("/")[0] == "0", 20000)
            for i in range(7):
                f = C.ip_packet(0x08080808, bytes(rng.randrange(256) for _ in range(20)), src_ip=CLIENT_TUN_IP, ident=10 + i)
                sent_c.append((w.ms, f)); w.offer_to_client(f); w.pump_tun()
                w.run_until(lambda: cli_out().split("/")[0] != "0", 3000)
                w.run_until(lambda: cli_out().split("/")[0] == "0", 20000)
            w.faulty_until, w.blackout = w.ms, None
            out["blackout_ms"] = w.ms - t_black
            w.settle(6000)
            sent_c.append((w.ms, B)); w.offer_to_client(B); w.pump_tun()
            w.settle(10000)
            nframes = 0
        if scenario == "silence":
            # nothing gets through in either direction any more: the client must give up when its 60 s are over (and not before); no delivery
            # requirement - this run is for the model comparison (the exact second of the give-up, the last pings)
            f = frame_to_server_side(rng, 100); sent_c.append((w.ms, f)); w.offer_to_client(f)
            w.f_drop, w.f_dup, w.f_delay, w.faulty_until = 1.0, 0.0, 0, w.ms + 10 ** 9
            w.run_until(lambda: w.c_ret is not None, 90000)
            out["silence_ms"] = w.ms - t0
            nframes = 0
        if scenario == "blackout":
            # every datagram in ONE direction is lost while `n` packets are offered on the sending side (each is given up after its resends), for
            # less than the 60 s session timeout; then the path is clean and six packets are offered one after the other
            w.blackout = cfg["blackout"]["dir"]
            w.faulty_until = w.ms + 10 ** 9
            t_black = w.ms
            for i in range(cfg["blackout"]["n"]):
                if w.ms - t_black + cfg["blackout"]["gap"] > 39000:
                    break          # the property's fault prefix lasts at most 40 virtual seconds (and must not starve a side for 60 s)
                if w.blackout == "up":
                    f = frame_to_server_side(rng, 100); sent_c.append((w.ms, f)); w.offer_to_client(f)
                else:
                    f = frame_to_client(rng, 100); sent_s.append((w.ms, f)); w.offer_to_server(f)
                t_end = w.ms + cfg["blackout"]["gap"]
                w.pump_tun(); w.run_until(lambda: w.ms >= t_end, cfg["blackout"]["gap"]); w.pump_tun()
            w.faulty_until = w.ms
            out["clean_at"] = w.ms
            out["blackout_ms"] = w.ms - t_black
            w.settle(8000)
            late_c, late_s = [], []
            for i in range(6):
                if w.blackout == "up":
                    f = frame_to_server_side(rng, 100); late_c.append((w.ms, f)); sent_c.append((w.ms, f)); w.offer_to_client(f)
                else:
                    f = frame_to_client(rng, 100); late_s.append((w.ms, f)); sent_s.append((w.ms, f)); w.offer_to_server(f)
                w.settle(6000)
            out["late_c"], out["late_s"] = late_c, late_s
            nframes = 0
        if scenario == "fullsize":
            # full-length queries going up while full-size fragments come down: what the fragment-size probe promised must hold then too
            for i in range(3):
                for f in (frame_to_client(rng, 900), frame_to_client(rng, 900)):
                    sent_s.append((w.ms, f)); w.offer_to_server(f)
                f = frame_to_server_side(rng, 900); sent_c.append((w.ms, f)); w.offer_to_client(f)
                w.settle(25000)
                if w.dead():
                    break
            nframes = 0
        if scenario in ("uponly", "downonly", "idle"):
            # clean path for longer than the 60 s give-up timers: traffic in one direction only (or none at all), then one packet each way
            for i in range(24):
                if scenario == "uponly":
                    f = frame_to_server_side(rng, rng.choice([20, 100, 600])); sent_c.append((w.ms, f)); w.offer_to_client(f)
                elif scenario == "downonly":
                    f = frame_to_client(rng, rng.choice([20, 100, 600])); sent_s.append((w.ms, f)); w.offer_to_server(f)
                t_end = w.ms + 4000
                w.pump_tun()
                w.run_until(lambda: w.ms >= t_end or w.c_ret is not None, 4000)
                w.pump_tun()
                if w.dead() or w.c_ret is not None:
                    break
            nframes = 2
        for i in range(nframes):
            n = rng.choice(sizes)
            fsn = [int(s_.slots[0]["fs"]) for s_ in w.s.steps[-20:] if s_.slots and 0 in s_.slots]
            if fsn and rng.random() < 0.3 and scenario in ("clean", "integrity", "recovery"):
                # a compressed image (transparent scheme: frame + 1 byte) of exactly 1..3 downstream fragments
                n = min(9000, max(0, rng.choice([1, 2, 3]) * fsn[-1] - 25))
            if rng.random() < 0.5:
                f = frame_to_server_side(rng, n); sent_c.append((w.ms, f)); w.offer_to_client(f)
            else:
                f = frame_to_client(rng, n); sent_s.append((w.ms, f)); w.offer_to_server(f)
            w.settle(rng.choice([50, 300, 2000, 6000]))
            if w.dead():
                break
        if fault and not w.dead():
            # let the faulty period run out (never starving a side for 60 s: the client pings on its own), then a clean suffix
            w.run_until(lambda: w.ms >= w.faulty_until, fault["ms"] + 1000)
            out["clean_at"] = w.ms
            w.settle(25000)
            late_c, late_s = [], []
            for i in range(3):
                f = frame_to_server_side(rng, rng.choice([20, 600])); late_c.append((w.ms, f)); sent_c.append((w.ms, f)); w.offer_to_client(f)
                g = frame_to_client(rng, rng.choice([20, 600])); late_s.append((w.ms, g)); sent_s.append((w.ms, g)); w.offer_to_server(g)
                w.settle(20000)
            out["late_c"], out["late_s"] = late_c, late_s
        if scenario != "silence":
            w.settle(30000)
    out["sent_c"], out["sent_s"] = sent_c, sent_s
    out["accepted_c"], out["accepted_s"] = w.accepted_c, w.accepted_s
    fs = [s_.slots[0]["fs"] for s_ in w.s.steps[-50:] if s_.slots and 0 in s_.slots]
    out["fs"] = int(fs[-1]) if fs else 100
    out["tunw_s"], out["tunw_c"] = w.tunw_s, w.tunw_c
    out["stats"] = w.stats
    out["end_ms"] = w.ms
    out["client_ret"] = w.c_ret
    d = w.dead()
    out["dead"] = (("server" if w.s.dead else "client"), d[0][:200], d[1], d[2][-1500:]) if d else None
    out["log"] = w.replay_lines()
    out["cops"], out["clines"] = list(w.c.ops), list(w.c.lines)
    out["sops"], out["slines"] = [s_.op for s_ in w.s.steps], [s_.line for s_ in w.s.steps]
    out["spin"] = next(((i, o) for i, (o, l) in enumerate(zip(out["cops"], out["clines"])) if l.startswith("tunleft") or " | tunleft" in l or l.startswith("dnsleft") or " | dnsleft" in l), None)
    out["real_z"] = real_z
    w.close()
    return out


# Until ee87c7d ("compare handshake replies only up to their length") some replies made a handshake function read bytes of its `in[4096]`
# that no reply had written (a one-byte answer to a fragment-size probe; a proper prefix of BADLEN / BADIP / BADCODEC / Lazy / BADFRAG in the
# four switch handshakes), and the comparison of a run was cut at the first such op.  The repaired client reads nothing behind `read`
# (Props/C06.lean, `handshake_reply_residue_free`): EVERY op of every run is compared.


def client_model_ops(cops, clines):
    """model ops for a world run, from the very first client op: the configuration (`ccfg`, `crand`, `ctime`), `start handshake …` and every
    input the real client was fed during the handshake and the tunnel phase (`ans` replaced by what read_dns_withq returned: the `rq` event;
    raw mode and the raw login of the handshake: the datagram, `rawans`).  After a modelled handshake `start tunnel` continues on the state
    the handshake MODEL reached.  A run without `start handshake` (tunnel-only callers) gets the state the real client reached (`cset` from
    the digest) as before.  Returns (model ops, expected lines, number of handshake-phase ops) or None."""
    mops, expect = [], []
    phase = "cfg"              # cfg -> handshake -> (between) -> tunnel
    modelled_hs = False
    nhs = 0
    last_state = None
    raw = False
    raw_login = False          # the thread is parked in the raw login's own select (handshake_raw_udp): it was entered by a `rawtx`
    for op, line in zip(cops, clines):
        t = op.split()
        ev, sel, st = world.parse_cli(line)
        if phase in ("cfg", "between"):
            if t[0] in ("ccfg", "crand", "ctime"):
                mops.append(op); expect.append("ok")
                if t[0] == "ccfg":
                    modelled_hs = False
            elif t[:2] == ["start", "handshake"]:
                mops.append(op); expect.append(line)
                phase, modelled_hs = "handshake", True
                nhs += 1
                raw_login = any(e[0] == "rawtx" for e in ev)
                if sel is None:
                    phase = "between"
            elif t[:2] == ["start", "tunnel"]:
                if not modelled_hs:
                    if last_state is None:
                        return None
                    keys = ("cid", "rs", "enc", "dn", "lazy", "sel", "qt", "e0", "conn", "sps", "ldt", "now", "ml", "uid")
                    mops.append("cset " + " ".join("%s=%s" % (k, last_state[k] if last_state.get(k, "") != "" else " ") for k in keys if k in last_state and last_state[k] != ""))
                    expect.append("ok")
                mops.append(op); expect.append(line)
                phase = "tunnel"
                raw = st.get("conn") == "0"
            elif t[0] == "start":
                break          # another single-function job: not modelled here
            if st:
                last_state = st
            continue
        if t[0] == "ans":
            rq = next((e for e in ev if e[0] == "rq"), None)
            if (phase == "tunnel" and raw) or (phase == "handshake" and raw_login) or rq is None:
                mops.append("rawans " + t[1])
            else:
                mops.append("rq %s %s %s %s %s %s" % rq[1:7])
        elif t[0] in ("tick", "tun"):
            mops.append(op)
        elif t[0] == "ctime":
            mops.append(op); expect.append("ok")
            continue
        else:
            break
        expect.append(line)
        if phase == "handshake":
            nhs += 1
            raw_login = any(e[0] == "rawtx" for e in ev) if any(e[0] in ("rawtx", "tx") for e in ev) else raw_login
            if sel is None:
                phase = "between"
        if st:
            last_state = st
            raw = st.get("conn") == "0"
    if not any(o.startswith("start ") for o in mops):
        return None
    return mops, expect, nhs


def project_cli(line):
    return " | ".join(p for p in [x.strip() for x in line.split(" | ")] if not (p.startswith("tx ") or p.startswith("rq ")))


def client_model_diff(chk, res):
    """run the Lean client model on every world run, handshake and tunnel phase; returns (#ops compared, #diffs, first diff | None) or None
    (no driver); handshake statistics are left in `client_model_diff.hs` (ops of the handshake phase compared, first characters of the
    queries the handshakes sent, return values)"""
    drv = chk.driver()
    if drv is None:
        return None
    n, nd, first = 0, 0, None
    hs = {"ops_compared": 0, "runs": 0, "query_first_char": {}, "returns": {}, "rawtx": 0}
    client_model_diff.hs = hs
    import os
    from concurrent.futures import ThreadPoolExecutor
    # the model runs (one driver process per world run) go through a thread pool, a block of runs at a time; the comparison stays in run order
    pool = ThreadPoolExecutor(min(16, os.cpu_count() or 4))
    todo = [(r, client_model_ops(r.get("cops", []), r.get("clines", []))) for r in res]
    todo = [(r, mo) for r, mo in todo if mo]
    done = []
    for k0 in range(0, len(todo), 64):
        blk = todo[k0:k0 + 64]
        done += [(r, mo, m) for (r, mo), m in zip(blk, pool.map(lambda x: vlib.run_lines(drv, x[1][0]), blk))]
    pool.shutdown()
    for r, mo, m in done:
        mops, expect, nhs = mo
        in_hs = False
        for i, (o, e) in enumerate(zip(mops, expect)):
            a = project_cli(e)
            b = m.lines[i] if i < len(m.lines) else "<no-answer>"
            n += 1
            if o.startswith("start handshake"):
                in_hs = True
                hs["runs"] += 1
            elif o.startswith("start "):
                in_hs = False
            if in_hs and e != "ok":
                hs["ops_compared"] += 1
                for part in a.split(" | "):
                    w = part.split(" ")
                    if w[0] == "query" and len(w) == 4 and len(w[3]) >= 2:
                        ch = chr(int(w[3][:2], 16))
                        hs["query_first_char"][ch] = hs["query_first_char"].get(ch, 0) + 1
                        nm = bytes.fromhex(w[3])
                        det = None
                        if ch == "y":
                            det = "y:downenctest codec " + chr(nm[1])
                        elif ch == "o":
                            det = "o:" + ("lazy switch" if nm[2:3] == b"l" else "switch_downenc " + chr(nm[2]))
                        elif ch == "s":
                            det = "s:switch_codec " + {"f": "5", "g": "6", "0": "26", "h": "7"}.get(chr(nm[2]), "?" + chr(nm[2]))
                        elif ch == "z":
                            body = nm[4:]
                            det = "z:" + ("pat128a" if body.startswith(b"aA-Aaahhh") else "pat128b" if body.startswith(b"aA-La") else "pat128d" if body.startswith(b"aA0123") else
                                          "pat128e" if body.startswith(b"aA\xd0") else "pat64u" if b"_0129-" in body else "pat64" if b"+0129-" in body else "pat128c")
                        if det:
                            hs.setdefault("detail", {})[det] = hs.setdefault("detail", {}).get(det, 0) + 1
                    elif w[0] == "rawtx":
                        hs["rawtx"] += 1
                    elif w[0] in ("ret", "errx", "exit"):
                        k = "%s %s" % (w[0], w[1])
                        hs["returns"][k] = hs["returns"].get(k, 0) + 1
                        in_hs = False
            if a != b:
                nd += 1
                if first is None:
                    first = (r["seed"], i, o, a, b, mops[:i + 1])
                break       # after the first difference the two runs are no longer comparable
    return n, nd, first


def report_client_model(chk, res, prop):
    d = client_model_diff(chk, res)
    chk.notes["client_model_ops_compared"] = None if d is None else d[0]
    chk.notes["client_model_diffs"] = None if d is None else d[1]
    if d is not None:
        chk.notes["client_model_handshake"] = getattr(client_model_diff, "hs", None)
    if d is None:
        if not chk.violations:
            chk.violation("model driver does not build", ["# lake build iodmodel failed"], no_input=True)
    elif d[2] is not None and not chk.violations:
        seed, i, o, a, b, pre = d[2]
        chk.violation("correspondence broken (Client.hstep/cstep vs client.c handshake + tunnel phase): model and implementation differ (world seed %d, client op %d); the oracle found no violation of %s.\n op: %s\n impl:  %s\n model: %s"
                      % (seed, i, prop, o[:200], a[:500], b[:500]), ["# correspondence Client.cstep vs client.c no longer checks; model ops up to the first difference:"] + pre, no_input=True)


def report_server_model(chk, res, prop):
    """the server half of every (test-compression) world run through the Lean server model: events and the full slot digest of every loop
    iteration the real iodined made while talking to the real client"""
    import srvcheck
    n, nd, first = 0, 0, None
    for r in res:
        if r.get("real_z") or not r.get("sops"):
            continue
        d = srvcheck.model_diff(chk, r["sops"], r["slines"])
        if d is None:
            if not chk.violations:
                chk.violation("model driver does not build", ["# lake build iodmodel failed"], no_input=True)
            return
        n += len(r["sops"]); nd += d[0]
        if d[1] and first is None:
            first = (r, d[1])
    chk.notes["server_model_ops_compared"] = n
    chk.notes["server_model_diffs"] = nd
    if first is not None and not chk.violations:
        r, (i, mop, a, b) = first
        chk.violation("correspondence broken (Server.* vs iodined.c, server side of a world run): model and implementation differ on %d ops; the oracle found no violation of %s.\nfirst: server op %d of world seed %d: %s\n impl:  %s\n model: %s"
                      % (nd, prop, i, r["seed"], mop[:200], a[:600], b[:600]),
                      ["# correspondence Server.iteration vs iodined.c tunnel() no longer checks; server ops up to the first difference:"] + r["sops"][:i + 1], no_input=True)


# ---------------------------------------------------------------------------------------------------------------------------------
# Tie of the JOINED model: `Iodine.World.step` (lean/IodineModel/World.lean) against the real client + real server pair.
#
# A world run made with `model_clock=True` (checks/world.py) is a schedule of `World.Ev`: the log holds, besides both sides' ops, every
# decision of the scheduler / network as ("N", …).  `world_model_plan` turns the log into driver ops (Drv/World.lean): both component models are
# brought to the state after the handshake by the recorded ops (`S <op>` / `C <op>`), `wstart` joins them, then ONE `wev <Ev>` per
# event; `world_model_diff` compares, after every event, what the model says with what the real programs did:
#   * the datagram the real network delivered IS the head of the model's queue, as the RECEIVER decoded it: upstream the server's `dq`
#     (id, type, name) / the raw bytes; downstream the client's `rq` (what read_dns_withq returned: rv, id, type, rcode, name[0], bytes) —
#     this is the check of `srvInput`/`cliInput`, i.e. of the hop-lossless abstraction;
#   * the datagrams the step put in flight are the ones the real side sent, in order, as the SENDER describes them (client: `query` =
#     its datagram decoded by dns_decode / `rawtx`; server: the `write_dns` hook's `ans` / `raw`) — `upOfEvents`, `downOfEvents`;
#   * frames written to either tun device; the select the side is parked in; BOTH full state digests (the formats of the component ties).
# The model's queues are mirrored here by serial numbers: a datagram delivered out of turn is brought to the head by `reorderUp/Down`
# (rotations), a lost one by rotations + `dropUp/Down`, a duplicated one is `dupUp/Down` for all but its last copy.

def _real_ups(events):
    """datagrams a client line sent, as abstract items (in order)"""
    out, pend = [], None
    for e in events:
        if e[0] == "tx":
            pend = e
        elif e[0] == "query":
            out.append("q %s %s %s" % (e[1], e[2], e[3])); pend = None
        elif e[0] == "rawtx":
            out.append("rawf %s" % e[1])
    return out


def _real_downs(events):
    """datagrams a server line sent towards the client (world.route_down's filter), as abstract items"""
    out, last_ans = [], None
    pref = world.CLIENT_ADDR.rsplit(":", 1)[0]
    for e in events:
        if e[0] == "ans":
            last_ans = e
        elif e[0] == "tx":
            if e[1] == world.CLIENT_ADDR or e[1].startswith(pref):
                a = last_ans
                out.append("ans %s %s %s %s" % (a[2], a[3], a[5], a[6]) if a is not None and a[1] == e[1] else "tx-without-ans %s" % e[2])
            last_ans = None
        elif e[0] == "raw":
            if e[1] == world.CLIENT_ADDR or e[1].startswith(pref):
                out.append("raw %s" % e[2])
    return out


def world_model_plan(r):
    """-> (driver ops, expectations aligned with them, note).  An expectation is None (nothing to compare) or a dict
    {ev, side, line (the real answer line), op (the real op), touched (expected head item | None)}"""
    log = [l.split(" ", 1) for l in r["log"]]
    cops, clines, sops, slines = r["cops"], r["clines"], r["sops"], r["slines"]
    mo = client_model_ops(cops, clines)
    if not mo or any(o.startswith("cset") for o in mo[0]):
        return None
    cmops = mo[0]
    ops, exp = [], []
    ci = si = 0
    started = False
    note = None
    mq = {"up": [], "down": []}            # the model's queues, as serial numbers
    copies = {"up": {}, "down": {}}        # copies of a serial still to be delivered by the real network
    item = {"up": {}, "down": {}}          # serial -> abstract item
    pend = {"up": [], "down": []}          # items the last op of the sending side produced, not yet handed to the network
    head_of = {"up": "Up", "down": "Down"}

    def emit(op, e=None):
        ops.append(op); exp.append(e)

    def to_head(d, s):
        """rotate the model's queue until serial s is its head"""
        k = mq[d].index(s)
        for _ in range(k):
            emit("wev reorder" + head_of[d])
        mq[d][:] = mq[d][k:] + mq[d][:k]

    lost = []

    def flush_lost():
        for d, s_ in lost:
            if started:
                to_head(d, s_)
                emit("wev drop" + head_of[d], {"ev": "drop" + head_of[d], "side": None, "touched": item[d][s_] if d == "up" else None})
                mq[d].pop(0)
            else:
                mq[d].remove(s_)
        del lost[:]

    i = 0
    while i < len(log):
        side, op = log[i]
        i += 1
        t = op.split()
        if lost and not (side == "N" and t[0] in ("up", "down")):
            flush_lost()
        if side == "S":
            if si >= len(slines) or sops[si] != op:
                note = "log and server ops out of step"; break
            line = slines[si]; si += 1
            if not started:
                emit("S " + op)
                ev = world.srvgen.parse_line(line)[0]
                pend["down"] = _real_downs(ev)
                continue
            if t[0] == "time":
                continue
            ev, sel, slots = world.srvgen.parse_line(line)
            pend["down"] = _real_downs(ev)
            if t[0] == "dns":
                if not exp or ops[-1] not in ("wev deliverUp", "wev dupUp") or exp[-1] is not None:
                    note = "server datagram without a network decision"; break
                exp[-1] = {"ev": ops[-1][4:], "side": "S", "line": line, "op": op}
            elif t[0] == "tick":
                if not ops or ops[-1] != "wev tickS" or exp[-1] is not None:
                    note = "server tick without a scheduler decision"; break
                exp[-1] = {"ev": "tickS", "side": "S", "line": line, "op": op}
            elif t[0] == "tun":
                skipped = any(e[0] == "tunskip" for e in ev)
                if skipped and sel.get("to") == 20000:
                    # h_srv: a frame offered while tun_fd is not selected makes select() return 0 at once: one iteration with nothing readable and no
                    # time consumed = `tickS` of a 20 ms select
                    emit("wev tickS", {"ev": "tickS", "side": "S", "line": line, "op": op, "tunskip": True})
                else:
                    emit("wev offerS " + t[1], {"ev": "offerS", "side": "S", "line": line, "op": op, "tunskip": skipped})
            else:
                note = "server op not mapped: " + t[0]; break
        elif side == "C":
            if ci >= len(clines) or cops[ci] != op or ci >= len(cmops):
                note = "log and client ops out of step"; break
            line = clines[ci]; mop = cmops[ci]; ci += 1
            ev = world.parse_cli(line)[0] if line != "ok" else []
            if not started:
                emit("C " + mop)
                pend["up"] = _real_ups(ev)
                if t[:2] == ["start", "tunnel"]:
                    started = True
                    emit("wstart")
                    for d in ("up", "down"):
                        if mq[d]:
                            # still in flight from the handshake: put them into the joined state as they are (set-up, not a step)
                            for s_ in mq[d]:
                                emit("wput %s %s" % (d, item[d][s_]))
                continue
            if t[0] == "ctime":
                continue
            pend["up"] = _real_ups(ev)
            if t[0] == "ans":
                if not ops or ops[-1] not in ("wev deliverDown", "wev dupDown") or exp[-1] is not None:
                    note = "client datagram without a network decision"; break
                exp[-1] = {"ev": ops[-1][4:], "side": "C", "line": line, "op": op}
            elif t[0] == "tick":
                if not ops or ops[-1] != "wev tickC" or exp[-1] is not None:
                    note = "client tick without a scheduler decision"; break
                exp[-1] = {"ev": "tickC", "side": "C", "line": line, "op": op}
            elif t[0] == "tun":
                emit("wev offerC " + t[1], {"ev": "offerC", "side": "C", "line": line, "op": op})
            else:
                note = "client op not mapped: " + " ".join(t[:2]); break
        else:       # "N": a decision of the scheduler / the network
            if t[0] in ("up", "down"):
                d, s_, k = t[0], int(t[1]), int(t[2])
                if not pend[d]:
                    note = "a datagram was handed to the network that no event announced"; break
                item[d][s_] = pend[d].pop(0)
                mq[d].append(s_); copies[d][s_] = k
                if k == 0:
                    lost.append((d, s_))        # dropped once everything the step sent is in the queue (the model appends all of it at once)
            elif t[0] in ("deliverUp", "deliverDown", "lostDown", "relaydrop"):
                if t[0] == "relaydrop":
                    d, s_, kind = t[1], int(t[2]), "drop"
                else:
                    d, s_, kind = ("up" if t[0] == "deliverUp" else "down"), int(t[1]), ("drop" if t[0] == "lostDown" else "deliver")
                if s_ not in mq[d]:
                    note = "delivery of a datagram the model does not have in flight (serial %d %s)" % (s_, d); break
                copies[d][s_] -= 1
                if not started:
                    if copies[d][s_] <= 0:
                        mq[d].remove(s_)
                    continue
                to_head(d, s_)
                if kind == "drop":
                    if copies[d][s_] <= 0:
                        emit("wev drop" + head_of[d], {"ev": "drop" + head_of[d], "side": None, "touched": item[d][s_] if d == "up" else None})
                        mq[d].pop(0)
                elif copies[d][s_] > 0:
                    emit("wev dup" + head_of[d])
                else:
                    emit("wev deliver" + head_of[d])
                    mq[d].pop(0)
            elif t[0] == "advance":
                if started:
                    emit("wev advance " + t[1], {"ev": "advance", "side": None})
            elif t[0] in ("tickC", "tickS"):
                if started:
                    emit("wev " + t[0])
            elif t[0] == "unmappable":
                note = "not expressible as a World schedule: " + " ".join(t[1:]); break
            else:
                note = "unknown network log entry " + op; break
    if note is None:
        flush_lost()
    return ops, exp, note


def _cmp_step(e, m):
    """compare one `wev` answer line `m` of the model with the real side's line; -> None | (what, real, model)"""
    sec = m.split(" || ")
    if len(sec) != 5:
        return ("answer line of the model", e.get("line", "")[:300], m[:300])
    head, prod, ssec, csec, nx = sec
    hw = head.split(" ", 1)
    touched = hw[1] if len(hw) > 1 else "-"
    if hw[0].split(" ")[0] != e["ev"]:
        return ("event", e["ev"], head)
    if e["side"] is None:
        if e.get("touched") is not None and touched != e["touched"]:
            return ("the datagram the network lost is not the head of the model's queue", e["touched"], touched)
        return None
    items = [] if prod == "-" else prod.split(" | ")
    if e["side"] == "S":
        ev, sel, slots = world.srvgen.parse_line(e["line"])
        if e["ev"] in ("deliverUp", "dupUp"):
            dq = next((x for x in ev if x[0] == "dq"), None)
            hexd = e["op"].split()[2]
            real = ("q %s %s %s" % (dq[2], dq[3], dq[4]) if int(dq[1]) > 0 else "undecodable (dq %s)" % dq[1]) if dq is not None else "rawf " + hexd
            if real != touched:
                return ("upstream hop: what the server decoded from the delivered datagram vs the head of the model's queue (World.srvInput)", real, touched)
        real_items = ["down " + x for x in _real_downs(ev)] + ["tunS " + x[1] for x in ev if x[0] == "tunw"]
        model_items = [x for x in items if x.startswith("down ")] + [x for x in items if x.startswith("tunS ")]
        if [x for x in items if not (x.startswith("down ") or x.startswith("tunS "))]:
            return ("a server step appended something else than answers / server tun writes", "-", prod[:300])
        if real_items != model_items:
            k = next((j for j, (a, b) in enumerate(zip(real_items, model_items)) if a != b), min(len(real_items), len(model_items)))
            return ("datagrams sent downstream / frames written to the server's tun device (World.downOfEvents, tunOfSEvents): %d real, %d model, first difference at %d"
                    % (len(real_items), len(model_items), k), (real_items[k] if k < len(real_items) else "<none>")[:400], (model_items[k] if k < len(model_items) else "<none>")[:400])
        real_tail = e["line"][e["line"].index("to="):] if "to=" in e["line"] else e["line"]
        real_tail = " | ".join(p.strip() for p in real_tail.split(" | "))
        if ssec != "S " + real_tail:
            return ("server select + state digest", real_tail, ssec[2:])
    else:
        ev, sel, st = world.parse_cli(e["line"])
        if e["ev"] in ("deliverDown", "dupDown"):
            rq = next((x for x in ev if x[0] == "rq"), None)
            if rq is not None:
                real = " ".join(rq)

                def canon(x):
                    # an answer of fewer than 2 bytes is "nothing useful" to the tunnel phase whichever way it is reported: dns_decode hands a
                    # NULL/PRIVATE record of one byte on as rv = 0, World.cliInput as rv = 1 with that byte; tunnel_dns and the lazy-off wait only
                    # test `read < 2`, `read < 0` and `read == 9` (canonical form: rv and buf dropped when 0 <= rv < 2)
                    t_ = x.split()
                    if len(t_) >= 7 and t_[0] == "rq" and t_[1] in ("0", "1"):
                        return " ".join([t_[0], "<2"] + t_[2:6])
                    return x
                if canon(real) != canon(touched):
                    return ("downstream hop: what read_dns_withq made of the delivered datagram vs what the model feeds its client (World.cliInput)", real[:400], touched[:400])
            elif touched.startswith("rawans "):
                if touched != "rawans " + e["op"].split()[1]:
                    return ("downstream hop (raw mode): the delivered datagram vs the head of the model's queue", e["op"][:400], touched[:400])
        real_items = ["up " + x for x in _real_ups(ev)] + ["tunC " + x[1] for x in ev if x[0] == "tunw"]
        model_items = [x for x in items if x.startswith("up ")] + [x for x in items if x.startswith("tunC ")]
        if [x for x in items if not (x.startswith("up ") or x.startswith("tunC "))]:
            return ("a client step appended something else than queries / client tun writes", "-", prod[:300])
        if real_items != model_items:
            k = next((j for j, (a, b) in enumerate(zip(real_items, model_items)) if a != b), min(len(real_items), len(model_items)))
            return ("datagrams sent upstream / frames written to the client's tun device (World.upOfEvents, tunOfCEvents): %d real, %d model, first difference at %d"
                    % (len(real_items), len(model_items), k), (real_items[k] if k < len(real_items) else "<none>")[:400], (model_items[k] if k < len(model_items) else "<none>")[:400])
        parts = [p.strip() for p in e["line"].split(" | ")]
        real_tail = " | ".join(parts[-2:])
        if csec != "C " + real_tail:
            return ("client select + state digest", real_tail, csec[2:])
    return None


PROMPT_SCENARIOS = ("clean", "uponly", "downonly", "idle")


def world_model_diff(chk, res):
    """-> dict of totals, or None (no driver)"""
    drv = chk.driver()
    if drv is None:
        return None
    tot = {"worlds": 0, "worlds_fully_mapped": 0, "events": 0, "compared": 0, "diffs": 0, "first": None, "by_event": {}, "unmapped": {},
           "hop_up_checked": 0, "hop_down_checked": 0, "inflight_at_start": 0, "kinds": {}, "samples": [],
           "prompt": {"steps_while_not_quiet": 0, "as_prompt_schedule": 0, "advance_while_not_quiet": 0, "other": {}, "steps_while_quiet": {}}}
    for r in res:
        if not r.get("model_clock") or r.get("real_z") or r.get("dead") or r.get("handshake") != ("ret", 0):
            continue
        plan = world_model_plan(r)
        if plan is None:
            tot["unmapped"]["client ops not modelled from the first op"] = tot["unmapped"].get("client ops not modelled from the first op", 0) + 1
            continue
        ops, exp, note = plan
        tot["worlds"] += 1
        if note:
            key = note.split(" (serial")[0][:90]
            tot["unmapped"][key] = tot["unmapped"].get(key, 0) + 1
        else:
            tot["worlds_fully_mapped"] += 1
        tot["inflight_at_start"] += sum(1 for o in ops if o.startswith("wput "))
        m = vlib.run_lines(drv, ops)
        prev_nx = None
        for j, (o, e) in enumerate(zip(ops, exp)):
            if not o.startswith("wev ") and o != "wstart":
                continue
            b = m.lines[j] if j < len(m.lines) else "<no-answer>"
            sec = b.split(" || ")
            if o == "wstart":
                prev_nx = sec[-1] if len(sec) == 4 else None
                if len(sec) != 4:
                    tot["diffs"] += 1
                    tot["first"] = tot["first"] or (r["seed"], j, o, "wstart", "ok …", b[:300], ops[:j + 1])
                    break
                continue
            evname = o.split()[1]
            tot["events"] += 1
            tot["by_event"][evname] = tot["by_event"].get(evname, 0) + 1
            # is the real pair's schedule the prompt schedule the theorems quantify over?
            if prev_nx is not None and r.get("scenario") in PROMPT_SCENARIOS and not r.get("fault"):
                f = dict(x.split("=", 1) for x in prev_nx.split()[1:] if "=" in x)
                pr = tot["prompt"]
                if f.get("quiet") == "0":
                    if evname == "advance":
                        pr["advance_while_not_quiet"] += 1
                    else:
                        pr["steps_while_not_quiet"] += 1
                        if f.get("pev") == evname:
                            pr["as_prompt_schedule"] += 1
                        else:
                            k = "model %s / real %s" % (f.get("pev"), evname)
                            pr["other"][k] = pr["other"].get(k, 0) + 1
                else:
                    pr["steps_while_quiet"][evname] = pr["steps_while_quiet"].get(evname, 0) + 1
            d = None
            if len(sec) != 5:
                d = ("answer line of the model", "", b[:300])
            elif e is not None:
                tot["compared"] += 1
                d = _cmp_step(e, b)
                if d is None and e["ev"] in ("deliverUp", "dupUp"):
                    tot["hop_up_checked"] += 1
                if d is None and e["ev"] in ("deliverDown", "dupDown") and (" rq " in " " + e["line"] or sec[0].split(" ", 2)[1:2] == ["rawans"]):
                    tot["hop_down_checked"] += 1
            if d is not None:
                tot["diffs"] += 1
                k = "%s: %s" % (evname, d[0].split(":")[0][:80])
                tot["kinds"][k] = tot["kinds"].get(k, 0) + 1
                if len(tot["samples"]) < 12:
                    tot["samples"].append({"seed": r["seed"], "scenario": r.get("scenario"), "op": j, "ev": o[:120], "what": d[0], "real": d[1][:700], "model": d[2][:700]})
                if tot["first"] is None:
                    tot["first"] = (r["seed"], j, o[:200], d[0], d[1], d[2], ops[:j + 1])
                break           # after the first difference the two runs are no longer comparable
            prev_nx = sec[-1]
    return tot


def report_world_model(chk, res, prop):
    t = world_model_diff(chk, res)
    if t is None:
        chk.notes["world_model_events_compared"] = None
        chk.notes["world_model_diffs"] = None
        if not chk.violations:
            chk.violation("model driver does not build", ["# lake build iodmodel failed"], no_input=True)
        return
    chk.notes["world_model_worlds"] = t["worlds"]
    chk.notes["world_model_worlds_fully_mapped"] = t["worlds_fully_mapped"]
    chk.notes["world_model_events"] = t["events"]
    chk.notes["world_model_events_compared"] = t["compared"]
    chk.notes["world_model_diffs"] = t["diffs"]
    chk.notes["world_model_by_event"] = t["by_event"]
    chk.notes["world_model_hops_checked"] = {"up": t["hop_up_checked"], "down": t["hop_down_checked"]}
    chk.notes["world_model_inflight_at_start"] = t["inflight_at_start"]
    chk.notes["world_model_unmapped"] = t["unmapped"]
    chk.notes["world_model_diff_kinds"] = t["kinds"]
    chk.notes["world_model_diff_samples"] = t["samples"]
    chk.notes["world_model_prompt_schedule"] = t["prompt"]
    if t["first"] is not None and not chk.violations:
        seed, j, o, what, a, b, pre = t["first"]
        chk.violation("correspondence broken (World.step vs the real pair): the joined model and the real client + server differ in %d world run(s); first: world seed %d, driver op %d `%s`: %s; the oracle found no violation of %s.\n real:  %s\n model: %s"
                      % (t["diffs"], seed, j, o, what, prop, a[:600], b[:600]),
                      ["# correspondence World.step vs real client + real server no longer checks; driver ops up to the first difference:"] + pre, no_input=True)


def report_rseq(chk, prop):
    """recent_seqno (common.c), used by both reassemblers: exhaustive differential over -12..24 x -12..24 against both models' copies"""
    drv = chk.driver()
    if drv is None:
        return
    exe = vlib.build_harness("h_pure", ["h_pure.c"], vlib.PURE_OBJS)
    ops = ["rseq %d %d" % (a, b) for a in range(-12, 25) for b in range(-12, 25)]
    c, m = vlib.run_lines(exe, ops), vlib.run_lines(drv, ops)
    bad = [(o, x, y) for o, x, y in zip(ops, c.lines, m.lines) if x != y]
    chk.notes["recent_seqno_pairs_compared"] = len(ops)
    if (bad or c.rc != 0 or len(c.lines) != len(ops)) and not chk.violations:
        o, x, y = bad[0] if bad else ("(harness aborted)", c.stderr[-300:], "")
        chk.violation("correspondence broken (recentSeqno vs recent_seqno in common.c): `%s` gives %s in the implementation, %s in the model (%d of %d pairs differ); the oracle found no violation of %s"
                      % (o, x, y, len(bad), len(ops), prop), ["# correspondence recentSeqno vs common.c recent_seqno no longer checks"] + [b[0] for b in bad[:20]], no_input=True)


def run_worlds(jobs):
    import os
    vlib.build_srv(); vlib.build_cli()        # build once here; the workers then find the cached binaries
    with ProcessPoolExecutor(min(16, os.cpu_count() or 4)) as ex:
        return list(ex.map(one_world, jobs))


def integrity_violations(res):
    """C01: every frame written to a tun device is byte-identical to a frame offered on the peer's tun device"""
    bad = []
    offered_c = {f for _, f in res["sent_c"]}
    offered_s = {f for _, f in res["sent_s"]}
    for t, f in res["tunw_s"]:
        if f not in offered_c:
            bad.append("the server wrote a %d-byte packet to its tun device that the client never read from its own (at %d ms)" % (len(f), t))
    for t, f in res["tunw_c"]:
        if f not in offered_s:
            bad.append("the client wrote a %d-byte packet to its tun device that the server never read from its own (at %d ms)" % (len(f), t))
    return bad


def fragments_needed(frame, res, upstream):
    """rough count of fragments for a frame (test compression = 1 byte longer)"""
    size = len(frame) + 1
    if res["negotiated"].get("conn") == "0":
        return 1
    if upstream:
        k = {"b32": 5, "b64": 6, "b64u": 6, "b128": 7}.get(res["negotiated"].get("enc"), 5)
        L = res["cfg"]["maxlen"]
        space = L - len(b"t.example.com") - 8
        space -= space // 57
        per = max(1, space * k // 8)
    else:
        per = max(1, min(res.get("fs", 100), 4094))
    return -(-size // per)


def max_fragments(res, frame, upstream):
    return 16


def replay_world(path):
    """replay a recorded world log (lines `S <op>` / `C <op>`) against fresh harness processes; prints both sides' answers"""
    import os
    rz = os.environ.get("VERIF_REPLAY_Z") == "real"
    srv = world.srvgen.Harness(vlib.build_srv(), rz)
    cli = world.CliProc(vlib.build_cli(), rz)
    for l in open(path):
        l = l.rstrip("\n")
        if not l or l.startswith("#") or l.startswith("N "):
            continue
        side, op = l.split(" ", 1)
        if side == "S":
            st = srv.send(op)
            print("S", op[:90], "->", (st.line.split(" | st")[0][:200] if st else "<dead>"))
            for e in (st.events if st else []):
                if e[0] == "tunw":
                    print("    SERVER WROTE TO TUN:", len(e[1]) // 2, "bytes", e[1][:80])
        else:
            line = cli.send(op)
            print("C", op[:90], "->", (line.split(" | st")[0][:200] if line else "<dead>"))
            for part in (line or "").split(" | "):
                if part.startswith("tunw "):
                    print("    CLIENT WROTE TO TUN:", (len(part) - 5) // 2, "bytes", part[5:85])
    srv.close(); cli.close()
    return (srv.dead, cli.dead)
