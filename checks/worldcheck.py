"""Common driver of the world checks (C01 C02 C11): runs of the REAL client and REAL server joined by a scripted network (checks/world.py),
with the property oracles evaluated on what both sides write to their tun devices."""
import random
from concurrent.futures import ProcessPoolExecutor
import vlib
import iodproto as P
import iodclient as C
import world

QTYPES = {"NULL": 10, "PRIVATE": 65399, "TXT": 16, "SRV": 33, "MX": 15, "CNAME": 5, "A": 1}
SERVER_TUN_IP = 0x0a000001
CLIENT_TUN_IP = 0x0a000002


class FaultyWorld(world.World):
    """loss / duplication / delay (hence reordering) while `faulty_until` has not passed; clean afterwards"""

    def __init__(self, *a, drop=0.0, dup=0.0, delay=0, faulty_until=None, **kw):
        self.f_drop, self.f_dup, self.f_delay, self.faulty_until = drop, dup, delay, faulty_until
        super().__init__(*a, **kw)

    def _net(self):
        if self.faulty_until is not None and self.ms >= self.faulty_until:
            return [1]
        r = self.rng.random()
        if r < self.f_drop:
            self.stats["dropped"] += 1
            return []
        d = 1 + (self.rng.randrange(self.f_delay) if self.f_delay else 0)
        if r < self.f_drop + self.f_dup:
            self.stats["dup"] += 1
            return [d, 1 + (self.rng.randrange(self.f_delay) if self.f_delay else 5)]
        return [d]

    def net_up(self, msg):
        return self._net()

    def net_down(self, msg):
        return self._net()


def random_config(rng, force=None):
    cfg = {"qtype": rng.choice(list(QTYPES.values())), "downenc": rng.choice(["-", "T", "S", "U", "V", "R"]), "lazy": rng.choice([0, 1, 1]),
           "maxlen": rng.choice([255, 255, 200, 120, 100]), "autofrag": rng.choice([1, 1, 0]), "fragsize": rng.choice([50, 100, 150]),
           "raw_mode": 0, "seltimeout": rng.choice([4, 2, 1])}
    if cfg["downenc"] == "R" and cfg["qtype"] not in (10, 65399, 16):
        cfg["downenc"] = "T"
    if force:
        cfg.update(force)
    return cfg


def frame_to_server_side(rng, n):
    """a packet a client application sends out through the tunnel (server writes it to its tun)"""
    return C.ip_packet(0x08080808, bytes(rng.randrange(256) for _ in range(n)), src_ip=CLIENT_TUN_IP)


def frame_to_client(rng, n):
    return C.ip_packet(CLIENT_TUN_IP, bytes(rng.randrange(256) for _ in range(n)), src_ip=0x08080808)


SIZES = [0, 1, 20, 100, 600, 1400, 3000, 9000]


def one_world(args):
    """a whole scenario in a worker process.  Returns a dict with verdict material (everything picklable)."""
    seed, cfg, relay_kw, fault, nframes, real_z, scenario = args
    rng = random.Random(seed)
    srv, cli = vlib.build_srv(), vlib.build_cli()
    relay = world.Relay(rng=rng, **relay_kw)
    w = FaultyWorld(rng, srv, cli, relay=relay, real_z=real_z, qtype=cfg["qtype"], downenc=cfg["downenc"], lazy=cfg["lazy"], maxlen=cfg["maxlen"],
                    seltimeout=cfg["seltimeout"], raw_mode=cfg["raw_mode"], autofrag=cfg["autofrag"], fragsize=cfg["fragsize"],
                    drop=0, dup=0, delay=0)
    out = {"seed": seed, "cfg": cfg, "relay": relay.describe(), "fault": fault, "scenario": scenario}
    hs = w.handshake(400000)
    out["handshake"] = hs
    out["negotiated"] = {k: w.c_state.get(k) for k in ("qt", "enc", "dn", "lazy", "e0", "conn")}
    sent_c, sent_s = [], []
    if hs == ("ret", 0):
        w.start_tunnel()
        t0 = w.ms
        if fault:
            w.f_drop, w.f_dup, w.f_delay = fault["drop"], fault["dup"], fault["delay"]
            w.faulty_until = t0 + fault["ms"]
        # offer packets on both sides, spread over the faulty period and after it
        for i in range(nframes):
            n = rng.choice(SIZES)
            if rng.random() < 0.5:
                f = frame_to_server_side(rng, n); sent_c.append((w.ms, f)); w.offer_to_client(f)
            else:
                f = frame_to_client(rng, n); sent_s.append((w.ms, f)); w.offer_to_server(f)
            w.settle(rng.choice([50, 300, 2000, 6000]))
            if w.dead():
                break
        if fault and not w.dead():
            # let the faulty period run out (never starving a side for 60 s: the client pings on its own), then a clean suffix
            w.run_until(lambda: w.ms >= w.faulty_until, fault["ms"] + 1000)
            out["clean_at"] = w.ms
            w.settle(25000)
            late_c, late_s = [], []
            for i in range(3):
                f = frame_to_server_side(rng, rng.choice([20, 600])); late_c.append((w.ms, f)); sent_c.append((w.ms, f)); w.offer_to_client(f)
                g = frame_to_client(rng, rng.choice([20, 600])); late_s.append((w.ms, g)); sent_s.append((w.ms, g)); w.offer_to_server(g)
                w.settle(20000)
            out["late_c"], out["late_s"] = late_c, late_s
        w.settle(30000)
    out["sent_c"], out["sent_s"] = sent_c, sent_s
    out["accepted_c"], out["accepted_s"] = w.accepted_c, w.accepted_s
    fs = [s_.slots[0]["fs"] for s_ in w.s.steps[-50:] if s_.slots and 0 in s_.slots]
    out["fs"] = int(fs[-1]) if fs else 100
    out["tunw_s"], out["tunw_c"] = w.tunw_s, w.tunw_c
    out["stats"] = w.stats
    out["end_ms"] = w.ms
    out["client_ret"] = w.c_ret
    d = w.dead()
    out["dead"] = (("server" if w.s.dead else "client"), d[0][:200], d[1], d[2][-1500:]) if d else None
    out["log"] = w.replay_lines()
    w.close()
    return out


def run_worlds(jobs):
    import os
    vlib.build_srv(); vlib.build_cli()        # build once here; the workers then find the cached binaries
    with ProcessPoolExecutor(min(16, os.cpu_count() or 4)) as ex:
        return list(ex.map(one_world, jobs))


def integrity_violations(res):
    """C01: every frame written to a tun device is byte-identical to a frame offered on the peer's tun device"""
    bad = []
    offered_c = {f for _, f in res["sent_c"]}
    offered_s = {f for _, f in res["sent_s"]}
    for t, f in res["tunw_s"]:
        if f not in offered_c:
            bad.append("the server wrote a %d-byte packet to its tun device that the client never read from its own (at %d ms)" % (len(f), t))
    for t, f in res["tunw_c"]:
        if f not in offered_s:
            bad.append("the client wrote a %d-byte packet to its tun device that the server never read from its own (at %d ms)" % (len(f), t))
    return bad


def max_fragments(res, frame, upstream):
    return 16


def replay_world(path):
    """replay a recorded world log (lines `S <op>` / `C <op>`) against fresh harness processes; prints both sides' answers"""
    srv = world.srvgen.Harness(vlib.build_srv())
    cli = world.CliProc(vlib.build_cli())
    for l in open(path):
        l = l.rstrip("\n")
        if not l or l.startswith("#"):
            continue
        side, op = l.split(" ", 1)
        if side == "S":
            st = srv.send(op)
            print("S", op[:90], "->", (st.line.split(" | st")[0][:200] if st else "<dead>"))
        else:
            line = cli.send(op)
            print("C", op[:90], "->", (line.split(" | st")[0][:200] if line else "<dead>"))
    srv.close(); cli.close()
    return (srv.dead, cli.dead)
