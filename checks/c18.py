"""C18 — tunnel address pool: distinct in-subnet addresses, never the server's; lookup finds the owner.

Theorems: Props/C18.lean.  Correspondence: init_users / find_user_by_ip / find_available_user of the current
tree (real users[] array, harness-owned clock) vs the Lean model.  Oracle: the property text in Python."""
import vlib

USERS = 16


def oracle_factory():
    st = {"slots": None, "pending": None}

    def oracle(op, line):
        t = op.split()
        if t[0] == "initusers":
            my, n = int(t[1]), int(t[2])
            if not line.startswith("n="):
                return ("no answer: " + line, None, None)
            f = dict(x.split("=") for x in line.split())
            cnt = int(f["n"]); ips = [] if f["ips"] == "-" else [int(x) for x in f["ips"].split(",")]
            size = 1 << (32 - n)
            net = my - my % size
            why = None
            if cnt != min(USERS, size - 3) or len(ips) != cnt:
                why = "pool of %d sessions for /%d (expected %d)" % (cnt, n, min(USERS, size - 3))
            elif len(set(ips)) != len(ips):
                why = "duplicate tunnel address in pool"
            elif any(ip - ip % size != net for ip in ips):
                why = "address outside the server's subnet"
            elif any(ip in (my, net, net + size - 1) for ip in ips):
                why = "pool contains the server/network/broadcast address"
            if why:
                return (why + " (server %d.%d.%d.%d/%d)" % (my >> 24, my >> 16 & 255, my >> 8 & 255, my & 255, n), None, "c18:pool")
            return (None, (n, my % size, my >> (32 - n) & 3), None)
        if t[0] == "uinit":
            st["slots"] = {}
            return (None, None, None)
        if t[0] == "uget":
            f = dict(x.split("=") for x in line.split()) if "=" in line else None
            if f is None:
                return ("no slot state: " + line, None, None)
            st["slots"][int(t[1])] = f
            return (None, None, None)
        if t[0] == "ufind":
            # the slot table was dumped with uget just before (see generator)
            now, ip = int(t[1]), int(t[2])
            owners = [i for i, f in sorted(st["slots"].items()) if f["a"] == "1" and f["u"] == "1" and f["d"] == "0"
                      and int(f["t"]) + 60 > now and int(f["ip"]) == ip]
            r = int(line[2:]) if line.startswith("r=") else None
            want = owners[0] if owners else -1
            if r != want:
                return ("lookup of tunnel address %d at t=%d returned %s, the live logged-in owner is %s" % (ip, now, r, want), None, "c18:lookup")
            return (None, ("f", r >= 0, now % 7, ip % 5), None)
        if t[0] == "uavail":
            now = int(t[1])
            r = int(line[2:]) if line.startswith("r=") else None
            if r is not None and r >= 0:
                f = st["slots"].get(r)
                if f and f["a"] == "1" and int(f["t"]) + 60 >= now:
                    return ("slot %d taken over although its session was active %d s ago" % (r, now - int(f["t"])), None, "c18:takeover")
            return (None, ("a", r), None)
        return (None, None, None)
    return oracle


def gen_pool_ops(chk):
    rng, thorough = chk.rng, chk.tier == "thorough"
    ops = []
    lo = 16 if thorough else 20
    bases = [10 << 24, (192 << 24) | (168 << 16) | (255 << 8) | 255, 0xFFFFFFFF, rng.randrange(1 << 32)]
    for n in range(lo, 31):
        size = 1 << (32 - n)
        for b in (bases if size <= 4096 else bases[:2]):
            net = b - b % size
            for h in range(size):
                ops.append("initusers %d %d" % (net + h, n))
    for n in range(8, lo):
        size = 1 << (32 - n)
        for _ in range(40):
            net = rng.randrange(1 << 32); net -= net % size
            for h in [0, 1, 2, 3, 8, 15, 16, 17, 18, 19, 255, 256, 257, size // 2, size - 3, size - 2, size - 1, rng.randrange(size), rng.randrange(size)]:
                ops.append("initusers %d %d" % (net + h % size, n))
    return ops


def gen_slot_ops(chk):
    rng, thorough = chk.rng, chk.tier == "thorough"
    ops = []
    for _ in range(1500 if thorough else 300):
        n = rng.choice([30, 29, 28, 27, 24, 16])
        size = 1 << (32 - n)
        net = rng.randrange(1 << 32); net -= net % size
        my = net + rng.randrange(size)
        cnt = min(USERS, size - 3)
        if cnt < 1:
            continue
        ops.append("uinit %d %d" % (my, n))
        base = rng.randrange(1000, 100000)
        for step in range(rng.randrange(3, 12)):
            for i in range(cnt):
                if rng.random() < 0.6:
                    ops.append("uset %d %d %d %d %d" % (i, rng.random() < 0.8, rng.random() < 0.7, rng.random() < 0.1,
                                                        base + rng.choice([-100, -61, -60, -59, -1, 0, 1, 30])))
            for i in range(cnt):
                ops.append("uget %d" % i)
            now = base + rng.choice([0, 1, 58, 59, 60, 61, 62, 120])
            for _ in range(3):
                ops.append("ufind %d %d" % (now, net + rng.randrange(min(size, cnt + 4))))
            ops.append("uavail %d" % now)
    return ops


def session_part(chk):
    """the pool as the running server uses it: addresses handed out in login replies, tun frames routed by find_user_by_ip in the real loop"""
    import srvcheck
    exe = vlib.build_srv()
    runs = 48 if chk.tier == "thorough" else 16
    jobs = [(exe, chk.seed * 18000 + k, 350, ("C18",), {"netbits": [24, 27, 28, 29, 30, 16, 8][k % 7]}) for k in range(runs)]
    from concurrent.futures import ProcessPoolExecutor
    with ProcessPoolExecutor(16) as ex:
        res = list(ex.map(srvcheck._one_run, jobs))
    bad = 0
    for r in res:
        mine = [v for v in r["viol"] if v[0] == "C18"]
        if mine:
            p_, i, msg = mine[0]
            chk.violation("C18 fails on the implementation (server loop, seed %d, step %d): %s" % (r["seed"], i, msg), r["ops"][:i + 1], key="c18:srv")
            bad += 1
    chk.notes["session_ops"] = sum(len(r["ops"]) for r in res)
    return bad


def run(chk):
    sbad = session_part(chk)
    ops = gen_pool_ops(chk)
    chk.notes["pool_configurations"] = len(ops)
    oracle = oracle_factory()
    rule = ("initusers: every server host position for /20../30 (thorough /16../30) over several networks incl. ones near the top of the last octet, "
            "boundary+random positions for wider masks; slot ops: random slot tables with last_pkt at -100..+30 s around the clock, lookups and "
            "allocations at 0/1/58..62/120 s. non-trivial = configuration with a non-empty pool / lookup outcome; distinct by (mask, host position) etc.")
    vlib.pure_check(chk, ops, oracle, rule, "Users.initUsers vs user.c:init_users")
    ops2 = gen_slot_ops(chk)
    vlib.pure_check(chk, ops2, oracle, rule, "Users.findUserByIp/findAvailableUser vs user.c", sequential=True)
    # where netmask and pool come from: the real main() of iodined on generated command lines (tunnel_ip[/netmask] in every form inet_addr
    # and atoi accept or refuse); every configuration tunnel() is started with must have 8..30 bits and the documented pool
    import maincheck
    maincheck.run(chk, "C18", n_cli=0)
    chk.cov["rule"] += "; main(): generated command lines for iodined through the real option handling (checks/maincheck.py)"
    chk.cov["exhaustive"] = False


def replay(chk, path):
    import maincheck
    if maincheck.is_main_replay(path):
        return maincheck.replay(chk, path)
    return vlib.pure_replay(chk, path, oracle_factory())
