"""C15 — see DESIGN.md §4 C15.  Theorems: Props/C15.lean over the server session model (Server/*.lean);
correspondence: the real tunnel() loop (h_srv) vs the model on generated sessions; oracle: checks/srvmon.py monitor C15."""
import srvcheck

LEVEL = "proof"


def run(chk):
    srvcheck.run(chk, "C15")


def replay(chk, path):
    return srvcheck.replay(chk, path, "C15")
