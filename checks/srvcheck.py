"""Common driver of the server-session checks (C03 C04 C14 C15 C16 and the server half of C05/C18/C19/C20).

For one property: (1) Lean proof obligations of Props/<prop>.lean over the server model, (2) generated and corpus
sessions run through the REAL iodined loop (harness/h_srv, ASan+UBSan), (3) the property monitor on the implementation's
trace, (4) the same ops through the Lean model driver, diffed line by line (events and full slot digest)."""
import os, random, glob
from concurrent.futures import ProcessPoolExecutor
import vlib
import srvgen, srvmon

ALL = ("C03", "C04", "C14", "C15", "C16")


def _one_run(args):
    exe, seed, nsteps, which, kw = args
    kw = dict(kw)
    rng = random.Random(seed)
    hostile = kw.pop("hostile", 0.0) if isinstance(kw, dict) else 0.0
    g = srvgen.Gen(rng, exe, **kw)
    h = g.run(nsteps, hostile=hostile)
    steps = h.steps
    m = srvmon.run_monitors(steps, which)
    kinds = {}
    for st in steps:
        k = st.meta.get("kind", st.op.split()[0])
        kinds[k] = kinds.get(k, 0) + 1
    # a datagram handed to a socket of the other address family (the kernel refuses it: it is lost).  With source checking on, every answer goes to
    # the address a session is bound to or to the asker on the socket it came in by, so this can only be a wrong socket choice in the code; with -c
    # a session may be reached over both families and the pinned tree itself answers a held query on the socket of the NEW query (DESIGN.md §8)
    wrongfd = next((i for i, st in enumerate(steps) if g.check_ip and any(e[0] == "badfam" for e in st.events)), None)
    return {"seed": seed, "ops": [s.op for s in steps], "lines": [s.line for s in steps], "dead": h.dead, "slowest": getattr(h, "slowest", 0.0), "wrongfd": wrongfd,
            "viol": m.viol, "stats": m.stats, "kinds": kinds, "check_ip": g.check_ip}


def replay_ops(exe, ops, which, real_z=False):
    """run an op list through the harness; returns (steps, dead, monitor)"""
    h = srvgen.Harness(exe, real_z)
    for op in ops:
        if h.send(op) is None:
            break
    h.close()
    m = srvmon.run_monitors(h.steps, which)
    return h.steps, h.dead, m


def shrink(exe, ops, which, prop, budget=60):
    """delta debugging on the op list: keep the cfg line, drop chunks while `prop` is still violated"""
    def fails(cand):
        _, dead, m = replay_ops(exe, cand, which)
        return any(p == prop for p, _, _ in m.viol) or (dead is not None and prop == "C05")
    head, body = ops[:1], ops[1:]
    n = 2
    tries = 0
    while len(body) >= 2 and tries < budget:
        size = max(1, len(body) // n)
        reduced = False
        for i in range(0, len(body), size):
            cand = body[:i] + body[i + size:]
            tries += 1
            if cand and fails(head + cand):
                body = cand
                n = max(2, n - 1)
                reduced = True
                break
            if tries >= budget:
                break
        if not reduced:
            if size == 1:
                break
            n = min(len(body), n * 2)
    return head + body


def count_datagrams(lines):
    """how many emitted datagrams of each kind the answer lines carry (all of them are compared byte for byte by model_diff)"""
    n = {}
    for l in lines:
        for p in l.split(" | "):
            k = p.split(" ", 1)[0]
            if k in ("tx", "nsa", "fwd", "raw", "rly", "tunw", "dq"):
                n[k] = n.get(k, 0) + 1
    return n


def model_diff(chk, ops, lines):
    """feed the ops to the Lean driver (byte level: Server/Bytes.lean); compare the whole lines — dq, every event, every emitted
    datagram (tx, nsa, fwd, raw, rly) byte for byte, select timeout, slot digest.  Returns (ndiff, first diff | None) or None"""
    drv = chk.driver()
    if drv is None:
        return None
    steps = [srvgen.Step(o, l) for o, l in zip(ops, lines)]
    mops = srvgen.model_ops(steps)
    r = vlib.run_lines(drv, mops)
    nd, first = 0, None
    for i, (o, l) in enumerate(zip(ops, lines)):
        a = srvgen.project(l)
        b = r.lines[i] if i < len(r.lines) else "<no-answer>"
        if a != b:
            nd += 1
            if first is None:
                first = (i, mops[i], a, b)
    return nd, first


def run(chk, prop, which=None, runs=None, nsteps=None, gen_kw=None, extra_monitor=None):
    which = which or (prop,)
    thorough = chk.tier == "thorough"
    runs = runs or (160 if thorough else 32)
    nsteps = nsteps or (900 if thorough else 400)
    proof_ok = chk.proofs()
    exe = vlib.build_srv()
    bad = 0
    # corpus first
    for f in sorted(glob.glob(os.path.join(vlib.VERIF, "corpus", prop, "*.ops"))):
        ops = [l.strip() for l in open(f) if l.strip() and not l.startswith("#")]
        if not ops or not ops[0].startswith("cfg "):
            # a corpus file for another harness (pure ops): a sanitizer abort there is still this property's business
            pexe = vlib.build_harness("h_pure", ["h_pure.c"], vlib.PURE_OBJS)
            rr = vlib.run_lines(pexe, ops)
            if rr.rc != 0:
                chk.violation("C harness aborted on corpus file %s (rc=%d):\n%s" % (os.path.basename(f), rr.rc, rr.stderr[-800:]), ops); bad += 1
            continue
        steps, dead, m = replay_ops(exe, ops, which)
        if dead and prop == "C05":
            chk.violation("C harness aborted on corpus file %s: %s" % (os.path.basename(f), dead[2][-800:]), ops); bad += 1
        for p, i, msg in m.viol:
            if p == prop:
                chk.violation("%s fails on the implementation (corpus %s, step %d): %s" % (prop, os.path.basename(f), i, msg), ops); bad += 1
    jobs = [(exe, chk.seed * 100003 + k, nsteps, which, gen_kw or {}) for k in range(runs)]
    # sessions that open with the encoder matrix (every answer type x downstream codec, NS/A responses, forwarded queries): they
    # go through the same monitors and give the byte-level correspondence its coverage (srvgen.scenario_bytes_matrix)
    jobs += [(exe, chk.seed * 100003 + 50000 + k, nsteps // 4, which, dict(gen_kw or {}, matrix=True, bind=5353)) for k in range(16 if thorough else 4)]
    with ProcessPoolExecutor(min(16, os.cpu_count() or 4)) as ex:
        results = list(ex.map(_one_run, jobs))
    stats, kinds, nops, ndiff, firstdiff, nontriv = {}, {}, 0, 0, None, 0
    model_missing = False
    dgrams = {}
    for r in results:
        nops += len(r["ops"])
        for k, v in r["stats"].items():
            stats[k] = stats.get(k, 0) + v
        for k, v in r["kinds"].items():
            kinds[k] = kinds.get(k, 0) + v
        nontriv += sum(1 for l in r["lines"] if l.startswith("ans") or " | ans" in l or "tunw" in l or "raw " in l)
        if r["dead"]:
            op, rc, err = r["dead"]
            chk.violation("the server harness aborted (sanitizer or crash, rc=%s) on op: %s\n%s" % (rc, op[:200], err[-1500:]),
                          r["ops"] + [op], key="abort:" + (err.split("runtime error:")[-1].split("\n")[0].strip()[:80] if "runtime error" in err else "asan"))
            bad += 1
        if r.get("wrongfd") is not None and not chk.violations:
            i = r["wrongfd"]
            chk.violation("%s fails on the implementation (seed %d, step %d): with source checking on, the server handed a datagram to the socket of the other address family (IPv4 destination on the IPv6 socket or the reverse): the kernel refuses it, the answer / forwarded packet is lost: %s"
                          % (prop, r["seed"], i, r["lines"][i].split(" | st")[0][:200]), r["ops"][:i + 1], key="wrongfd")
            bad += 1
        mine = [v for v in r["viol"] if v[0] == prop]
        if mine:
            p, i, msg = mine[0]
            ops = r["ops"][:i + 1]
            if bad < 3:
                ops = shrink(exe, ops, which, prop)
            chk.violation("%s fails on the implementation (seed %d, step %d): %s" % (prop, r["seed"], i, msg), ops, key="%s:%s" % (prop.lower(), msg[:40]))
            bad += 1
        d = model_diff(chk, r["ops"], r["lines"])
        if d is None:
            model_missing = True
        else:
            for k_, v_ in count_datagrams(r["lines"]).items():
                dgrams[k_] = dgrams.get(k_, 0) + v_
            ndiff += d[0]
            if d[1] and firstdiff is None:
                firstdiff = (r, d[1])
    chk.cov["evaluations"] = nops
    chk.cov["distinct_nontrivial"] = nontriv
    chk.cov["traces_validated_against_impl"] = len(results)
    chk.cov["rule"] = ("%d generated sessions x %d ops against the real tunnel() loop (h_srv, ASan+UBSan): version/login with right, wrong and stale "
                       "hashes, option/codec/fragment-size changes at boundary values, pings, upstream data with gaps/abandon, re-deliveries (same id, new id, "
                       "changed case, other relay address), tun frames to owned/unowned/garbage addresses, spoofed sources, raw login/data/ping, junk, "
                       "NS/A/outside queries, forward replies, clock steps across 59/60/61 s; 1-20 clients, IPv4 and IPv6, check_ip on/off; "
                       "non-trivial = op that produced an answer, raw frame or tun write" % (runs, nsteps))
    chk.notes["op_kinds"] = kinds
    chk.notes["slowest_op_seconds"] = round(max([r.get("slowest", 0.0) for r in results] or [0.0]), 3)
    chk.notes["monitor_stats"] = stats
    chk.notes["correspondence_diffs"] = None if model_missing else ndiff
    chk.notes["correspondence_level"] = "bytes: datagram in -> dns_decode -> session machine -> encoders -> datagram out (Server/Bytes.lean)"
    chk.notes["datagrams_compared"] = dgrams
    for r in results[:3]:
        for i in (5, len(r["ops"]) // 2):
            if i < len(r["ops"]):
                chk.sample({"op": r["ops"][i][:160], "impl": srvgen.project(r["lines"][i])[:300]})
    if bad == 0:
        if model_missing:
            chk.violation("model driver does not build: " + vlib.ensure_lean().log[-1500:], ["# lake build iodmodel failed"], no_input=True)
        elif firstdiff is not None:
            r, (i, mop, a, b) = firstdiff
            chk.violation("correspondence broken (Server.* vs iodined.c): model and implementation differ on %d ops; the monitors found no violation of %s.\nfirst: step %d of seed %d: %s\n impl:  %s\n model: %s"
                          % (ndiff, prop, i, r["seed"], mop[:200], a[:600], b[:600]),
                          ["# correspondence Server.iteration vs iodined.c tunnel() no longer checks; ops up to the first difference:"] + r["ops"][:i + 1], no_input=True)
        elif not proof_ok:
            chk.violation("proof obligation no longer checks: " + chk.proof_detail,
                          ["# theorems of Props/%s.lean: %s" % (prop, ", ".join(vlib.prop_theorems(prop))), "# " + chk.proof_detail.replace("\n", "\n# ")], no_input=True)
    return results


def model_only(chk, prop, runs=12, nsteps=300, gen_kw=None, seed_mul=15485863):
    """generated sessions through the real tunnel() loop and the byte-level Lean server model, no property monitor: for checks whose theorems are
    about a part of the server (login, pool, forwarding, extraction) and rest on the session model being the code.  Reports like run():
    harness abort; `correspondence broken` (no-failing-input-found) when nothing else was violated."""
    exe = vlib.build_srv()
    # C11's server side: run 0 opens with the scripted many-users / upper-casing-relay session (user ids a..f in data queries)
    jobs = [(exe, chk.seed * seed_mul + k, nsteps, (), dict(gen_kw or {}, **({"scenario": "upper_users", "netbits": 24} if prop == "C11" and k == 0 else {})))
            for k in range(runs)]
    with ProcessPoolExecutor(min(16, os.cpu_count() or 4)) as ex:
        results = list(ex.map(_one_run, jobs))
    nops, ndiff, first = 0, 0, None
    for r in results:
        nops += len(r["ops"])
        if r["dead"]:
            op, rc, err = r["dead"]
            chk.violation("the server harness aborted (sanitizer or crash, rc=%s) on op: %s\n%s" % (rc, op[:200], err[-1500:]), r["ops"] + [op], key="abort:session")
            continue
        if r.get("wrongfd") is not None and not chk.violations:
            i = r["wrongfd"]
            chk.violation("%s fails on the implementation (generated session, seed %d, step %d): with source checking on, the server handed a datagram to the socket of the other address family: the kernel refuses it, the answer / forwarded packet is lost: %s"
                          % (prop, r["seed"], i, r["lines"][i].split(" | st")[0][:200]), r["ops"][:i + 1], key="wrongfd")
        d = model_diff(chk, r["ops"], r["lines"])
        if d is None:
            if not chk.violations:
                chk.violation("model driver does not build: " + vlib.ensure_lean().log[-1500:], ["# lake build iodmodel failed"], no_input=True)
            return
        ndiff += d[0]
        if d[1] and first is None:
            first = (r, d[1])
    chk.notes["session_model_ops_compared"] = nops
    chk.notes["session_model_diffs"] = ndiff
    chk.cov["evaluations"] = chk.cov.get("evaluations", 0) + nops
    if first is not None and not chk.violations:
        r, (i, mop, a, b) = first
        chk.violation("correspondence broken (Server.* vs iodined.c): model and implementation differ on %d ops of generated sessions; no violation of %s found.\nfirst: step %d of seed %d: %s\n impl:  %s\n model: %s"
                      % (ndiff, prop, i, r["seed"], mop[:200], a[:600], b[:600]),
                      ["# correspondence Server.iteration vs iodined.c tunnel() no longer checks; ops up to the first difference:"] + r["ops"][:i + 1], no_input=True)


def replay(chk, path, prop, which=None):
    ops = [l.strip() for l in open(path) if l.strip() and not l.startswith("#")]
    if ops and not ops[0].startswith("cfg "):
        # a replay file for the pure harness (codec / wire ops): a sanitizer abort there is the violation
        r = vlib.run_lines(vlib.build_harness("h_pure", ["h_pure.c"], vlib.PURE_OBJS), ops)
        for o, l in zip(ops, r.lines):
            print(o[:110], "->", l[:240])
        if r.rc != 0:
            print("ABORT rc=%d\n%s" % (r.rc, r.stderr[-1500:]))
        chk.cov.update({"evaluations": len(ops), "distinct_nontrivial": 0})
        return 1 if r.rc != 0 else 0
    exe = vlib.build_srv()
    steps, dead, m = replay_ops(exe, ops, which or (prop,))
    for st in steps:
        print(st.op[:110], "->", srvgen.project(st.line).split(" | st")[0][:240])
    bad = 0
    if dead:
        print("ABORT on", dead[0][:100], dead[2][-1500:]); bad += 1
    for p, i, msg in m.viol:
        print("VIOLATES %s at step %d: %s" % (p, i, msg)); bad += 1
    chk.cov.update({"evaluations": len(ops), "distinct_nontrivial": 0})
    return 1 if bad else 0
