"""C09 — downstream answers decode exactly (or to a prefix), monotonically in size.

The REAL write_dns() of iodined.c (h_srv op `wd`) encodes a payload for every (query type, downstream codec); the resulting datagram is
handed to the REAL read_dns_withq() of client.c (h_cli `start readq` + `ans`).  Oracle (the property): what the client extracts is a prefix
of the payload (the whole of it, or a proper prefix, or nothing) — never other bytes — and per (type, codec, name) the set of lengths that
arrive complete is downward closed.  Theorems: Props/C09.lean over Server/WriteDns.lean + Wire/* + Client/ReadDns.lean; the model driver
answers the same `wd`/`readq` ops."""
import vlib
import iodproto as P

LEVEL = "proof"
TYPES = [("NULL", 10), ("PRIVATE", 65399), ("TXT", 16), ("SRV", 33), ("MX", 15), ("CNAME", 5), ("A", 1)]
CODECS = "TSUVR"
SHORT_NAME = b"paaaa.t.co"
LONG_NAME = b".".join([b"p" + b"a" * 61, b"b" * 62, b"c" * 62, b"d" * 59]) + b".t.co"      # 253 characters


def contents(rng, n, style):
    if style == 0:
        return bytes(rng.randrange(256) for _ in range(n))
    if style == 1:
        return b"\xff" * n
    if style == 2:
        return b"\x00" * n
    # the fragment-size probe pattern of the server
    v = rng.randrange(256)
    b = bytearray([(n >> 8) & 0xff, n & 0xff, 107])
    while len(b) < n:
        b.append(v); v = (v + 107) & 0xff
    return bytes(b[:n])


def lengths(rng, thorough, style):
    if thorough or style == 0:
        return list(range(2, 4097))
    base = set(range(2, 40)) | set(range(140, 260)) | set(range(2540, 2580)) | set(range(3050, 3090)) | set(range(3560, 3600)) | set(range(4070, 4097))
    base |= {rng.randrange(2, 4097) for _ in range(150)}
    return sorted(base)


def run(chk):
    rng, thorough = chk.rng, chk.tier == "thorough"
    proof_ok = chk.proofs()
    srv, cli = vlib.build_srv(), vlib.build_cli()
    cases = []          # (tname, type, dn, qname, payload)
    for tname, t in TYPES:
        for dn in CODECS:
            if thorough:
                for ni, qname in enumerate((SHORT_NAME, LONG_NAME)):
                    for style in (0, 1, 2, 3):
                        for n in lengths(rng, ni == 0, style):
                            cases.append((tname, t, dn, qname, contents(rng, n, style)))
            else:
                # every length once per (type, codec); content style and question name vary with the length
                for n in range(2, 4097):
                    cases.append((tname, t, dn, LONG_NAME if n % 7 == 0 else SHORT_NAME, contents(rng, n, n % 4)))
    wd = ["wd %d %d %s %s %s" % (1 + i % 65535, t, dn, vlib.hx(qname), vlib.hx(p)) for i, (_, t, dn, qname, p) in enumerate(cases)]
    rs = vlib.run_parallel(srv, wd)
    bad = 0
    if rs.rc != 0:
        i = rs.abort_index or 0
        chk.violation("server harness aborted in write_dns (rc=%d) on %s\n%s" % (rs.rc, wd[i][:160], rs.stderr[-1200:]), [wd[i]], key="c09:abort-srv")
        bad += 1
    # client side: one `start readq` + `ans` per case; buffers as in the client: 64 KiB in the tunnel, 4096 in the handshake
    cops, idx = [], []
    for i, line in enumerate(rs.lines):
        tx = [e for e in line.split(" | ") if e.startswith("tx ")]
        if not tx:
            continue
        buflen = 65536 if (i // 4200) % 3 else 4096       # whole length sweeps share a buffer size
        cops += ["start readq %d" % buflen, "ans " + tx[0].split()[2]]
        idx.append((i, buflen))

    def run_cli(ops):
        return vlib.run_lines(cli, ["ccfg %s %s 255 10 T 0 5 3 1 0" % (vlib.hx(b"t.co"), vlib.hx(b"pw"))] + ops)
    from concurrent.futures import ThreadPoolExecutor
    chunks = [(cops[k:k + 4000], idx[k // 2:(k + 4000) // 2]) for k in range(0, len(cops), 4000)]
    with ThreadPoolExecutor(16) as ex:
        outs = list(ex.map(lambda c: run_cli(c[0]), chunks))
    exact = {}          # (tname, dn, qname) -> {length: exact?}
    nontriv = 0
    mops, mexp = [], []
    for (ops, ids), r in zip(chunks, outs):
        if r.rc != 0:
            k = max(0, len(r.lines) - 1)
            chk.violation("client harness aborted in read_dns_withq (rc=%d) on %s\n%s" % (r.rc, ops[min(k, len(ops) - 1)][:160], r.stderr[-1200:]),
                          ["ccfg %s %s 255 10 T 0 5 3 1 0" % (vlib.hx(b"t.co"), vlib.hx(b"pw"))] + ops[:k + 1], key="c09:abort-cli")
            bad += 1
            continue
        for j, (i, buflen) in enumerate(ids):
            line = r.lines[1 + 2 * j + 1] if 1 + 2 * j + 1 < len(r.lines) else ""
            b = [e for e in line.split(" | ") if e.startswith("buf ")]
            got = vlib.unhx(b[0].split()[1]) if b else b""
            tname, t, dn, qname, p = cases[i]
            key = (tname, dn, qname, buflen)
            limit = p[:buflen]
            if got == limit:
                exact.setdefault(key, {})[len(p)] = len(p) <= buflen
                nontriv += 1
            elif p.startswith(got):
                exact.setdefault(key, {})[len(p)] = False
            else:
                bad += 1
                chk.violation("C09 fails on the implementation: %s answer with downstream codec %s: the client extracts %d bytes that are NOT a prefix of the %d-byte payload (first difference at byte %d; payload %s..., extracted %s...)"
                              % (tname, dn, len(got), len(p), next((k for k in range(min(len(got), len(p))) if got[k] != p[k]), min(len(got), len(p))), vlib.hx(p[:12]), vlib.hx(got[:12])),
                              [wd[i], "# then on the client: " + cops[2 * (idx.index((i, buflen)))], cops[2 * (idx.index((i, buflen))) + 1][:200]], key="c09:wrong-bytes:%s%s" % (tname, dn))
    for key, d in exact.items():
        ok = sorted(n for n, e in d.items() if e)
        no = sorted(n for n, e in d.items() if not e)
        if ok and no and no[0] < ok[-1]:
            bad += 1
            chk.violation("C09 fails on the implementation: %s/%s: a payload of %d bytes is delivered exactly but the shorter payload of %d bytes is not (not monotone)" % (key[0], key[1], ok[-1], no[0]),
                          [w for w, c in zip(wd, cases) if (c[0], c[2], c[3]) == key[:3] and len(c[4]) in (ok[-1], no[0])][:4] + ['# client buffer %d' % key[3]], key="c09:monotone")
    chk.cov["evaluations"] = len(cases)
    chk.cov["distinct_nontrivial"] = nontriv
    chk.cov["traces_validated_against_impl"] = len(cases)
    chk.cov["rule"] = ("every (type in NULL PRIVATE TXT SRV MX CNAME A) x (downstream codec T S U V R) x {10- and 253-character question name} x payload lengths "
                       "(every length 2..4096 with random content; boundary + sampled lengths for all-FF and probe-pattern content; thorough: every length x 4 contents) through the real "
                       "write_dns and the real read_dns_withq (buffers 4096 and 65536); non-trivial = payload delivered complete")
    chk.notes["thresholds"] = {"%s/%s/name%d/buf%d" % (k[0], k[1], len(k[2]), k[3]): max([n for n, e in d.items() if e] or [0]) for k, d in exact.items()}
    for i in (0, len(cases) // 2):
        chk.sample({"op": wd[i][:120], "impl": rs.lines[i][:160] if i < len(rs.lines) else None})
    # correspondence: the same `wd` ops through the model (same split over processes, so the rotating pseudo-TLD evolves identically), byte for byte;
    # and the client's extraction of every datagram (`rdq`) against what the real read_dns_withq returned
    drv = chk.driver()
    diffs = None
    if drv:
        # a separate batch (the model is much slower than the C code): every (type, codec), lengths at every threshold the closed formula `fits` names and
        # sampled ones, both names; the SAME op sequence goes to both sides (same split), so the rotating pseudo-TLD state evolves identically
        cl = sorted(set(list(range(2, 8)) + [152, 153, 154, 155, 182, 183, 184, 185, 213, 214, 215, 216, 244, 245, 246, 251, 252, 253, 504, 505, 2463, 2464, 2465, 2466, 2559, 2560, 2960, 2961, 3071, 3072,
                             3447, 3448, 3583, 3584, 4094, 4095, 4096] + [rng.randrange(2, 4097) for _ in range(120 if thorough else 25)]))
        cw = ["wd %d %d %s %s %s" % (1 + (7 * n) % 65535, t, dn, vlib.hx(LONG_NAME if n % 3 == 0 else SHORT_NAME), vlib.hx(contents(rng, n, n % 4)))
              for _, t in TYPES for dn in CODECS for n in cl]
        cs = vlib.run_parallel(srv, cw)
        m = vlib.run_parallel(drv, cw)
        diffs = [i for i in range(len(cw)) if (m.lines[i] if i < len(m.lines) else "<no-answer>") != (cs.lines[i] if i < len(cs.lines) else "<none>")]
        mops, mexp = cw, cs.lines
        if not diffs:
            rops, tx = [], []
            for i, line in enumerate(cs.lines):
                t = [e for e in line.split(" | ") if e.startswith("tx ")]
                if t:
                    B = 4096 if i % 2 else 65536
                    rops.append("rdq %d %s" % (B, t[0].split()[2])); tx.append((B, t[0].split()[2]))
            cc = vlib.run_lines(cli, ["ccfg %s %s 255 10 T 0 5 3 1 0" % (vlib.hx(b"t.co"), vlib.hx(b"pw"))] + [x for B, h in tx for x in ("start readq %d" % B, "ans " + h)])
            m2 = vlib.run_parallel(drv, rops)
            for i, o in enumerate(rops):
                line = cc.lines[2 + 2 * i] if 2 + 2 * i < len(cc.lines) else ""
                ev = line.split(" | ")
                buf = next((e.split()[1] for e in ev if e.startswith("buf ")), "-")
                rv = next((e.split()[1] for e in ev if e.startswith("ret ")), "?")
                f = dict(x.split("=", 1) for x in (m2.lines[i] if i < len(m2.lines) else "").split() if "=" in x)
                if f.get("rv") != rv or (rv.lstrip("-").isdigit() and int(rv) > 0 and f.get("buf") != buf):
                    diffs.append(i)
                    if len(diffs) == 1:
                        mops, mexp, m = rops, {i: "rv=%s buf=%s" % (rv, buf)}, m2
            chk.notes["rdq_ops_compared"] = len(rops)
        chk.notes["wd_ops_compared"] = len(cw)
    chk.notes["correspondence_diffs"] = None if diffs is None else len(diffs)
    if bad == 0:
        if diffs is None:
            chk.violation("model driver does not build", ["# lake build iodmodel failed"], no_input=True)
        elif diffs:
            i = diffs[0]
            chk.violation("correspondence broken (Server.WriteDns / Client.ReadDns vs write_dns / read_dns_withq): %d ops differ; no wrong bytes found.\nfirst: %s\n impl: %s\n model: %s"
                          % (len(diffs), mops[i][:160], str(mexp[i])[:200], m.lines[i][:200] if i < len(m.lines) else None),
                          ["# correspondence Server.WriteDns vs iodined.c write_dns no longer checks"] + [mops[j] for j in diffs[:5]], no_input=True)
        elif not proof_ok:
            chk.violation("proof obligation no longer checks: " + chk.proof_detail,
                          ["# theorems of Props/C09.lean: " + ", ".join(vlib.prop_theorems("C09")), "# " + chk.proof_detail.replace("\n", "\n# ")], no_input=True)


def replay(chk, path):
    ops = [l.strip() for l in open(path) if l.strip() and not l.startswith("#")]
    srv, cli = vlib.build_srv(), vlib.build_cli()
    bad = 0
    for op in ops:
        if not op.startswith("wd "):
            continue
        r = vlib.run_lines(srv, [op])
        tx = [e for e in r.lines[0].split(" | ") if e.startswith("tx ")] if r.lines else []
        print(op[:100], "->", (tx[0][:120] if tx else "no answer"))
        if tx:
            c = vlib.run_lines(cli, ["ccfg %s %s 255 10 T 0 5 3 1 0" % (vlib.hx(b"t.co"), vlib.hx(b"pw")), "start readq 65536", "ans " + tx[0].split()[2]])
            b = [e for e in c.lines[-1].split(" | ") if e.startswith("buf ")] if c.lines else []
            got = vlib.unhx(b[0].split()[1]) if b else b""
            p = vlib.unhx(op.split()[5])
            print("   client extracts", vlib.hx(got)[:80], "" if p.startswith(got) else "  <-- NOT a prefix of the payload: VIOLATES C09")
            bad += 0 if p.startswith(got) else 1
    chk.cov.update({"evaluations": len(ops), "distinct_nontrivial": 0})
    return 1 if bad else 0
