"""Interactive generator of server sessions for the S2 checks (C03 C04 C14 C15 C16, C05).

Drives harness/h_srv (the real iodined tunnel() loop) line by line so that generated clients can react to what
the server actually answered (challenge, userid, downstream seq/frag), and records every op with its answer.
All random choices come from one `random.Random`.  The recorded op list replays exactly (`h_srv < ops`)."""
import os, struct, subprocess
import iodproto as P
import iodclient as C
import vlib

T = P.TYPES
QTYPES = [T["NULL"], T["PRIVATE"], T["TXT"], T["SRV"], T["MX"], T["CNAME"], T["A"]]
RAWHDR = C.RAW_HEADER


class Step:
    __slots__ = ("op", "line", "events", "sel", "slots", "meta")

    def __init__(self, op, line, meta=None):
        self.op, self.line, self.meta = op, line, meta or {}
        self.events, self.sel, self.slots = parse_line(line)


def parse_line(line):
    """-> (events [(kind, fields...)], {to, tunsel}, {u: {field: value}})"""
    events, sel, slots = [], {}, {}
    if " | st" not in line and not line.startswith("st") and "to=" not in line:
        return events, sel, slots
    parts = [p.strip() for p in line.split(" | ")]
    for p in parts:
        if p.startswith("st"):
            body = p[2:].strip()
            if body:
                for s in body.split(" ; "):
                    d = dict(f.split("=", 1) for f in s.split() if "=" in f)
                    slots[int(d["u"])] = d
        elif p.startswith("to="):
            for f in p.split():
                k, v = f.split("=")
                sel[k] = int(v)
        elif p:
            events.append(tuple(p.split(" ")))
    return events, sel, slots


class Harness:
    def __init__(self, exe, real_z=False):
        env = dict(os.environ); env.update(vlib.SAN_ENV); env["VERIF_LINEBUF"] = "1"
        if real_z:
            env["VERIF_Z"] = "real"
        self.p = subprocess.Popen([exe], stdin=subprocess.PIPE, stdout=subprocess.PIPE, stderr=subprocess.PIPE, env=env)
        self.steps = []
        self.dead = None

    def send(self, op, meta=None):
        if self.dead is not None:
            return None
        import threading, time as _t
        t0 = _t.time()
        killer = threading.Timer(60, self.p.kill)        # an op that does not finish is a finding (C05: bounded time), not a hung check
        killer.start()
        try:
            self.p.stdin.write((op + "\n").encode()); self.p.stdin.flush()
            line = self.p.stdout.readline().decode("latin1").rstrip("\n")
        except (BrokenPipeError, OSError):
            line = ""
        killer.cancel()
        self.slowest = max(getattr(self, "slowest", 0.0), _t.time() - t0)
        if line == "":
            self.p.wait()
            err = self.p.stderr.read().decode("latin1")[-3000:]
            if self.p.returncode in (-9, 137):
                err = "TIMEOUT: the op did not finish within 60 s\n" + err
            self.dead = (op, self.p.returncode, err)
            return None
        st = Step(op, line, meta)
        self.steps.append(st)
        return st

    def close(self):
        if self.dead is None:
            try:
                self.p.stdin.close()
            except OSError:
                pass
            self.p.wait()
            if self.p.returncode != 0:
                self.dead = ("<eof>", self.p.returncode, self.p.stderr.read().decode("latin1")[-3000:])


def addr(ip, port, fam=4):
    return ("4:%08x:%d" % (ip, port)) if fam == 4 else ("6:%032x:%d" % (ip, port))


def flip_case(rng, name):
    return bytes((b ^ 0x20) if (65 <= (b & 0xdf) <= 90 and rng.random() < 0.5) else b for b in name)


def flip_suffix_case(rng, name, n):
    """change letter case only in the last `n` characters (the topdomain part of a tunnel name): the data part stays byte-identical"""
    if n <= 0 or n > len(name):
        return name
    head, tail = name[:-n], bytearray(name[-n:])
    idx = [i for i, c in enumerate(tail) if 65 <= (c & 0xdf) <= 90]
    if not idx:
        return name
    for i in rng.sample(idx, rng.randrange(1, len(idx) + 1)):
        tail[i] ^= 0x20
    return head + bytes(tail)


class Cl:
    """generator-side view of one client"""

    def __init__(self, gen, ip, port, fam=4):
        self.g = gen
        self.ip, self.port, self.fam = ip, port, fam
        self.c = C.Client(gen.td, gen.pw, gen.rng)
        self.versioned = self.authed = False
        self.qtype = gen.rng.choice(QTYPES) if gen.rng.random() < 0.5 else T["NULL"]
        self.lazy = False
        self.tun_ip = None
        self.raw = False
        self.relay_case = gen.rng.choice(["keep", "keep", "keep", "upper", "lower"])     # this client sits behind a relay that folds the case of query names
        self.up = None          # (compressed image, offset) being sent upstream
        self.sent = []          # (op text, meta) of accepted ping/data queries, for re-delivery

    @property
    def src(self):
        return addr(self.ip, self.port, self.fam)


class Gen:
    def __init__(self, rng, exe, check_ip=None, netbits=None, real_z=False, bind=None, hostile=0.0, matrix=False, wild=None, other=1.0, scenario=None):
        self.hostile = hostile
        self.scenario = scenario    # None: a scripted opening is drawn at random; "lazy" / "upper_users": that one, nothing left to chance
        self.matrix = matrix        # open the run with scenario_bytes_matrix (byte-level correspondence: every encoder path)
        self.rng = rng
        self.h = Harness(exe, real_z)
        self.td = rng.choice([b"t.example.com", b"a.bc", b"tun.x-y.org", b"T.Example.COM"])
        self.srvtd = self.td if rng.random() < 0.8 else b"*." + self.td.split(b".", 1)[1]
        if wild is not None:
            self.srvtd = (b"*." + self.td.split(b".", 1)[1]) if wild else self.td
        self.other_boost = other          # > 1: more non-tunnel traffic (NS / A / outside queries)
        self.pw = bytes(rng.randrange(1, 256) for _ in range(rng.choice([0, 1, 6, 31, 32, 33, 40])))
        self.check_ip = rng.random() < 0.7 if check_ip is None else check_ip
        self.netbits = rng.choice([24, 27, 28, 29, 30, 16, 8]) if netbits is None else netbits
        # server addresses incl. ones written with three digits in every octet (15 characters: the longest dotted quad)
        self.myip = rng.choice([0x0a000001, 0x0a000002, 0x0a000005, 0x0a00000e, 0xc0a86481, 0xac64c864, 0xc0a8c8fe])
        self.mtu = 1130
        self.bind = rng.choice([0, 0, 5353]) if bind is None else bind
        self.now = 1000
        self.clients = []
        self.nextid = rng.randrange(1, 65536)
        self.h.send("cfg %d %s %08x %d %s %d %s %d 7f000001 %s" % (
            1 if self.check_ip else 0, vlib.hx(self.pw), self.myip, self.netbits, vlib.hx(self.srvtd), self.mtu,
            rng.choice(["00000000", "00000000", "c0a80001"]), self.bind, "00" * 15 + "01"))
        # the server's clock: usually small, sometimes just below 2^31 (the session crosses 2038-01-19) or beyond it
        epoch = rng.choice([1000] * 7 + [2147483000, 2147483647 - 30, 2200000000])
        if epoch != 1000:
            self.now = epoch
            self.h.send("time %d" % self.now)

    # ---- plumbing
    def dnsid(self, zero_ok=True):
        if zero_ok and self.rng.random() < 0.02:
            return 0
        self.nextid = (self.nextid + 7727) & 0xffff
        return self.nextid or 7727

    def q(self, cl, name, qtype=None, id_=None, src=None, meta=None):
        id_ = self.dnsid() if id_ is None else id_
        if getattr(cl, "relay_case", "keep") != "keep" and getattr(cl.c, "codec", "b32") == "b32" and not (meta or {}).get("case"):
            # (only while the client speaks Base32 upstream: a real client behind such a relay never gets a case-sensitive codec negotiated)
            name = name.upper() if cl.relay_case == "upper" else name.lower()
        m = {"client": cl, "name": name, "id": id_, "qtype": cl.qtype if qtype is None else qtype, "src": src or cl.src}
        if meta:
            m.update(meta)
        st = self.h.send("q %s %d %d %s" % (m["src"], id_, m["qtype"], vlib.hx(name)), m)
        if st:
            self.observe(st)
        return st

    def observe(self, st):
        """let generated clients learn from the server's answers (what a real client reads from the reply)"""
        for e in st.events:
            if e[0] != "ans":
                continue
            data = vlib.unhx(e[6])
            for cl in self.clients:
                if e[1] != cl.src:
                    continue
                if data == b"BADIP" and st.meta.get("kind") in ("P", "D") and st.meta.get("client") is cl:
                    cl.authed = cl.versioned = False       # a real client would start over
                if len(data) >= 2 and data[0] & 0x80 and cl.authed:
                    cl.c.dn_seq, cl.c.dn_frag = data[1] >> 5, (data[1] >> 1) & 15
                    # upstream ack: the server tells which of our fragments it has
                    cl.ack = ((data[0] >> 4) & 7, data[0] & 15)

    def advance(self, dt):
        self.now += dt
        self.h.send("time %d" % self.now)

    # ---- actions
    def act_new_client(self):
        fam = 6 if self.rng.random() < 0.15 else 4
        ip = (0x0a630000 | self.rng.randrange(1, 6)) if fam == 4 else (0xfd00 << 112 | self.rng.randrange(1, 4))
        cl = Cl(self, ip, self.rng.choice([53, 5353, 40000 + len(self.clients)]), fam)
        self.clients.append(cl)
        self.act_version(cl)

    def act_version(self, cl):
        seed = self.rng.choice([0, 1, 0x7fffffff, self.rng.randrange(1 << 31), self.rng.randrange(1 << 31)])
        if self.rng.random() < 0.3:
            # a challenge whose expected response contains a zero byte (string-compare slips show there)
            for _ in range(200):
                cand = self.rng.randrange(1 << 31)
                if 0 in C.login_hash(self.pw, cand)[:8]:
                    seed = cand
                    break
        self.h.send("rand %d" % seed)
        ver = C.PROTOCOL_VERSION if self.rng.random() < 0.93 else self.rng.choice([0, 0x501, 0x503, 0xffffffff])
        st = self.q(cl, cl.c.version(ver), meta={"kind": "V"})
        if not st:
            return
        for e in st.events:
            if e[0] == "ans":
                r = C.parse_version_reply(vlib.unhx(e[6]))
                if r:
                    cl.c.seed, cl.c.userid = r
                    cl.versioned, cl.authed, cl.raw, cl.lazy = True, False, False, False
                    cl.c.codec = "b32"; cl.c.dn_seq = cl.c.dn_frag = 0; cl.c.up_seq = 0; cl.c.up_frag = 0; cl.up = None
                    cl.sent = []

    def act_login(self, cl):
        r = self.rng.random()
        kw = {}
        if r < 0.12:
            kw["password"] = self.pw + b"x"
        elif r < 0.2:
            kw["seed"] = self.rng.choice([(cl.c.seed + self.rng.choice([1, -1, 12345])) & 0xffffffff, cl.c.seed ^ (1 << self.rng.randrange(32))])
        elif r < 0.25:
            kw["userid"] = self.rng.randrange(256)
        name = cl.c.login(**kw)
        if not kw and self.rng.random() < 0.25:
            # the right response up to its first zero byte, garbage behind it; or all zeros
            good = C.login_hash(self.pw, cl.c.seed)
            z = good.find(b"\0")
            forged = (good[:z + 1] + bytes(self.rng.randrange(1, 256) for _ in range(15 - z))) if z >= 0 and self.rng.random() < 0.7 else bytes(16)
            if forged != good:
                name = C.hostname(b"l", bytes([cl.c.userid & 0xff]) + forged + cl.c._rs(), self.td)[0]
                kw = {"forged": True}
        if not kw and self.rng.random() < 0.12:
            # the right response, but the message is cut short / has no or a short CMC tail (17, 18, 19 bytes instead of the usual 19)
            good = C.login_hash(self.pw, cl.c.seed)
            body = bytes([cl.c.userid & 0xff]) + good + cl.c._rs()
            cut = self.rng.choice([15, 16, 17, 18])
            name = C.hostname(b"l", body[:cut], self.td)[0]
            kw = {"short": cut}
        st = self.q(cl, name, meta={"kind": "L", "good": not kw})
        if st:
            for e in st.events:
                if e[0] == "ans":
                    parts = vlib.unhx(e[6]).split(b"-")
                    if len(parts) == 4:
                        cl.authed = True
                        try:
                            cl.tun_ip = struct.unpack(">I", bytes(int(x) for x in parts[1].split(b".")))[0]
                        except Exception:
                            pass

    def act_option(self, cl):
        r = self.rng.random()
        u = None if self.rng.random() < 0.9 else self.rng.randrange(32)
        if r < 0.2:
            bits = self.rng.choice([5, 6, 26, 7, 7, 3])
            st = self.q(cl, cl.c.switch_codec(bits, u), meta={"kind": "S"})
            if st and any(e[0] == "ans" and vlib.unhx(e[6]) in (b"Base32", b"Base64", b"Base64u", b"Base128") for e in st.events) and u is None:
                cl.c.codec = {5: "b32", 6: "b64", 26: "b64u", 7: "b128"}[bits]
        elif r < 0.45:
            letter = self.rng.choice([b"t", b"s", b"u", b"v", b"r", b"l", b"i", b"L", b"x"])
            st = self.q(cl, cl.c.option(letter, u), meta={"kind": "O"})
            if st and u is None and letter in (b"l", b"L", b"i") and any(e[0] == "ans" and vlib.unhx(e[6]) in (b"Lazy", b"Immediate") for e in st.events):
                cl.lazy = letter != b"i"
        elif r < 0.65:
            fs = self.rng.choice([0, 1, 2, 3, 50, 99, 100, 101, 200, 1200, 2046, 2047, 2048, 2049, 4094, 4095, 4096, 5000, 65535, self.rng.randrange(65536)])
            self.q(cl, cl.c.set_fragsize(fs, u), meta={"kind": "N", "fs": fs})
        elif r < 0.75:
            self.h.send("rand %d" % self.rng.randrange(1 << 31))
            self.q(cl, cl.c.fragsize_probe(self.rng.choice([1, 2, 100, 500, 1200, 2047, 2048]), u), meta={"kind": "R"})
        elif r < 0.83:
            self.q(cl, cl.c.ip_request(u), meta={"kind": "I"})
        elif r < 0.92:
            self.q(cl, cl.c.downenc_test(self.rng.choice([b"t", b"s", b"u", b"v", b"r", b"x"]), self.rng.choice([1, 1, 2])), meta={"kind": "Y"})
        else:
            self.q(cl, cl.c.upenc_test(bytes(self.rng.randrange(33, 127) for _ in range(self.rng.randrange(0, 40)))), meta={"kind": "Z"})

    def act_ping(self, cl):
        kw = {}
        if self.rng.random() < 0.1:
            kw = {"dn_seq": self.rng.randrange(8), "dn_frag": self.rng.randrange(16)}
        name = cl.c.ping(**kw)
        st = self.q(cl, name, id_=self.dnsid(), meta={"kind": "P", "ack": (kw.get("dn_seq", cl.c.dn_seq) & 7, kw.get("dn_frag", cl.c.dn_frag) & 15)})
        if st:
            cl.sent.append(st)

    def packet_image(self, cl):
        """a compressed (test scheme) tun frame: to the outside, to another client, or junk"""
        r = self.rng.random()
        n = self.rng.choice([0, 1, 20, 60, 200, 900, 1400])
        pay = bytes(self.rng.randrange(256) for _ in range(n))
        others = [o for o in self.clients if o is not cl and o.tun_ip]
        if r < 0.25 and others:
            frame = C.ip_packet(self.rng.choice(others).tun_ip, pay)
        elif r < 0.9:
            frame = C.ip_packet(0x08080808, pay)
            if self.rng.random() < 0.2:
                frame += bytes(self.rng.randrange(256) for _ in range(self.rng.choice([1, 2, 18, 40])))      # longer than its IPv4 total length says
        elif r < 0.95:
            frame = b"\0\0\x08\0" + pay[:10]
        else:
            return pay      # not a valid compressed image
        return b"\x5a" + frame

    def act_data(self, cl):
        if cl.raw:
            img = self.packet_image(cl)
            self.h.send("dns %s %s" % (cl.src, vlib.hx(cl.c.raw_frame(0x20, img))), {"client": cl, "kind": "rawdata", "image": img})
            return
        if cl.up is None:
            cl.c.up_seq = (cl.c.up_seq + 1) & 7
            cl.c.up_frag = 0
            cl.up = [self.packet_image(cl), 0]
        img, off = cl.up
        r = self.rng.random()
        if r < 0.08:
            cl.c.up_frag = (cl.c.up_frag + self.rng.choice([2, 15])) & 15     # gap / wrap
        maxlen = self.rng.choice([255, 255, 120, 100])
        cl.c.maxlen = maxlen
        name, n = cl.c.data(img[off:] or b"\0", last=None if r > 0.05 else self.rng.randrange(2))
        cl.c.maxlen = 255
        st = self.q(cl, name, meta={"kind": "D", "image": img, "off": off, "n": n, "ack": (cl.c.dn_seq & 7, cl.c.dn_frag & 15)})
        if st:
            cl.sent.append(st)
            if self.rng.random() < (0.5 if cl.lazy else 0.15):
                self.act_redeliver_held()
        if self.rng.random() < 0.9:       # usually the fragment is acked: go on
            off += n
            cl.c.up_frag = (cl.c.up_frag + 1) & 15
            cl.up = None if off >= len(img) else [img, off]
        elif self.rng.random() < 0.3:
            cl.up = None                     # abandon

    def act_redeliver(self, cl):
        if not cl.sent:
            return
        st0 = self.rng.choice(cl.sent[-40:])
        m = st0.meta
        name = m["name"]
        how = self.rng.random()
        id_ = m["id"] if how < 0.3 else self.dnsid(zero_ok=False)
        if self.rng.random() < 0.3:
            name = flip_case(self.rng, name) if self.rng.random() < 0.6 else flip_suffix_case(self.rng, name, len(self.td))
        src = m["src"]
        if self.rng.random() < 0.25:
            src = addr(cl.ip, cl.port + 1, cl.fam)          # another relay port, same host
        elif self.rng.random() < 0.1:
            src = addr(cl.ip ^ 0x100, cl.port, cl.fam)      # another relay host
        qtype = m["qtype"]
        if self.rng.random() < 0.1:
            qtype = self.rng.choice([t for t in QTYPES if t != qtype])      # same name asked with another record type
        self.q(cl, name, qtype=qtype, id_=id_, src=src, meta={"kind": "redeliver", "orig": st0, "case": name != m["name"]})

    def act_redeliver_stale_ack(self, cl):
        """re-deliver an OLD query of `cl` whose ack fields (3-bit sequence number, fragment) happen to name the downstream fragment that is in
        flight right now - a repeat must not acknowledge it.  Returns True if one was found."""
        sl = self.h.steps[-1].slots.get(cl.c.userid) if self.h.steps and self.h.steps[-1].slots else None
        if not sl:
            return False
        o = sl["out"].split("/")          # len/offset/sentlen/seqno/fragment/sum
        if o[0] == "0" or o[2] == "0":
            return False
        want = (int(o[3]) & 7, int(o[4]) & 15)
        cands = [st for st in cl.sent[:-2] if st.meta.get("ack") == want]
        if not cands:
            return False
        st0 = self.rng.choice(cands[-6:])
        m = st0.meta
        self.q(cl, m["name"], qtype=m["qtype"], id_=self.dnsid(zero_ok=False) if self.rng.random() < 0.7 else m["id"], src=m["src"],
               meta={"kind": "redeliver-stale-ack", "orig": st0, "case": False})
        return True

    def act_redeliver_held(self, faithful_soon=False):
        """an impatient relay repeats a query the server is still holding (q or q_sendrealsoon), right now; with `faithful_soon` the repeat
        is of the query in the send-real-soon slot, with the same name, type and source and a new id (nothing left to chance)"""
        if not self.h.steps:
            return
        slots = self.h.steps[-1].slots
        held, heldqs = set(), set()
        for d in slots.values():
            for f in ("q", "qs"):
                i = int(d[f].split("/")[0])
                if i:
                    held.add(i)
                    if f == "qs":
                        heldqs.add(i)
        cands = [(cl, st) for cl in self.clients for st in cl.sent[-6:] if st.meta["id"] in held]
        if not cands:
            return
        # a query that was just moved to the send-real-soon slot is the interesting one: its answer is due within the same 20 ms
        soon = [c for c in cands if c[1].meta["id"] in heldqs]
        if faithful_soon == "flip":
            # the repeat of a parked query arrives with another id and a name that differs in letter case only (a relay doing 0x20 mixing)
            if not cands:
                return
            cl, st0 = cands[-1]
            m = st0.meta
            nm = flip_case(self.rng, m["name"])
            if nm == m["name"]:
                nm = m["name"].swapcase()
            self.q(cl, nm, qtype=m["qtype"], id_=self.dnsid(zero_ok=False), src=m["src"], meta={"kind": "redeliver-held", "orig": st0})
            return
        if faithful_soon:
            if not soon:
                return
            cl, st0 = soon[-1]
            m = st0.meta
            self.q(cl, m["name"], qtype=m["qtype"], id_=self.dnsid(zero_ok=False), src=m["src"], meta={"kind": "redeliver-held", "orig": st0})
            return
        cl, st0 = self.rng.choice(soon) if soon and self.rng.random() < 0.7 else self.rng.choice(cands)
        m = st0.meta
        r = self.rng.random()
        name = m["name"] if r < 0.7 else (flip_case(self.rng, m["name"]) if r < 0.82 else flip_suffix_case(self.rng, m["name"], len(self.td)))
        src = m["src"] if self.rng.random() < 0.6 else addr(cl.ip, cl.port + 1, cl.fam)
        qtype = m["qtype"] if self.rng.random() < 0.85 else self.rng.choice([t for t in QTYPES if t != m["qtype"]])
        self.q(cl, name, qtype=qtype, id_=self.dnsid(zero_ok=False), src=src, meta={"kind": "redeliver-held", "orig": st0})

    def act_tun(self):
        r = self.rng.random()
        targets = [c.tun_ip for c in self.clients if c.tun_ip]
        if r < 0.75 and targets:
            dst = self.rng.choice(targets)
        elif r < 0.9:
            dst = (self.myip & 0xffffff00) | self.rng.randrange(256)
        else:
            dst = self.rng.randrange(1 << 32)
        n = self.rng.choice([0, 10, 80, 99, 100, 101, 300, 1400, 3000, 4100, 4500, 9000])
        if self.rng.random() < 0.25 and self.h.steps and self.h.steps[-1].slots:
            # the compressed image (transparent scheme: frame + 1 byte) is an exact multiple of some slot's fragment size
            fs = int(self.rng.choice(list(self.h.steps[-1].slots.values()))["fs"])
            n = min(9000, max(0, self.rng.choice([1, 2, 3]) * fs - 25 + self.rng.choice([0, 0, 0, -1, 1])))
        frame = C.ip_packet(dst, bytes(self.rng.randrange(256) for _ in range(n)))
        if self.rng.random() < 0.05:
            frame = frame[:self.rng.randrange(0, 24)]
        self.h.send("tun " + vlib.hx(frame), {"kind": "tun", "dst": dst, "frame": frame})

    def act_spoof(self, cl):
        """a request naming cl's userid from a foreign address"""
        foreign = Cl(self, cl.ip ^ self.rng.choice([1, 0x10000, 0x01000000]), cl.port, cl.fam)
        foreign.c = cl.c
        foreign.qtype = cl.qtype
        k = self.rng.random()
        if k < 0.3:
            name = cl.c.ping()
        elif k < 0.5:
            name = cl.c.data(b"\x5a" + C.ip_packet(0x08080808, b"spoof"))[0]
        elif k < 0.6:
            name = cl.c.login()
        elif k < 0.7:
            name = cl.c.set_fragsize(self.rng.choice([2, 50, 1000]))
        elif k < 0.8:
            name = cl.c.switch_codec(self.rng.choice([5, 6, 7]))
        elif k < 0.9:
            name = cl.c.option(self.rng.choice([b"t", b"r", b"l"]))
        else:
            name = cl.c.ip_request()
        self.q(cl, name, src=foreign.src, meta={"kind": "spoof"})

    def act_raw(self, cl):
        r = self.rng.random()
        if r < 0.4:
            kw = {} if self.rng.random() < 0.7 else {"seed": cl.c.seed + self.rng.choice([1, -2, 7])}
            src = cl.src if self.rng.random() < 0.6 else addr(cl.ip ^ 0x200, cl.port, cl.fam)
            st = self.h.send("dns %s %s" % (src, vlib.hx(cl.c.raw_login(**kw))), {"client": cl, "kind": "rawlogin", "good": not kw, "src": src})
            if st and any(e[0] == "raw" for e in st.events):
                cl.raw = True
                if src != cl.src:
                    cl.ip ^= 0x200
                if self.rng.random() < 0.5:
                    # the real client sends its raw login up to four times when the answer is late: the same valid datagram again
                    self.h.send("dns %s %s" % (cl.src, vlib.hx(cl.c.raw_login(**kw))), {"client": cl, "kind": "rawlogin", "good": not kw, "src": cl.src, "repeat": True})
        elif r < 0.6:
            self.h.send("dns %s %s" % (cl.src, vlib.hx(cl.c.raw_frame(0x30))), {"client": cl, "kind": "rawping"})
        elif r < 0.8:
            img = self.packet_image(cl)
            self.h.send("dns %s %s" % (cl.src, vlib.hx(cl.c.raw_frame(0x20, img))), {"client": cl, "kind": "rawdata", "image": img})
        else:
            junk = RAWHDR[:3] + bytes(self.rng.randrange(256) for _ in range(self.rng.choice([0, 1, 2, 16, 17, 100])))
            self.h.send("dns %s %s" % (cl.src, vlib.hx(junk)), {"client": cl, "kind": "rawjunk"})

    def act_other(self):
        """non-tunnel traffic: queries outside the domain, NS, A ns./www., garbage datagrams, forward replies"""
        r = self.rng.random()
        src = addr(0x0a630000 | self.rng.randrange(1, 9), 5353)
        if self.rng.random() < 0.25:
            src = addr((0xfd00 << 112) | self.rng.randrange(1, 9), 5353, 6)        # an asker that reaches us over IPv6
        base = self.srvtd[2:] if self.srvtd.startswith(b"*.") else self.srvtd
        sub = (self.rng.choice([b"x9.", b"q.", b"label-17.", b"tun."]) + base) if self.srvtd.startswith(b"*.") else base
        if r < 0.2:
            self.h.send("q %s %d %d %s" % (src, self.dnsid(), 2, vlib.hx(self.rng.choice([sub, b"abc." + sub]))), {"kind": "ns"})
        elif r < 0.4:
            self.h.send("q %s %d %d %s" % (src, self.dnsid(), 1, vlib.hx(self.rng.choice([b"ns.", b"www.", b"NS.", b"wWw."]) + sub)), {"kind": "a"})
        elif r < 0.5:
            self.h.send("q %s %d %d %s" % (src, self.dnsid(), self.rng.choice([1, 16, 28]), vlib.hx(self.rng.choice([b"www.other.org", b"x." + sub + b".evil.net", b"com"]))), {"kind": "outside"})
        elif r < 0.6:
            # a hand-made query whose name is as long as a name can be, or a little longer: labels of legal size, 250..258 characters in all
            # (253 is the longest legal name: 255 bytes on the wire), under the tunnel domain (any command letter) or outside it
            tail = self.rng.choice([sub, sub, b"other.org"])
            total = self.rng.choice([250, 252, 253, 254, 255, 256, 258])
            first = self.rng.choice([b"z", b"v", b"p", b"0", b"y", b"n", b"ns", b"www", b"q"])
            rest = total - len(tail) - 1
            labs, k = [], 0
            while rest > 0:
                n = min(63, rest) if labs else min(63, rest)
                lab = (first + b"a" * 63)[:n] if not labs else bytes(self.rng.choice(b"abcdefghij0123456789") for _ in range(n))
                labs.append(lab)
                rest -= n + 1
            wire = b"".join(bytes([len(l)]) + l for l in labs + tail.split(b".")) + b"\0"
            msg = struct.pack(">HHHHHH", self.dnsid(zero_ok=False), 0x0100, 1, 0, 0, 0) + wire + struct.pack(">HH", self.rng.choice([10, 16, 5, 1, 2, 15, 33]), 1)
            self.h.send("dns %s %s" % (src, vlib.hx(msg)), {"kind": "longname"})
        elif r < 0.8 and self.bind:
            self.h.send("bind " + vlib.hx(struct.pack(">H", self.rng.choice([self.nextid, self.dnsid(), 0])) + b"\x81\x80" + bytes(self.rng.randrange(256) for _ in range(self.rng.randrange(0, 30)))), {"kind": "bind"})
        else:
            junk = bytes(self.rng.randrange(256) for _ in range(self.rng.choice([0, 1, 11, 12, 13, 17, 40, 200])))
            self.h.send("dns %s %s" % (src, vlib.hx(junk)), {"kind": "junk"})

    def act_hostile(self):
        """datagrams a hostile or broken peer could send to the DNS socket: every kind the property lists"""
        import wiregen
        rng = self.rng
        src = addr(0x0a630000 | rng.randrange(1, 9), rng.choice([53, 5353, 4444])) if rng.random() < 0.8 else addr((0xfd00 << 112) | rng.randrange(1, 4), 4444, 6)
        base = self.srvtd[2:] if self.srvtd.startswith(b"*.") else self.srvtd
        sub = (b"x9." + base) if self.srvtd.startswith(b"*.") else base
        k = rng.random()
        if k < 0.30:
            # every command letter with arbitrary arguments and userids
            letter = bytes([rng.choice(b"vVlLiIzZsSoOyYrRnNpP0123456789abcdefABCDEFgGxX-_\x80\xff")])
            n = rng.choice([0, 1, 2, 3, 4, 5, 6, 15, 16, 17, 30, 60])
            body = bytes(rng.choice(b"abcdefghijklmnopqrstuvwxyz012345ABCXYZ6789-+_\xbc\xfd\x80\xff.") for _ in range(n))
            name = (letter + body).replace(b"..", b".").strip(b".") or b"a"
            msg = P.query(self.dnsid(), name + b"." + sub, rng.choice(QTYPES + [2, 28, 255, 0]), edns=rng.random() < 0.5)
        elif k < 0.55:
            # a valid tunnel query, then a directed malformation (counts, truncation, compression loops, pointers to/after the end, reserved label types)
            cl = rng.choice(self.clients) if self.clients else None
            nm = (cl.c.ping() if cl and rng.random() < 0.5 else (cl.c.data(b"\x5a" + bytes(rng.randrange(256) for _ in range(40)))[0] if cl else b"paaaa." + sub))
            good = P.query(self.dnsid(), nm, rng.choice(QTYPES), edns=rng.random() < 0.5)
            muts = wiregen.mutations(rng, good, 6)
            if rng.random() < 0.06:
                muts = (wiregen.pointer_cycle(rng, good, 8100) if rng.random() < 0.5 else wiregen.pointer_chains(rng, good, (rng.choice([200, 3000, 8100]),))) or muts   # very long chains of backward pointers (stack depth)
            msg = rng.choice(muts) if muts else good
        elif k < 0.70:
            # raw-mode frames of all lengths and commands, for every userid
            msg = RAWHDR[:3] + bytes([rng.randrange(256)]) + bytes(rng.randrange(256) for _ in range(rng.choice([0, 1, 15, 16, 17, 100, 2000, 4093, 4096, 5000, 60000])))
            if rng.random() < 0.3:
                msg = msg[:rng.randrange(0, 5)]
        elif k < 0.80:
            msg = bytes(rng.randrange(256) for _ in range(rng.choice([0, 1, 2, 11, 12, 13, 40, 512, 4096, 65507])))
        elif k < 0.90:
            # names with bytes >= 0x80 everywhere, 63-byte labels, maximum length
            labs = [bytes(rng.choice([0x80, 0xff, 0xbc, 0xfd, 0x2e, 0x00, 0x41, 0x7a]) for _ in range(rng.choice([1, 5, 63]))) for _ in range(rng.randrange(1, 4))]
            msg = P.header(self.dnsid(), 0x0100, 1, 0) + b"".join(bytes([len(l)]) + l for l in labs) + P.wire_name(sub) + struct.pack(">HH", rng.choice(QTYPES), 1)
        else:
            # question names made of compression pointers only
            tgt = rng.choice([12, 13, 14, 0, 11, 0x3fff, 30])
            msg = P.header(self.dnsid(), 0x0100, rng.choice([1, 2, 65535]), rng.choice([0, 1])) + bytes([0xc0 | (tgt >> 8), tgt & 0xff]) * rng.choice([1, 2, 9]) + struct.pack(">HH", 10, 1)
        self.h.send("dns %s %s" % (src, vlib.hx(msg[:65507])), {"kind": "hostile"})

    def act_time(self):
        r = self.rng.random()
        if r < 0.7:
            self.advance(self.rng.choice([1, 1, 2, 5]))
        elif r < 0.9:
            self.advance(self.rng.choice([20, 30, 58, 59]))
            # keep most sessions alive across the long gap, as pinging clients would
            for cl in self.clients:
                if cl.authed and not cl.raw and self.rng.random() < 0.8:
                    self.act_ping(cl)
        else:
            self.advance(self.rng.choice([60, 61, 62, 120]))
            # somebody replays a recorded raw login of a session that has just expired (from its old address or from elsewhere)
            for cl in self.clients:
                if cl.versioned and self.rng.random() < 0.3:
                    src = cl.src if self.rng.random() < 0.5 else addr(cl.ip ^ 0x300, cl.port, cl.fam)
                    self.h.send("dns %s %s" % (src, vlib.hx(cl.c.raw_login())), {"client": cl, "kind": "rawlogin", "good": True, "src": src, "after_expiry": True})
                    if self.rng.random() < 0.5:
                        img = self.packet_image(cl)
                        self.h.send("dns %s %s" % (src, vlib.hx(cl.c.raw_frame(0x20, img))), {"client": cl, "kind": "rawdata", "image": img})

    # ---- a whole run
    def scenario_lazy_repeats(self):
        """a scripted opening: one client logs in, switches to lazy mode, keeps a ping pending and uploads multi-fragment packets while an
        impatient relay repeats whatever the server is holding at that moment (its `q` or the query just moved to the send-real-soon slot)"""
        self.act_new_client()
        cl = self.clients[-1]
        if not cl.versioned:
            return
        cl.qtype = T["NULL"]
        st = self.q(cl, cl.c.login(), meta={"kind": "L", "good": True})
        for e in (st.events if st else []):
            if e[0] == "ans" and vlib.unhx(e[6]).count(b"-") == 3:
                cl.authed = True
                try:
                    cl.tun_ip = struct.unpack(">I", bytes(int(x) for x in vlib.unhx(e[6]).split(b"-")[1].split(b".")))[0]
                except Exception:
                    pass
        if not cl.authed:
            return
        st = self.q(cl, cl.c.option(b"l"), meta={"kind": "O"})
        cl.lazy = True
        self.act_ping(cl)
        self.act_redeliver_held(faithful_soon="flip")
        for npk in range(self.rng.randrange(2, 6)):
            # one packet in 2..5 fragments (short host names make small fragments)
            cl.c.up_seq = (cl.c.up_seq + 1) & 7
            cl.c.up_frag = 0
            if npk == 1 and cl.tun_ip:
                # a packet addressed to the sender's own tunnel address, larger than a downstream fragment: routed straight into the query the
                # server is holding for this very user, in the middle of handling the fragment that completed it
                img = b"\x5a" + C.ip_packet(cl.tun_ip, bytes(self.rng.randrange(256) for _ in range(260)))
            else:
                img = b"\x5a" + C.ip_packet(0x08080808, bytes(self.rng.randrange(256) for _ in range(self.rng.choice([90, 150, 260]))))
            off = 0
            while off < len(img) and not self.h.dead:
                cl.c.maxlen = 110
                name, n = cl.c.data(img[off:])
                cl.c.maxlen = 255
                st = self.q(cl, name, meta={"kind": "D", "image": img, "off": off, "n": n})
                if st:
                    cl.sent.append(st)
                off += n
                cl.c.up_frag = (cl.c.up_frag + 1) & 15
                if off >= len(img) and npk % 2 == 0:
                    # the last fragment has just pushed its predecessor into the send-real-soon slot: the relay repeats that one within the 20 ms
                    self.act_redeliver_held(faithful_soon=True)
                elif self.rng.random() < 0.6:
                    self.act_redeliver_held()
                if self.rng.random() < 0.3:
                    self.h.send("tick", {"kind": "tick"})
            if npk % 2 == 0 or self.rng.random() < 0.5:
                self.act_ping(cl)

    def scenario_upper_users(self):
        """a scripted opening: twelve version handshakes take the user slots 0..11; the clients in slots 10 and 11 (user id `a`/`b` in data
        queries) sit behind a relay that upper-cases every query name, log in and upload data in Base32"""
        while len(self.clients) < 12 and not self.h.dead:
            self.act_new_client()
        for cl in self.clients[10:12]:
            if not cl.versioned or self.h.dead:
                continue
            cl.relay_case = "upper"
            st = self.q(cl, cl.c.login(), meta={"kind": "L", "good": True})
            for e in (st.events if st else []):
                if e[0] == "ans" and vlib.unhx(e[6]).count(b"-") == 3:
                    cl.authed = True
                    try:
                        cl.tun_ip = struct.unpack(">I", bytes(int(x) for x in vlib.unhx(e[6]).split(b"-")[1].split(b".")))[0]
                    except Exception:
                        pass
            if not cl.authed:
                continue
            for _ in range(4):
                self.act_data(cl)
            self.act_ping(cl)

    def scenario_bytes_matrix(self):
        """a scripted opening for the byte-level correspondence (Server/Bytes.lean): every answer type x every downstream codec with
        data-less, short and multi-fragment answers (tx); NS / A ns. / A www. queries from IPv4 and IPv6 askers, apex, mixed case,
        deep sub-domains (nsa); names outside the domain of every length class with forwarding on (fwd); hand-made query datagrams
        (EDNS0, compressed and oversized names) through `dns`"""
        rng = self.rng
        types = list(QTYPES)
        rng.shuffle(types)
        for t in types:
            if self.h.dead or len(self.clients) >= 14:
                break
            self.act_new_client()
            cl = self.clients[-1]
            if not cl.versioned:
                continue
            cl.qtype = t
            st = self.q(cl, cl.c.login(), meta={"kind": "L", "good": True})
            for e in (st.events if st else []):
                if e[0] == "ans" and vlib.unhx(e[6]).count(b"-") == 3:
                    cl.authed = True
                    try:
                        cl.tun_ip = struct.unpack(">I", bytes(int(x) for x in vlib.unhx(e[6]).split(b"-")[1].split(b".")))[0]
                    except Exception:
                        pass
            if not cl.authed:
                continue
            if rng.random() < 0.5:
                self.q(cl, cl.c.option(b"l"), meta={"kind": "O"}); cl.lazy = True
            letters = [b"t", b"s", b"u", b"v", b"r"]
            rng.shuffle(letters)
            for letter in letters:
                self.q(cl, cl.c.option(letter), meta={"kind": "O"})
                self.q(cl, cl.c.downenc_test(letter, 1), meta={"kind": "Y"})
                if cl.tun_ip:
                    n = rng.choice([0, 30, 150, 400, 1100])
                    frame = C.ip_packet(cl.tun_ip, bytes(rng.randrange(256) for _ in range(n)))
                    self.h.send("tun " + vlib.hx(frame), {"kind": "tun", "dst": cl.tun_ip, "frame": frame})
                for _ in range(rng.randrange(2, 7)):
                    self.act_ping(cl)
                    if rng.random() < 0.2:
                        self.h.send("tick", {"kind": "tick"})
                if rng.random() < 0.4:
                    fs = rng.choice([2, 50, 100, 200, 1200])
                    self.q(cl, cl.c.set_fragsize(fs), meta={"kind": "N", "fs": fs})
                if rng.random() < 0.3:
                    self.h.send("rand %d" % rng.randrange(1 << 31))
                    self.q(cl, cl.c.fragsize_probe(rng.choice([2, 100, 500, 1200, 2047])), meta={"kind": "R"})
        base = self.srvtd[2:] if self.srvtd.startswith(b"*.") else self.srvtd
        sub = (b"x9." + base) if self.srvtd.startswith(b"*.") else base
        askers = [addr(0x0a630000 | rng.randrange(1, 9), 5353), addr((0xfd00 << 112) | rng.randrange(1, 4), 4000, 6)]
        for src in askers:
            for name, qt, kind in ([(sub, 2, "ns"), (flip_case(rng, sub), 2, "ns"), (b"abc." + sub, 2, "ns"), (b"a.b-c.d." + sub, 2, "ns"),
                                    (b"x" * 63 + b"." + sub, 2, "ns"), (b"ns." + sub, 2, "ns"),
                                    (b"ns." + sub, 1, "a"), (b"Ns." + flip_case(rng, sub), 1, "a"), (b"www." + sub, 1, "a"), (b"wWW." + sub, 1, "a"),
                                    (b"ns." + sub, 16, "a"), (b"www." + sub, 28, "a"), (b"nsx." + sub, 1, "a"), (sub, 1, "a")]):
                self.h.send("q %s %d %d %s" % (src, self.dnsid(), qt, vlib.hx(name)), {"kind": kind})
            for n in (1, 3, 10, 62, 63, 64, 65, 127, 200, 243, 244, 250, 253, 254, 255, 300):
                name = b"y" * min(63, n)
                while len(name) < n:
                    name += b"." + b"z" * min(63, n - len(name) - 1)
                if rng.random() < 0.2:
                    name = name.replace(b"y" * 63, b"y" * 64, 1)      # a label putname refuses
                self.h.send("q %s %d %d %s" % (src, self.dnsid(), rng.choice([1, 16, 28, 15, 255, 2]), vlib.hx(name.rstrip(b"."))), {"kind": "outside"})
            # hand-made datagrams: EDNS0, a question name that ends in a compression pointer into itself, two questions
            for nm, qt in ((b"ns." + sub, 1), (sub, 2), (b"paaaa." + sub, 10), (b"www.other.org", 1)):
                msg = P.query(self.dnsid(), nm, qt, edns=True)
                self.h.send("dns %s %s" % (src, vlib.hx(msg)), {"kind": "hostile"})
            w = P.wire_name(sub)
            msg = P.header(self.dnsid(), 0x0100, 1, 0) + b"\x03abc" + bytes([0xc0, 12 + 4 + 2 + 4]) + struct.pack(">HH", 2, 1) + w
            self.h.send("dns %s %s" % (src, vlib.hx(msg)), {"kind": "hostile"})

    def _login(self, cl):
        st = self.q(cl, cl.c.login(), meta={"kind": "L", "good": True})
        for e in (st.events if st else []):
            if e[0] == "ans" and vlib.unhx(e[6]).count(b"-") == 3:
                cl.authed = True
                try:
                    cl.tun_ip = struct.unpack(">I", bytes(int(x) for x in vlib.unhx(e[6]).split(b"-")[1].split(b".")))[0]
                except Exception:
                    pass
        return cl.authed

    def scenario_downstream_wrap(self):
        """a scripted opening: one client receives MANY downstream packets of 1..3 fragments and acks each fragment properly, so that the 3-bit
        downstream sequence number wraps while old queries (which carry old acks) are still remembered; old queries are re-delivered at the
        moments a fragment is in flight"""
        self.act_new_client()
        cl = self.clients[-1]
        if not cl.versioned:
            return
        cl.qtype = T["NULL"]
        if not self._login(cl) or not cl.tun_ip:
            return
        if self.rng.random() < 0.6:
            self.q(cl, cl.c.option(b"l"), meta={"kind": "O"}); cl.lazy = True
        self.act_ping(cl)
        fs = 100
        for k in range(self.rng.randrange(10, 22)):
            if self.h.dead:
                return
            n = self.rng.choice([20, 60, fs - 25, fs + 30, 2 * fs - 25, 2 * fs + 40])
            frame = C.ip_packet(cl.tun_ip, bytes(self.rng.randrange(256) for _ in range(max(0, n))))
            self.h.send("tun " + vlib.hx(frame), {"kind": "tun", "dst": cl.tun_ip, "frame": frame})
            for _ in range(4):
                # the client acks what it has seen (observe() tracks dn_seq/dn_frag from the answers) with a ping or an upstream fragment
                if self.rng.random() < 0.7:
                    self.act_ping(cl)
                else:
                    self.act_data(cl)
                if self.rng.random() < 0.6 and self.act_redeliver_stale_ack(cl):
                    pass
                elif self.rng.random() < 0.2 and len(cl.sent) > 6:
                    # an old query (old ack fields) turns up again while the next fragment may be in flight
                    st0 = self.rng.choice(cl.sent[-14:-3])
                    m = st0.meta
                    self.q(cl, m["name"], qtype=m["qtype"], id_=self.dnsid(zero_ok=False) if self.rng.random() < 0.7 else m["id"], src=m["src"],
                           meta={"kind": "redeliver", "orig": st0, "case": False})
                sl = self.h.steps[-1].slots.get(cl.c.userid) if self.h.steps and self.h.steps[-1].slots else None
                if sl and sl["out"].split("/")[0] == "0":
                    break

    def run(self, nsteps, hostile=0.0):
        rng = self.rng
        if self.matrix:
            self.scenario_bytes_matrix()
        r0 = rng.random()
        if self.scenario == "lazy":
            r0 = 0.0
        elif self.scenario == "upper_users":
            r0 = 1.0
            self.scenario_upper_users()
        if r0 < 0.4:
            self.scenario_lazy_repeats()
        elif r0 < 0.6:
            self.scenario_downstream_wrap()
        for _ in range(nsteps):
            if self.h.dead:
                break
            if hostile and self.clients and rng.random() < hostile:
                self.act_hostile()
                continue
            r = rng.random()
            live = [c for c in self.clients if c.versioned]
            authed = [c for c in live if c.authed]
            if not self.clients or r < 0.04:
                if len(self.clients) < 20:
                    self.act_new_client()
                else:
                    self.act_version(rng.choice(self.clients))
            elif r < 0.10 and live:
                self.act_login(rng.choice(live))
            elif r < 0.13:
                self.act_version(rng.choice(self.clients))
            elif r < 0.22 and live:
                self.act_option(rng.choice(live))
            elif r < 0.40 and authed:
                self.act_ping(rng.choice(authed))
            elif r < 0.58 and authed:
                self.act_data(rng.choice(authed))
            elif r < 0.66 and authed:
                self.act_redeliver(rng.choice(authed))
            elif r < 0.68 and authed:
                self.act_redeliver_held()
            elif r < 0.70 and authed:
                self.act_redeliver_stale_ack(rng.choice(authed))
            elif r < 0.79:
                self.act_tun()
            elif r < 0.83 and live:
                self.act_spoof(rng.choice(live))
            elif r < 0.87 and live:
                self.act_raw(rng.choice(live))
            elif r < 0.90 or (self.other_boost > 1 and rng.random() < 0.3):
                self.act_other()
            elif r < 0.95:
                self.h.send("tick", {"kind": "tick"})
            else:
                self.act_time()
        self.h.close()
        return self.h


def model_ops(steps, level="bytes"):
    """derive the op lines the Lean model is fed (docs/SRV_PROTOCOL.md, "model ops").
    level="bytes" (default): the harness ops unchanged — the driver decodes `dns`/`q` datagrams itself (Server/Bytes.lean) and answers
    with the harness's full line (dq, tx, nsa/fwd bytes).  level="session": the older decoded-query ops (`qd`/`rawf`/`tick` derived
    from the C side's `dq` event), answered without tx/dq and with `nsa`/`fwd` bytes replaced by `-`."""
    if level == "bytes":
        return [st.op for st in steps]
    out = []
    for st in steps:
        t = st.op.split()
        if t[0] in ("q", "dns"):
            if t[0] == "dns":
                raw = vlib.unhx(t[2])
                if len(raw) >= 4 and raw[:3] == RAWHDR[:3]:
                    out.append("rawf %s %s" % (t[1], t[2])); continue
            dq = next((e for e in st.events if e[0] == "dq"), None)
            if dq is None or int(dq[1]) <= 0:
                out.append("tick")        # read_dns drops it, but the iteration (sweep, top of loop) still runs
            else:
                out.append("qd %s %s %s %s" % (t[1], dq[2], dq[3], dq[4]))
        else:
            out.append(st.op)
    return out


def project(line, for_model=True, level="bytes"):
    """what of an answer line is compared with the model.  level="bytes": everything (every emitted datagram byte for byte);
    level="session": drop the events the session-level model does not produce (tx, dq) and the bytes of nsa/fwd"""
    if level == "bytes":
        # `badfam <kind> <dst> <hex>` (the harness's emulation of the kernel refusing a destination of the other address family on a socket) is
        # compared as the send that was attempted: the model has no sockets
        return " | ".join((p.strip()[7:] if p.strip().startswith("badfam ") else p.strip()) for p in line.split(" | "))
    parts = [p.strip() for p in line.split(" | ")]
    keep = []
    for p in parts:
        k = p.split(" ", 1)[0]
        if k in ("tx", "dq"):
            continue
        if k in ("nsa", "fwd"):
            f = p.split(" ")
            p = " ".join(f[:2] + ["-"])
        keep.append(p)
    return " | ".join(keep)
