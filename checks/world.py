"""The S3 "world": the REAL client (harness/h_cli) and the REAL server (harness/h_srv) as two processes, a scripted network/relay
between them and virtual time.  Used by C01 (integrity), C02 (progress/recovery), C11 (negotiation through relays), C05/C06 (hostile
peers).  Everything random comes from one `random.Random`; the whole run is recorded as a list of (side, op) and replays exactly.

Time is kept in milliseconds; the harness clocks are whole seconds (`time`/`ctime` ops are sent whenever the second changes).
The client parks in select() with a timeout; the world fires its `tick` when that deadline passes.  The server's select timeout
(20 ms while a query waits "real soon", 10 s otherwise) is honoured the same way."""
import os, struct, subprocess
import vlib
import iodproto as P
import iodclient as C
import srvgen

CLIENT_ADDR = "4:0a000a02:40000"      # where the server sees the client: = Iodine.World.clientAddr of lean/IodineModel/World.lean
SERVER_DEST4 = "0a000a01"             # the local address the server receives queries on: = Iodine.World.serverAddr


class CliProc:
    def __init__(self, exe, real_z=False):
        env = dict(os.environ); env.update(vlib.SAN_ENV); env["VERIF_LINEBUF"] = "1"
        if real_z:
            env["VERIF_Z"] = "real"
        self.p = subprocess.Popen([exe], stdin=subprocess.PIPE, stdout=subprocess.PIPE, stderr=subprocess.PIPE, env=env)
        self.ops, self.lines, self.dead = [], [], None

    def send(self, op):
        if self.dead:
            return None
        self.ops.append(op)
        try:
            self.p.stdin.write((op + "\n").encode()); self.p.stdin.flush()
            line = self.p.stdout.readline().decode("latin1").rstrip("\n")
        except (BrokenPipeError, OSError):
            line = ""
        if line == "":
            self.p.wait()
            self.dead = (op, self.p.returncode, self.p.stderr.read().decode("latin1")[-3000:])
            return None
        self.lines.append(line)
        return line

    def close(self):
        if not self.dead:
            try:
                self.p.stdin.close()
            except OSError:
                pass
            self.p.wait()


def parse_cli(line):
    """-> (events [(kind, fields…)], sel dict | None (idle), state dict)"""
    events, sel, st = [], None, {}
    for p in [x.strip() for x in line.split(" | ")]:
        if p.startswith("st "):
            st = dict(f.split("=", 1) for f in p[3:].split() if "=" in f)
        elif p.startswith("sel "):
            sel = dict(f.split("=") for f in p[4:].split())
            sel = {k: int(v) for k, v in sel.items()}
        elif p == "idle":
            sel = None
        elif p:
            events.append(tuple(p.split(" ")))
    return events, sel, st


class NullCli:
    """stands in while no client program is running"""
    dead = None
    ops, lines = [], []

    def send(self, op):
        return "ok"

    def close(self):
        pass


class Relay:
    """A DNS path that applies a FIXED transformation (property C11).  Identity by default."""

    def __init__(self, case="keep", hi="clean", punct="keep", types=None, limit=None, edns=True, rewrite_id=False, rng=None):
        self.case, self.hi, self.punct, self.types, self.limit, self.edns, self.rewrite_id, self.rng = case, hi, punct, types, limit, edns, rewrite_id, rng
        self.idmap = {}
        self.nextid = 1

    def describe(self):
        return "case=%s 8bit=%s punct=%s types=%s limit=%s edns=%s idrewrite=%s" % (self.case, self.hi, self.punct, self.types, self.limit, self.edns, self.rewrite_id)

    def _name(self, n):
        if self.hi == "strip":
            n = bytes(c & 0x7f for c in n)
        if self.case == "lower":
            n = n.lower()
        elif self.case == "upper":
            n = n.upper()
        elif self.case == "random":
            n = bytes((c ^ 0x20) if (65 <= (c & 0xdf) <= 90 and self.rng.random() < 0.5) else c for c in n)
        if self.punct == "plus":
            n = n.replace(b"+", b" ")
        elif self.punct == "underscore":
            n = n.replace(b"_", b"-")
        return n

    def query(self, msg):
        """client -> server.  Returns the datagram the server sees, or ('reply', bytes) when the relay answers itself, or None (dropped)."""
        try:
            p = P.parse(msg)
        except P.Malformed:
            return msg
        if not p["qd"]:
            return msg
        name, qtype = p["qd"][0][0], p["qd"][0][1]
        if self.hi == "reject" and any(c >= 0x80 for c in name):
            return ("reply", P.header(p["id"], 0x8182, 1, 0) + P.question(name, qtype))       # SERVFAIL
        if self.types is not None and qtype not in self.types:
            return ("reply", P.header(p["id"], 0x8184, 1, 0) + P.question(name, qtype))       # NOTIMP
        newname = self._name(name)
        rid = p["id"]
        if self.rewrite_id:
            rid = self.nextid; self.nextid = (self.nextid % 65535) + 1
        self.idmap[rid] = (p["id"], name, bool(p["ar"]))
        return P.query(rid, newname, qtype, edns=bool(p["ar"]) and self.edns)

    def answer(self, msg):
        """server -> client.  Returns the datagram the client sees or None (dropped)."""
        try:
            p = P.parse(msg)
        except P.Malformed:
            return msg
        orig = self.idmap.get(p["id"])
        if orig is None:
            return msg if not self.rewrite_id else None
        oid, oname, had_edns = orig
        limit = self.limit
        if limit is None or (had_edns and self.edns):
            eff = None if limit is None else max(limit, 512)
        else:
            eff = 512 if limit is not None or not self.edns else None
        if not (had_edns and self.edns) and (self.limit is not None or not self.edns):
            eff = 512
        qtype = p["qd"][0][1] if p["qd"] else 0
        if self.hi == "reject":
            # the "reject" variant applies to names / text in answers as well
            for (n, t, c, ttl, v, raw) in p["an"]:
                txt = v if t in (P.T_CNAME, P.T_TXT) else (v[1] if t == P.T_MX else (v[3] if t == P.T_SRV else b""))
                if any(ch >= 0x80 for ch in txt):
                    return P.header(oid, 0x8182, 1, 0) + P.question(oname, qtype)
        rds = []
        for (n, t, c, ttl, v, raw) in p["an"]:
            if t == P.T_CNAME:
                rds.append((t, P.wire_name(self._name(v))))
            elif t == P.T_MX:
                rds.append((t, struct.pack(">H", v[0]) + P.wire_name(self._name(v[1]))))
            elif t == P.T_SRV:
                rds.append((t, struct.pack(">HHH", *v[:3]) + P.wire_name(self._name(v[3]))))
            elif t == P.T_TXT:
                rds.append((t, P.txt_rdata(self._name(v), 255) if False else P.txt_rdata(self._name(v))))
            else:
                rds.append((t, raw))
        out = P.header(oid, p["flags"], 1, len(rds)) + P.question(oname, qtype)
        for t, rd in rds:
            out += P.rr(b"\xc0\x0c", t, rd)
        if eff is not None and len(out) > eff:
            return None
        return out


class World:
    def __init__(self, rng, srv_exe, cli_exe, relay=None, real_z=False, qtype=10, downenc="-", lazy=1, maxlen=255, pw=b"secret",
                 td=b"t.example.com", check_ip=1, seltimeout=4, netbits=27, raw_mode=0, autofrag=1, fragsize=1200, force_codec=None,
                 model_clock=False):
        self.rng = rng
        # model_clock: the clock discipline and the bookkeeping that make the run a schedule of `Iodine.World.Ev` (lean/IodineModel/World.lean),
        # see `step_model_clock` below; every scheduler / network decision is logged as ("N", …)
        self.model_clock = model_clock
        self.vsec = 1000              # (model_clock) the second both harness clocks show
        self.s_to_next = 10000000     # (model_clock) timeout of the select the server is parked in
        self.n_up = self.n_down = 0   # serial numbers of the datagrams handed to the network, per direction
        self._nq = 0
        self.cli_exe, self.real_z = cli_exe, real_z
        self.relay = relay or Relay(rng=rng)
        self.s = srvgen.Harness(srv_exe, real_z)
        self.c = CliProc(cli_exe, real_z)
        self.log = []                 # ("S"|"C", op)
        self.ms = 1000 * 1000         # world clock in ms
        self.up, self.down = [], []   # in flight: (deliver_at_ms, bytes)
        self.tunw_c, self.tunw_s = [], []      # frames written to the tun devices: (ms, frame)
        self.offered_c, self.offered_s = [], []
        self.accepted_c, self.accepted_s = [], []
        self.td, self.pw = td, pw
        self.c_sel = None             # what the client's parked select asked for
        self.c_deadline = None
        self.s_deadline = None
        self.c_state = {}
        self.c_ret = None
        self.stats = {"up": 0, "down": 0, "dropped": 0, "dup": 0, "cticks": 0, "sticks": 0}
        self.sop("cfg %d %s 0a000001 %d %s 1130 00000000 0 %s %s" % (check_ip, vlib.hx(pw), netbits, vlib.hx(td), SERVER_DEST4, "00" * 15 + "01"))
        self.sop("rand %d %d %d %d" % tuple(rng.randrange(1 << 31) for _ in range(4)))
        self.cop("ccfg %s %s %d %d %s %d %d 0 1 0" % (vlib.hx(td), vlib.hx(pw), maxlen, qtype, downenc, lazy, seltimeout))
        self.cop("crand " + " ".join(str(rng.randrange(1 << 31)) for _ in range(64)))
        self.hs_args = (raw_mode, autofrag, fragsize)

    def new_client(self, relay=None, qtype=10, downenc="-", lazy=1, maxlen=255, seltimeout=4, raw_mode=0, autofrag=1, fragsize=1200):
        """the client program is stopped and started again (same server process, same address): a fresh client process, possibly on another path"""
        self.c.close()
        self.c = CliProc(self.cli_exe, self.real_z)
        if relay is not None:
            self.relay = relay
        self.c_sel = self.c_deadline = None
        self.c_state, self.c_ret = {}, None
        self.up, self.down = [], []
        self.pending_c = []
        self.cop("ccfg %s %s %d %d %s %d %d 0 1 0" % (vlib.hx(self.td), vlib.hx(self.pw), maxlen, qtype, downenc, lazy, seltimeout))
        self.cop("crand " + " ".join(str(self.rng.randrange(1 << 31)) for _ in range(64)))
        self.cop("ctime %d" % (self.ms // 1000))
        self.hs_args = (raw_mode, autofrag, fragsize)

    # ---- plumbing
    def sop(self, op):
        self.log.append(("S", op))
        st = self.s.send(op)
        if st is None:
            return None
        if st.line.startswith("ok"):
            return st
        self.s_deadline = None
        if st.sel:
            self.s_deadline = self.ms + max(1, st.sel.get("to", 10000000) // 1000)
            if self.model_clock:
                # `to=` in the line is the timeout of the select that just RETURNED; the one the server is parked in now is 20 ms iff a live
                # session has a query to be answered "real soon" (top of tunnel()'s loop)
                soon = any(d.get("qs", "0/").split("/")[0] != "0" and int(d.get("lp", "0")) + 60 > self.vsec for d in st.slots.values())
                self.s_to_next = 20000 if soon else 10000000
                self.s_deadline = self.ms + self.s_to_next // 1000
        for e in st.events:
            if e[0] == "tx" or e[0] == "raw":
                self.route_down(e[1], vlib.unhx(e[2]))
            elif e[0] == "tunw":
                self.tunw_s.append((self.ms, vlib.unhx(e[1])))
        return st

    def cop(self, op):
        self.log.append(("C", op))
        line = self.c.send(op)
        if line is None:
            return None
        if line == "ok":
            return []
        events, sel, st = parse_cli(line)
        self.c_sel, self.c_state = sel, st or self.c_state
        sync = False
        if self.model_clock and st.get("now", "").isdigit() and int(st["now"]) > self.vsec:
            # the client's clock moved inside the op (a select that timed out consumed its whole seconds; sleep()): that time has passed for
            # the server as well (`World.stepC`)
            self.vsec = int(st["now"]); self.ms = max(self.ms, self.vsec * 1000); sync = True
        self.c_deadline = None if sel is None else self.ms + max(1, sel["to"] // 1000)
        if sync:
            self.sop("time %d" % self.vsec)
        for e in events:
            if e[0] in ("tx", "rawtx"):
                self.route_up(vlib.unhx(e[1]))
            elif e[0] == "tunw":
                self.tunw_c.append((self.ms, vlib.unhx(e[1])))
            elif e[0] in ("ret", "exit", "errx"):
                self.c_ret = (e[0], int(e[1]))
        return events

    # ---- the network (override `net_up/net_down` for fault schedules: return list of delays in ms, [] = drop, two entries = duplicate)
    def net_up(self, msg):
        return [1]

    def net_down(self, msg):
        return [1]

    def tamper(self, answer):
        """what actually reaches the client in place of `answer` (hostile server / broken relay / spoofer): default unchanged"""
        return [answer]

    def _entry(self, at, msg, serial):
        """queue entry (deliver_at, tie-break, bytes, serial); model_clock: datagrams due at the same ms are delivered in the order sent"""
        self._nq += 1
        return (at, self._nq if self.model_clock else 0, msg, serial)

    def nlog(self, what):
        if self.model_clock:
            self.log.append(("N", what))

    def route_up(self, msg):
        self.last_queries = (getattr(self, "last_queries", []) + [msg])[-8:]
        ds = self.net_up(msg)
        self.nlog("up %d %d" % (self.n_up, len(ds)))          # serial, copies (0 = lost, 2 = duplicated)
        for d in ds:
            self.up.append(self._entry(self.ms + d, msg, self.n_up))
        self.n_up += 1
        self.stats["up"] += 1

    def route_down(self, dst, msg):
        if dst != CLIENT_ADDR and not dst.startswith(CLIENT_ADDR.rsplit(":", 1)[0]):
            return
        ds = self.net_down(msg)
        self.nlog("down %d %d" % (self.n_down, len(ds)))
        for d in ds:
            self.down.append(self._entry(self.ms + d, msg, self.n_down))
        self.n_down += 1
        self.stats["down"] += 1

    def set_time(self):
        sec = self.ms // 1000
        if getattr(self, "_sec", None) != sec:
            self._sec = sec
            self.sop("time %d" % sec)
            self.cop("ctime %d" % sec)

    # ---- scheduler: process the earliest pending thing
    def step(self, limit_ms=None):
        """advance to the next event; returns False when nothing is pending (or the limit is reached)"""
        cands = []
        if self.up:
            cands.append((min(self.up)[0], "up"))
        if self.down:
            cands.append((min(self.down)[0], "down"))
        if self.c_deadline is not None:
            cands.append((self.c_deadline, "ctick"))
        if self.s_deadline is not None:
            cands.append((self.s_deadline, "stick"))
        if not cands:
            return False
        t, what = min(cands)
        if self.model_clock:
            # a tick pulls the millisecond clock forward (step_model_clock): everything that is overdue then is due NOW; datagrams first
            # (upstream before downstream), then the selects — the order `World.promptEv` takes
            prio = {"up": 0, "down": 1, "stick": 2, "ctick": 3}
            t, what = min(cands, key=lambda c: (max(c[0], self.ms), prio[c[1]]))
        if limit_ms is not None and t > limit_ms:
            self.ms = limit_ms
            return False
        self.ms = max(self.ms, t)
        if self.model_clock:
            self.step_model_clock(what)
        else:
            self.set_time()
        if what == "up":
            item = min(self.up); self.up.remove(item)
            q = self.relay.query(item[2]) if item[2][:3] != C.RAW_HEADER[:3] else item[2]
            if q is None:
                self.stats["dropped"] += 1
                self.nlog("relaydrop up %d" % item[3])
            elif isinstance(q, tuple):
                self.nlog("unmappable the relay answered query %d itself" % item[3])
                self.down.append(self._entry(self.ms + 1, q[1], -1))
            else:
                self.nlog("deliverUp %d" % item[3])
                self.sop("dns %s %s" % (CLIENT_ADDR, vlib.hx(q)))
        elif what == "down":
            item = min(self.down); self.down.remove(item)
            a = self.relay.answer(item[2]) if item[2][:3] != C.RAW_HEADER[:3] else item[2]
            if a is None:
                self.stats["dropped"] += 1
                self.nlog("relaydrop down %d" % item[3])
            else:
                bs = self.tamper(a)
                if bs != [a]:
                    self.nlog("unmappable answer %d was tampered with" % item[3])
                for b in bs:
                    if self.c_sel is not None and self.c_sel.get("dns") and not self.c.dead:
                        self.nlog("deliverDown %d" % item[3])
                        self.cop("ans " + vlib.hx(b))
                    else:
                        self.nlog("lostDown %d" % item[3])       # nobody is reading the client's socket
        elif what == "ctick":
            self.stats["cticks"] += 1
            self.nlog("tickC")
            self.cop("tick")
        else:
            self.stats["sticks"] += 1
            self.nlog("tickS")
            if self.model_clock and self.s_to_next >= 1000000:
                # h_srv's clock only moves by `time`: the select that times out consumed its whole seconds (`World.step .tickS`)
                self.vsec += self.s_to_next // 1000000; self.ms = max(self.ms, self.vsec * 1000)
                self.sop("time %d" % self.vsec)
                self.sop("tick")
                self.cop("ctime %d" % self.vsec)
            else:
                self.sop("tick")
        return True

    # ---- model_clock: the run as a schedule of `Iodine.World.Ev`
    # Both harness clocks show `vsec`; seconds pass only (a) inside a select that times out — the whole seconds of ITS timeout, on both sides
    # (`tickC`: h_cli advances its own clock, the server is told; `tickS`: both are told) — and (b) by an explicit `advance d` before an event
    # (logged ("N", "advance d"); `time`/`ctime` to both).  The world's millisecond clock only orders the events; it is pulled forward when a
    # tick makes `vsec` overtake it, so `vsec == ms // 1000` at every event.  (World.lean has no other notion of time: a select that is
    # interrupted restarts with its full timeout.)
    def mc_advance(self, d):
        if d > 0:
            self.vsec += d
            self.nlog("advance %d" % d)
            self.sop("time %d" % self.vsec)
            self.cop("ctime %d" % self.vsec)

    def step_model_clock(self, what):
        tau = 0
        if what == "ctick" and self.c_sel is not None:
            tau = max(0, self.c_sel["to"]) // 1000000
        elif what == "stick":
            tau = self.s_to_next // 1000000
        self.mc_advance(self.ms // 1000 - self.vsec - tau)

    def run_until(self, pred, max_ms, max_steps=20000):
        end = self.ms + max_ms
        n = 0
        while not pred() and n < max_steps and not self.s.dead and not self.c.dead:
            if not self.step(end):
                break
            n += 1
        return pred()

    # ---- phases
    def handshake(self, max_ms=120000):
        self.cop("start handshake %d %d %d" % self.hs_args)
        self.run_until(lambda: self.c_ret is not None, max_ms)
        r = self.c_ret
        self.c_ret = None
        return r

    def start_tunnel(self):
        self.cop("start tunnel")

    def offer_to_client(self, frame):
        """a packet appears on the client's tun device; it is read when the client's select has tun in its set"""
        self.offered_c.append((self.ms, frame))
        self.pending_c = getattr(self, "pending_c", []) + [frame]

    def offer_to_server(self, frame):
        self.offered_s.append((self.ms, frame))
        self.pending_s = getattr(self, "pending_s", []) + [frame]

    def pump_tun(self):
        """hand pending tun frames to whichever side currently has its tun fd selected; record which frames the side ACCEPTED (a client
        that is still sending reads and discards the frame; a server with a full queue drops it — both by design)"""
        did = False
        if self.model_clock and (getattr(self, "pending_c", []) or getattr(self, "pending_s", [])):
            self.mc_advance(self.ms // 1000 - self.vsec)
        pc = getattr(self, "pending_c", [])
        if pc and self.c_sel is not None and self.c_sel.get("tun"):
            sending = self.c_state.get("out", "0/").split("/")[0] != "0"
            f = pc.pop(0)
            self.cop("tun " + vlib.hx(f)); did = True
            if not sending:
                self.accepted_c.append((self.ms, f))
        ps = getattr(self, "pending_s", [])
        if ps and self.s.steps and self.ms >= getattr(self, "_s_tun_retry", 0):
            slots = self.s.steps[-1].slots
            d = slots.get(0)
            f = ps[0]
            room = d is not None and d.get("au") == "1" and (d["out"].split("/")[0] == "0" or int(d["oq"].split("/")[1]) < 4 or d.get("conn") == "0")
            st = self.sop("tun " + vlib.hx(f))
            if st is not None and any(e[0] == "tunskip" for e in st.events):
                # the server's select did not include the tun device (every session has a packet queued): the frame stays in the device's queue
                self._s_tun_retry = self.ms + 50
            else:
                ps.pop(0); did = True
                if room:
                    self.accepted_s.append((self.ms, f))
        return did

    def settle(self, max_ms=30000):
        """run until both tun backlogs are empty and nothing but periodic pings happens for a while"""
        end = self.ms + max_ms
        quiet_since = self.ms
        seen = (len(self.tunw_c), len(self.tunw_s))
        while self.ms < end and not self.s.dead and not self.c.dead:
            self.pump_tun()
            if not self.step(end):
                break
            now_seen = (len(self.tunw_c), len(self.tunw_s))
            busy = getattr(self, "pending_c", []) or getattr(self, "pending_s", []) or self.c_state.get("out", "0/").split("/")[0] != "0"
            sl = next((x.slots for x in reversed(self.s.steps[-5:]) if x.slots), {})
            if any(d["out"].split("/")[0] != "0" or int(d["oq"].split("/")[1]) > 0 for d in sl.values()):
                busy = True        # the server still has downstream data for the client (it goes out with the client's next query)
            if now_seen != seen or busy:
                seen, quiet_since = now_seen, self.ms
            elif self.ms - quiet_since > 3000:
                break

    def close(self):
        self.s.close(); self.c.close()

    def dead(self):
        return self.s.dead or self.c.dead

    def replay_lines(self):
        return ["%s %s" % (side, op) for side, op in self.log]
