"""C14 — see DESIGN.md §4 C14.  Theorems: Props/C14.lean over the server session model (Server/*.lean);
correspondence: the real tunnel() loop (h_srv) vs the model on generated sessions; oracle: checks/srvmon.py monitor C14."""
import srvcheck

LEVEL = "proof"


def run(chk):
    srvcheck.run(chk, "C14")


def replay(chk, path):
    return srvcheck.replay(chk, path, "C14")
