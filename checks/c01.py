"""C01 — the tunnel never delivers a packet that was not sent (end-to-end integrity).  PARTIAL (see DESIGN.md).

The REAL client and the REAL server (h_cli + h_srv, real zlib) are joined by a scripted network that drops, duplicates, delays/reorders
datagrams and rewrites ids / letter case; packets of 1 byte .. beyond the 16-fragment limit are offered on both tun devices in every
configuration family.  Oracle (the property): every frame either side writes to its tun device is byte-identical to a frame that was offered on
the peer's tun device.  Theorems: Props/C01.lean (hop losslessness, reassembly exactness on gap-free fragment sequences for both reassemblers)."""
import random
import vlib
import worldcheck as W

LEVEL = "proof"


def run(chk):
    rng, thorough = chk.rng, chk.tier == "thorough"
    proof_ok = chk.proofs()
    jobs = []
    n = 160 if thorough else 48
    for k in range(n):
        cfg = W.random_config(rng, {"raw_mode": 1} if k % 8 == 7 else None)
        relay = {"case": rng.choice(["keep", "keep", "random", "lower"]), "rewrite_id": rng.random() < 0.5}
        fault = {"drop": rng.choice([0.0, 0.1, 0.3]), "dup": rng.choice([0.0, 0.2, 0.4]), "delay": rng.choice([0, 50, 800, 3000]), "ms": rng.choice([8000, 20000, 40000])}
        jobs.append((chk.seed * 1000 + k, cfg, relay, fault, 10 if thorough else 6, True, "integrity"))
    # second batch: the same kind of world with the TRANSPARENT test compression (0x5a ++ bytes): a buffer that was reassembled wrongly is then
    # not refused by inflate but written to the tun device, so mis-reassembly is directly visible (with the real zlib it needs crafted packet
    # contents to pass); these runs are also the ones the Lean client and server models are diffed on.  Relays that change letter case get an
    # autodetected / Base32 downstream codec (a FORCED case-sensitive codec through such a relay is C11's recorded finding, not C01's business).
    nz = 160 if thorough else 48
    for k in range(nz):
        cfg = W.random_config(rng, {"raw_mode": 1} if k % 8 == 7 else None)
        relay = {"case": rng.choice(["keep", "keep", "random", "lower"]), "rewrite_id": rng.random() < 0.5}
        if relay["case"] != "keep" and cfg["downenc"] not in ("-", "T"):
            cfg["downenc"] = "-"
        fault = {"drop": rng.choice([0.0, 0.1, 0.3]), "dup": rng.choice([0.0, 0.2, 0.4, 0.7]), "delay": rng.choice([0, 50, 800, 3000]), "ms": rng.choice([8000, 20000, 40000])}
        jobs.append((chk.seed * 1000 + 500 + k, cfg, relay, fault, 10 if thorough else 8, False, "integrity"))
    # one directed world: the sequence-number wrap over an abandoned partial packet with crafted contents (recorded finding c01:seqno-wrap-chimera)
    jobs.append((chk.seed * 1000 + 900, W.random_config(rng, {"raw_mode": 0, "lazy": 0, "qtype": 10, "downenc": "-", "maxlen": 255, "autofrag": 1}), {}, None, 0, True, "chimera"))
    res = W.run_worlds(jobs)
    bad, frames, delivered, hs_ok = 0, 0, 0, 0
    for r in res:
        frames += len(r["sent_c"]) + len(r["sent_s"])
        delivered += len(r["tunw_s"]) + len(r["tunw_c"])
        hs_ok += 1 if r["handshake"] == ("ret", 0) else 0
        if r["dead"]:
            chk.violation("%s harness aborted (rc=%s) in a world run (%s; relay %s) on: %s\n%s" % (r["dead"][0], r["dead"][2], r["cfg"], r["relay"], r["dead"][1], r["dead"][3]),
                          r["log"], key="c01:abort:" + r["dead"][0])
            bad += 1
            continue
        v = W.integrity_violations(r)
        if v:
            chimera = r["scenario"] == "chimera" and r.get("blackout_ms", 0) < 60000
            chk.violation("C01 fails on the implementation: %s (configuration %s, negotiated %s, relay %s, faults %s%s)" % (v[0], r["cfg"], r["negotiated"], r["relay"], r["fault"],
                          "; scenario: upstream blackout of %d ms right after fragment 0 of a packet, 7 more packets given up, crafted next packet: %s" % (r.get("blackout_ms", 0), r.get("chimera")) if r["scenario"] == "chimera" else ""),
                          r["log"], key="c01:seqno-wrap-chimera" if chimera else "c01:fabricated")
            bad += 1
    chk.cov["evaluations"] = sum(len(r["log"]) for r in res)
    chk.cov["distinct_nontrivial"] = delivered
    chk.cov["traces_validated_against_impl"] = len(res)
    chk.cov["partial"] = True
    chk.cov["rule"] = ("%d world runs (real client + real server; 3 of 5 with the real zlib, 2 of 5 with the transparent test compression, on which both Lean session models are diffed): random configuration (7 query types x downstream codec forced or autodetected x autodetected upstream codec x "
                       "hostname limit 100..255 x lazy/immediate x probed or fixed fragment size, raw UDP mode every 8th run), relay with id rewriting and per-character random case, "
                       "fault period of 8-40 s with drop up to 30%%, duplication up to 40%%, delay up to 3 s (reordering), then a clean suffix; packets of 0..9000 payload bytes offered "
                       "on both tun devices; non-trivial = frame written to a tun device (each compared with the set of frames offered on the peer)" % len(res))
    chk.notes.update({"handshakes_ok": hs_ok, "frames_offered": frames, "frames_delivered": delivered,
                      "unproved": "the composition over arbitrary fault schedules (delivered_is_sent_modulo_Z) relies on zlib rejecting mixed buffers; exercised here with the real zlib, not proved"})
    for r in res[:2]:
        chk.sample({"cfg": r["cfg"], "negotiated": r["negotiated"], "relay": r["relay"], "fault": r["fault"], "offered": len(r["sent_c"]) + len(r["sent_s"]), "delivered": len(r["tunw_s"]) + len(r["tunw_c"])})
    # both session models against the code, on the transparent-compression runs (the real-zlib runs are skipped by the two functions)
    zres = [r for r in res if not r.get("real_z")]
    W.report_client_model(chk, zres, "C01")
    # several clients at once (both address families, user-to-user packets, slot re-use): generated sessions through the real loop and the
    # byte-level server model - the world runs above have one client
    import srvcheck
    srvcheck.model_only(chk, "C01", runs=24 if chk.tier == "thorough" else 8, nsteps=400, seed_mul=141650939)
    W.report_server_model(chk, zres, "C01")
    W.report_rseq(chk, "C01")
    if not chk.violations and not proof_ok:
        chk.violation("proof obligation no longer checks: " + chk.proof_detail,
                      ["# theorems of Props/C01.lean: " + ", ".join(vlib.prop_theorems("C01")), "# " + chk.proof_detail.replace("\n", "\n# ")], no_input=True)


def replay(chk, path):
    d = W.replay_world(path)
    chk.cov.update({"evaluations": 1, "distinct_nontrivial": 0})
    return 1 if (d[0] or d[1]) else 0
