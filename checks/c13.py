"""C13 — peer-supplied text never reaches a shell; only validated numbers do.

The REAL handshake_login() of client.c and tun_setip()/tun_setmtu() of tun.c run in harness/h_cli with system() captured.
Login replies with hostile text in each of the four fields are delivered under every (query type, downstream codec)
combination.  Oracle (the property): every captured command is `<fixed prefix>ifconfig <dev> <quad> <quad> netmask <quad>` or
`<fixed prefix>ifconfig <dev> mtu <201..1500>` where quad = four decimal fields 0..255; the device name is local.
Theorems: Props/C13.lean over Client/Shell.lean (scanf / address-syntax / command-building model), compared with the harness
through `shell <hexreply>` ops."""
import os, re, subprocess
import vlib
import iodclient as C
import iodproto as P

LEVEL = "proof"
QUAD = r"(?:25[0-5]|2[0-4]\d|1\d\d|[1-9]?\d)(?:\.(?:25[0-5]|2[0-4]\d|1\d\d|[1-9]?\d)){3}"
PREFIX = r"PATH=/sbin:/bin ifconfig [A-Za-z0-9]*"
RE_IP = re.compile(r"^%s (%s) (%s) netmask (%s)$" % (PREFIX, QUAD, QUAD, QUAD))
RE_MTU = re.compile(r"^%s mtu ([0-9]+)$" % PREFIX)

COMBOS = [(P.T_NULL, "T"), (P.T_PRIVATE, "T"), (P.T_TXT, "T"), (P.T_TXT, "S"), (P.T_TXT, "V"), (P.T_TXT, "R"),
          (P.T_CNAME, "T"), (P.T_CNAME, "S"), (P.T_CNAME, "V"), (P.T_A, "T"), (P.T_MX, "T"), (P.T_MX, "V"), (P.T_SRV, "T"), (P.T_SRV, "S")]
# (TXT/CNAME/MX with 'U' are left to C09: the client decodes that combination with the wrong alphabet)

HOSTILE = [b" ;reboot", b";id", b"|sh", b"$(id)", b"`id`", b"\nid\n", b" && id", b"'", b'"', b" #", b"\t-x", b"%s%n", b" \\", b">/tmp/x", b"\x00id",
           b"\xff\xfe", b" 1", b"a", b".", b"..", b"-"]
ADDRS = [b"10.0.0.2", b"0.0.0.0", b"255.255.255.255", b"192.168.100.200", b"192.168.100.2000", b"192.168.100.200.1", b"1.2.3", b"1.2", b"1", b"0x0a.0.0.2", b"012.0.0.2", b"10.0.0.256", b"10.0.0.2.5", b"10.0.0.", b".10.0.0.2",
         b"10.0.0.2 ", b" 10.0.0.2", b"10.0.0.2\t", b"10.0.0.2\n", b"10.0.0.02", b"+10.0.0.2", b"10.0.0.2x", b"", b"1" * 64, b"1." * 40, b"99999999999", b"4294967295"]
MTUS = [b"1130", b"200", b"201", b"1500", b"1501", b"0", b"-1", b"+1200", b" 1200", b"1200 ", b"1200;id", b"0x400", b"99999999999", b"2147483648", b"-2147483649", b"", b"1e3", b"12 00"]
MASKS = [b"27", b"0", b"1", b"8", b"30", b"31", b"32", b"33", b"-1", b"-27", b"64", b"99", b"2147483647", b"-2147483648", b"99999999999", b"27;id", b" 27", b"27 ", b"", b"0x1b", b"+27"]


def replies(rng, thorough):
    out = []
    good = [b"10.0.0.1", b"10.0.0.2", b"1130", b"27"]
    fields = [ADDRS, ADDRS, MTUS, MASKS]
    out.append(b"-".join(good))
    for i in range(4):
        for v in fields[i]:
            f = list(good); f[i] = v
            out.append(b"-".join(f))
        for h in HOSTILE:
            for where in (0, 1):
                f = list(good); f[i] = (f[i] + h) if where == 0 else (h + f[i])
                out.append(b"-".join(f))
            if i < 2:
                # shortest and longest well-formed quads in front of the hostile text (validation of a bounded copy, prefix matching)
                for base in (b"1.2.3.4", b"192.168.100.200", b"255.255.255.255"):
                    f = list(good); f[i] = base + h
                    out.append(b"-".join(f))
    # structure games: missing / extra fields, other separators, very long
    out += [b"", b"-", b"---", b"10.0.0.1", b"10.0.0.1-10.0.0.2", b"10.0.0.1-10.0.0.2-1130", b"10.0.0.1-10.0.0.2-1130-27-99", b"10.0.0.1-10.0.0.2-1130-27;id",
            b"LNAK", b"LNAKx", b"BADIP", b"BADIPx", b"lnak", b"10.0.0.1_10.0.0.2_1130_27", b"A" * 64 + b"-" + b"B" * 64 + b"-1130-27", b"A" * 65 + b"-10.0.0.2-1130-27",
            b"10.0.0.1-" + b"9" * 70 + b"-1130-27", b"10.0.0.1-10.0.0.2-1130-27" + b"\x00;id", b"10.0.0.1-10.0.0.2-1130-27\n;id"]
    n = 400 if thorough else 80
    for _ in range(n):
        f = [rng.choice(ADDRS + [rng.choice(ADDRS) + rng.choice(HOSTILE)]), rng.choice(ADDRS + [rng.choice(ADDRS) + rng.choice(HOSTILE)]),
             rng.choice(MTUS + [rng.choice(MTUS) + rng.choice(HOSTILE)]), rng.choice(MASKS + [rng.choice(MASKS) + rng.choice(HOSTILE)])]
        out.append(b"-".join(f))
    for _ in range(n // 4):
        out.append(bytes(rng.randrange(256) for _ in range(rng.randrange(1, 120))))
    seen, uniq = set(), []
    for r in out:
        if r not in seen and len(r) <= 600:
            seen.add(r); uniq.append(r)
    return uniq


def command_ok(cmd):
    try:
        s = cmd.decode("ascii")
    except UnicodeDecodeError:
        return False
    if RE_IP.match(s):
        return True
    m = RE_MTU.match(s)
    return bool(m) and 200 < int(m.group(1)) <= 1500 and (m.group(1) == "0" or not m.group(1).startswith("0"))


class Cli:
    def __init__(self, exe):
        env = dict(os.environ); env.update(vlib.SAN_ENV); env["VERIF_LINEBUF"] = "1"
        self.p = subprocess.Popen([exe], stdin=subprocess.PIPE, stdout=subprocess.PIPE, stderr=subprocess.PIPE, env=env)
        self.ops = []
        self.dead = None

    def send(self, op):
        self.ops.append(op)
        try:
            self.p.stdin.write((op + "\n").encode()); self.p.stdin.flush()
            line = self.p.stdout.readline().decode("latin1").rstrip("\n")
        except (BrokenPipeError, OSError):
            line = ""
        if line == "":
            self.p.wait()
            self.dead = (op, self.p.returncode, self.p.stderr.read().decode("latin1")[-3000:])
        return line

    def close(self):
        try:
            self.p.stdin.close()
        except OSError:
            pass
        self.p.wait()


def login_once(exe, reply, qtype, dn, first=None):
    """one client process: configure, start handshake_login, answer with `reply` (optionally a first reply before it).
    returns (ops, [commands], dead, events of the last line)"""
    c = Cli(exe)
    c.send("ccfg %s %s 255 %d %s 0 5 3 1 0" % (vlib.hx(b"t.example.com"), vlib.hx(b"pw"), qtype, dn))
    line = c.send("start login 305419896")
    cmds = []
    for rep in ([first] if first is not None else []) + [reply]:
        if c.dead:
            break
        tx = [e for e in line.split(" | ") if e.startswith("tx ")]
        if not tx:
            break
        q = vlib.unhx(tx[-1].split()[1])
        line = c.send("ans " + vlib.hx(C.server_answer(q, rep, dn)))
        cmds += [vlib.unhx(e.split()[1]) for e in line.split(" | ") if e.startswith("sys ")]
    c.close()
    return c.ops, cmds, c.dead, line


def run(chk):
    proof_ok = chk.proofs()
    exe = vlib.build_cli()
    thorough = chk.tier == "thorough"
    reps = replies(chk.rng, thorough)
    jobs = []
    for i, r in enumerate(reps):
        combos = COMBOS if (thorough or i < 40) else [COMBOS[i % len(COMBOS)], COMBOS[(i * 7 + 3) % len(COMBOS)]]
        for qt, dn in combos:
            jobs.append((r, qt, dn))
    from concurrent.futures import ThreadPoolExecutor
    with ThreadPoolExecutor(16) as ex:
        res = list(ex.map(lambda j: login_once(exe, *j), jobs))
    bad, ncmd, accepted = 0, 0, 0
    shell_ops, shell_expect = [], []
    for (r, qt, dn), (ops, cmds, dead, line) in zip(jobs, res):
        if dead:
            kind = dead[2].split("runtime error:")[-1].split("\n")[0].strip()[:70] if "runtime error" in dead[2] else "asan"
            chk.violation("client aborted (sanitizer or crash, rc=%s) while handling login reply %r (type %d, downenc %s):\n%s" % (dead[1], r[:80], qt, dn, dead[2][-1200:]),
                          ops, key="c13:abort:" + kind)
            bad += 1
            continue
        ncmd += len(cmds)
        accepted += 1 if cmds else 0
        for cmd in cmds:
            if not command_ok(cmd):
                chk.violation("C13 fails on the implementation: login reply %r (type %d, downenc %s) made the client run the shell command %r" % (r[:80], qt, dn, cmd[:200]),
                              ops, key="c13:cmd")
                bad += 1
        if (qt, dn) == COMBOS[0]:
            shell_ops.append("shell " + vlib.hx(r))
            shell_expect.append("cmds=%d %s" % (len(cmds), " ".join(vlib.hx(c) for c in cmds) if cmds else "-"))
    # stale-buffer variant (also C12): a long rejected reply followed by a short one must behave like the short one alone
    stale = 0
    for first, second in [(b"X" * 50 + b"-10.9.9.9-1400-27", b"10.0.0.1"), (b"junk-" + b"10.0.0.7-1300-24;id", b"10.0.0.1-"), (b"Z" * 200, b"10.0.0.1-10.0.0.2-1130")]:
        o1, c1, d1, _ = login_once(exe, second, P.T_NULL, "T", first=first)
        o2, c2, d2, _ = login_once(exe, second, P.T_NULL, "T", first=b"x")
        stale += 1
        if not d1 and not d2 and c1 != c2:
            chk.violation("C13/C12 fails on the implementation: after the rejected reply %r the short reply %r is completed from stale buffer bytes: commands %r (alone: %r)"
                          % (first[:40], second, c1, c2), o1, key="c13:stale-reply")
            bad += 1
    chk.cov["evaluations"] = len(jobs) + 2 * stale
    chk.cov["distinct_nontrivial"] = accepted
    chk.cov["traces_validated_against_impl"] = len(jobs)
    chk.cov["rule"] = ("%d distinct login replies (each of the four fields replaced by address-syntax, integer-range and shell-metacharacter variants; structural "
                       "variants; random fields; random bytes) x (query type, downstream codec) combinations through the real handshake_login + tun_setip/tun_setmtu with "
                       "system() captured; non-trivial = reply that made the client run at least one command" % len(reps))
    chk.notes["commands_captured"] = ncmd
    for j in (0, len(jobs) // 2):
        chk.sample({"reply": repr(jobs[j][0][:60]), "type": jobs[j][1], "downenc": jobs[j][2], "commands": [repr(c) for c in res[j][1]]})
    # correspondence with the Lean model of the scanf / validation / command building
    drv = chk.driver()
    diffs = None
    if drv:
        m = vlib.run_lines(drv, shell_ops)
        diffs = [i for i in range(len(shell_ops)) if (m.lines[i] if i < len(m.lines) else "<no-answer>") != shell_expect[i]]
    chk.notes["correspondence_diffs"] = None if diffs is None else len(diffs)
    if bad == 0:
        if diffs is None:
            chk.violation("model driver does not build", ["# lake build iodmodel failed"], no_input=True)
        elif diffs:
            i = diffs[0]
            chk.violation("correspondence broken (Client.Shell vs handshake_login/tun_setip): %d replies differ; no bad command found.\nfirst: %s\n impl: %s\n model: %s"
                          % (len(diffs), shell_ops[i][:200], shell_expect[i][:300], m.lines[i][:300] if i < len(m.lines) else None),
                          ["# correspondence Client.Shell vs handshake_login no longer checks"] + [shell_ops[j] for j in diffs[:5]], no_input=True)
        elif not proof_ok:
            chk.violation("proof obligation no longer checks: " + chk.proof_detail,
                          ["# theorems of Props/C13.lean: " + ", ".join(vlib.prop_theorems("C13")), "# " + chk.proof_detail.replace("\n", "\n# ")], no_input=True)


def replay(chk, path):
    exe = vlib.build_cli()
    ops = [l.strip() for l in open(path) if l.strip() and not l.startswith("#")]
    r = vlib.run_lines(exe, ops)
    bad = 1 if r.rc else 0
    for o, l in zip(ops, r.lines):
        print(o[:100], "->", l[:300])
        for e in l.split(" | "):
            if e.startswith("sys "):
                cmd = vlib.unhx(e.split()[1])
                print("   command:", cmd, "" if command_ok(cmd) else "  <-- VIOLATES C13")
                bad += 0 if command_ok(cmd) else 1
    if r.rc:
        print(r.stderr[-1500:])
    chk.cov.update({"evaluations": len(ops), "distinct_nontrivial": 0})
    return 1 if bad else 0
