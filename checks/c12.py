"""C12 — a datagram is interpreted from its own bytes only (no stale-buffer over-read).

The datagram is placed at the start of a 64 KiB receive buffer exactly as in client and server; the rest of the
buffer is filled with different residues (zeros, 0xff, something that parses as labels, a compression
pointer).  Oracle (the property itself): the interpretation must be identical for all residues.  The Lean model
(Wire/*) reads the same buffer through checked indices and Props/C12.lean proves independence of the residue."""
import vlib
from vlib import hx
import wiregen

LEVEL = "proof"


def build_ops(chk):
    rng, thorough = chk.rng, chk.tier == "thorough"
    pkts = []   # (dir, bytes)
    nq, na, budget = (300, 300, 40) if thorough else (60, 60, 12)
    for m in wiregen.valid_queries(rng, nq):
        pkts.append(("q", m))
        pkts += [("q", x) for x in wiregen.mutations(rng, m, budget)]
    for m in wiregen.valid_answers(rng, na):
        pkts.append(("a", m))
        pkts += [("a", x) for x in wiregen.mutations(rng, m, budget)]
        pkts += [("a", x) for x in wiregen.rdlength_games(rng, m)]
    seen, uniq = set(), []
    for d, m in pkts:
        if (d, m) not in seen and len(m) <= 65000:
            seen.add((d, m)); uniq.append((d, m))
    return uniq


def run(chk):
    proof_ok = chk.proofs()
    exe = vlib.build_harness("h_pure", ["h_pure.c"], vlib.PURE_OBJS)
    pkts = build_ops(chk)
    ops = []
    for d, m in pkts:
        buflen = 4096 if d == "a" and len(m) % 3 else 65536
        for r in wiregen.RESIDUES:
            ops.append("dnsdec %s %d %s %s" % (d, buflen if d == "a" else 0, r, hx(m)))
        # readname directly at offset 12 as well
        if len(m) >= 13:
            for r in wiregen.RESIDUES[:3]:
                ops.append("readname 256 12 %s %s" % (r, hx(m)))
    c, m_, diffs = vlib.differential(chk, exe, ops)
    bad = 0
    if c.rc != 0:
        i = c.abort_index or 0
        chk.violation("C harness aborted (sanitizer or crash), rc=%d on op: %s\n%s" % (c.rc, ops[i][:200], c.stderr[-1500:]), [ops[i]], key="c12:abort")
        bad += 1
    # group answers by (op without residue)
    groups = {}
    for op, line in zip(ops, c.lines):
        t = op.split()
        key = (t[0], t[1], t[2], t[-1])
        groups.setdefault(key, []).append((op, line))
    nontriv = 0
    for key, lst in groups.items():
        answers = {l for _, l in lst}
        if len(answers) > 1:
            bad += 1
            a, b = lst[0], next(x for x in lst if x[1] != lst[0][1])
            what = ("interpretation of a %d-byte datagram depends on stale receive-buffer bytes:\n residue %s -> %s\n residue %s -> %s"
                    % (len(key[-1]) // 2, a[0].split()[-2][:16], a[1][:160], b[0].split()[-2][:16], b[1][:160]))
            kind = "readname" if key[0] == "readname" else ("query" if key[1] == "q" else "answer")
            chk.violation("C12 fails on the implementation: " + what, [a[0], b[0]], key="c12:stale-" + kind)
        elif "rv=0 " not in lst[0][1] and "rv=-1" not in lst[0][1]:
            nontriv += 1
    chk.cov["evaluations"] = len(ops)
    chk.cov["distinct_nontrivial"] = nontriv
    chk.cov["traces_validated_against_impl"] = len(ops)
    chk.cov["rule"] = ("datagrams = valid queries/answers of every record type built by an independent DNS library + directed malformations "
                       "(every truncation near the end, pointers to/after the end, reserved and overrunning label lengths, RDLENGTH around the bytes "
                       "present, count fields, late byte flips); each decoded with %d different buffer residues by dns_decode (both directions) and "
                       "readname; non-trivial = distinct datagram that decodes to something (rv>0) identically under all residues" % len(wiregen.RESIDUES))
    chk.notes["datagrams"] = len(pkts)
    for i in (0, len(ops) // 2, len(ops) - 1):
        chk.sample({"op": ops[i][:200], "impl": c.lines[i][:200] if i < len(c.lines) else None})
    chk.notes["correspondence_diffs"] = None if diffs is None else len(diffs)
    if (not proof_ok or diffs is None or diffs) and bad == 0:
        if diffs:
            i = diffs[0]
            chk.violation("correspondence broken (Wire.dnsDecode/readname vs dns.c/read.c): %d ops differ; no residue-dependence found.\nfirst: %s\n impl: %s\n model: %s"
                          % (len(diffs), ops[i][:200], c.lines[i][:200], m_.lines[i][:200]),
                          ["# correspondence Wire.* vs dns.c/read.c no longer checks"] + [ops[j] for j in diffs[:5]], no_input=True)
        else:
            chk.violation("proof obligation no longer checks: " + chk.proof_detail,
                          ["# theorems of Props/C12.lean: " + ", ".join(vlib.prop_theorems("C12")), "# " + chk.proof_detail.replace("\n", "\n# ")], no_input=True)


def replay(chk, path):
    return vlib.pure_replay(chk, path)
