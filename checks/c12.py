"""C12 — a datagram is interpreted from its own bytes only (no stale-buffer over-read).

The datagram is placed at the start of a 64 KiB receive buffer exactly as in client and server; the rest of the
buffer is filled with different residues (zeros, 0xff, something that parses as labels, a compression
pointer).  Oracle (the property itself): the interpretation must be identical for all residues.  The Lean model
(Wire/*) reads the same buffer through checked indices and Props/C12.lean proves independence of the residue."""
import vlib
from vlib import hx
import wiregen

LEVEL = "proof"


def build_ops(chk):
    rng, thorough = chk.rng, chk.tier == "thorough"
    pkts = []   # (dir, bytes)
    nq, na, budget = (300, 300, 40) if thorough else (60, 60, 12)
    for m in wiregen.valid_queries(rng, nq):
        pkts.append(("q", m))
        pkts += [("q", x) for x in wiregen.mutations(rng, m, budget)]
    for m in wiregen.valid_answers(rng, na):
        pkts.append(("a", m))
        pkts += [("a", x) for x in wiregen.mutations(rng, m, budget)]
        pkts += [("a", x) for x in wiregen.rdlength_games(rng, m)]
    seen, uniq = set(), []
    for d, m in pkts:
        if (d, m) not in seen and len(m) <= 65000:
            seen.add((d, m)); uniq.append((d, m))
    return uniq


def server_residue_part(chk):
    """The real server loop (h_srv) receives into one 64 KiB stack buffer.  Sessions are replayed twice; before selected
    datagrams a FILLER datagram is delivered that the server drops (DNS header with QR=1) but that leaves either 0xA5 bytes (run A)
    or the tail of earlier genuine traffic (run B) in the buffer.  Every answer line must be identical in both runs: short and
    truncated datagrams must not be completed from the buffer."""
    import random
    import srvgen, iodproto as P, iodclient as C
    rng, thorough = chk.rng, chk.tier == "thorough"
    exe = vlib.build_srv()
    bad, nops = 0, 0
    for k in range(30 if thorough else 12):
        g = srvgen.Gen(random.Random(chk.seed * 7919 + k), exe)
        h = g.run(250)
        if h.dead:
            continue        # sanitizer aborts are reported by C05
        base = [st.op for st in h.steps]
        def dgram(op):
            t = op.split()
            if t[0] == "q":
                return (t[1], P.query(int(t[2]), vlib.unhx(t[4]), int(t[3]), edns=False))
            if t[0] == "dns" and len(vlib.unhx(t[2])) >= 4:
                return (t[1], vlib.unhx(t[2]))
            return None
        opsA, opsB, marks, seen = [], [], [], []
        for op in base:
            opsA.append(op); opsB.append(op)
            d = dgram(op)
            if d is None:
                continue
            seen.append(d)
            israw = d[1][:3] == C.RAW_HEADER[:3]
            plans = []
            if israw:
                # always: the same frame cut right after the magic / after the command byte, its own tail still in the buffer
                plans += [(d, d, 3), (d, d, 4)]
            if rng.random() < 0.3:
                src2, victim = d if rng.random() < 0.75 else rng.choice(seen)
                g = (src2, victim) if rng.random() < 0.7 else rng.choice(seen)
                cut = rng.choice([1, 2, 3, 4, 5, 11, 12, 13, 14, 17, max(1, len(g[1]) - 5), max(1, len(g[1]) - 1)])
                plans.append(((src2, victim), g, cut))
            for (src2, victim), (src, g0), cut in plans:
                hdr = bytes([0, 0, 0x80])
                tailB = victim[3:] + bytes(rng.randrange(256) for _ in range(rng.choice([0, 0, 40])))
                fa = hdr + b"\xa5" * len(tailB)
                fb = hdr + tailB
                short = g0[:cut]
                who = src if rng.random() < 0.7 else "4:0a63000%d:%d" % (rng.randrange(1, 9), 4000)
                opsA += ["dns %s %s" % (who, vlib.hx(fa)), "dns %s %s" % (who, vlib.hx(short))]
                opsB += ["dns %s %s" % (who, vlib.hx(fb)), "dns %s %s" % (who, vlib.hx(short))]
                marks.append(len(opsA) - 1)
        ra = vlib.run_lines(exe, opsA)
        rb = vlib.run_lines(exe, opsB)
        nops += len(opsA) + len(opsB)
        if ra.rc or rb.rc:
            # an abort in one of the two runs: find the datagram it died on; if only the genuine-residue run dies that IS residue dependence
            r_, o_ = (rb, opsB) if rb.rc else (ra, opsA)
            i = min(len(r_.lines), len(o_) - 1)
            chk.violation("C12/C05 fails on the implementation: the server aborted (rc=%d, sanitizer or crash) on a %s-byte datagram following a filler datagram; with the other residue it %s\n%s"
                          % (r_.rc, len(vlib.unhx(o_[i].split()[2])) if o_[i].startswith("dns ") else "?", "also aborted" if (ra.rc and rb.rc) else "did not abort", r_.stderr[-1200:]),
                          o_[:i + 1], key="c12:abort")
            bad += 1
            continue
        for i in marks:
            if i < len(ra.lines) and i < len(rb.lines) and ra.lines[i] != rb.lines[i]:
                chk.violation("C12 fails on the implementation: the server's reaction to a %d-byte datagram depends on what an earlier datagram left in the receive buffer:\n 0xA5 residue -> %s\n genuine-traffic residue -> %s"
                              % (len(vlib.unhx(opsA[i].split()[2])), ra.lines[i].split(" | to=")[0][:300], rb.lines[i].split(" | to=")[0][:300]),
                              ["# run B (residue = tail of earlier genuine traffic); in run A the filler before the last datagram is " + opsA[i - 1]] + opsB[:i + 1], key="c12:stale-server")
                bad += 1
                break
    chk.notes["server_residue_ops"] = nops
    return bad, nops


def client_residue_part(chk):
    """The real client (h_cli: client_handshake + client_tunnel) receives into one 64 KiB stack buffer too.  The client side of recorded world
    runs (DNS and raw mode) is replayed twice; after selected answers a FILLER datagram the client drops (DNS header with QR=0 / no raw magic) is
    delivered that leaves either 0xA5 bytes (run A) or the tail of that genuine answer (run B) in the buffer, followed by the answer CUT short.
    Every line must be identical in both runs: a truncated answer or raw frame must not be completed from the buffer."""
    import random
    import worldcheck as W, world, iodclient as C
    rng, thorough = chk.rng, chk.tier == "thorough"
    jobs = []
    for k in range(12 if thorough else 6):
        cfg = W.random_config(rng, {"raw_mode": 1 if k % 2 == 0 else 0})
        jobs.append((chk.seed * 7000 + k, cfg, {}, None, 6, False, "clean"))
    res = W.run_worlds(jobs)
    exe = vlib.build_cli()
    bad, nops = 0, 0
    for r in res:
        base = r.get("cops") or []
        if r["dead"] or not base:
            continue
        opsA, opsB, marks = [], [], []
        for op in base:
            opsA.append(op); opsB.append(op)
            t = op.split()
            if t[0] != "ans" or len(t) < 2:
                continue
            d = vlib.unhx(t[1])
            if len(d) < 8 or rng.random() > 0.5:
                continue
            israw = d[:3] == C.RAW_HEADER[:3]
            cuts = [len(d) - 1, len(d) - 2, len(d) - 4, 4, 5] if israw else [len(d) - 1, len(d) - 3, 12, 13, 17, max(13, len(d) // 2)]
            cut = rng.choice([c for c in cuts if 0 < c < len(d)])
            hdr = bytes([0xff, 0xff, 0x00])          # not the raw magic; as DNS: QR=0, a query - dropped by the client
            fa = hdr + b"\xa5" * (len(d) - 3)
            fb = hdr + d[3:]
            opsA += ["ans " + vlib.hx(fa), "ans " + vlib.hx(d[:cut])]
            opsB += ["ans " + vlib.hx(fb), "ans " + vlib.hx(d[:cut])]
            marks.append(len(opsA) - 1)
        ra = vlib.run_lines(exe, opsA)
        rb = vlib.run_lines(exe, opsB)
        nops += len(opsA) + len(opsB)
        if ra.rc or rb.rc:
            r_, o_ = (rb, opsB) if rb.rc else (ra, opsA)
            i = min(len(r_.lines), len(o_) - 1)
            chk.violation("C12/C06 fails on the implementation: the client aborted (rc=%d, sanitizer or crash) on a cut answer following a filler datagram; with the other residue it %s\n%s"
                          % (r_.rc, "also aborted" if (ra.rc and rb.rc) else "did not abort", r_.stderr[-1200:]), o_[:i + 1], key="c12:client-abort")
            bad += 1
            continue
        for i in marks:
            if i < len(ra.lines) and i < len(rb.lines) and ra.lines[i] != rb.lines[i]:
                chk.violation("C12 fails on the implementation: the client's reaction to a %d-byte datagram (a cut copy of a genuine %s) depends on what the earlier datagram left in the receive buffer:\n 0xA5 residue -> %s\n genuine residue -> %s"
                              % (len(vlib.unhx(opsA[i].split()[1])), "raw frame" if r["cfg"]["raw_mode"] else "answer", ra.lines[i].split(" | st ")[0][:300], rb.lines[i].split(" | st ")[0][:300]),
                              ["# client ops, run B (residue = tail of the genuine datagram); in run A the filler before the last datagram is " + opsA[i - 1][:80]] + opsB[:i + 1], key="c12:stale-client")
                bad += 1
                break
    chk.notes["client_residue_ops"] = nops
    return bad, nops


def run(chk):
    proof_ok = chk.proofs()
    sbad, sn = server_residue_part(chk)
    cbad, cn = client_residue_part(chk)
    sbad, sn = sbad + cbad, sn + cn
    exe = vlib.build_harness("h_pure", ["h_pure.c"], vlib.PURE_OBJS)
    pkts = build_ops(chk)
    ops = []
    for d, m in pkts:
        buflen = 4096 if d == "a" and len(m) % 3 else 65536
        for r in wiregen.RESIDUES:
            ops.append("dnsdec %s %d %s %s" % (d, buflen if d == "a" else 0, r, hx(m)))
        # small caller buffers (get_external_ip passes the 4 bytes of a struct in_addr)
        if d == "a" and len(m) % 5 == 0:
            for small in (1, 4, 16, 100):
                ops.append("dnsdec a %d 00 %s" % (small, hx(m)))
        # readname directly at offset 12 as well
        if len(m) >= 13:
            for r in wiregen.RESIDUES[:3]:
                ops.append("readname 256 12 %s %s" % (r, hx(m)))
    c, m_, diffs = vlib.differential(chk, exe, ops)
    bad = sbad
    if c.rc != 0:
        i = c.abort_index or 0
        chk.violation("C harness aborted (sanitizer or crash), rc=%d on op: %s\n%s" % (c.rc, ops[i][:200], c.stderr[-1500:]), [ops[i]], key="c12:abort")
        bad += 1
    # group answers by (op without residue)
    groups = {}
    for op, line in zip(ops, c.lines):
        t = op.split()
        key = (t[0], t[1], t[2], t[-1])
        groups.setdefault(key, []).append((op, line))
    nontriv = 0
    for key, lst in groups.items():
        answers = {l for _, l in lst}
        if len(answers) > 1:
            bad += 1
            a, b = lst[0], next(x for x in lst if x[1] != lst[0][1])
            what = ("interpretation of a %d-byte datagram depends on stale receive-buffer bytes:\n residue %s -> %s\n residue %s -> %s"
                    % (len(key[-1]) // 2, a[0].split()[-2][:16], a[1][:160], b[0].split()[-2][:16], b[1][:160]))
            kind = "readname" if key[0] == "readname" else ("query" if key[1] == "q" else "answer")
            chk.violation("C12 fails on the implementation: " + what, [a[0], b[0]], key="c12:stale-" + kind)
        elif "rv=0 " not in lst[0][1] and "rv=-1" not in lst[0][1]:
            nontriv += 1
    chk.cov["evaluations"] = len(ops) + sn
    chk.cov["distinct_nontrivial"] = nontriv
    chk.cov["traces_validated_against_impl"] = len(ops)
    chk.cov["rule"] = ("datagrams = valid queries/answers of every record type built by an independent DNS library + directed malformations "
                       "(every truncation near the end, pointers to/after the end, reserved and overrunning label lengths, RDLENGTH around the bytes "
                       "present, count fields, late byte flips); each decoded with %d different buffer residues by dns_decode (both directions) and "
                       "readname; non-trivial = distinct datagram that decodes to something (rv>0) identically under all residues" % len(wiregen.RESIDUES))
    chk.notes["datagrams"] = len(pkts)
    for i in (0, len(ops) // 2, len(ops) - 1):
        chk.sample({"op": ops[i][:200], "impl": c.lines[i][:200] if i < len(c.lines) else None})
    chk.notes["correspondence_diffs"] = None if diffs is None else len(diffs)
    if (not proof_ok or diffs is None or diffs) and bad == 0:
        if diffs:
            i = diffs[0]
            chk.violation("correspondence broken (Wire.dnsDecode/readname vs dns.c/read.c): %d ops differ; no residue-dependence found.\nfirst: %s\n impl: %s\n model: %s"
                          % (len(diffs), ops[i][:200], c.lines[i][:200], m_.lines[i][:200]),
                          ["# correspondence Wire.* vs dns.c/read.c no longer checks"] + [ops[j] for j in diffs[:5]], no_input=True)
        else:
            chk.violation("proof obligation no longer checks: " + chk.proof_detail,
                          ["# theorems of Props/C12.lean: " + ", ".join(vlib.prop_theorems("C12")), "# " + chk.proof_detail.replace("\n", "\n# ")], no_input=True)


def replay(chk, path):
    return vlib.pure_replay(chk, path)
