"""C04 — see DESIGN.md §4 C04.  Theorems: Props/C04.lean over the server session model (Server/*.lean);
correspondence: the real tunnel() loop (h_srv) vs the model on generated sessions; oracle: checks/srvmon.py monitor C04."""
import srvcheck

LEVEL = "proof"


def run(chk):
    srvcheck.run(chk, "C04")


def replay(chk, path):
    return srvcheck.replay(chk, path, "C04")
