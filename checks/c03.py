"""C03 — see DESIGN.md §4 C03.  Theorems: Props/C03.lean over the server session model (Server/*.lean);
correspondence: the real tunnel() loop (h_srv) vs the model on generated sessions; oracle: checks/srvmon.py monitor C03."""
import srvcheck

LEVEL = "proof"


def run(chk):
    srvcheck.run(chk, "C03")


def replay(chk, path):
    return srvcheck.replay(chk, path, "C03")
