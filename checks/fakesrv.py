"""A fully hostile but PLAUSIBLE iodine server for the REAL client (property C06; C13 on the way).

`c06.HostileWorld` puts hostile datagrams BETWEEN a real server and the client: once a hostile answer changes the client's view of the session
(another user id in the version reply, …) the real server refuses what follows and everything BEHIND that answer is never reached.  The
`FakeServer` below has no such limit: it PLAYS ALONG with the whole protocol — it answers every query the client sends, in the form the
client expects at that step, so the client gets through the handshake and into the tunnel phase whatever it was told — and chooses every
server-controlled field adversarially but plausibly:

  v   VACK/VNAK/VFUL + 4-byte seed + user-id byte (0, 15, 16, 0x7f, 0x80, 0xff, …), short / long variants
  l   login text `server-client-mtu-netmask`: valid, boundary and hostile field values (C13's lists), LNAK, BADIP, over-long
  i   'I' + 4 or 16 address bytes, other lengths, BADIP            raw login: genuine frame, wrong user nibble, wrong hash, short, other commands
  y   downstream codec check string: correct / altered / other lengths / BADCODEC, types the "path" does not carry (query type autodetection)
  z   upstream echo: faithful, case-swapped, one character altered, too short / longer (per-run upstream "capability" so that every codec is negotiated)
  s o codec / option switches: genuine names, BADLEN/BADIP/BADCODEC, prefixes of them, junk, 4 KiB strings
  r   fragment-size probes: honest, lying length field, broken pattern (also at byte 2), any size 0..4096+, BADIP / BADFRAG, per-run size cap
  n   set fragsize: echo, BADFRAG, BADIP, junk
  p / data   tunnel phase: every header combination (sequence numbers, fragments, last flag, upstream acks right or wrong), lengths 0..4096 and far
      beyond, legal multi-fragment packets (so that reassembly completes and tun writes happen) mixed with hostile ones, answers under the
      client's current three ids AND stale ones, other record types than asked, every downstream codec, BADIP, 1-byte answers,
      SERVFAIL / NXDOMAIN / NOTIMP, lazy-mode holding of queries, duplicates, silence (the 60 s exit)
  raw mode  data / ping / login frames, right and wrong user nibble, images 0..64 KiB, server-initiated data

The query fields are decoded from the query NAME the way iodined.c's `handle_null_request` does (first character = command; base32 fields).
Everything random comes from one `random.Random`; a run is replayed exactly by feeding its client op list to `h_cli`.

`FakeWorld` drives the real client (`harness/h_cli`: `start handshake`, then `start tunnel`, tun frames offered, ticks) against a `FakeServer`
under virtual time (the harness clock: a select that times out consumes its whole seconds), with a per-op deadline (a client that does not
answer an op within `DEADLINE` seconds is killed and reported as a hang)."""
import os, select, struct, subprocess, random, time, zlib
import vlib
import iodproto as P
import iodclient as C
import wiregen

DEADLINE = 60
DCC1 = (b"\000\000\000\000\377\377\377\377\125\125\125\125\252\252\252\252"
        b"\201\143\310\322\307\174\262\027\137\117\316\311\111\055\122\041"
        b"\141\251\161\040\045\263\006\163\346\330\104\060\171\120\127\277")          # DOWNCODECCHECK1 of encoding.h
B32V = {c: i for i, c in enumerate(P.CB32)}
B32V.update({c: i for i, c in enumerate(P.CB32.upper())})
CODEC_NAMES = {5: b"Base32", 6: b"Base64", 26: b"Base64u", 7: b"Base128"}
DOWN_NAMES = {"t": b"Base32", "s": b"Base64", "u": b"Base64u", "v": b"Base128", "r": b"Raw", "l": b"Lazy", "i": b"Immediate"}
BADS = [b"BADLEN", b"BADIP", b"BADCODEC", b"BADFRAG"]
USERIDS = [0, 1, 5, 15, 16, 17, 0x7f, 0x80, 0x81, 0xf0, 0xff]
SEEDS = [0, 1, 0x7fffffff, 0x80000000, 0xffffffff, 0x12345678]
GOOD_ADDRS = [b"10.0.0.1", b"10.0.0.2", b"0.0.0.0", b"255.255.255.255", b"192.168.100.200", b"1.2.3.4"]
# hostile login fields (the lists of checks/c13.py)
HOSTILE = [b" ;reboot", b";id", b"|sh", b"$(id)", b"`id`", b"\nid\n", b" && id", b"'", b'"', b" #", b"\t-x", b"%s%n", b" \\", b">/tmp/x", b"\x00id", b"\xff\xfe", b" 1", b"a", b".", b"..", b"-"]
ADDRS = [b"10.0.0.2", b"0.0.0.0", b"255.255.255.255", b"192.168.100.200", b"192.168.100.2000", b"192.168.100.200.1", b"1.2.3", b"1", b"0x0a.0.0.2", b"012.0.0.2", b"10.0.0.256",
         b"10.0.0.2 ", b" 10.0.0.2", b"10.0.0.2\n", b"+10.0.0.2", b"10.0.0.2x", b"", b"1" * 64, b"1." * 40, b"4294967295"]
MTUS = [b"1130", b"200", b"201", b"1500", b"1501", b"0", b"-1", b"+1200", b" 1200", b"1200;id", b"0x400", b"99999999999", b"2147483648", b"-2147483649", b"", b"1e3"]
MASKS = [b"27", b"0", b"1", b"8", b"30", b"31", b"32", b"33", b"-1", b"-27", b"64", b"2147483647", b"-2147483648", b"99999999999", b"27;id", b" 27", b"", b"0x1b", b"+27"]
LENS = [0, 1, 2, 3, 4, 5, 9, 16, 17, 100, 1200, 2047, 2048, 4093, 4094, 4095, 4096, 4097, 5000]
CAP = {P.T_NULL: 60000, P.T_PRIVATE: 60000, P.T_TXT: 30000, P.T_MX: 30000, P.T_SRV: 30000}


def rbytes(rng, n):
    return bytes(rng.getrandbits(8) for _ in range(n)) if n < 64 else rng.getrandbits(8 * n).to_bytes(n, "big")


class FakeServer:
    def __init__(self, rng, td=b"t.example.com", pw=b"secret", hostility=0.3, derail=0.04, real_z=False):
        self.rng, self.td, self.pw = rng, td, pw
        self.real_z = real_z          # the client runs the real zlib (VERIF_Z=real) instead of the transparent test scheme
        self.h = hostility            # probability that one field of an otherwise co-operative answer is chosen adversarially
        self.derail = derail          # probability that a handshake step gets an answer that makes the client retry / give up
        r = rng
        self.seed = r.choice(SEEDS + [r.getrandbits(32)])
        self.uid = r.choice(USERIDS + [r.randrange(256)]) if r.random() < 0.6 else r.randrange(16)
        self.types = None if r.random() < 0.5 else set(r.sample([P.T_NULL, P.T_PRIVATE, P.T_TXT, P.T_SRV, P.T_MX, P.T_CNAME, P.T_A], r.choice([0, 1, 1, 2, 3, 4, 5, 6])))
        self.upcap = r.choice([0, 1, 2, 3, 3])           # which upstream test patterns come back intact: 3 all (Base128), 2 base64u, 1 base64, 0 none
        self.downcap = r.choice(["T", "TS", "TU", "TSU", "TSV", "TUV", "TSUV", "TSUVR", "TSUVR", "TSVR"])     # downstream codecs whose check string comes back intact
        self.mute = r.choice("vlizsoyrnp") if r.random() < 0.12 else ""      # a command this server never answers (the "no reply" exits)
        self.fragcap = r.choice([1, 40, 100, 200, 500, 768, 1200, 2047])      # probes up to this size are answered honestly
        self.queries = []             # every DNS query of the client (parsed), newest last
        self.down = "T"               # the codec an honest server would use for this user's data answers
        self.lazy = False
        self.held = []                # lazy mode: queries whose answer is held back
        self.fragsize = 100
        self.upseq = self.upfrag = 0  # last upstream fragment seen (acked in data answers)
        self.dnseq, self.dnfrag = 0, 0
        self.dn = None                # downstream packet in progress: [image, offset, sentlen]
        self.downq = []               # images waiting to be sent downstream
        self.raw = False              # the client was let into raw mode
        self.rawnib = 0
        self.silent = False
        self.stats = {}

    # ------------------------------------------------------------------ building answers
    def count(self, k):
        self.stats[k] = self.stats.get(k, 0) + 1

    def build(self, pq, payload, dn, rcode=0):
        qt = pq["qd"][0][1]
        payload = payload[:CAP.get(qt, 60000)]
        try:
            return C.server_answer(pq, payload, dn, rcode=rcode)
        except struct.error:
            return C.server_answer(pq, payload[:2000], dn, rcode=rcode)

    def error_reply(self, pq, rcode):
        return P.header(pq["id"], 0x8180 | (rcode & 15), 1, 0) + P.question(pq["qd"][0][0], pq["qd"][0][1])

    def odd_record(self, pq, payload, dn):
        """the payload in a record the client did not ask for / under a prefix letter that names no codec / with odd header flags"""
        r = self.rng
        name, qt, i = pq["qd"][0][0], pq["qd"][0][1], pq["id"]
        k = r.random()
        if k < 0.3:
            # an A / NS / AAAA / … record with the bytes as they are
            return P.answer(i, name, qt, [payload[:r.choice([0, 1, 2, 4, 16, 100, 5000])]], atype=r.choice([P.T_A, P.T_A, 2, 6, 12, 28, 41, 99, 255]))
        if k < 0.6:
            # TXT / CNAME / MX whose first character names no codec (dns_namedec's default), or an upper-case one
            letter = bytes([r.choice(b"wxgqz0-.HIJKTSUVR") if r.random() < 0.7 else r.randrange(256)])
            body = letter + P.enc(r.choice(["b32", "b64", "b64u", "b128"]), payload[:r.choice([0, 1, 50, 120])])
            t = r.choice([P.T_TXT, P.T_CNAME, P.T_MX, P.T_SRV])
            if t == P.T_TXT:
                return P.answer(i, name, qt, [P.txt_rdata(body)], atype=t)
            host = P.dotify(body)
            host = (host if host.endswith(b".") else host + b".") + b"xy"
            pre = b"" if t == P.T_CNAME else (struct.pack(">H", 10) + (struct.pack(">HH", 10, 5060) if t == P.T_SRV else b""))
            return P.answer(i, name, qt, [pre + P.wire_name(host)], atype=t)
        # header flags: a query instead of a response, truncation bit, other opcodes, every rcode
        a = bytearray(self.build(pq, payload, dn))
        a[2:4] = struct.pack(">H", r.choice([0x0100, 0x0400, 0x8600, 0x8400 | r.randrange(16), 0xf80f, r.randrange(65536)]))
        return bytes(a)

    def fill_then_other_type(self, pq):
        """two datagrams: one whose record data fills the client's whole receive buffer of the moment (4 KiB in the handshake) with non-zero bytes, then a
        short one whose ANSWER record is of another type than its QUESTION (dns_decode decodes by the question's type and reports the answer's)"""
        r = self.rng
        name, i = pq["qd"][0][0], pq["id"]
        if r.random() < 0.4:
            # both in ONE datagram: a raw record that fills the buffer, reported as MX/SRV, whose bytes look like an encoded host name (codec letter
            # first, no NUL anywhere): the caller walks "names" in what is not a list of names
            body = bytes([r.choice(b"hHiIjJkKlL")]) + bytes(r.choice(b"abcdefghijklmnopqrstuvwxyz012345") for _ in range(r.choice([4094, 4095, 4096, 5000])))
            return [P.answer(r.choice([i, i, 0]), name, r.choice([P.T_NULL, P.T_PRIVATE]), [body], atype=r.choice([P.T_MX, P.T_SRV]))]
        fill = P.answer(r.choice([i, i, 0]), name, r.choice([P.T_NULL, P.T_PRIVATE]), [bytes([r.randrange(1, 256)]) * r.choice([4095, 4096, 4096, 4097, 5000])])
        qt = r.choice([P.T_NULL, P.T_PRIVATE, P.T_TXT, P.T_MX, P.T_CNAME])
        data = bytes(r.randrange(1, 256) for _ in range(r.choice([2, 3, 12, 100])))
        rd = P.txt_rdata(data) if qt == P.T_TXT else (struct.pack(">H", 10) + P.wire_name(b"h" + P.enc("b32", data)[:60] + b".xy") if qt in (P.T_MX, P.T_CNAME) else data)
        other = P.answer(r.choice([i, i, 0]), name, qt, [rd], atype=r.choice([P.T_MX, P.T_SRV, P.T_TXT, P.T_CNAME, P.T_NULL, P.T_A]))
        return [fill, other]

    def emit(self, pq, payload, dn=None, rcode=0):
        """the datagrams that answer `pq` with `payload`: normally one, in the form an honest server would use; now and then carried adversarially
        (under a stale query, another record type, an error code, mutated on the wire, twice, not at all)"""
        r, h = self.rng, self.h
        if dn is None:
            dn = self.down if r.random() >= h * 0.3 else r.choice("TSUVR")
        tq = pq
        if r.random() < h * 0.12 and len(self.queries) > 1:
            tq = r.choice(self.queries[-6:] if r.random() < 0.7 else self.queries)           # stale / other query: its id, its name
            self.count("stale")
        if r.random() < h * 0.05:
            tq = dict(tq); tq["id"] = r.choice([0, (tq["id"] + 7727) & 0xffff, (tq["id"] - 7727) & 0xffff, r.randrange(65536)])
        if r.random() < h * 0.1:
            tq = dict(tq); tq["qd"] = [(tq["qd"][0][0], r.choice([P.T_NULL, P.T_TXT, P.T_CNAME, P.T_MX, P.T_SRV, P.T_A, P.T_PRIVATE]), 1)]
            self.count("othertype")
        if r.random() < h * 0.06:
            self.count("rcode")
            a = self.error_reply(tq, r.choice([1, 2, 2, 3, 4, 5, r.randrange(16)])) if r.random() < 0.6 else self.build(tq, payload, dn, r.choice([2, 3, 5]))
        elif r.random() < h * 0.06:
            self.count("oddrecord")
            a = self.odd_record(tq, payload, dn)
        else:
            a = self.build(tq, payload, dn, rcode)
        if r.random() < h * 0.05:
            m = wiregen.mutations(r, a, 4) + wiregen.rdlength_games(r, a)
            a = r.choice(m) if m else a
            self.count("mutated")
        if r.random() < h * 0.08:
            self.count("dropped")
            return []
        out = [a]
        if r.random() < h * 0.04:
            self.count("fill+othertype")
            out = self.fill_then_other_type(pq) + (out if r.random() < 0.7 else [])
        if r.random() < h * 0.1:
            out.append(a); self.count("dup")
        if r.random() < h * 0.03:
            out.append(r.choice([b"", C.RAW_HEADER[:3] + bytes([r.randrange(256)]) + rbytes(r, r.choice([0, 1, 16, 100]))]))
        return out

    def junk(self):
        r = self.rng
        k = r.random()
        if k < 0.3:
            return r.choice(BADS + [b"VACK", b"VNAK", b"LNAK", b"Lazy", b"Immediate", b"Base32", b"Raw", b"I"]) + rbytes(r, r.choice([0, 1, 4, 5, 16]))
        if k < 0.5:
            s = r.choice(BADS); return s[:r.randrange(0, len(s))]
        if k < 0.7:
            return rbytes(r, r.choice(LENS))
        if k < 0.8:
            return b"A" * r.choice([4094, 4095, 4096, 4097])
        return rbytes(r, r.randrange(0, 40))

    # ------------------------------------------------------------------ the DNS side
    def on_datagram(self, msg):
        """-> list of datagrams for the client"""
        if self.silent:
            return []
        if msg[:3] == C.RAW_HEADER[:3] and len(msg) >= 4:
            return self.on_raw(msg)
        try:
            pq = P.parse(msg)
        except P.Malformed:
            return []
        if not pq["qd"]:
            return []
        name = pq["qd"][0][0]
        if not name.lower().endswith(b"." + self.td.lower()):
            return []
        inner = name[:len(name) - len(self.td)]                  # = q->name[0 .. domain_len): ends with the dot before the top domain
        pq["inner"] = inner
        self.queries.append(pq)
        if len(self.queries) > 64:
            del self.queries[0]
        if len(inner) < 2:
            return []
        c = chr(inner[0]).lower()
        qt = pq["qd"][0][1]
        if self.types is not None and qt not in self.types:
            # the "path" does not carry this record type (query type autodetection picks another one; a forced type fails)
            self.count("type-refused")
            k = self.rng.random()
            if k < 0.4:
                return [self.error_reply(pq, self.rng.choice([2, 4, 5, 3]))]
            if k < 0.7:
                return []
            if k < 0.85:
                return self.emit(pq, self.junk())
            # … but now and then it does
        f = {"v": self.q_version, "l": self.q_login, "i": self.q_ip, "z": self.q_upenc, "s": self.q_switch, "o": self.q_option, "y": self.q_downenc,
             "r": self.q_probe, "n": self.q_setfrag, "p": self.q_ping}.get(c)
        if f is None and c in "0123456789abcdef":
            f = self.q_data
        if f is None:
            return []
        self.count(c if f != self.q_data else "data")
        if c == self.mute:
            return []
        return f(pq, inner)

    def unpack32(self, inner):
        return P.dec("b32", inner[1:].replace(b".", b""))

    def q_version(self, pq, inner):
        r = self.rng
        k = r.random()
        if k < self.derail:
            kind = r.choice(["VNAK", "VFUL", "short", "junk", "none", "lower"])
            if kind == "none":
                return []
            if kind in ("VNAK", "VFUL"):
                return self.emit(pq, kind.encode() + struct.pack(">I", r.choice(SEEDS)) + bytes([r.randrange(256)]) + rbytes(r, r.choice([0, 0, 5])))
            if kind == "short":
                return self.emit(pq, (b"VACK" + struct.pack(">I", self.seed) + bytes([self.uid]))[:r.randrange(0, 9)])
            if kind == "lower":
                return self.emit(pq, b"vack" + struct.pack(">I", self.seed) + bytes([self.uid]))
            return self.emit(pq, self.junk())
        pay = b"VACK" + struct.pack(">I", self.seed) + bytes([self.uid])
        if r.random() < self.h * 0.5:
            pay += rbytes(r, r.choice([1, 7, 100, 4086, 4087, 4088, 5000]))
        return self.emit(pq, pay)

    def login_text(self):
        r = self.rng
        f = [r.choice(GOOD_ADDRS), r.choice(GOOD_ADDRS), r.choice([b"1130", b"201", b"1200", b"1500", b"576"]), r.choice([b"27", b"0", b"1", b"8", b"24", b"30", b"31", b"32"])]
        if r.random() < self.h * 0.5:
            i = r.randrange(4)
            pool = [ADDRS, ADDRS, MTUS, MASKS][i]
            f[i] = r.choice(pool + [r.choice(pool) + r.choice(HOSTILE), r.choice(HOSTILE) + r.choice(pool)])
            self.count("login-hostile-field")
        t = b"-".join(f)
        if r.random() < self.h * 0.2:
            t += r.choice([b"-99", b"\x00;id", b"\n;id", b"-" + b"9" * 4100, b" " * 4070, rbytes(r, 5000)])
        return t

    def q_login(self, pq, inner):
        r = self.rng
        k = r.random()
        if k < self.derail:
            kind = r.choice(["LNAK", "BADIP", "junk", "none", "partial", "struct"])
            if kind == "none":
                return []
            if kind in ("LNAK", "BADIP"):
                return self.emit(pq, kind.encode() + (b"" if r.random() < 0.7 else rbytes(r, 3)), "T")
            if kind == "partial":
                t = self.login_text(); return self.emit(pq, t[:r.randrange(0, len(t))])
            if kind == "struct":
                return self.emit(pq, r.choice([b"", b"-", b"---", b"10.0.0.1", b"10.0.0.1-10.0.0.2-1130", b"A" * 64 + b"-" + b"B" * 64 + b"-1130-27", b"A" * 65 + b"-10.0.0.2-1130-27",
                                               b"10.0.0.1-" + b"9" * 70 + b"-1130-27", b"-" * 300]))
            return self.emit(pq, self.junk())
        return self.emit(pq, self.login_text())

    def q_ip(self, pq, inner):
        r = self.rng
        k = r.random()
        if k < 0.55:
            pay = b"I" + r.choice([bytes([10, 0, 0, 53]), bytes(4), b"\xff" * 4, rbytes(r, 4)])
        elif k < 0.75:
            pay = b"I" + r.choice([bytes(15) + b"\x01", rbytes(r, 16), b"\xff" * 16])
        elif k < 0.85:
            pay = b"I" + rbytes(r, r.choice([0, 1, 3, 5, 15, 17, 100, 4095, 4096]))
        elif k < 0.92:
            pay = r.choice([b"BADIP", b"i" + bytes(4), b"J" + bytes(4)])
        elif k < 0.96:
            return []
        else:
            pay = self.junk()
        return self.emit(pq, pay, "T")

    def q_downenc(self, pq, inner):
        r = self.rng
        codec = chr(inner[1]).upper() if chr(inner[1]).upper() in "TSUVR" else "T"
        qt = pq["qd"][0][1]
        if len(inner) < 6 or B32V.get(inner[2]) != 1:
            return self.emit(pq, b"BADLEN", "T")
        k = r.random()
        ok = codec in self.downcap
        if qt in (P.T_NULL, P.T_PRIVATE):
            ok = True                   # raw record data: every byte value comes back as it is
        if k < self.h * 0.5:
            kind = r.choice(["alter", "len", "badcodec", "none", "junk", "othercodec"])
            self.count("y-" + kind)
            if kind == "none":
                return []
            if kind == "alter":
                b = bytearray(DCC1); b[r.randrange(48)] ^= 1 << r.randrange(8); return self.emit(pq, bytes(b), codec)
            if kind == "len":
                return self.emit(pq, r.choice([DCC1[:47], DCC1 + b"\x00", DCC1[:1], DCC1 * 2, DCC1 + rbytes(r, 4060), b""]), codec)
            if kind == "badcodec":
                return self.emit(pq, b"BADCODEC", "T")
            if kind == "othercodec":
                return self.emit(pq, DCC1, r.choice("TSUVR"))
            return self.emit(pq, self.junk(), codec)
        if not ok:
            # what a path that is not 8-bit / case clean makes of the string
            b = bytes((c & 0x7f) if r.random() < 0.5 else c for c in DCC1)
            return self.emit(pq, b if r.random() < 0.7 else b"BADCODEC", codec if r.random() < 0.7 else "T")
        return self.emit(pq, DCC1, codec)

    def q_upenc(self, pq, inner):
        r = self.rng
        body = inner[4:]
        # which pattern is this (client.c handshake_upenc_autodetect)?  pat64 has the '+', pat64u the '_', the five Base128 patterns neither
        need = 1 if b"+" in body else (2 if b"_" in body else 3)
        echo = bytearray(inner)
        k = r.random()
        if k < self.h * 0.5:
            kind = r.choice(["upper", "lower", "char", "short", "short3", "long", "none", "junk", "swapall"])
            self.count("z-" + kind)
            if kind == "none":
                return []
            if kind == "upper" and len(echo) > 4:
                echo[4] = 0x41
            elif kind == "lower" and len(echo) > 5:
                echo[5] = 0x61
            elif kind == "char" and len(echo) > 6:
                i = r.randrange(4, len(echo)); echo[i] = r.choice([echo[i] ^ 0x20, echo[i] & 0x7f, 0x3f, r.randrange(256)])
            elif kind == "short":
                echo = echo[:r.randrange(4, max(5, len(echo)))]
            elif kind == "short3":
                echo = echo[:r.randrange(0, 4)]
            elif kind == "long":
                echo += rbytes(r, r.choice([1, 100, 4000]))
            elif kind == "swapall":
                echo = bytearray(bytes(echo).swapcase())
            elif kind == "junk":
                echo = bytearray(self.junk())
            return self.emit(pq, bytes(echo), "T")
        if need > self.upcap or (need == 1 and self.upcap == 2):
            # this path does not carry the pattern unchanged
            how = r.random()
            if need == 3:
                echo = bytearray((c & 0x7f) if c >= 0x80 else c for c in echo) if any(c >= 0x80 for c in echo) else bytearray(bytes(echo).lower() if how < 0.5 else bytes(echo).upper())
            else:
                echo = bytearray(bytes(echo).replace(b"+", b" ").replace(b"_", b"-"))
        return self.emit(pq, bytes(echo), "T")

    def switch_reply(self, genuine):
        r = self.rng
        k = r.random()
        if k < self.h * 0.5 + self.derail:
            kind = r.choice(["bad", "prefix", "junk", "none", "long", "othername", "empty"])
            self.count("sw-" + kind)
            if kind == "none":
                return None
            if kind == "bad":
                return r.choice(BADS[:3])
            if kind == "prefix":
                s = r.choice(BADS[:3] + [genuine]); return s[:r.randrange(1, len(s))]
            if kind == "long":
                return r.choice([genuine, b"BADLEN", b"x"]) + b"A" * r.choice([4088, 4089, 4090, 4095, 4096, 5000])
            if kind == "othername":
                return r.choice(list(CODEC_NAMES.values()) + list(DOWN_NAMES.values()))
            if kind == "empty":
                return b""
            return self.junk()
        return genuine

    def q_switch(self, pq, inner):
        if len(inner) < 3:
            return self.emit(pq, b"BADLEN", "T")
        bits = B32V.get(inner[2], 0)
        rep = self.switch_reply(CODEC_NAMES.get(bits, b"BADCODEC"))
        return [] if rep is None else self.emit(pq, rep)

    def q_option(self, pq, inner):
        if len(inner) < 3:
            return self.emit(pq, b"BADLEN", "T")
        o = chr(inner[2]).lower()
        rep = self.switch_reply(DOWN_NAMES.get(o, b"BADCODEC"))
        if rep is None:
            return []
        if rep == DOWN_NAMES.get(o):
            if o in "tsuvr":
                self.down = o.upper()
            elif o == "l":
                self.lazy = True
            elif o == "i":
                self.lazy = False
        return self.emit(pq, rep)

    def probe_body(self, size, v=None):
        v = self.rng.randrange(256) if v is None else v
        b = bytearray(max(size, 3))
        b[0], b[1], b[2] = (size >> 8) & 0xff, size & 0xff, 107
        for i in range(3, len(b)):
            b[i] = v; v = (v + 107) & 0xff
        return b

    def q_probe(self, pq, inner):
        r = self.rng
        if len(inner) < 4:
            return self.emit(pq, b"BADLEN", "T")
        v1, v2, v3 = (B32V.get(inner[i], 0) for i in (1, 2, 3))
        size = ((v1 & 1) << 10) | (v2 << 5) | v3
        k = r.random()
        if k < self.h * 0.6:
            kind = r.choice(["lie", "pattern", "byte2", "size", "badip", "badfrag", "two", "none", "junk"] * 3 + ["one"])
            self.count("r-" + kind)
            b = self.probe_body(size)
            if kind == "none":
                return []
            if kind == "lie":
                lie = r.choice([size + 1, max(0, size - 1), 0, 65535, size ^ 0x100]); b[0], b[1] = lie >> 8, lie & 0xff
                return self.emit(pq, bytes(b[:size]))
            if kind == "pattern" and size > 3:
                b[r.randrange(3, size)] ^= r.choice([1, 0x80, 0x20]); return self.emit(pq, bytes(b[:size]))
            if kind == "byte2":
                b[2] = r.choice([106, 108, 0, 235]); return self.emit(pq, bytes(b[:size]))
            if kind == "size":
                n = max(0, r.choice(LENS + [size - 1, size + 1, 2 * size]))
                body = self.probe_body(max(n, 3))
                if r.random() < 0.5:
                    body[0], body[1] = size >> 8, size & 0xff          # the length field names the size asked for, the answer has another
                return self.emit(pq, bytes(body[:n]))
            if kind == "badip":
                return self.emit(pq, b"BADIP")
            if kind == "badfrag":
                return self.emit(pq, b"BADFRAG")
            if kind == "one":
                return self.emit(pq, bytes([r.choice([size >> 8, 0, 0xff])]))
            if kind == "two":
                return self.emit(pq, bytes(b[:2]))
            return self.emit(pq, self.junk())
        if size < 2:
            return self.emit(pq, b"BADFRAG")
        if size > self.fragcap:
            # too big for this "path": nothing, an error, or a cut answer
            k = r.random()
            if k < 0.4:
                return []
            if k < 0.7:
                return [self.error_reply(pq, 2)]
            return self.emit(pq, bytes(self.probe_body(size)[:self.fragcap]))
        return self.emit(pq, bytes(self.probe_body(size)[:size]))

    def q_setfrag(self, pq, inner):
        r = self.rng
        u = self.unpack32(inner)
        if len(u) < 3:
            return self.emit(pq, b"BADLEN", "T")
        fs = (u[1] << 8) | u[2]
        k = r.random()
        if k < self.h * 0.5 + self.derail:
            kind = r.choice(["badfrag", "badip", "junk", "none", "one", "other", "prefix"])
            self.count("n-" + kind)
            if kind == "none":
                return []
            return self.emit(pq, {"badfrag": b"BADFRAG", "badip": b"BADIP", "one": bytes([u[1]]), "other": struct.pack(">H", r.choice([0, 1, 65535, (fs + 1) & 0xffff])),
                                  "prefix": b"BADFRAG"[:r.randrange(1, 7)]}.get(kind) or self.junk())
        self.fragsize = max(1, min(fs, 4094))
        return self.emit(pq, bytes(u[1:3]))

    # ------------------------------------------------------------------ tunnel phase
    def image(self):
        """an image for downstream: mostly what compress2 of the test scheme makes of an IP packet (0x5a + frame), now and then something else"""
        r = self.rng
        n = r.choice([0, 1, 20, 100, 100, 600, 1400, 3000, 9000])
        frame = C.ip_packet(0x0a000002, rbytes(r, n), src_ip=0x08080808, ident=r.randrange(1 << 16))
        k = r.random()
        if self.real_z:
            z = zlib.compress(frame, 9)
            if k < self.h * 0.1:
                return z[:r.randrange(0, len(z))]                         # cut stream
            if k < self.h * 0.2:
                return zlib.compress(bytes(r.choice([65535, 65536, 65537, 200000, 5000000])), 9)      # inflates to the output buffer's size and beyond
            if k < self.h * 0.3:
                b = bytearray(z); b[r.randrange(len(b))] ^= 1 << r.randrange(8); return bytes(b)
            if k < self.h * 0.35:
                return rbytes(r, r.choice([1, 2, 100, 4096]))
            return z
        if k < self.h * 0.15:
            return rbytes(r, r.choice([1, 2, 100, 4096]))                 # not an image at all
        if k < self.h * 0.25:
            return b"\x5a" + rbytes(r, r.choice([0, 1, 3, 4, 19, 20]))     # shorter than a tun header / an IP header
        if k < self.h * 0.3:
            return b"\x5a" + rbytes(r, r.choice([65530, 65535, 65536, 70000]))     # around the reassembly buffer's size
        return b"\x5a" + frame

    def ack_down(self, seq, frag):
        """process_downstream_ack of iodined.c"""
        if self.dn is None:
            return
        if (self.dnseq, self.dnfrag) != (seq, frag) or self.dn[2] <= 0:
            return
        self.dn[1] += self.dn[2]; self.dn[2] = 0
        self.dnfrag = (self.dnfrag + 1) & 15
        if self.dn[1] >= len(self.dn[0]):
            self.dn = None
            self.dnfrag = (self.dnfrag - 1) & 15

    def data_payload(self, qt):
        r, h = self.rng, self.h
        if self.dn is None and not self.downq and r.random() < 0.25:
            self.downq.append(self.image())
        if self.dn is None and self.downq:
            self.dn = [self.downq.pop(0), 0, 0]
            self.dnseq = (self.dnseq + 1) & 7 if r.random() >= h * 0.2 else r.randrange(8)
            self.dnfrag = 0 if r.random() >= h * 0.1 else r.randrange(16)
        b0 = 0x80 | ((self.upseq & 7) << 4) | (self.upfrag & 15)
        data, last = b"", 0
        if self.dn is not None:
            fs = self.fragsize if r.random() >= h * 0.3 else r.choice([1, 2, 100, 1200, 4093, 4094, 4095, 4096, 5000, 20000, 60000])
            data = self.dn[0][self.dn[1]:self.dn[1] + fs]
            self.dn[2] = len(data)
            last = 1 if self.dn[1] + len(data) >= len(self.dn[0]) else 0
            if len(data) == len(self.dn[0]):
                self.dn = None           # whole packet in one chunk: not waiting for the ack
        b1 = ((self.dnseq & 7) << 5) | ((self.dnfrag & 15) << 1) | last
        k = r.random()
        if k < h * 0.5:
            kind = r.choice(["hdr", "ack", "len", "last", "frag", "seq", "one", "badip", "empty", "hdronly", "noflag"])
            self.count("d-" + kind)
            if kind == "hdr":
                b0, b1 = r.randrange(256), r.randrange(256)
            elif kind == "ack":
                b0 = 0x80 | r.randrange(128)
            elif kind == "len":
                data = rbytes(r, r.choice(LENS + [20000, 60000]))
            elif kind == "last":
                b1 ^= 1
            elif kind == "frag":
                b1 = (b1 & 0xe1) | (r.randrange(16) << 1)
            elif kind == "seq":
                b1 = (b1 & 0x1f) | (r.randrange(8) << 5)
            elif kind == "one":
                return bytes([b0])
            elif kind == "badip":
                return r.choice([b"BADIP", b"BADIPx", b"BADI"])
            elif kind == "empty":
                return b""
            elif kind == "hdronly":
                data = b""
            elif kind == "noflag":
                b0 &= 0x7f
        return bytes([b0, b1]) + data

    def tunnel_answer(self, pq):
        r = self.rng
        out = []
        if self.lazy and r.random() < 0.7:
            # lazy mode: the query is kept; the one kept before is answered now
            self.held.append(pq)
            while len(self.held) > (1 if r.random() < 0.9 else 2):
                out += self.emit(self.held.pop(0), self.data_payload(pq["qd"][0][1]))
            if self.downq or self.dn is not None:
                while self.held:
                    out += self.emit(self.held.pop(0), self.data_payload(pq["qd"][0][1]))
            return out
        return self.emit(pq, self.data_payload(pq["qd"][0][1]))

    def q_ping(self, pq, inner):
        u = self.unpack32(inner)
        if len(u) >= 2:
            self.ack_down(u[1] >> 4 & 7, u[1] & 15)
        return self.tunnel_answer(pq)

    def q_data(self, pq, inner):
        if len(inner) < 6:
            return []
        v1, v2, v3 = (B32V.get(inner[i], 0) for i in (1, 2, 3))
        self.upseq, self.upfrag = (v1 >> 2) & 7, ((v1 & 3) << 2) | (v2 >> 3)
        self.ack_down(v2 & 7, v3 >> 1)
        return self.tunnel_answer(pq)

    def on_tick(self):
        """a select of the client timed out: what the server sends on its own (lazy-mode answers released by its timer or by data arriving on its tun
        device; raw mode: data / pings)"""
        r = self.rng
        if self.silent:
            return []
        out = []
        if self.raw:
            if r.random() < 0.4:
                out.append(self.raw_frame(0x20, self.image()))
            return out
        if self.held and r.random() < 0.6:
            if r.random() < 0.5 and not self.downq:
                self.downq.append(self.image())
            while self.held:
                q = self.held.pop(0)
                out += self.emit(q, self.data_payload(q["qd"][0][1]))
        return out

    # ------------------------------------------------------------------ raw mode
    def raw_frame(self, cmd, payload=b""):
        r = self.rng
        nib = self.rawnib if r.random() >= self.h * 0.2 else r.randrange(16)
        if r.random() < self.h * 0.1:
            cmd = r.choice([0x00, 0x10, 0x20, 0x30, 0x40, 0xf0])
        hdr = C.RAW_HEADER[:3] if r.random() >= self.h * 0.05 else bytes([0x10, 0xd1, r.randrange(256)])
        return hdr + bytes([cmd | nib]) + payload

    def on_raw(self, msg):
        r = self.rng
        cmd, nib = msg[3] & 0xf0, msg[3] & 0x0f
        self.rawnib = nib
        self.count("raw-%02x" % cmd)
        if cmd == 0x10:
            good = C.login_hash(self.pw, (self.seed - 1) & 0xffffffff)
            k = r.random()
            if k < 0.5:
                self.raw = True
                return [self.raw_frame(0x10, good + (b"" if r.random() < 0.8 else rbytes(r, r.choice([1, 100, 4076, 4077, 5000]))))]
            if k < 0.6:
                self.raw = True
                return [C.RAW_HEADER[:3] + bytes([0x10 | r.randrange(16)]) + good]                 # another user's nibble
            if k < 0.7:
                return [self.raw_frame(0x10, good[:r.randrange(0, 16)])]
            if k < 0.8:
                return [self.raw_frame(0x10, C.login_hash(self.pw, r.choice([self.seed, (self.seed + 1) & 0xffffffff, 0])))]
            if k < 0.9:
                return []
            return [self.raw_frame(r.choice([0x20, 0x30]), good), self.raw_frame(0x10, rbytes(r, 16))]
        out = []
        if cmd == 0x30:
            if r.random() < 0.9:
                out.append(self.raw_frame(0x30, b"" if r.random() >= self.h * 0.3 else rbytes(r, r.choice([1, 100, 5000]))))
        if r.random() < 0.4:
            img = self.image()
            if r.random() < self.h * 0.2:
                img = rbytes(r, r.choice(LENS + [65000, 65531, 65532]))
            out.append(self.raw_frame(0x20, img))
        if r.random() < self.h * 0.1:
            out.append(rbytes(r, r.choice([0, 1, 3, 4, 12, 40])))
        return out


# --------------------------------------------------------------------------------------------------------------------------------------------
class Cli:
    """h_cli with a per-op deadline"""

    def __init__(self, exe, deadline=DEADLINE, real_z=False):
        env = dict(os.environ); env.update(vlib.SAN_ENV); env["VERIF_LINEBUF"] = "1"
        env.setdefault("MSAN_OPTIONS", "exitcode=97:halt_on_error=1")
        if real_z:
            env["VERIF_Z"] = "real"
        self.p = subprocess.Popen([exe], stdin=subprocess.PIPE, stdout=subprocess.PIPE, stderr=subprocess.PIPE, env=env, bufsize=0)
        self.ops, self.lines, self.dead = [], [], None
        self.buf = b""
        self.deadline = deadline
        self.slowest = 0.0

    def _readline(self):
        fd = self.p.stdout.fileno()
        end = time.time() + self.deadline
        while b"\n" not in self.buf:
            left = end - time.time()
            if left <= 0:
                return "timeout"
            rd, _, _ = select.select([fd], [], [], left)
            if not rd:
                return "timeout"
            d = os.read(fd, 1 << 20)
            if not d:
                return None
            self.buf += d
        line, self.buf = self.buf.split(b"\n", 1)
        return line.decode("latin1")

    def send(self, op):
        if self.dead:
            return None
        self.ops.append(op)
        t0 = time.time()
        try:
            data = (op + "\n").encode()
            while data:
                n = os.write(self.p.stdin.fileno(), data); data = data[n:]
            line = self._readline()
        except (BrokenPipeError, OSError):
            line = None
        self.slowest = max(self.slowest, time.time() - t0)
        if line == "timeout":
            self.p.kill(); self.p.wait()
            self.dead = (op, "timeout", "TIMEOUT: the op did not finish within %d s\n" % self.deadline + self.p.stderr.read().decode("latin1")[-2000:])
            return None
        if line is None or line == "":
            self.p.wait()
            self.dead = (op, self.p.returncode, self.p.stderr.read().decode("latin1")[:12000])       # (a sanitizer report starts with what matters)
            return None
        self.lines.append(line)
        return line

    def close(self):
        if not self.dead:
            try:
                self.p.stdin.close()
            except OSError:
                pass
            self.p.wait()
        for f in (self.p.stdout, self.p.stderr):
            try:
                f.close()
            except OSError:
                pass


def parse_cli(line):
    import world
    return world.parse_cli(line)


class FakeWorld:
    """the real client against a FakeServer, virtual time"""

    def __init__(self, rng, cli_exe, srv, cfg, td=b"t.example.com", pw=b"secret"):
        self.rng, self.srv, self.cfg = rng, srv, cfg
        self.c = Cli(cli_exe, real_z=srv.real_z)
        self.c_sel, self.c_state, self.c_ret = None, {}, None
        self.outbox = []
        self.sys, self.tunw = [], []
        self.nq = 0
        self.cop("ccfg %s %s %d %d %s %d %d 0 1 0" % (vlib.hx(td), vlib.hx(pw), cfg["maxlen"], cfg["qtype"], cfg["downenc"], cfg["lazy"], cfg["seltimeout"]))
        rv = [rng.randrange(1 << 31) for _ in range(64)]
        if rng.random() < 0.05:
            rv[1] = (65536 - 7727 * rng.randrange(1, 60)) % 65536          # the query id passes 0 within the run (send_query skips it)
        self.cop("crand " + " ".join(str(v) for v in rv))

    def cop(self, op):
        line = self.c.send(op)
        if line is None:
            return None
        if line == "ok":
            return []
        events, sel, st = parse_cli(line)
        self.c_sel, self.c_state = sel, st or self.c_state
        for e in events:
            if e[0] in ("tx", "rawtx"):
                self.nq += 1
                self.outbox += self.srv.on_datagram(vlib.unhx(e[1]))
            elif e[0] == "tunw":
                self.tunw.append(vlib.unhx(e[1]))
            elif e[0] == "sys":
                self.sys.append(vlib.unhx(e[1]))
            elif e[0] in ("ret", "exit", "errx"):
                self.c_ret = (e[0], int(e[1]))
        return events

    def deliver_or_tick(self, late=0.0):
        """one step: the next datagram if one is waiting (and the client reads its socket), else the select times out"""
        if self.outbox and self.c_sel is not None and self.c_sel.get("dns") and self.rng.random() >= late:
            self.cop("ans " + vlib.hx(self.outbox.pop(0)))
        else:
            self.cop("tick")
            self.outbox += self.srv.on_tick()

    def handshake(self, max_steps=4000):
        self.cop("start handshake %d %d %d" % (self.cfg["raw_mode"], self.cfg["autofrag"], self.cfg["fragsize"]))
        n = 0
        while self.c_ret is None and not self.c.dead and n < max_steps:
            self.deliver_or_tick(late=0.03)
            n += 1
        r, self.c_ret = self.c_ret, None
        return r

    def tunnel(self, steps):
        import worldcheck as W
        rng = self.rng
        self.cop("start tunnel")
        n = 0
        while self.c_ret is None and not self.c.dead and n < steps:
            n += 1
            if self.c_sel is not None and self.c_sel.get("tun") and rng.random() < 0.15:
                self.cop("tun " + vlib.hx(W.frame_to_server_side(rng, rng.choice(W.SIZES))))
            elif self.c_sel is not None and not self.c_sel.get("tun") and rng.random() < 0.03:
                self.cop("tun " + vlib.hx(W.frame_to_server_side(rng, 100)))          # offered while the device is not selected: tunskip
            elif rng.random() < 0.02 and self.c_state.get("now", "").isdigit():
                t = int(self.c_state["now"]) + rng.choice([1, 1, 5, 20, 25, 61])            # time passes while the client is parked
                self.cop("ctime %d" % t)
                self.c_state = dict(self.c_state, now=str(t))
            else:
                self.deliver_or_tick(late=0.05)
        if self.c_ret is None and not self.c.dead and rng.random() < 0.3:
            # the server goes silent: the client gives up after 60 s without downstream data
            self.srv.silent = True
            self.outbox = []
            n = 0
            while self.c_ret is None and not self.c.dead and n < 200:
                self.cop("tick"); n += 1

    def close(self):
        self.c.close()


def random_config(rng, k):
    import worldcheck as W
    cfg = W.random_config(rng, {"raw_mode": 1} if k % 5 == 4 else None)
    if k % 3 == 0:
        cfg["qtype"] = 65432                   # T_UNSET: query type autodetection
    cfg["fragsize"] = rng.choice([50, 100, 150, 1200, 2, 1, 0, 4094, 65535]) if rng.random() < 0.5 else cfg["fragsize"]      # -m sizes
    return cfg


def one(args):
    seed, k, steps = args
    rng = random.Random(seed)
    cfg = random_config(rng, k)
    srv = FakeServer(rng, hostility=rng.choice([0.1, 0.3, 0.3, 0.6]), derail=rng.choice([0.0, 0.03, 0.03, 0.15]), real_z=(k % 12 == 11 and not os.environ.get("VERIF_CLI_EXE")))      # (an uninstrumented zlib is noise for MemorySanitizer)
    if k % 4 == 1:
        srv.types = None                      # every type answered: the forced type works
    w = FakeWorld(rng, os.environ.get("VERIF_CLI_EXE") or vlib.build_cli(), srv, cfg)      # VERIF_CLI_EXE: another build of h_cli (e.g. clang + MemorySanitizer, see DESIGN.md)
    hs = w.handshake()
    if hs == ("ret", 0) and not w.c.dead:
        w.tunnel(steps * 6 if k % 40 == 7 else steps)          # a few long sessions (the counters behind 500 / 1000 answers)
    d = w.c.dead
    out = {"seed": seed, "k": k, "cfg": cfg, "handshake": hs, "dead": (d[0][:200], d[1], d[2][:6000]) if d else None, "cops": list(w.c.ops), "clines": list(w.c.lines),
           "ncops": len(w.c.ops), "sys": list(w.sys), "ntunw": len(w.tunw), "nq": w.nq, "state": dict(w.c_state), "srv": dict(srv.stats), "uid": srv.uid,
           "client_ret": w.c_ret, "slowest": w.c.slowest, "real_z": srv.real_z}
    w.close()
    return out


def run_batch(seed, n, steps=250, workers=None):
    from concurrent.futures import ProcessPoolExecutor
    vlib.build_cli()
    with ProcessPoolExecutor(workers or min(16, os.cpu_count() or 4)) as ex:
        return list(ex.map(one, [(seed * 1000003 + k, k, steps) for k in range(n)], chunksize=2))
