import IodineModel.Hex
import IodineModel.Codec.Inst
/-
Line-protocol driver: one operation per input line, one result line per operation.
The C harnesses (harness/*.c) answer the same lines by calling the real code; the
check diffs the two streams.
-/
open Iodine Iodine.Hex

def step (line : String) : String :=
  match line.trimAscii.toString.splitOn " " with
  | ["enc", cn, cap, hx] =>
    match Codec.byName cn, cap.toNat?, ofHex hx with
    | some c, some cap, some d =>
      let r := Codec.enc c cap d
      s!"r={r.chars.length} used={r.used} out={toHex r.chars}"
    | _, _, _ => "bad-op"
  | ["encdec", cn, cap, hx] =>
    match Codec.byName cn, cap.toNat?, ofHex hx with
    | some c, some cap, some d =>
      let r := Codec.enc c cap d
      let back := Codec.dec c (d.length + 8) r.chars.length r.chars
      s!"r={r.chars.length} used={r.used} out={toHex r.chars} dec={toHex back}"
    | _, _, _ => "bad-op"
  | ["dec", cn, cap, slen, hx] =>
    match Codec.byName cn, cap.toNat?, slen.toNat?, ofHex hx with
    | some c, some cap, some slen, some s =>
      let r := Codec.dec c cap slen s
      s!"r={r.length} out={toHex r}"
    | _, _, _, _ => "bad-op"
  | _ => "bad-op"

partial def loop (h : IO.FS.Stream) (out : IO.FS.Stream) : IO Unit := do
  let line ← h.getLine
  if line.isEmpty then return ()
  out.putStrLn (step line)
  loop h out

def main : IO Unit := do
  let out ← IO.getStdout
  loop (← IO.getStdin) out
