import IodineModel.Drv.Codec
import IodineModel.Drv.Encoding
import IodineModel.Drv.Users
import IodineModel.Drv.Common
import IodineModel.Drv.Login
import IodineModel.Drv.FwQuery
import IodineModel.Drv.Slots
import IodineModel.Drv.WireRead
import IodineModel.Drv.WirePut
import IodineModel.Drv.Server
import IodineModel.Drv.ServerBytes
import IodineModel.Drv.Client
import IodineModel.Drv.Downstream
import IodineModel.Drv.Negot
import IodineModel.Drv.Shell
import IodineModel.Drv.World
import IodineModel.Drv.Options
/-
Line-protocol driver: one operation per input line, one result line per operation.
The C harnesses (harness/*.c) answer the same lines by calling the real code; the
checks diff the two streams.  Stateless handlers are tried first, then the stateful ones.
-/
open Iodine

structure DrvState where
  fw : FwQuery.Fw := FwQuery.init
  slots : List Users.Slot := []
  srv : Drv.Server.St := {}
  cli : Drv.Client.St := {}
  /-- the static `td1`, `td2` of `write_dns_nameenc` (op `wd`) -/
  td : Nat × Nat := (0, 0)
  /-- the joined model (ops `wstart` / `wev`, Drv/World.lean) -/
  world : Option World.W := none

def firstSome (fs : List (List String → Option String)) (toks : List String) : Option String :=
  fs.findSome? (fun f => f toks)

/-- a world log has both sides' ops in one stream: `S <op>` goes to the server model only, `C <op>` to the client model only
(`tick` and `tun` are ops of both) -/
def sideStep (st : DrvState) (side : String) (toks : List String) : Option (DrvState × String) :=
  if side == "S" then
    match Drv.ServerBytes.handle st.srv st.td toks with
    | some (sv, td, r) => some ({ st with srv := sv, td := td }, r)
    | none => (Drv.Server.handle st.srv toks).map fun (sv, r) => ({ st with srv := sv }, r)
  else if side == "C" then
    (Drv.Client.handle st.cli toks).map fun (cl, r) => ({ st with cli := cl }, r)
  else none

def step (st : DrvState) (line : String) : DrvState × String :=
  let toks := (line.trimAscii.toString.splitOn " ").filter (fun t => t ≠ "")
  match (match toks with
         | side :: rest => if side == "S" ∨ side == "C" then some ((sideStep st side rest).getD (st, "bad-op")) else none
         | [] => none) with
  | some r => r
  | none =>
  match firstSome [Drv.Codec.handle, Drv.Encoding.handle, Drv.Users.handle, Drv.Login.handle, Drv.Common.handle, Drv.WireRead.handle, Drv.WirePut.handle, Drv.Shell.handle, Drv.Downstream.handle, Drv.Negot.handle, Drv.Options.handle] toks with
  | some r => (st, r)
  | none =>
    match Drv.FwQuery.handle st.fw toks with
    | some (fw, r) => ({ st with fw := fw }, r)
    | none =>
    match Drv.Slots.handle st.slots toks with
    | some (sl, r) => ({ st with slots := sl }, r)
    | none =>
    -- `tick` and `tun` are ops of both session machines: the one configured last (`cfg` / `ccfg`) answers
    -- the loop-iteration ops of the server are answered at byte level; they share `td` with `wd`
    let srvH : Option (DrvState × String) :=
      match Drv.ServerBytes.handle st.srv st.td toks with
      | some (sv, td, r) => some ({ st with srv := sv, td := td }, r)
      | none =>
      (Drv.Server.handle st.srv toks).map fun (sv, r) =>
        ({ st with srv := sv, cli := if toks.head? == some "cfg" then { st.cli with configured := false } else st.cli }, r)
    let cliH : Option (DrvState × String) :=
      (Drv.Client.handle st.cli toks).map fun (cl, r) => ({ st with cli := cl }, r)
    match (if st.cli.configured then cliH <|> srvH else srvH <|> cliH) with
    | some r => r
    | none =>
    match Drv.World.handle st.srv.srv st.cli.s st.world toks with
    | some (w, r) => ({ st with world := w }, r)
    | none =>
    match Drv.Downstream.handleWd st.td toks with
    | some (td, r) => ({ st with td := td }, r)
    | none => (st, "bad-op")

partial def loop (h : IO.FS.Stream) (out : IO.FS.Stream) (st : DrvState) : IO Unit := do
  let line ← h.getLine
  if line.isEmpty then return ()
  let (st', r) := step st line
  out.putStrLn r
  loop h out st'

def main : IO Unit := do
  let out ← IO.getStdout
  loop (← IO.getStdin) out {}
