import IodineModel.Gen.Tables
import IodineModel.Bits
import IodineModel.Hex
import IodineModel.Codec.Generic
import IodineModel.Codec.Inst
import IodineModel.Lemmas.Codec
import IodineModel.Props.C07
