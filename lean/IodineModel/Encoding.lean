import IodineModel.Codec.Generic
/-
Model of `encoding.c`: `inline_dotify`, `inline_undotify`, `build_hostname`, `unpack_data`,
and of how the client's senders prefix the built name with their 1- or 5-character header.
-/
namespace Iodine.Encoding
open Iodine.Codec

def DOT : Nat := 46

/-- `inline_dotify` on a buffer that is large enough (always the case for the callers, whose
buffers are 4 KiB): a '.' after every 57th character, including after the last one when the
length is a multiple of 57.  `k` = characters since the last dot. -/
def dotifyAux : Nat → List Nat → List Nat
  | _, [] => []
  | k, c :: cs => if k + 1 = 57 then c :: DOT :: dotifyAux 0 cs else c :: dotifyAux (k + 1) cs

def dotify (s : List Nat) : List Nat := dotifyAux 0 s

/-- `inline_undotify(buf, len)`: drops the dots among the first `len` bytes -/
def undotify (s : List Nat) : List Nat := s.filter (fun c => c != DOT)

/-- `unpack_data(buf, cap, data, datalen, enc)` for the four codecs (none of them eats dots) -/
def unpackData (c : Codec) (cap : Nat) (data : List Nat) : List Nat :=
  let u := undotify data
  dec c cap u.length u

structure Built where
  /-- what is in `buf` afterwards, up to the NUL -/
  name : List Nat
  /-- return value: input bytes consumed -/
  used : Nat
  deriving Repr, DecidableEq

/-- `build_hostname(buf, buflen, data, datalen, topdomain, encoder, maxlen)`.
`prev` is the byte in front of `buf` (the callers pass `buf+1` / `buf+5`), which the C looks at
when the encoding is empty.  `none`: `min(maxlen,buflen) - strlen(topdomain) - 8` underflows
(size_t) and the C encodes without a meaningful bound. -/
def buildHostname (c : Codec) (maxlen buflen prev : Nat) (td d : List Nat) : Option Built :=
  if min maxlen buflen < td.length + 8 then none else
  let space0 := min maxlen buflen - td.length - 8
  let space := space0 - space0 / 57
  let r := enc c space d
  let s := dotify r.chars
  let last := s.getLast?.getD prev
  let s' := if last = DOT then s else s ++ [DOT]
  some ⟨s' ++ td, r.used⟩

/-- What `handle_null_request` does to get at the data of a name it accepted: the first `dlen`
characters (`dlen` = result of `query_datalen`) without the `h` header characters, undotified,
decoded.  -/
def serverExtract (c : Codec) (h dlen : Nat) (name : List Nat) : List Nat :=
  unpackData c 65536 ((name.take dlen).drop h)

/-- Legal dotted DNS name: every label 1..63 characters, scanning automaton.
`n` = length of the label being read. -/
def legalAux : Nat → List Nat → Bool
  | n, [] => decide (1 ≤ n ∧ n ≤ 63)
  | n, c :: cs => if c = DOT then decide (1 ≤ n ∧ n ≤ 63) && legalAux 0 cs else legalAux (n + 1) cs

end Iodine.Encoding
