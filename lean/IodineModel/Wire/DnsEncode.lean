import IodineModel.Wire.Put
import IodineModel.Common
/-
Model of the encoders of /repo/src/dns.c:

  int dns_encode(char *buf, size_t buflen, struct query *q, qr_t qr, const char *data, size_t datalen)
  int dns_encode_ns_response(char *buf, size_t buflen, struct query *q, char *topdomain)
  int dns_encode_a_response(char *buf, size_t buflen, struct query *q)

`buf` is an object of exactly `buflen` bytes (all callers pass `sizeof(buf)`), zero-filled by the
`memset`.  A result `R.ok pkt` means: the function returns `pkt.length` and `buf[0 .. pkt.length) = pkt`;
`R.ret rv` means it returns `rv` (0 = "doesn't fit", -1 = refused); `R.fault .oobWrite` means it stores
outside `buf` (see IodineModel/Wire/Put.lean for the buffer model).

`#define CHECKLEN(x) if (buflen < (x) + (unsigned)(p-buf)) return 0` is `checklen`.
`q->id`, `q->type` are `unsigned short`s: callers of the model pass values `< 65536`.
`q->name` is a C string (NUL-free list).  `data` is the memory `data` points to: for CNAME/A/MX/SRV the
code reads C strings from it (the model treats the end of the list like a NUL), for TXT/NULL exactly
`datalen` bytes.
-/
namespace Iodine.Wire.DnsEncode
open Iodine.Wire.Put

def T_A : Nat := 1
def T_NS : Nat := 2
def T_CNAME : Nat := 5
def T_NULL : Nat := 10
def T_MX : Nat := 15
def T_TXT : Nat := 16
def T_SRV : Nat := 33
def T_OPT : Nat := 41
def T_PRIVATE : Nat := 65399
def C_IN : Nat := 1

/-- the 12 header bytes after `memset`, `id`, the flag bits and `qdcount = 1`
(`flags1` = qr/opcode/aa/tc/rd: 0x84 for the answers (qr, aa), 0x01 for a query (rd)) -/
def header (id flags1 : Nat) : List Nat :=
  [id / 256 % 256, id % 256, flags1, 0, 0, 1, 0, 0, 0, 0, 0, 0]

/-- `header-><count> = htons(v)` for the 16-bit field at byte offset `off` of the header -/
def setCount (bytes : List Nat) (off v : Nat) : List Nat :=
  (bytes.set off (v / 256 % 256)).set (off + 1) (v % 256)

/-- `CHECKLEN(x)` -/
def checklen (buflen : Nat) (b : Buf) (x : Nat) : R Unit :=
  if buflen < x + b.pos then .ret 0 else .ok ()

/-- the C string at the start of a memory area -/
def cstr (mem : List Nat) : List Nat := mem.takeWhile (· ≠ 0)

/-- `putshort(&p, name); putshort(&p, type); putshort(&p, C_IN); putlong(&p, ttl);`
with `name = 0xc000 | ((p - buf) & 0x3fff)` taken at `p - buf = 12` -/
def rrHead (b : Buf) (name ty ttl : Nat) : R Buf := do
  let b ← putshort b name
  let b ← putshort b ty
  let b ← putshort b C_IN
  putlong b ttl

/-- pointer to the question name: `0xc000 | (12 & 0x3fff)` -/
def namePtr : Nat := 0xc00c

/-- CNAME/A branch; `data` is the memory behind the `data` pointer -/
def ansCname (buflen ty : Nat) (b : Buf) (data : List Nat) : R (Buf × Nat) := do
  checklen buflen b 10
  let b ← rrHead b namePtr (if ty = T_A then T_CNAME else ty) 0
  let startp := b.pos
  let b := b.skip 2
  let (_, b) ← putname b ((buflen : Int) - b.pos) (cstr data)
  checklen buflen b 0
  let b ← patchShort b startp (b.pos - startp - 2)
  pure (b, 1)

/-- the NUL-separated strings the MX/SRV loop walks over: the first one, then the following ones up to
(excluding) the first empty one -/
def splitNul : List Nat → List Nat × List (List Nat)
  | [] => ([], [])
  | c :: r =>
    let sr := splitNul r
    if c = 0 then ([], sr.1 :: sr.2) else (c :: sr.1, sr.2)

def mxNames (data : List Nat) : List (List Nat) :=
  (splitNul data).1 :: (splitNul data).2.takeWhile (fun s => !s.isEmpty)

/-- the `while (1)` loop of the MX/SRV branch, one iteration per string; returns the buffer -/
def mxLoop (buflen ty : Nat) : List (List Nat) → Nat → Buf → R Buf
  | [], _, b => .ok b
  | nm :: rest, ancnt, b => do
    checklen buflen b 10
    let b ← rrHead b namePtr ty 0
    let startp := b.pos
    let b := b.skip 2
    checklen buflen b 2
    let b ← putshort b (10 * ancnt)
    let b ← (if ty = T_SRV then do
        checklen buflen b 4
        let b ← putshort b 10
        putshort b 5060
      else pure b)
    let (_, b) ← putname b ((buflen : Int) - b.pos) nm
    checklen buflen b 0
    let b ← patchShort b startp (b.pos - startp - 2)
    mxLoop buflen ty rest (ancnt + 1) b

def ansMx (buflen ty : Nat) (b : Buf) (data : List Nat) : R (Buf × Nat) := do
  let names := mxNames data
  let b ← mxLoop buflen ty names 1 b
  pure (b, names.length)

def ansTxt (buflen ty : Nat) (b : Buf) (data : List Nat) (datalen : Nat) : R (Buf × Nat) := do
  checklen buflen b 10
  let b ← rrHead b namePtr ty 0
  let startp := b.pos
  let b := b.skip 2
  let (_, b) ← puttxtbin b ((buflen : Int) - b.pos) (data.take datalen)
  checklen buflen b 0
  let b ← patchShort b startp (b.pos - startp - 2)
  pure (b, 1)

def ansNull (buflen ty : Nat) (b : Buf) (data : List Nat) (datalen : Nat) : R (Buf × Nat) := do
  checklen buflen b 10
  let b ← rrHead b namePtr ty 0
  let datalen := min datalen (buflen - b.pos)
  checklen buflen b 2
  let b ← putshort b datalen
  checklen buflen b datalen
  let b ← putdata b (data.take datalen)
  checklen buflen b 0
  pure (b, 1)

/-- the `if (q->type == T_CNAME || q->type == T_A) … else if … else …` of the answer section -/
def ansBranch (buflen ty : Nat) (b : Buf) (data : List Nat) (datalen : Nat) : R (Buf × Nat) :=
  if ty = T_CNAME ∨ ty = T_A then ansCname buflen ty b data
  else if ty = T_MX ∨ ty = T_SRV then ansMx buflen ty b data
  else if ty = T_TXT then ansTxt buflen ty b data datalen
  else ansNull buflen ty b data datalen

/-- `dns_encode(buf, buflen, q, QR_ANSWER, data, datalen)` with `q->id = id`, `q->type = ty`,
`q->name = qname` -/
def dnsEncodeAnswer (buflen id ty : Nat) (qname data : List Nat) (datalen : Nat) : R (List Nat) :=
  if buflen < 12 then .ret 0 else do
  let b : Buf := ⟨(header id 0x84).toArray, buflen⟩
  let (_, b) ← putname b ((buflen : Int) - b.pos) qname
  checklen buflen b 4
  let b ← putshort b ty
  let b ← putshort b C_IN
  let r ← ansBranch buflen ty b data datalen
  pure (setCount r.1.bytes.toList 6 r.2)

/-- the EDNS0 OPT pseudo-record of the query -/
def putOpt (b : Buf) : R Buf := do
  let b ← putbyte b 0
  let b ← putshort b 0x0029
  let b ← putshort b 0x1000
  let b ← putshort b 0x0000
  let b ← putshort b 0x8000
  putshort b 0x0000

/-- `dns_encode(buf, buflen, q, QR_QUERY, host, datalen)` with `dnsc_use_edns0 = edns`;
`host` is the C string `data` points to (all callers pass `datalen = strlen(host)`). -/
def dnsEncodeQueryL (buflen id ty : Nat) (edns : Bool) (host : List Nat) (datalen : Nat) : R (List Nat) :=
  if buflen < 12 then .ret 0 else do
  let b : Buf := ⟨(header id 0x01).toArray, buflen⟩
  let datalen := min datalen (buflen - b.pos)
  let (_, b) ← putname b (datalen : Int) host
  checklen buflen b 4
  let b ← putshort b ty
  let b ← putshort b C_IN
  if edns then do
    checklen buflen b 11
    let b ← putOpt b
    pure (setCount b.bytes.toList 10 1)
  else pure b.bytes.toList

/-- the call as made by client.c `send_query` and iodined.c: `datalen = strlen(host)` -/
def dnsEncodeQuery (buflen id ty : Nat) (edns : Bool) (host : List Nat) : R (List Nat) :=
  dnsEncodeQueryL buflen id ty edns host host.length

/-- the four address bytes `*(ipp++)` -/
def putAddr (b : Buf) (addr : List Nat) : R Buf := do
  let b ← putbyte b (addr.getD 0 0)
  let b ← putbyte b (addr.getD 1 0)
  let b ← putbyte b (addr.getD 2 0)
  putbyte b (addr.getD 3 0)

/-- `dns_encode_ns_response(buf, buflen, q, topdomain)`; `dest = some [a,b,c,d]` iff
`q->destination.ss_family == AF_INET`, the bytes of `sin_addr` in memory (network) order -/
def dnsEncodeNsResponse (buflen id ty : Nat) (qname topdomain : List Nat) (dest : Option (List Nat)) :
    R (List Nat) :=
  if buflen < 12 then .ret 0
  else if qname.length < topdomain.length ∨ qname.length = topdomain.length + 1 then .ret (-1)
  else
    let dl := qname.length - topdomain.length
    -- strcasecmp(q->name + domain_len, topdomain): both have the same length here
    if (qname.drop dl).map Iodine.Common.toLower ≠ topdomain.map Iodine.Common.toLower then .ret (-1)
    else if dl ≥ 1 ∧ qname[dl - 1]? ≠ some 46 then .ret (-1)
    else do
    -- qdcount = ancount = 1
    let b : Buf := ⟨(setCount (header id 0x84) 6 1).toArray, buflen⟩
    let topname := 0xc000 + (12 + dl) % 16384
    let (_, b) ← putname b ((buflen : Int) - b.pos) qname
    checklen buflen b 4
    let b ← putshort b ty
    let b ← putshort b C_IN
    checklen buflen b 12
    let b ← rrHead b namePtr ty 3600
    let b ← putshort b 5
    let nsname := 0xc000 + b.pos % 16384
    checklen buflen b 5
    let b ← putbyte b 2
    let b ← putbyte b 110
    let b ← putbyte b 115
    let b ← putshort b topname
    match dest with
    | none => pure b.bytes.toList
    | some addr =>
      checklen buflen b 12
      let b ← rrHead b nsname T_A 3600
      let b ← putshort b 4
      checklen buflen b 4
      let b ← putAddr b addr
      pure (setCount b.bytes.toList 10 1)

/-- `dns_encode_a_response(buf, buflen, q)` -/
def dnsEncodeAResponse (buflen id ty : Nat) (qname : List Nat) (dest : Option (List Nat)) : R (List Nat) :=
  match dest with
  | none => .ret (-1)
  | some addr =>
    if buflen < 12 then .ret 0 else do
    let b : Buf := ⟨(setCount (header id 0x84) 6 1).toArray, buflen⟩
    let (_, b) ← putname b ((buflen : Int) - b.pos) qname
    checklen buflen b 4
    let b ← putshort b ty
    let b ← putshort b C_IN
    checklen buflen b 12
    let b ← rrHead b namePtr ty 3600
    let b ← putshort b 4
    checklen buflen b 4
    let b ← putAddr b addr
    pure b.bytes.toList

end Iodine.Wire.DnsEncode
