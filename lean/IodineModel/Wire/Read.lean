/-
Model of the READ side of iodine's DNS wire format, `/repo/src/read.c`:
`readname_loop`/`readname`, `readshort`, `readlong`, `readdata`, `readtxtbin`.

The receive buffer.  Client and server receive into `char packet[64*1024]` and hand
`(packet, packetlen)` to the decoders; `packetlen` is the length of the datagram, the bytes at index
≥ `packetlen` are *stale residue* of earlier datagrams.  `RxBuf` models exactly that: `pkt` is the
datagram, `res` a residue pattern (byte at index `i ≥ pkt.size` is `res[i % res.size]`, zero for the empty
pattern — this is what `rx_buffer` of harness/h_wire.h builds), `cap` the size of the C array.  EVERY C
read `packet[i]`/`*s`/`p[k]`/`memcpy(…, src, n)` goes through `RxBuf.get`, which returns
`Fault.oob` for an index ≥ `cap` (C: read outside the array) and the residue byte for
`pkt.size ≤ i < cap` — the model is able to express a dependence on the residue; that the current code
has none is the content of Props/C12.lean, not of this file.

`pkt`/`res` are `Array Nat` (not `List Nat`): the driver is fed datagrams of up to 64 KiB and the decoders
follow compression pointers, i.e. they index randomly.

Pointers (`char *s`, `*src`, `data`) are `Nat` offsets into the buffer.  Local C arrays are Lean lists
holding the bytes written so far; every write checks the capacity of the C array and yields
`Fault.oobWrite` beyond it.  Loops that are not structurally recursive carry fuel; running out of fuel is
the fault `Fault.fuel`, so the no-fault theorems of C12 contain the statement that the fuel suffices
(= the C loop terminates within that many iterations).

`readname_loop`, invariants of the C code used by the transcription (each is obvious from the text):
`d == dst + len` (both are only ever incremented together), so the list `out` of bytes written so far
determines both (`len = out.length`); the function returns the number of bytes it has written
(`0` and nothing written on the three `return 0` exits, which also leave `*src` untouched).
`len < length - 2` / `len < length - 1` are `size_t` comparisons; they are transcribed as
`len + 2 < length` / `len + 1 < length`, which is the same for `length ≥ 2`.  All callers pass
`length ∈ {255, 256}` or, recursively, `length - len ≥ 3`; `readname` below rejects `length < 3`
like the harness does (`bad-op`).
-/
namespace Iodine.Wire

inductive Fault where
  /-- read outside the receive buffer (or outside a local array) -/
  | oob
  /-- write outside a local array / the caller's buffer -/
  | oobWrite
  /-- a fuelled loop ran out of fuel (never happens, see C12.no_fault_*) -/
  | fuel
  /-- precondition of the model violated by the caller (`readname` with `length < 3`) -/
  | precond
  deriving DecidableEq, Repr, Inhabited

/-- (core has no `DecidableEq (Except ε α)`; needed to `decide` concrete runs of the model) -/
instance {ε α} [DecidableEq ε] [DecidableEq α] : DecidableEq (Except ε α)
  | .ok a, .ok b => if h : a = b then isTrue (h ▸ rfl) else isFalse (fun e => h (Except.ok.inj e))
  | .error a, .error b => if h : a = b then isTrue (h ▸ rfl) else isFalse (fun e => h (Except.error.inj e))
  | .ok _, .error _ => isFalse (fun e => nomatch e)
  | .error _, .ok _ => isFalse (fun e => nomatch e)

structure RxBuf where
  /-- the datagram -/
  pkt : Array Nat
  /-- residue pattern -/
  res : Array Nat := #[]
  /-- size of the C array `packet[]` -/
  cap : Nat := 65536

namespace RxBuf

/-- `packetlen` -/
@[reducible] def plen (b : RxBuf) : Nat := b.pkt.size

/-- `packet[i]` -/
def get (b : RxBuf) (i : Nat) : Except Fault Nat :=
  if b.cap ≤ i then .error .oob
  else if i < b.pkt.size then .ok (b.pkt.getD i 0)
  else if b.res.size = 0 then .ok 0
  else .ok (b.res.getD (i % b.res.size) 0)

end RxBuf

/-! ### C arrays that start zero-filled

A zero-initialised C array is represented by the list of its leading bytes; everything behind the list
is still zero. -/

/-- the C string stored in an array: bytes up to the first NUL -/
def cstr (a : List Nat) : List Nat := a.takeWhile (· ≠ 0)

/-- the array after `w` has been stored at its start (`readname(…, dst = a, …)` wrote `w`) -/
def overwrite (a w : List Nat) : List Nat := w ++ a.drop w.length

/-- store one byte behind the `out.length` bytes already written to an array of `cap` bytes -/
def push (cap : Nat) (out : List Nat) (x : Nat) : Except Fault (List Nat) :=
  if out.length < cap then .ok (out ++ [x]) else .error .oobWrite

/-! ### readname -/

/-- `dst[len++] = '\0'; end: (*src) = (s < end) ? s + 1 : end; return len;` -/
def nameFinish (b : RxBuf) (length s : Nat) (out : List Nat) : Except Fault (Nat × List Nat) := do
  let out ← push length out 0
  .ok (if s < b.plen then s + 1 else b.plen, out)

/-- `while (c && len < length - 1 && s < end) { *d++ = *s++; len++; c--; }` -/
def copyLabel (b : RxBuf) (length : Nat) : (c : Nat) → (s : Nat) → (out : List Nat) →
    Except Fault (Nat × List Nat)
  | 0, s, out => .ok (s, out)
  | c+1, s, out =>
    if out.length + 1 < length ∧ s < b.plen then do
      let x ← b.get s
      let out ← push length out x
      copyLabel b length c (s + 1) out
    else .ok (s, out)

/-- The `while` loop of one `readname_loop` activation, from the loop test on.  `rec off len'` is the
recursive call `readname_loop(packet, packetlen, &dummy, d, len', loop - 1)` with
`dummy = packet + off`; it returns what that call wrote at `d`.  `src0` is the caller's `*src`
(returned unchanged by the `return 0` exits).  Result: new `*src` and everything written to `dst`;
the C return value is the length of the latter. -/
def nameLoop (b : RxBuf) (length : Nat) (rec : Nat → Nat → Except Fault (List Nat)) (src0 : Nat) :
    (fuel : Nat) → (s : Nat) → (out : List Nat) → Except Fault (Nat × List Nat)
  | fuel, s, out =>
    -- while (s < end && *s && len < length - 2)
    if ¬ s < b.plen then nameFinish b length s out else do
    let c ← b.get s
    if c = 0 ∨ ¬ out.length + 2 < length then nameFinish b length s out else
    match fuel with
    | 0 => .error .fuel
    | fuel+1 =>
      -- c = *s++
      let s := s + 1
      if c &&& 0xc0 = 0xc0 then
        -- second byte of the pointer is missing: break
        if ¬ s < b.plen then nameFinish b length s out else do
        let c2 ← b.get s
        let offset := ((c &&& 0x3f) <<< 8) ||| (c2 &&& 0xff)
        if offset ≥ b.plen then
          -- bad jump: first in packet `return 0`, after some data `break`
          if out.length = 0 then .ok (src0, []) else nameFinish b length s out
        else do
          let sub ← rec offset (length - out.length)
          if sub.length = 0 ∧ out.length > 0 then do
            -- nothing usable behind the pointer: dst[len++] = '\0'
            let out ← push length out 0
            .ok (s + 1, out)
          else
            -- len += offset; goto end   (here s < end)
            .ok (s + 1, out ++ sub)
      else if c &&& 0xc0 ≠ 0 then
        -- reserved label type
        if out.length = 0 then .ok (src0, []) else nameFinish b length s out
      else do
        let (s, out) ← copyLabel b length c s out
        if out.length + 1 ≥ length then nameFinish b length s out else
        if s < b.plen then do
          let x ← b.get s
          if x ≠ 0 then do
            let out ← push length out 46
            nameLoop b length rec src0 fuel s out
          else nameLoop b length rec src0 fuel s out
        else nameLoop b length rec src0 fuel s out

/-- `readname_loop(packet, packetlen, &src, dst, length, loop)`: new `*src`, bytes written to `dst`.
Every iteration of the `while` loop advances `s`, which stays ≤ `end`: `plen` iterations suffice. -/
def readnameLoop (b : RxBuf) : (loop : Nat) → (src : Nat) → (length : Nat) → Except Fault (Nat × List Nat)
  | 0, src, _ => .ok (src, [])
  | loop+1, src, length =>
    nameLoop b length (fun off len' => (readnameLoop b loop off len').map (·.2)) src b.plen src []

/-- `readname(packet, packetlen, &src, dst, length)`; result `(new *src, bytes written to dst)`,
the C return value is the number of bytes written. -/
def readname (b : RxBuf) (src length : Nat) : Except Fault (Nat × List Nat) :=
  if length < 3 then .error .precond else readnameLoop b 10 src length

/-- the C return value of `readname` -/
def readnameRv (r : Nat × List Nat) : Nat := r.2.length

/-! ### readshort, readlong, readdata -/

/-- `readshort`: `(value, new *src)` -/
def readshort (b : RxBuf) (src : Nat) : Except Fault (Nat × Nat) := do
  let p0 ← b.get src
  let p1 ← b.get (src + 1)
  .ok (((p0 <<< 8) ||| p1) % 65536, src + 2)

/-- `readlong`: `(value, new *src)` -/
def readlong (b : RxBuf) (src : Nat) : Except Fault (Nat × Nat) := do
  let p0 ← b.get src
  let p1 ← b.get (src + 1)
  let p2 ← b.get (src + 2)
  let p3 ← b.get (src + 3)
  .ok (((p0 <<< 24) ||| (p1 <<< 16) ||| (p2 <<< 8) ||| p3) % 4294967296, src + 4)

/-- the bytes `src[0..n)` as `memcpy(dst, src, n)` reads them -/
def readBytes (b : RxBuf) : (n : Nat) → (src : Nat) → Except Fault (List Nat)
  | 0, _ => .ok []
  | n+1, src => do
    let x ← b.get src
    let r ← readBytes b n (src + 1)
    .ok (x :: r)

/-- `readdata(packet, &src, dst, len)` into a `dst` of `dstcap` bytes: `(bytes stored, new *src)` -/
def readdata (b : RxBuf) (src len dstcap : Nat) : Except Fault (List Nat × Nat) :=
  if dstcap < len then .error .oobWrite else do
  let d ← readBytes b len src
  .ok (d, src + len)

/-! ### readtxtbin -/

/-- the `while (srcremain > 0)` loop; `dstcap` is the real capacity of `dst`, `out` what has been stored
(`dstused = out.length`).  Result `(rv, new *src, bytes stored in dst)`; the two `return 0` exits leave
what was already copied in `dst`. -/
def readtxtbinGo (b : RxBuf) (dstcap : Nat) :
    (fuel : Nat) → (src srcremain dstremain : Nat) → (out : List Nat) → Except Fault (Nat × Nat × List Nat)
  | fuel, src, srcremain, dstremain, out =>
    if srcremain = 0 then .ok (out.length, src, out) else
    match fuel with
    | 0 => .error .fuel
    | fuel+1 => do
      let tocopy ← b.get src
      let src := src + 1
      let srcremain := srcremain - 1
      if tocopy > srcremain then .ok (0, src, out)
      else if tocopy > dstremain then .ok (0, src, out)
      else do
        let bytes ← readBytes b tocopy src
        if out.length + tocopy > dstcap then .error .oobWrite else
        readtxtbinGo b dstcap fuel (src + tocopy) (srcremain - tocopy) (dstremain - tocopy) (out ++ bytes)

/-- `readtxtbin(packet, &src, srcremain, dst, dstremain)` with a `dst` of exactly `dstremain` bytes.
`srcremain` strictly decreases in every iteration. -/
def readtxtbin (b : RxBuf) (src srcremain dstremain : Nat) : Except Fault (Nat × Nat × List Nat) :=
  readtxtbinGo b dstremain srcremain src srcremain dstremain []

end Iodine.Wire
