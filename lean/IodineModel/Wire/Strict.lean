/-
A strict RFC 1035 message parser — the SPECIFICATION side of property C10.  It shares no code with the
model of dns.c / read.c (IodineModel/Wire/Put.lean, DnsEncode.lean): it has its own byte readers and its
own treatment of names.

`parseMsg : List Nat → Option Msg` accepts exactly the byte strings that are one well-formed DNS message:

* every byte is `< 256`; a 12-byte header; then exactly QDCOUNT questions, ANCOUNT + NSCOUNT + ARCOUNT
  resource records, and nothing after the last record;
* a name is a sequence of labels of 1..63 bytes ended either by the root byte 0 or by ONE compression
  pointer (two bytes, top bits 11); label types 01 and 10 are rejected; the expanded name takes at most
  255 bytes on the wire (length bytes and root byte included);
* a compression pointer must point strictly backwards (before the start of the name it occurs in) to an
  offset at which a label or a pointer of an EARLIER-PARSED name starts (`St.known` records these
  offsets together with the name suffix that starts there, so no byte is ever interpreted twice);
* RDLENGTH bytes must be present, and for the types with structured RDATA the structure must fill
  RDLENGTH exactly: A = 4 bytes; NS/CNAME/PTR = one name; MX = 16-bit preference + name;
  SRV = priority, weight, port + name; TXT = one or more length-prefixed character strings tiling the
  RDATA exactly; OPT = (code, length, data) options tiling the RDATA exactly, owner = root, and only in
  the additional section.  All other types: opaque RDATA.

The parser is a stream parser over the unread bytes; the offset of the next byte is carried along.
-/
namespace Iodine.Wire.Strict

abbrev Label := List Nat
/-- a domain name as its list of labels, the root is `[]` -/
abbrev Name := List Label

/-- typed view of an RDATA -/
inductive RData where
  | a (addr : List Nat)
  | name (target : Name)                                  -- NS, CNAME, PTR
  | mx (pref : Nat) (exchange : Name)
  | srv (prio weight port : Nat) (target : Name)
  | txt (strings : List (List Nat))
  | opt (options : List (Nat × List Nat))
  | other
  deriving DecidableEq, Repr

structure RR where
  owner : Name
  type : Nat
  cls : Nat
  ttl : Nat
  rdata : List Nat
  view : RData
  deriving DecidableEq, Repr

structure Msg where
  id : Nat
  flags : Nat
  /-- questions: (name, type, class) -/
  qd : List (Name × Nat × Nat)
  an : List RR
  ns : List RR
  ar : List RR
  deriving DecidableEq, Repr

/-- parser state: unread bytes, message offset of the first unread byte, and the compression targets
registered so far (offset ↦ the name suffix whose label/pointer starts at that offset) -/
structure St where
  inp : List Nat
  pos : Nat
  known : List (Nat × Name)
  deriving Repr

def u8 (s : St) : Option (Nat × St) :=
  match s.inp with
  | a :: r => some (a, ⟨r, s.pos + 1, s.known⟩)
  | [] => none

def u16 (s : St) : Option (Nat × St) :=
  match s.inp with
  | a :: b :: r => some (a * 256 + b, ⟨r, s.pos + 2, s.known⟩)
  | _ => none

def u32 (s : St) : Option (Nat × St) :=
  match s.inp with
  | a :: b :: c :: d :: r => some (((a * 256 + b) * 256 + c) * 256 + d, ⟨r, s.pos + 4, s.known⟩)
  | _ => none

/-- exactly `n` bytes -/
def takeN (n : Nat) (s : St) : Option (List Nat × St) :=
  if s.inp.length < n then none
  else some (s.inp.take n, ⟨s.inp.drop n, s.pos + n, s.known⟩)

/-- the first registration of offset `off` -/
def lookup : List (Nat × Name) → Nat → Option Name
  | [], _ => none
  | (o, n) :: r, off => if o = off then some n else lookup r off

/-- bytes of a name on the wire without compression: length bytes, labels, root byte -/
def wireLen (n : Name) : Nat := (n.map (fun l => l.length + 1)).sum + 1

/-- Label loop of a name that starts at offset `start`.  Result: the name from the current position on,
the compression targets it contributes (offset ↦ suffix), and the state after the name. -/
def nameLoop : Nat → Nat → St → Option (Name × List (Nat × Name) × St)
  | 0, _, _ => none
  | fuel + 1, start, s =>
    match s.inp with
    | [] => none
    | c :: r =>
      if c = 0 then some ([], [], ⟨r, s.pos + 1, s.known⟩)
      else if c ≤ 63 then
        if r.length < c then none
        else
          match nameLoop fuel start ⟨r.drop c, s.pos + 1 + c, s.known⟩ with
          | none => none
          | some (n, es, s') => some (r.take c :: n, (s.pos, r.take c :: n) :: es, s')
      else if 192 ≤ c ∧ c < 256 then
        match r with
        | [] => none
        | d :: r' =>
          let off := (c - 192) * 256 + d
          if off < start then
            match lookup s.known off with
            | some suffix => some (suffix, [(s.pos, suffix)], ⟨r', s.pos + 2, s.known⟩)
            | none => none
          else none
      else none

/-- one domain name; registers its label and pointer offsets as compression targets -/
def parseName (s : St) : Option (Name × St) :=
  match nameLoop 128 s.pos s with
  | none => none
  | some (n, es, s') =>
    if wireLen n ≤ 255 then some (n, ⟨s'.inp, s'.pos, s'.known ++ es⟩) else none

/-- `<character-string>`s tiling `raw` exactly -/
def txtStrings : Nat → List Nat → Option (List (List Nat))
  | 0, _ => none
  | fuel + 1, raw =>
    match raw with
    | [] => some []
    | c :: r =>
      if r.length < c then none
      else
        match txtStrings fuel (r.drop c) with
        | none => none
        | some ss => some (r.take c :: ss)

/-- EDNS options `(code, length, data)` tiling `raw` exactly -/
def optOptions : Nat → List Nat → Option (List (Nat × List Nat))
  | 0, _ => none
  | fuel + 1, raw =>
    match raw with
    | [] => some []
    | c1 :: c2 :: l1 :: l2 :: r =>
      if r.length < l1 * 256 + l2 then none
      else
        match optOptions fuel (r.drop (l1 * 256 + l2)) with
        | none => none
        | some os => some ((c1 * 256 + c2, r.take (l1 * 256 + l2)) :: os)
    | _ => none

inductive Section where
  | answer | authority | additional
  deriving DecidableEq, Repr

/-- the typed RDATA of a record of type `ty` whose RDATA is the next `rdlen` bytes; the state returned
is the one after the structured data (the caller checks that it is exactly `rdlen` bytes further) -/
def parseRData (sec : Section) (owner : Name) (ty rdlen : Nat) (s : St) : Option (RData × St) :=
  if ty = 1 then
    if rdlen = 4 then (takeN 4 s).map (fun (d, s') => (RData.a d, s')) else none
  else if ty = 2 ∨ ty = 5 ∨ ty = 12 then
    (parseName s).map (fun (n, s') => (RData.name n, s'))
  else if ty = 15 then
    match u16 s with
    | none => none
    | some (pref, s1) => (parseName s1).map (fun (n, s') => (RData.mx pref n, s'))
  else if ty = 33 then
    match u16 s with
    | none => none
    | some (prio, s1) =>
      match u16 s1 with
      | none => none
      | some (weight, s2) =>
        match u16 s2 with
        | none => none
        | some (port, s3) => (parseName s3).map (fun (n, s') => (RData.srv prio weight port n, s'))
  else if ty = 16 then
    match takeN rdlen s with
    | none => none
    | some (raw, s') =>
      match txtStrings (rdlen + 1) raw with
      | some (st :: ss) => some (RData.txt (st :: ss), s')
      | _ => none
  else if ty = 41 then
    if sec = Section.additional ∧ owner = [] then
      match takeN rdlen s with
      | none => none
      | some (raw, s') => (optOptions (rdlen + 1) raw).map (fun os => (RData.opt os, s'))
    else none
  else (takeN rdlen s).map (fun (_, s') => (RData.other, s'))

def parseRR (sec : Section) (s : St) : Option (RR × St) :=
  match parseName s with
  | none => none
  | some (owner, s1) =>
    match u16 s1 with
    | none => none
    | some (ty, s2) =>
      match u16 s2 with
      | none => none
      | some (cls, s3) =>
        match u32 s3 with
        | none => none
        | some (ttl, s4) =>
          match u16 s4 with
          | none => none
          | some (rdlen, s5) =>
            if s5.inp.length < rdlen then none
            else
              match parseRData sec owner ty rdlen s5 with
              | none => none
              | some (view, s6) =>
                if s6.pos = s5.pos + rdlen then
                  some (⟨owner, ty, cls, ttl, s5.inp.take rdlen, view⟩, s6)
                else none

def parseRRs (sec : Section) : Nat → St → Option (List RR × St)
  | 0, s => some ([], s)
  | n + 1, s =>
    match parseRR sec s with
    | none => none
    | some (rr, s') =>
      match parseRRs sec n s' with
      | none => none
      | some (rrs, s'') => some (rr :: rrs, s'')

def parseQuestion (s : St) : Option ((Name × Nat × Nat) × St) :=
  match parseName s with
  | none => none
  | some (n, s1) =>
    match u16 s1 with
    | none => none
    | some (ty, s2) =>
      match u16 s2 with
      | none => none
      | some (cls, s3) => some ((n, ty, cls), s3)

def parseQuestions : Nat → St → Option (List (Name × Nat × Nat) × St)
  | 0, s => some ([], s)
  | n + 1, s =>
    match parseQuestion s with
    | none => none
    | some (q, s') =>
      match parseQuestions n s' with
      | none => none
      | some (qs, s'') => some (q :: qs, s'')

/-- header, sections, end of input (bytes already known to be `< 256`) -/
def parseBody (bytes : List Nat) : Option Msg :=
  match bytes with
  | i1 :: i2 :: f1 :: f2 :: q1 :: q2 :: a1 :: a2 :: n1 :: n2 :: r1 :: r2 :: rest =>
    match parseQuestions (q1 * 256 + q2) ⟨rest, 12, []⟩ with
    | none => none
    | some (qd, s1) =>
      match parseRRs .answer (a1 * 256 + a2) s1 with
      | none => none
      | some (an, s2) =>
        match parseRRs .authority (n1 * 256 + n2) s2 with
        | none => none
        | some (ns, s3) =>
          match parseRRs .additional (r1 * 256 + r2) s3 with
          | none => none
          | some (ar, s4) =>
            if s4.inp.isEmpty then some ⟨i1 * 256 + i2, f1 * 256 + f2, qd, an, ns, ar⟩ else none
  | _ => none

def parseMsg (bytes : List Nat) : Option Msg :=
  if bytes.all (· < 256) then parseBody bytes else none

end Iodine.Wire.Strict
