/-
Model of the write half of /repo/src/read.c:

  int putname(char **buf, size_t buflen, const char *host)
  int putbyte(char **dst, unsigned char value)      int putshort(char **dst, unsigned short value)
  int putlong(char **dst, uint32_t value)           int putdata(char **dst, const char *data, size_t len)
  int puttxtbin(char **buf, size_t bufremain, const char *from, size_t fromremain)

The output buffer is modelled as the sequence of bytes `buf[0 .. p)` below the write pointer `p`
(`p = bytes.size`) together with the size `cap` of the underlying object.  All C writers write at `p`
and advance it, so a write is an append; a write at an index `≥ cap` is a buffer overflow in C and the
fault `Fault.oobWrite` here.  Bytes above `p` (which `putname` leaves behind when it fails after some
labels) are not represented: every caller overwrites them before they become part of an emitted message.

Results are three-way (`R`): a value, an early `return rv` of the enclosing C function, or a fault.

Size assumptions (all callers: buffers of 4 KiB / 64 KiB): every length is below 2^31, so that the
`size_t → int` conversion `left = buflen` in `putname` is value preserving for in-range values and maps
the wrapped-around `buflen - (p - buf)` (when `p` is beyond `buflen`) to the negative number
`buflen - p`; this is why `putname`/`puttxtbin` take their bound as an `Int`.
-/
namespace Iodine.Wire.Put

inductive Fault where
  /-- a store to `buf[i]` with `i ≥` the size of the buffer -/
  | oobWrite
  deriving DecidableEq, Repr

/-- value / early return of the enclosing function with `rv` / memory fault -/
inductive R (α : Type) where
  | ok (a : α)
  | ret (rv : Int)
  | fault (f : Fault)
  deriving DecidableEq, Repr

namespace R
def bind {α β} (x : R α) (f : α → R β) : R β :=
  match x with
  | .ok a => f a
  | .ret rv => .ret rv
  | .fault e => .fault e

instance : Monad R where
  pure := R.ok
  bind := R.bind

@[simp] theorem ok_bind {α β} (a : α) (f : α → R β) : (R.ok a >>= f) = f a := rfl
@[simp] theorem ret_bind {α β} (rv : Int) (f : α → R β) : (R.ret rv >>= f) = R.ret rv := rfl
@[simp] theorem fault_bind {α β} (e : Fault) (f : α → R β) : (R.fault e >>= f) = R.fault e := rfl
@[simp] theorem pure_eq {α} (a : α) : (pure a : R α) = R.ok a := rfl
end R

/-- `buf[0 .. p)` and the size of the object `buf` points into (an `Array` only to make the executable
driver linear-time; read it as the list `bytes.toList`) -/
structure Buf where
  bytes : Array Nat
  cap : Nat
  deriving DecidableEq, Repr

/-- `p - buf` -/
def Buf.pos (b : Buf) : Nat := b.bytes.size

/-- `**dst = value; (*dst)++` -/
def putbyte (b : Buf) (v : Nat) : R Buf :=
  if b.bytes.size < b.cap then .ok { b with bytes := b.bytes.push (v % 256) }
  else .fault .oobWrite

/-- `putshort(&p, v)`: big endian, `v` converted to `unsigned short` -/
def putshort (b : Buf) (v : Nat) : R Buf := do
  let b ← putbyte b (v / 256)
  putbyte b v

/-- `putlong(&p, v)` -/
def putlong (b : Buf) (v : Nat) : R Buf := do
  let b ← putbyte b (v / 16777216)
  let b ← putbyte b (v / 65536)
  let b ← putbyte b (v / 256)
  putbyte b v

/-- `putdata(&p, data, len)` with `data` the `len` bytes copied: `memcpy(*dst, data, len)` stores outside
the buffer iff `len > 0` and `p + len` exceeds its size -/
def putdata (b : Buf) (data : List Nat) : R Buf :=
  if data.isEmpty ∨ b.bytes.size + data.length ≤ b.cap then .ok { b with bytes := b.bytes ++ data.toArray }
  else .fault .oobWrite

/-- `p += n` without storing anything (`p += 2; /* skip 2 bytes length */`): the skipped bytes are the
zeros of the `memset`.  Not a store, hence never a fault, even if `p` leaves the buffer. -/
def Buf.skip (b : Buf) (n : Nat) : Buf := { b with bytes := b.bytes ++ (List.replicate n 0).toArray }

/-- `putshort(&startp, v)` for an earlier position `startp` (back-patching RDLENGTH) -/
def patchShort (b : Buf) (at_ : Nat) (v : Nat) : R Buf :=
  if at_ + 1 < b.cap then
    .ok { b with bytes := (b.bytes.setIfInBounds at_ (v / 256 % 256)).setIfInBounds (at_ + 1) (v % 256) }
  else .fault .oobWrite

/-! ### putname -/

/-- Split at every '.': first piece and the remaining pieces (`"a..b"` ↦ `("a", ["", "b"])`). -/
def splitDot : List Nat → List Nat × List (List Nat)
  | [] => ([], [])
  | c :: r =>
    let sr := splitDot r
    if c = 46 then ([], sr.1 :: sr.2) else (c :: sr.1, sr.2)

/-- The successive results of `strtok(h, ".")`, `strtok(NULL, ".")`, …: the non-empty pieces between
dots.  `host` is a C string (no NUL). -/
def tokens (host : List Nat) : List (List Nat) :=
  ((splitDot host).1 :: (splitDot host).2).filter (fun w => !w.isEmpty)

/-- The `while (word)` loop.  `left` is the C variable (`int`); the test
`strlen(word) > 63 || strlen(word) > left` compares in `size_t`, so a negative `left` is a huge bound.
`none` = `return -1`. -/
def putLabels (left : Int) (b : Buf) : List (List Nat) → R (Option (Int × Buf))
  | [] => .ok (some (left, b))
  | w :: ws =>
    if w.length > 63 ∨ (0 ≤ left ∧ (w.length : Int) > left) then .ok none
    else do
      let b ← putbyte b w.length
      let b ← putdata b w
      putLabels (left - ((w.length : Int) + 1)) b ws

/-- `putname(&p, buflen, host)`: returns the C return value and the new buffer.  On `-1` the pointer is
unchanged (labels already stored stay in memory above `p`, see the header comment).  The root byte is
stored without any test against `left`. -/
def putname (b : Buf) (buflen : Int) (host : List Nat) : R (Int × Buf) := do
  match ← putLabels buflen b (tokens host) with
  | none => .ok (-1, b)
  | some (left, b') =>
    let b'' ← putbyte b' 0
    .ok (buflen - left, b'')

/-! ### puttxtbin -/

/-- The `while (fromremain > 0)` loop; `remain` is `bufremain` (a `size_t`: a negative value stands for
the wrapped-around huge one, for which the test `tocopy + 1 > bufremain` never fires).
Result: C return value (`-1` or `bufused`) and the buffer; note that on `-1` the pointer HAS advanced
over the chunks already stored. -/
def txtLoop : Nat → Buf → Int → List Nat → Nat → R (Int × Buf)
  | 0, b, _, _, used => .ok (used, b)
  | fuel + 1, b, remain, frm, used =>
    if frm.isEmpty then .ok (used, b)
    else
      let tocopy := min frm.length 252
      if 0 ≤ remain ∧ (tocopy : Int) + 1 > remain then .ok (-1, b)
      else do
        let b ← putbyte b tocopy
        let b ← putdata b (frm.take tocopy)
        txtLoop fuel b (remain - 1 - tocopy) (frm.drop tocopy) (used + 1 + tocopy)

/-- `puttxtbin(&p, bufremain, from, fromremain)` with `from[0..fromremain) = frm` -/
def puttxtbin (b : Buf) (bufremain : Int) (frm : List Nat) : R (Int × Buf) :=
  txtLoop frm.length b bufremain frm 0

end Iodine.Wire.Put
