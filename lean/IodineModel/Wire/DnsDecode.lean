import IodineModel.Wire.Read
/-
Model of `dns_get_id` and `dns_decode` of `/repo/src/dns.c`, for `QR_QUERY` (the server receives a query:
`dns_decode(NULL, 0, q, QR_QUERY, packet, r)`) and for `QR_ANSWER` (the client — and `get_external_ip` of
the server — receive an answer: `dns_decode(buf, buflen, q, QR_ANSWER, packet, r)` with `buf ≠ NULL`).

`struct query *q` is non-NULL and, like in the harness (`op_dnsdec`), zero-filled before the call; the
result `Decoded` holds the return value, the fields of `q` the function sets and what it stored in the
caller's `buf` (capacity `buflen`).

`HEADER` (arpa/nameser_compat.h) overlays the first 12 bytes: id = bytes 0,1 (network order);
byte 2 = qr(1) opcode(4) aa tc rd, byte 3 = ra z ad cd rcode(4); qdcount = bytes 4,5; ancount = bytes 6,7.
`qdcount`/`ancount` are stored in `short`s: values ≥ 0x8000 are negative.

`CHECKLEN(x)` is `if (packetlen < (x) + (unsigned)(data-packet)) return 0` — `return 0` leaves in `q`
what has been stored up to there.  The sum is computed in `unsigned` (32 bit); `x ≤ 65535` and
`data - packet ≤ 65536 + 65535 + 4`, so it does not wrap.
-/
namespace Iodine.Wire

/-- what `dns_decode` returns and leaves behind -/
structure Decoded where
  rv : Int := 0
  /-- `q->id`, `q->type`, `q->rcode` -/
  id : Nat := 0
  type : Nat := 0
  rcode : Nat := 0
  /-- `q->name` as a C string -/
  name : List Nat := []
  /-- the leading bytes of the caller's `buf` that were stored (`buf[0..rv)` is a prefix of it when
  `rv > 0`) -/
  buf : List Nat := []
  deriving DecidableEq, Repr

/-- value of a 16-bit quantity stored in a `short` -/
def sshort (x : Nat) : Int := if x ≥ 32768 then (x : Int) - 65536 else x

/-- the header fields `dns_decode` looks at -/
structure Hdr where
  id : Nat
  qr : Nat
  rcode : Nat
  qdcount : Int
  ancount : Int

/-- reads of the `HEADER` bit-fields; only called when `packetlen ≥ sizeof(HEADER)` -/
def readHeader (b : RxBuf) : Except Fault Hdr := do
  let b0 ← b.get 0
  let b1 ← b.get 1
  let b2 ← b.get 2
  let b3 ← b.get 3
  let b4 ← b.get 4
  let b5 ← b.get 5
  let b6 ← b.get 6
  let b7 ← b.get 7
  .ok { id := ((b0 <<< 8) ||| b1) &&& 0xffff, qr := (b2 >>> 7) &&& 1, rcode := b3 &&& 0xf,
        qdcount := sshort ((b4 <<< 8) ||| b5), ancount := sshort ((b6 <<< 8) ||| b7) }

/-- `dns_get_id(packet, packetlen)` -/
def dnsGetId (b : RxBuf) : Except Fault Nat :=
  if b.plen < 12 then .ok 0 else do
  let b0 ← b.get 0
  let b1 ← b.get 1
  .ok ((b0 <<< 8) ||| b1)

/-- `CHECKLEN(x)` fails (→ `return 0`) -/
def checklenFails (b : RxBuf) (x data : Nat) : Bool := b.plen < x + data

/-- `sizeof(rdata)` -/
def rdataSize : Nat := 4096

/-- `readshort type; readshort class; readlong ttl; readshort rlen` : `(type, rlen, new data)` -/
def readRRHeader (b : RxBuf) (data : Nat) : Except Fault (Nat × Nat × Nat) := do
  let (type, data) ← readshort b data
  let (_, data) ← readshort b data
  let (_, data) ← readlong b data
  let (rlen, data) ← readshort b data
  .ok (type, rlen, data)

/-- ```
CHECKLEN(rlen);
rv = MIN(rlen, sizeof(rdata));
rv = readdata(packet, &data, rdata, rv);
if (rv >= 2 && buf) { rv = MIN(rv, buflen); memcpy(buf, rdata, rv); } else { rv = 0; }
``` (NULL/PRIVATE and A answers); `none` = CHECKLEN failed -/
def rawRdata (b : RxBuf) (buflen data rlen : Nat) : Except Fault (Option (Nat × List Nat)) :=
  if checklenFails b rlen data then .ok none else do
  let rv := min rlen rdataSize
  let (rdata, _) ← readdata b data rv rdataSize
  if rv ≥ 2 then
    let rv := min rv buflen
    -- memcpy(buf, rdata, rv) with rv ≤ buflen
    .ok (some (rv, rdata.take rv))
  else .ok (some (0, []))

/-- the answer branch for a NULL or PRIVATE question, from the second `readname` on -/
def answerNull (b : RxBuf) (buflen : Nat) (q : Decoded) (data : Nat) : Except Fault Decoded := do
  let (data, _) ← readname b data 256
  if checklenFails b 10 data then .ok q else do
  let (type, rlen, data) ← readRRHeader b data
  match ← rawRdata b buflen data rlen with
  | none => .ok q
  | some (rv, buf) => .ok { q with rv := rv, buf := buf, type := type }

/-- the answer branch for an A or CNAME question -/
def answerCname (b : RxBuf) (buflen : Nat) (q : Decoded) (data : Nat) : Except Fault Decoded := do
  let (data, _) ← readname b data 256
  if checklenFails b 10 data then .ok q else do
  let (type, rlen, data) ← readRRHeader b data
  if type = 5 then do
    -- memset(name, 0, sizeof(name)); readname(…, name, sizeof(name) - 1); name[sizeof(name)-1] = '\0';
    let (_, w) ← readname b data 255
    let name := w.take 255
    -- strncpy(buf, name, buflen): the string, cut at buflen characters, the rest of buf zero-filled
    let s := (cstr name).take buflen
    -- buf[buflen - 1] = '\0'
    if buflen = 0 then .error .oobWrite else
    let s := s.take (buflen - 1)
    -- rv = strlen(buf)
    .ok { q with rv := (cstr s).length, buf := s, type := type }
  else if type = 1 then do
    match ← rawRdata b buflen data rlen with
    | none => .ok q
    | some (rv, buf) => .ok { q with rv := rv, buf := buf, type := type }
  else .ok { q with type := type }

/-- `names[250][QUERY_NAME_SIZE]`, zero-filled -/
def namesInit : List (List Nat) := List.replicate 250 []

/-- the `for (i = 0; i < ancount; i++)` loop of the MX/SRV branch, `n` iterations to go.
`none` = a CHECKLEN failed; otherwise the `names` array and `type` (of the last record). -/
def mxLoop (b : RxBuf) : (n : Nat) → (data : Nat) → (names : List (List Nat)) → (type : Nat) →
    Except Fault (Option (List (List Nat) × Nat))
  | 0, _, names, type => .ok (some (names, type))
  | n+1, data, names, _ => do
    let (data, _) ← readname b data 256
    if checklenFails b 12 data then .ok none else do
    let (type, rlen, data) ← readRRHeader b data
    let rdatastart := data
    let (pref, data) ← readshort b data
    -- if (type == T_SRV) { data += 4; CHECKLEN(0); }
    let data := if type = 33 then data + 4 else data
    if type = 33 ∧ checklenFails b 0 data then .ok none else do
    let names ←
      if pref % 10 = 0 ∧ pref ≥ 10 ∧ pref < 2500 then do
        let k := pref / 10 - 1
        if k ≥ 250 then .error .oobWrite else do
        -- readname(…, names[k], QUERY_NAME_SIZE - 1); names[k][QUERY_NAME_SIZE-1] = '\0';
        let (_, w) ← readname b data 255
        .ok (names.set k ((overwrite (names.getD k []) w).take 255))
      else .ok names
    -- always trust rlen, not name encoding
    let data := rdatastart + rlen
    if checklenFails b 0 data then .ok none else
    mxLoop b n data names type

/-- `buflen - offset - 2` in `size_t` -/
def subSizeT (buflen k : Nat) : Nat := (buflen + 18446744073709551616 - k) % 18446744073709551616

/-- the output loop of the MX/SRV branch over `names[i..]`:
```
while (names[i][0] != '\0') {
	int l;
	/* buflen is unsigned: don't let the room left wrap around */
	if ((size_t) offset + 2 >= buflen) break;
	l = MIN(strlen(names[i]), buflen-offset-2);
	if (l <= 0) break;
	memcpy(buf + offset, names[i], l); offset += l;
	*(buf + offset) = '\0'; offset++; i++;
}
*(buf + offset) = '\0'; rv = offset;
```
`buf` is written front to back, `offset = out.length`; result `(rv, bytes stored in buf)`.  Running off the
end of `names` is a read of `names[250]`. -/
def mxOut (buflen : Nat) : (names : List (List Nat)) → (out : List Nat) → Except Fault (Nat × List Nat)
  | [], _ => .error .oob
  | nm :: rest, out =>
    let fin : Except Fault (Nat × List Nat) := do
      let out' ← push buflen out 0
      .ok (out.length, out')
    let s := cstr nm
    if s = [] then fin else
    if out.length + 2 ≥ buflen then fin else
    let l := min s.length (subSizeT buflen (out.length + 2))
    if l = 0 then fin else
    if out.length + l > buflen then .error .oobWrite else do
    let out ← push buflen (out ++ s.take l) 0
    mxOut buflen rest out

/-- the answer branch for an MX or SRV question -/
def answerMx (b : RxBuf) (buflen : Nat) (q : Decoded) (data : Nat) (ancount : Nat) : Except Fault Decoded := do
  match ← mxLoop b ancount data namesInit 0 with
  | none => .ok q
  | some (names, type) =>
    let (rv, buf) ← mxOut buflen names []
    .ok { q with rv := rv, buf := buf, type := type }

/-- the answer branch for a TXT question -/
def answerTxt (b : RxBuf) (buflen : Nat) (q : Decoded) (data : Nat) : Except Fault Decoded := do
  let (data, _) ← readname b data 256
  if checklenFails b 10 data then .ok q else do
  let (type, rlen, data) ← readRRHeader b data
  if checklenFails b rlen data then .ok q else do
  let (rv, _, rdata) ← readtxtbin b data rlen rdataSize
  if rv ≥ 1 then
    let rv := min rv buflen
    .ok { q with rv := rv, buf := rdata.take rv, type := type }
  else .ok { q with rv := 0, type := type }

/-- `dns_decode(buf, buflen, q, QR_ANSWER, packet, packetlen)`, `buf ≠ NULL`, `q` zero-filled -/
def dnsDecodeAnswer (buflen : Nat) (b : RxBuf) : Except Fault Decoded :=
  if b.plen < 12 then .ok { rv := 0 } else do
  let h ← readHeader b
  if h.qr ≠ 1 then .ok { rv := -1 } else
  let q : Decoded := { rv := 0, rcode := h.rcode }
  if h.qdcount < 1 then .ok { q with rv := -1 } else do
  let q := { q with id := h.id }
  -- memset(name, 0, sizeof(name)); readname(packet, packetlen, &data, name, sizeof(name));
  let (data, name) ← readname b 12 256
  if checklenFails b 4 data then .ok q else do
  let (type, data) ← readshort b data
  let (_, data) ← readshort b data
  -- q->name[0] = name[0]; q->name[1] = '\0';
  let q := { q with name := cstr [name.headD 0] }
  if h.ancount < 1 then .ok { q with rv := -1 } else
  if type = 10 ∨ type = 65399 then answerNull b buflen q data
  else if type = 1 ∨ type = 5 then answerCname b buflen q data
  else if type = 15 ∨ type = 33 then answerMx b buflen q data h.ancount.toNat
  else if type = 16 then answerTxt b buflen q data
  else .ok { q with type := type }

/-- `dns_decode(NULL, 0, q, QR_QUERY, packet, packetlen)`, `q` zero-filled -/
def dnsDecodeQuery (b : RxBuf) : Except Fault Decoded :=
  if b.plen < 12 then .ok { rv := 0 } else do
  let h ← readHeader b
  if h.qr ≠ 0 then .ok { rv := -1 } else
  let q : Decoded := { rv := 0, rcode := h.rcode }
  if h.qdcount < 1 then .ok { q with rv := -1 } else do
  -- memset(name, 0, sizeof(name)); readname(…, name, sizeof(name) - 1); name[sizeof(name)-1] = '\0';
  let (data, w) ← readname b 12 255
  let name := w.take 255
  -- if (strlen(name) > 253) return -1;   (longer than any legal name: it could not be echoed in a well-formed reply)
  if (cstr name).length > 253 then .ok { q with rv := -1 } else
  if checklenFails b 4 data then .ok q else do
  let (type, data) ← readshort b data
  let (_, _) ← readshort b data
  -- strncpy(q->name, name, sizeof(q->name)); q->name[sizeof(q->name) - 1] = '\0';
  let qname := ((cstr name).take 256).take 255
  .ok { q with name := qname, type := type, id := h.id, rv := qname.length }

end Iodine.Wire
