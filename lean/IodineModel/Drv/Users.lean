import IodineModel.Users
/-
Driver for the address-pool model.
  initusers <ip> <netbits>   (decimal host-order server address, decimal netbits)
    -> n=<count> ips=<comma-separated decimal host-order addresses, or - if none>
-/
namespace Iodine.Drv.Users
open Iodine Iodine.Users

def showIps (l : List Nat) : String :=
  if l.isEmpty then "-" else ",".intercalate (l.map toString)

def handle (toks : List String) : Option String :=
  match toks with
  | ["initusers", ip, nb] =>
    match ip.toNat?, nb.toNat? with
    | some ip, some nb =>
      let l := initUsers ip nb
      some s!"n={l.length} ips={showIps l}"
    | _, _ => some "bad-op"
  | _ => none

end Iodine.Drv.Users
