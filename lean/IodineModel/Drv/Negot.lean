import IodineModel.Hex
import IodineModel.Props.C11
/-
Driver op tying the negotiation model of C11 (Lemmas/C11b.lean, written from client.c's handshake functions) to the REAL client:
  negot <keep|lower|upper> <clean|strip> <keep|plus|underscore> <reject8 0|1> <qtype> <hextopdomain>
    -> up=<0 Base32 | 1 Base64 | 2 Base64u | 3 Base128> dn=<character code of the selected downstream codec, 32 = none>
computed exactly as in `C11.upenc_selected_only_if_identity` / `C11.downenc_selected_only_if_identity`: the probe strings go through the
relay's query map, the server's check answer through its answer map.  The world check C11 compares this prediction with what the real
client negotiated against the real server through the same (Python) relay.
-/
namespace Iodine.Drv.Negot
open Iodine Iodine.Hex Iodine.C11 Iodine.C11L Iodine.Gen

def caseOf (s : String) : Option CaseMode :=
  if s == "keep" then some .keep else if s == "lower" then some .lower else if s == "upper" then some .upper else none
def bitsOf (s : String) : Option BitMode :=
  if s == "clean" then some .clean else if s == "strip" then some .strip else none
def punctOf (s : String) : Option PunctMode :=
  if s == "keep" then some .keep else if s == "plus" then some .plus else if s == "underscore" then some .underscore else none

def handle (toks : List String) : Option String :=
  match toks with
  | ["negot", c, b, p, rej, qt, tdh] =>
    match caseOf c, bitsOf b, punctOf p, qt.toNat?, ofHex tdh with
    | some c, some b, some p, some ty, some td =>
      let m : RelayMap := ⟨c, b, p⟩
      let r : Relay := { up := m, down := m, reject8 := rej == "1", types := [ty], maxAnswer := none, edns0 := true }
      let hdr := [122, 97, 97, 97]
      let up := upencAutodetect (fun s => upencTest s (r.query (upName hdr s td)))
      let text := fun cc => if ty == T_TXT then txtText cc DOWNCODECCHECK1 else (nameenc cc DOWNCODECCHECK1 3 7).1
      let dn := if ty == T_NULL || ty == T_PRIVATE then 32
                else downencAutodetect ty (fun cc => downencTest ((r.answer ty 0 (text cc)).map (namedec NAMEDEC_CAP)))
      some s!"up={up} dn={dn}"
    | _, _, _, _, _ => some "bad-op"
  | _ => none

end Iodine.Drv.Negot
