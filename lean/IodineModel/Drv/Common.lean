import IodineModel.Hex
import IodineModel.Common
import IodineModel.Server.Handle
import IodineModel.Client.Tunnel
/-
Driver ops for common.c:
  topdom <w> <hex>     → r=0 | r=1        (w = 0/1 is allow_wildcard)
  qdl <hexq> <hext>    → r=<n> | r=-1
  rseq <our> <got>     → r=0 | r=1        recent_seqno(our, got) (common.c); the server model's and the client model's copy must
                                           agree, otherwise `r=split`
-/
namespace Iodine.Drv.Common
open Iodine Iodine.Hex

def handle (toks : List String) : Option String :=
  match toks with
  | ["topdom", w, hx] =>
    match (if w == "0" then some false else if w == "1" then some true else none), ofHex hx with
    | some w, some s => some s!"r={Iodine.Common.checkTopdomain s w}"
    | _, _ => some "bad-op"
  | ["qdl", hq, ht] =>
    match ofHex hq, ofHex ht with
    | some q, some t =>
      match Iodine.Common.queryDatalen q t with
      | some n => some s!"r={n}"
      | none => some "r=-1"
    | _, _ => some "bad-op"
  | ["rseq", a, b] =>
    match a.toInt?, b.toInt? with
    | some our, some got =>
      let s := Iodine.Server.recentSeqno our got
      let c := Iodine.Client.recentSeqno our got
      if s != c then some "r=split" else some (if s then "r=1" else "r=0")
    | _, _ => some "bad-op"
  | _ => none

end Iodine.Drv.Common
