import IodineModel.Hex
import IodineModel.Codec.Inst
namespace Iodine.Drv.Codec
open Iodine Iodine.Hex

def handle (toks : List String) : Option String :=
  match toks with
  | ["enc", cn, cap, hx] =>
    match Codec.byName cn, cap.toNat?, ofHex hx with
    | some c, some cap, some d =>
      let r := Codec.enc c cap d
      some s!"r={r.chars.length} used={r.used} out={toHex r.chars}"
    | _, _, _ => some "bad-op"
  | ["encdec", cn, cap, hx] =>
    match Codec.byName cn, cap.toNat?, ofHex hx with
    | some c, some cap, some d =>
      let r := Codec.enc c cap d
      let back := Codec.dec c (d.length + 8) r.chars.length r.chars
      some s!"r={r.chars.length} used={r.used} out={toHex r.chars} dec={toHex back}"
    | _, _, _ => some "bad-op"
  | ["dec", cn, cap, slen, hx] =>
    match Codec.byName cn, cap.toNat?, slen.toNat?, ofHex hx with
    | some c, some cap, some slen, some s =>
      let r := Codec.dec c cap slen s
      some s!"r={r.length} out={toHex r}"
    | _, _, _, _ => some "bad-op"
  | _ => none

end Iodine.Drv.Codec
