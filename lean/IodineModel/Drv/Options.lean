import IodineModel.Hex
import IodineModel.Server.Options
import IodineModel.Client.Options
import IodineModel.Drv.Server
import IodineModel.Drv.Client
/-
Driver ops for the two `main()` models (the C side: op `main` of harness/h_srv.c and of harness/h_cli.c):

  smain [E=<hex>] [T=<hex>] [X=<hex8>|X=fail] [V6=0|1] [SD=<n>] <hex argv0> <hex argv1> …      iodined
  cmain [E=<hex>] [T=<hex>] [RC=<hex>] [HS=<n>] <hex argv0> <hex argv1> …                       iodine

The environment is instantiated with the conventions of the harness stubs: a user / device / host name starting with `!` does
not exist (cannot be opened, cannot be resolved), a user name starting with `~` exists but `setuid` fails for it, a host that is
not a dotted quad "resolves" to 198.51.100.53, the dotted quad is parsed by `inet_pton`.
-/
namespace Iodine.Drv.Options
open Iodine Iodine.Hex Iodine.Getopt

def hex8 (n : Nat) : String :=
  String.ofList ((List.range 8).reverse.map fun i => hexDigit (n / 16 ^ i % 16))

def hs : Option (List Nat) → String
  | none => "null"
  | some s => toHex s

def b01 (b : Bool) : String := if b then "1" else "0"

def showEv : Ev → String
  | .ga fam host port flags => s!"ga:{fam}:{hs host}:{port}:{flags}"
  | .odh host port fam flags => s!"odh:{hs host}:{port}:{fam}:{flags}"
  | .extq => "extq"
  | .cd fd => s!"cd:{fd}"
  | .ct fd => s!"ct:{fd}"
  | .prompt => "prompt"
  | .tun dev => s!"tun:{hs dev}"
  | .setip ip other nb => s!"setip:{toHex ip}:{toHex other}:{nb}"
  | .setmtu m => s!"setmtu:{m}"
  | .sd => "sd"
  | .warn tag => s!"warn:{tag}"
  | .od4 ip port len => s!"od4:{hex8 ip}:{port}:{len}"
  | .od6 port len v6only => s!"od6:{port}:{len}:{v6only}"
  | .detach => "detach"
  | .pidfile f => s!"pidfile:{toHex f}"
  | .chroot d => s!"chroot:{toHex d}"
  | .setuid u => s!"setuid:{u}"
  | .setcon c => s!"setcon:{toHex c}"
  | .started p => s!"started:{p}"
  | .tunnel a b c d e => s!"tunnel:{a}:{b}:{c}:{d}:{e}"
  | .resolvconf => "resolvconf"
  | .hs fd raw auto frag => s!"hs:{fd}:{b01 raw}:{b01 auto}:{frag}"
  | .ctunnel a b => s!"tunnel:{a}:{b}"

def showOutcome : Outcome → String
  | .exit c cls => s!"exit {c} {cls}"
  | .errx c cls => s!"errx {c} {cls}"
  | .ret c => s!"ret {c}"
  | .run c => s!"run {c}"

def showEvents (evs : List Ev) : String :=
  if evs.isEmpty then "ev -" else "ev " ++ " ".intercalate (evs.map showEv)

/-- C strings: cut at the first NUL -/
def cstr (s : List Nat) : List Nat := s.takeWhile (· ≠ 0)

structure Toks where
  envPass : Option (List Nat) := none
  typed : List Nat := []
  ext : Option Nat := some 0xc0000263
  v6 : Bool := true
  sd : Int := 0
  resolv : Option (List Nat) := none
  hsRet : Int := 0
  argv : List (List Nat) := []

def be32 (l : List Nat) : Nat := l.foldl (fun a b => a * 256 + b) 0

def parse : List String → Toks → Option Toks
  | [], t => some { t with argv := t.argv.reverse }
  | x :: xs, t =>
    if x.startsWith "E=" then (ofHex (x.drop 2).toString).bind fun v => parse xs { t with envPass := some (cstr v) }
    else if x.startsWith "T=" then (ofHex (x.drop 2).toString).bind fun v => parse xs { t with typed := cstr v }
    else if x.startsWith "RC=" then (ofHex (x.drop 3).toString).bind fun v => parse xs { t with resolv := some (cstr v) }
    else if x == "X=fail" then parse xs { t with ext := none }
    else if x.startsWith "X=" then (ofHex (x.drop 2).toString).bind fun v => if v.length = 4 then parse xs { t with ext := some (be32 v) } else none
    else if x.startsWith "V6=" then parse xs { t with v6 := (x.drop 3).toString != "0" }
    else if x.startsWith "SD=" then ((x.drop 3).toString.toInt?).bind fun v => parse xs { t with sd := v }
    else if x.startsWith "HS=" then ((x.drop 3).toString.toInt?).bind fun v => parse xs { t with hsRet := v }
    else (ofHex x).bind fun v => parse xs { t with argv := cstr v :: t.argv }

/-! ### the harness stubs -/

def stubUid (name : List Nat) : Option Nat :=
  if name.head? = some 33 then none else some (if name.head? = some 126 then 1001 else 1000)

def stubOpenTun (dev : Option (List Nat)) : Bool :=
  match dev with
  | some d => d.head? != some 33
  | none => true

def stubAddr4 (host : Option (List Nat)) : Option Nat :=
  match host with
  | none => some 0
  | some h =>
    match inetPton4Val h with
    | some a => some a
    | none => if h.head? = some 33 ∨ h = [] then none else some 0xc6336435

def srvEnv (t : Toks) : Server.Options.Env :=
  { envPass := t.envPass, typed := t.typed, extIp := t.ext, sd := t.sd, userUid := stubUid, setuidOk := fun u => u != 1001,
    openTun := stubOpenTun, getAddr4 := stubAddr4,
    getAddr6 := fun h => match h with | none => t.v6 | some h => h.head? != some 33,
    stack4 := 0 }

def cliEnv (t : Toks) : Client.Options.Env :=
  { envPass := t.envPass, typed := t.typed, resolv := t.resolv,
    getAddr := fun fam h =>
      if fam = 6 then (if h.head? = some 33 then none else some (6, 0))
      else (stubAddr4 (some h)).map fun a => (4, a),
    userUid := stubUid, setuidOk := fun u => u != 1001, openTun := stubOpenTun, r1 := 0, r2 := 0, hsRet := t.hsRet }

def showSrvFinal (f : Server.Options.Final) : String :=
  s!"pw={toHex f.password} td={toHex f.topdomain} ip={hex8 f.myIp} nm={f.netmask} mtu={f.mtu} cip={b01 f.checkIp} ns={hex8 f.nsIp}" ++
  s!" bport={f.bindPort} dbg={f.debug} users={f.createdUsers} pool={if f.pool.isEmpty then "-" else ",".intercalate (f.pool.map hex8)}"

/-- `users[]` as `tunnel()` finds it: every slot (the harness prints the NULL encoder of a never-used slot as `-`) -/
def showSlots (f : Server.Options.Final) : String :=
  let one (p : Server.Session × Nat) : String :=
    s!"a={b01 p.1.active} dis={b01 p.1.disabled} id={p.2} ip={hex8 p.1.tunIp} " ++ (Drv.Server.showSlot p.2 p.1).replace " enc=b32 " " enc=- "
  s!" fw={if f.fw = FwQuery.init then "clean" else "dirty"} uc={f.users.length}" ++
  (if f.users.isEmpty then "" else " | sl " ++ " ; ".intercalate (f.users.zipIdx.map one))

def showCliFinal (f : Client.Options.Final) : String :=
  let c := f.cli
  s!"pw={toHex f.password} td={toHex c.topdomain} ml={c.hostnameMaxlen} qt={c.doQtype} dn={c.downenc} sel={c.selecttimeout}" ++
  s!" lazy={b01 c.lazymode} nsl={f.nsLen} nsf={f.nsFamily} nsip={hex8 f.nsIp} nsport=53 conn={if c.conn = .dnsNull then 1 else 0}" ++
  s!" run={b01 c.running} rs={c.randSeed} cid={c.chunkid} | " ++ Drv.Client.digest c

def handle (toks : List String) : Option String :=
  match toks with
  | "smain" :: rest =>
    match parse rest {} with
    | none => some "bad-op"
    | some t =>
      if t.argv.isEmpty then some "bad-op" else
      let r := Server.Options.serverMain (srvEnv t) t.argv
      some (showOutcome r.outcome ++ " | " ++ showEvents r.events ++
        (match r.final with | some f => " | " ++ showSrvFinal f ++ showSlots f | none => ""))
  | "cmain" :: rest =>
    match parse rest {} with
    | none => some "bad-op"
    | some t =>
      if t.argv.isEmpty then some "bad-op" else
      let r := Client.Options.clientMain (cliEnv t) t.argv
      some (showOutcome r.outcome ++ " | " ++ showEvents r.events ++
        (match r.final with | some f => " | " ++ showCliFinal f | none => ""))
  | _ => none

end Iodine.Drv.Options
