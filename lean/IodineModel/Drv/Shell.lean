import IodineModel.Hex
import IodineModel.Client.Shell
/-
Driver op for the client's login-reply handling (Client/Shell.lean):
  shell <hexreply>   ->   cmds=<n> <hexcmd1> <hexcmd2>     (cmds=0 -  when nothing is run)
with dev = "" (the harness leaves if_name empty) and system() returning 0.
  shellx <hexreply>  ->   same, followed by ` end=<ok|badPassword|badIp|badHandshake|errx>`
-/
namespace Iodine.Drv.Shell
open Iodine Iodine.Hex Iodine.Client.Shell

def handle (toks : List String) : Option String :=
  match toks with
  | ["shell", hx] =>
    match ofHex hx with
    | some reply =>
      let cmds := (loginStep [] reply 0).commands
      if cmds.isEmpty then some "cmds=0 -"
      else some s!"cmds={cmds.length} {" ".intercalate (cmds.map toHex)}"
    | none => some "bad-op"
  | ["shellx", hx] =>
    match ofHex hx with
    | some reply =>
      let o := loginStep [] reply 0
      let e := match o.result with
        | .ok => "ok" | .badPassword => "badPassword" | .badIp => "badIp" | .badHandshake => "badHandshake" | .errx => "errx"
      some s!"cmds={o.commands.length} {if o.commands.isEmpty then "-" else " ".intercalate (o.commands.map toHex)} end={e}"
    | none => some "bad-op"
  | _ => none

end Iodine.Drv.Shell
