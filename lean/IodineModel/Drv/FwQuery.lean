import IodineModel.FwQuery
/-
Stateful driver for the fw_query ring.
  fwinit          → ok
  fwput <addr> <id>   → ok          (decimals)
  fwget <id>      → r=<addr> | r=none   (addr of the found slot; 0 for a never-written slot)
  fwix            → ix=<n>
-/
namespace Iodine.Drv.FwQuery
open Iodine.FwQuery

def handle (st : Fw) (toks : List String) : Option (Fw × String) :=
  match toks with
  | ["fwinit"] => some (init, "ok")
  | ["fwput", a, i] =>
    match a.toNat?, i.toNat? with
    | some a, some i => some (put st a i, "ok")
    | _, _ => some (st, "bad-op")
  | ["fwget", i] =>
    match i.toNat? with
    | some i =>
      match get st i with
      | some j => some (st, s!"r={(slot st j).1}")
      | none => some (st, "r=none")
    | none => some (st, "bad-op")
  | ["fwix"] => some (st, s!"ix={st.ix}")
  | _ => none

end Iodine.Drv.FwQuery
