import IodineModel.Hex
import IodineModel.Wire.Read
import IodineModel.Wire.DnsDecode
/-
Driver ops for read.c / dns_decode (harness/h_wire.h: `op_readname`, `op_dnsdec`, `op_txt` case `r`).
The received bytes lie at the start of a 64 KiB buffer whose remainder repeats the residue pattern
(`rx_buffer`: byte `i` is `res[i % rlen]`, zeros for the empty pattern).

  readname <length> <offset> <hexresidue> <hexpacket>  → rv=<n> src=<offset after> dst=<hex of dst up to first NUL>
  dnsdec q 0 <hexresidue> <hexpacket>         → rv=<n> id=<id> type=<t> rcode=<r> name=<hex of q.name> buf=-
  dnsdec a <buflen> <hexresidue> <hexpacket>  → rv=<n> id=.. type=.. rcode=.. name=<hex> buf=<hex of buf[0..rv) if rv>0 else ->
  txt r <dstremain> <srcremain> <hexresidue> <hexsrc>  → rv=<n> out=<hex of dst[0..rv)>

Where the C code would leave the bounds of an array the model answers `fault=<kind>` (the C harness is
then stopped by the sanitizer).
-/
namespace Iodine.Drv.WireRead
open Iodine Iodine.Hex Iodine.Wire

def faultStr : Fault → String
  | .oob => "fault=oob"
  | .oobWrite => "fault=oobWrite"
  | .fuel => "fault=fuel"
  | .precond => "fault=precond"

def mkBuf (res pkt : List Nat) : RxBuf := { pkt := pkt.toArray, res := res.toArray }

def showDecoded (isq : Bool) (d : Decoded) : String :=
  let buf := if !isq ∧ d.rv > 0 then d.buf.take d.rv.toNat else []
  s!"rv={d.rv} id={d.id} type={d.type} rcode={d.rcode} name={toHex d.name} buf={toHex buf}"

def handle (toks : List String) : Option String :=
  match toks with
  | ["readname", len, off, hr, hp] =>
    match len.toNat?, off.toNat?, ofHex hr, ofHex hp with
    | some len, some off, some res, some pkt =>
      if len < 3 ∨ off > pkt.length then some "bad-op" else
      match readname (mkBuf res pkt) off len with
      | .ok (src, w) => some s!"rv={w.length} src={src} dst={toHex ((cstr w).take len)}"
      | .error f => some (faultStr f)
    | _, _, _, _ => some "bad-op"
  | "readname" :: _ => some "bad-op"
  | ["dnsdec", dir, bl, hr, hp] =>
    match bl.toNat?, ofHex hr, ofHex hp with
    | some buflen, some res, some pkt =>
      let isq := dir == "q"
      let r := if isq then dnsDecodeQuery (mkBuf res pkt) else dnsDecodeAnswer buflen (mkBuf res pkt)
      match r with
      | .ok d => some (showDecoded isq d)
      | .error f => some (faultStr f)
    | _, _, _ => some "bad-op"
  | "dnsdec" :: _ => some "bad-op"
  | ["txt", "r", drem, srem, hr, hs] =>
    match drem.toNat?, srem.toNat?, ofHex hr, ofHex hs with
    | some drem, some srem, some res, some s =>
      if srem > s.length then some "bad-op" else
      match readtxtbin (mkBuf res s) 0 srem drem with
      | .ok (rv, _, out) => some s!"rv={rv} out={toHex (out.take rv)}"
      | .error f => some (faultStr f)
    | _, _, _, _ => some "bad-op"
  | _ => none

end Iodine.Drv.WireRead
