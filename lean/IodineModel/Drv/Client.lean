import IodineModel.Hex
import IodineModel.Client.Loop
import IodineModel.Client.Handshake
/-
Line-protocol driver of the client tunnel model (docs/CLI_PROTOCOL.md, "model ops"):
  ccfg … | cenc e | crand v… | ctime t | start tunnel | start handshake raw_mode autofrag fragsize |
  rq rv id type rcode name0 hexbuf | rawans hex | tun hex | tick

`start handshake` runs the handshake model (`Client/Handshake.lean`); while it is parked, `rq`/`rawans`/`tick`/`tun` go to
`hstep`; when it has returned, the statics it reached are the ones a following `start tunnel` starts from.

What the HARNESS (harness/h_cli.c) does around the client code is done here, not in the model:
* `ccfg` = `client_init()` with an empty rand queue + the setters + direct stores; the process keeps the statics
  `client_init` does not touch (`outpkt.offset/sentlen`, packet data, `lastdownstreamtime`, `packrecv*`, `datacmc`)
  from one `ccfg` to the next, so the driver keeps them too;
* `start tunnel` kills a running worker and sets `running = 1` before it calls `client_tunnel`;
* `tick`/`rq`/`rawans`/`tun` without a running worker answer just `idle`;
* `tunskip` is printed (last event) when a tun frame was offered while tun_fd was not in the read set; the flag behind
  it is only rewritten by the next fed input, so a `start` in between prints it again.
`start <other job>` is not answered here.
-/
namespace Iodine.Drv.Client
open Iodine Iodine.Hex Iodine.Client

structure St where
  s : CState := ⟨Cli.boot, .idle⟩
  configured : Bool := false
  /-- the harness's `tun_skipped` flag: set/cleared by every fed input, and (stale) also printed by `start` -/
  tunSkipped : Bool := false
  /-- the handshake job, while `client_handshake` is running (then `s.ph = .idle` and `hs.c` is kept equal to `s.c`) -/
  hs : Option HState := none
  /-- the harness's `pw_buf[128]` (a shorter password leaves the tail of an earlier one behind its NUL) -/
  pw : List Nat := List.replicate 128 0

/-! ### parsing -/

/-- `atoi`/`atol`: optional sign, then the leading decimal digits (0 if there are none) -/
def atoi (s : String) : Int :=
  let cs := s.toList
  let (neg, ds) := match cs with
    | '-' :: r => (true, r)
    | '+' :: r => (false, r)
    | r => (false, r)
  let v : Nat := (ds.takeWhile Char.isDigit).foldl (fun acc ch => 10 * acc + (ch.toNat - 48)) 0
  if neg then -(v : Int) else v

/-! ### printing -/

/-- `(Σ (i+1)·x[i]) mod 65521` -/
def wsum (d : List Nat) : Nat :=
  (d.zipIdx.foldl (fun acc (b, i) => (acc + (i + 1) * b) % 65521) 0)

def b01 (b : Bool) : String := if b then "1" else "0"

def showEnc : Enc → String
  | .b32 => "b32" | .b64 => "b64" | .b64u => "b64u" | .b128 => "b128"

def showEvent : CEvent → String
  | .query id ty name => s!"query {id} {ty} {toHex name}"
  | .rawtx b => s!"rawtx {toHex b}"
  | .tunw f => s!"tunw {toHex f}"
  | .sys cmd => s!"sys {toHex cmd}"

def pkSum (p : Packet) : Nat := wsum (p.data.take (if p.len ≤ 65536 then p.len else 0))

def digest (c : Cli) : String :=
  s!"st now={c.now} run={b01 c.running} cid={c.chunkid}/{c.chunkidPrev}/{c.chunkidPrev2} rs={c.randSeed}" ++
  s!" out={c.outpkt.len}/{c.outpkt.offset}/{c.outpkt.sentlen}/{c.outpkt.seqno}/{c.outpkt.fragment}/{pkSum c.outpkt}" ++
  s!" in={c.inpkt.len}/{c.inpkt.seqno}/{c.inpkt.fragment}/{pkSum c.inpkt} ocr={c.outchunkresent}" ++
  s!" conn={if c.conn = .dnsNull then 1 else 0} lazy={b01 c.lazymode} sps={c.sendPingSoon} ldt={c.lastdownstreamtime} lrp={c.lastrawping}" ++
  s!" sel={c.selecttimeout} enc={showEnc c.dataenc} dn={if c.downenc = 0 then "0" else String.singleton (Char.ofNat c.downenc)}" ++
  s!" qt={c.doQtype} uid={c.userid} ml={c.hostnameMaxlen} e0={b01 c.edns0}"

def showNext : Next → List String
  | .sel s => [s!"sel to={s.to} tun={b01 s.tun} dns={b01 s.dns}"]
  | .finished rv => [s!"ret {rv}", "idle"]
  | .errx code => [s!"errx {code}", "idle"]
  | .none => ["idle"]

/-- answer line: events, `ret` (if the function returned), `tunskip`, `sel …`/`idle`, digest -/
def line (evs : List CEvent) (nx : Next) (tunskip : Bool) (c : Cli) : String :=
  let tail := showNext nx
  let parts := evs.map showEvent ++ tail.dropLast ++ (if tunskip then ["tunskip"] else []) ++ [tail.getLastD "idle", digest c]
  " | ".intercalate parts

/-! ### ops -/

/-- feed one input to the parked thread -/
def feed (st : St) (inp : CInput) : St × String :=
  match st.hs with
  | some h =>
    let tunskip := match inp with
      | .tun _ => true
      | _ => false
    let r := hstep h inp
    ({ st with s := ⟨r.1.c, .idle⟩, hs := if r.1.pos.isSome then some r.1 else none, tunSkipped := tunskip },
     line r.2.1 r.2.2 tunskip r.1.c)
  | none =>
  match st.s.ph with
  | .idle => (st, "idle")
  | _ =>
    let tunskip := match inp, pending st.s with
      | .tun _, .sel sel => !sel.tun
      | _, _ => false
    let r := cstep st.s inp
    ({ st with s := r.1, tunSkipped := tunskip }, line r.2.1 r.2.2 tunskip r.1.c)

def hexDigitsLower : List Char := "0123456789abcdef".toList
def hexDigitsUpper : List Char := "0123456789ABCDEF".toList

/-- the `ccfg` op on the statics `old` of the process -/
def configure (old : Cli) (td : List Nat) (ml qt : Int) (dn : Nat) (lazy selto uid conn e0 : Int) : Cli :=
  let c := clientInit { old with now := 1000 } 0 0
  let u := sChar uid
  { c with topdomain := td.takeWhile (· ≠ 0),
           hostnameMaxlen := if ml ≤ 255 then ml else 255,
           doQtype := (qt % 65536).toNat,
           downenc := dn,
           lazymode := lazy ≠ 0,
           selecttimeout := selto,
           userid := u,
           useridChar := (hexDigitsLower.getD (maskI u 16) '0').toNat,
           useridChar2 := (hexDigitsUpper.getD (maskI u 16) '0').toNat,
           conn := if conn ≠ 0 then .dnsNull else .rawUdp,
           edns0 := e0 ≠ 0,
           dataenc := .b32,
           sendPingSoon := 1,
           sendcnt := -1,
           recvcnt := 0 }

/-- one `key=value` of the `cset` op (the fields of the harness digest a handshake changes) -/
def setField (c : Cli) (kv : String) : Cli :=
  match kv.splitOn "=" with
  | [k, v] =>
    let n := atoi v
    if k == "cid" then
      match v.splitOn "/" with
      | [a, b, d] => { c with chunkid := (atoi a).toNat, chunkidPrev := (atoi b).toNat, chunkidPrev2 := (atoi d).toNat }
      | _ => c
    else if k == "rs" then { c with randSeed := n.toNat }
    else if k == "enc" then { c with dataenc := if v == "b64" then .b64 else if v == "b64u" then .b64u else if v == "b128" then .b128 else .b32 }
    else if k == "dn" then { c with downenc := match v.toList with | ch :: _ => (if ch == '0' then 0 else ch.toNat) | [] => 32 }
    else if k == "lazy" then { c with lazymode := n ≠ 0 }
    else if k == "sel" then { c with selecttimeout := n }
    else if k == "qt" then { c with doQtype := (n % 65536).toNat }
    else if k == "e0" then { c with edns0 := n ≠ 0 }
    else if k == "conn" then { c with conn := if n ≠ 0 then .dnsNull else .rawUdp }
    else if k == "sps" then { c with sendPingSoon := n.toNat }
    else if k == "ldt" then { c with lastdownstreamtime := n.toNat }
    else if k == "lrp" then { c with lastrawping := n.toNat }
    else if k == "now" then { c with now := n.toNat }
    else if k == "ml" then { c with hostnameMaxlen := n }
    else if k == "uid" then
      let u := sChar n
      { c with userid := u, useridChar := (hexDigitsLower.getD (maskI u 16) '0').toNat, useridChar2 := (hexDigitsUpper.getD (maskI u 16) '0').toNat }
    else c
  | _ => c

def handle (st : St) (toks : List String) : Option (St × String) :=
  match toks with
  | "cset" :: kvs =>
    -- state the REAL client reached through its handshake (world runs): taken over from the harness digest, the tunnel phase starts from it
    some ({ st with s := { st.s with c := kvs.foldl setField st.s.c } }, "ok")
  | ["ccfg", td, pw, ml, qt, dn, lazy, selto, uid, conn, e0] =>
    match ofHex td, ofHex pw with
    | some td, some pw =>
      if td.length ≥ 512 ∨ pw.length ≥ 128 then some (st, "bad-op") else
      let dnc := match dn.toList with
        | '-' :: _ => 32
        | ch :: _ => ch.toNat
        | [] => 32
      let c := configure st.s.c td (atoi ml) (atoi qt) dnc (atoi lazy) (atoi selto) (atoi uid) (atoi conn) (atoi e0)
      some ({ st with s := ⟨c, .idle⟩, configured := true, hs := none, pw := (pw ++ 0 :: st.pw.drop (pw.length + 1)).take 128 }, "ok")
    | _, _ => some (st, "bad-op")
  | ["cenc", e] =>
    let enc : Enc := if e == "b64" then .b64 else if e == "b64u" then .b64u else if e == "b128" then .b128 else .b32
    some ({ st with s := { st.s with c := { st.s.c with dataenc := enc } } }, "ok")
  | ["ctime", t] =>
    some ({ st with s := { st.s with c := { st.s.c with now := (atoi t).toNat } },
                    hs := st.hs.map fun h => { h with c := { h.c with now := (atoi t).toNat } } }, "ok")
  | "crand" :: _ =>
    -- the rand queue is only read by `client_init`, which `ccfg` runs on an empty queue
    some (st, "ok")
  | ["start", "tunnel"] =>
    if !st.configured then some (st, "no-cfg") else
    let r := startTunnel { st.s.c with running := true }
    some ({ st with s := r.1, hs := none }, line r.2.1 r.2.2 st.tunSkipped r.1.c)
  | ["start", "handshake", raw, autofrag, fragsize] =>
    if !st.configured then some (st, "no-cfg") else
    -- `send_query`'s answer counting is only modelled for the tunnel phase (Client/Handshake.lean, header)
    if st.s.c.sendcnt ≥ 0 then some (st, "unsupported") else
    let args : HsArgs := ⟨atoi raw ≠ 0, atoi autofrag ≠ 0, Shell.toInt32 (atoi fragsize)⟩
    let r := hsStart { st.s.c with running := true } args (st.pw.take 32) []
    some ({ st with s := ⟨r.1.c, .idle⟩, hs := if r.1.pos.isSome then some r.1 else none },
          line r.2.1 r.2.2 st.tunSkipped r.1.c)
  | ["tick"] => some (feed st .tick)
  | ["tun", hx] =>
    match ofHex hx with
    | some b => some (feed st (.tun b))
    | none => some (st, "bad-op")
  | ["rawans", hx] =>
    match ofHex hx with
    | some b => some (feed st (.rawans b))
    | none => some (st, "bad-op")
  | ["rq", rv, id, ty, rc, n0, hx] =>
    match ofHex hx with
    | some b =>
      some (feed st (.rq { rv := atoi rv, id := (atoi id).toNat, type := (atoi ty).toNat, rcode := (atoi rc).toNat,
                           name0 := (atoi n0).toNat, buf := b }))
    | none => some (st, "bad-op")
  | _ => none

end Iodine.Drv.Client
