import IodineModel.Hex
import IodineModel.Wire.Put
import IodineModel.Wire.DnsEncode
import IodineModel.Wire.Strict
/-
Driver ops for the DNS write side (C harness: /verif/harness/h_wire.h `op_putname`, `op_dnsenc`,
`op_txt` case `p`; added ops `dnsns`, `dnsa`: h_wire_add.h):

  putname <buflen> <hexhost>                          → rv=<n> adv=<bytes the pointer moved> out=<hex>
  dnsenc a <id> <type> <buflen> <hexname> <hexdata>   → len=<n> pkt=<hex>   (harness appends two NULs to data)
  dnsenc q <id> <type> <edns0> <buflen> <hexname>     → len=<n> pkt=<hex>
  dnsns <id> <type> <buflen> <hexname> <hextop> <hexaddr|->  → len=<n> pkt=<hex>   ("-": destination not AF_INET)
  dnsa <id> <type> <buflen> <hexname> <hexaddr|->     → len=<n> pkt=<hex>
  txt p <bufremain> <hexdata>                         → rv=<n> out=<hex>
  strict <hexmsg>    (model only)                     → ok id=.. qd=.. an=.. ns=.. ar=.. | bad malformed

Where the model predicts a store outside the buffer the answer is `fault=oobWrite` (the C harness, built
with ASan, aborts on such an op).
-/
namespace Iodine.Drv.WirePut
open Iodine Iodine.Hex Iodine.Wire.Put Iodine.Wire.DnsEncode

def showPkt : R (List Nat) → String
  | .ok pkt => s!"len={pkt.length} pkt={toHex pkt}"
  | .ret rv => s!"len={rv} pkt=-"
  | .fault _ => "fault=oobWrite"

/-- `fill_query`: the name is cut to 255 bytes and is a C string -/
def qname (raw : List Nat) : List Nat := cstr (raw.take 255)

def handle (toks : List String) : Option String :=
  match toks with
  | ["putname", bl, hx] =>
    match bl.toNat?, ofHex hx with
    | some buflen, some host =>
      -- the harness buffer has buflen + 1 bytes
      match putname ⟨#[], buflen + 1⟩ (buflen : Int) (cstr host) with
      | .ok (rv, b) => some s!"rv={rv} adv={b.pos} out={toHex b.bytes.toList}"
      | .ret _ => some "bad-op"
      | .fault _ => some "fault=oobWrite"
    | _, _ => some "bad-op"
  | ["dnsenc", "a", id, ty, bl, hn, hd] =>
    match id.toNat?, ty.toNat?, bl.toNat?, ofHex hn, ofHex hd with
    | some id, some ty, some buflen, some name, some data =>
      some (showPkt (dnsEncodeAnswer buflen (id % 65536) (ty % 65536) (qname name) (data ++ [0, 0]) data.length))
    | _, _, _, _, _ => some "bad-op"
  | ["dnsenc", "q", id, ty, ed, bl, hn] =>
    match id.toNat?, ty.toNat?, ed.toNat?, bl.toNat?, ofHex hn with
    | some id, some ty, some ed, some buflen, some name =>
      some (showPkt (dnsEncodeQuery buflen (id % 65536) (ty % 65536) (ed != 0) (cstr name)))
    | _, _, _, _, _ => some "bad-op"
  | ["dnsns", id, ty, bl, hn, ht, ha] =>
    match id.toNat?, ty.toNat?, bl.toNat?, ofHex hn, ofHex ht, ofHex ha with
    | some id, some ty, some buflen, some name, some top, some addr =>
      if addr.length ≠ 0 ∧ addr.length ≠ 4 then some "bad-op" else
      some (showPkt (dnsEncodeNsResponse buflen (id % 65536) (ty % 65536) (qname name) (cstr top)
        (if addr.isEmpty then none else some addr)))
    | _, _, _, _, _, _ => some "bad-op"
  | ["dnsa", id, ty, bl, hn, ha] =>
    match id.toNat?, ty.toNat?, bl.toNat?, ofHex hn, ofHex ha with
    | some id, some ty, some buflen, some name, some addr =>
      if addr.length ≠ 0 ∧ addr.length ≠ 4 then some "bad-op" else
      some (showPkt (dnsEncodeAResponse buflen (id % 65536) (ty % 65536) (qname name)
        (if addr.isEmpty then none else some addr)))
    | _, _, _, _, _ => some "bad-op"
  | ["txt", "p", rem, hd] =>
    match rem.toNat?, ofHex hd with
    | some rem, some data =>
      match puttxtbin ⟨#[], rem⟩ (rem : Int) data with
      | .ok (rv, b) => some s!"rv={rv} out={toHex b.bytes.toList}"
      | .ret _ => some "bad-op"
      | .fault _ => some "fault=oobWrite"
    | _, _ => some "bad-op"
  | ["strict", hm] =>
    match ofHex hm with
    | some msg =>
      match Iodine.Wire.Strict.parseMsg msg with
      | some m => some s!"ok id={m.id} qd={m.qd.length} an={m.an.length} ns={m.ns.length} ar={m.ar.length}"
      | none => some "bad malformed"
    | none => some "bad-op"
  | _ => none

end Iodine.Drv.WirePut
