import IodineModel.Hex
import IodineModel.World
import IodineModel.Drv.Server
import IodineModel.Drv.Client
/-
Line-protocol driver of the JOINED model (`IodineModel/World.lean`): ties `World.step` — the glue between the client step
machine and the server iteration: the two queues, `upOfEvents`/`srvInput`, `downOfEvents`/`cliInput`, the tun lists, the
clock — to the real client + real server pair of the world runs (`checks/world.py`, `checks/worldcheck.py: report_world_model`).

  wstart                      build a `W` from the component states the driver holds (`Main`: the server model after the
                              recorded `S …` ops, the client model after the recorded `C …` ops up to `start tunnel`);
                              queues and tun lists empty
  wput up q <id> <type> <hexname> | wput up rawf <hex> | wput down ans <id> <type> <hexname> <hexdata> | wput down raw <hex>
                              a datagram that was still in flight when the tunnel phase began (set-up, not a `World.step`)
  wev <Ev>                    ONE `World.step`:  offerC <hexframe> | offerS <hexframe> | deliverUp | deliverDown | dropUp | dropDown |
                              dupUp | dupDown | reorderUp | reorderDown | tickC | tickS | advance <dt>

Answer line of `wev` (sections separated by ` || `):
  <ev> <head-of-queue item the event consumed / touched, as the RECEIVING side is fed it, or `-`>
       deliverUp/dupUp/dropUp/reorderUp:      q <id> <type> <hexname>  |  rawf <hex>           (`World.srvInput`)
       deliverDown/dupDown/dropDown/reorderDown: rq <rv> <id> <type> <rcode> <name0> <hexbuf> | rawans <hex>   (`World.cliInput`:
       exactly the `rq` event h_cli prints for the datagram, i.e. what the real `read_dns_withq` made of it)
  || items the step appended, in order, ` | `-separated (or `-`):  up q <id> <type> <hexname> | up rawf <hex> |
       down ans <id> <type> <hexname> <hexdata> | down raw <hex> | tunC <hexframe> | tunS <hexframe>
  || S to=<µs> tunsel=<0|1> | st <server slot digest>      `to`/`tunsel` = the `select` of the iteration this event ran (what
       h_srv prints in the op's line: computed by the top of the loop on the PRE-state); the digest is that of the post-state
       after the next top of loop, the format of Drv/Server.lean (= h_srv's)
  || C sel to=<µs> tun=<0|1> dns=<0|1> | st <client digest>   (or `C idle | st …`)  the `select` the client is parked in after the
       step and h_cli's digest (format of Drv/Client.lean)
  || nx to=<timeoutS> tunsel=<tunSelS> pev=<World.promptEv of the post-state> quiet=<World.quiet 0> up=<|up|> down=<|down|> snow=<srv.now>
-/
namespace Iodine.Drv.World
open Iodine Iodine.Hex Iodine.World

def b01 (b : Bool) : String := if b then "1" else "0"

def showSrvInput : Server.Input → String
  | .q q => s!"q {q.id} {q.type} {toHex q.name}"
  | .rawf _ b => s!"rawf {toHex b}"
  | .tun f => s!"tun {toHex f}"
  | .bind b => s!"bind {toHex b}"
  | .tick => "tick"

def showCliInput : Client.CInput → String
  | .rq q => s!"rq {q.rv} {q.id} {q.type} {q.rcode} {q.name0} {toHex q.buf}"
  | .rawans b => s!"rawans {toHex b}"
  | .tun f => s!"tun {toHex f}"
  | .tick => "tick"

def showUp : UpD → String
  | .query id ty name => s!"up q {id} {ty} {toHex name}"
  | .raw b => s!"up rawf {toHex b}"

def showDown : DownD → String
  | .ans id ty name data => s!"down ans {id} {ty} {toHex name} {toHex data}"
  | .raw b => s!"down raw {toHex b}"

def showEv : Ev → String
  | .offerC _ => "offerC" | .offerS _ => "offerS"
  | .deliverUp => "deliverUp" | .deliverDown => "deliverDown"
  | .dropUp => "dropUp" | .dropDown => "dropDown"
  | .dupUp => "dupUp" | .dupDown => "dupDown"
  | .reorderUp => "reorderUp" | .reorderDown => "reorderDown"
  | .tickC => "tickC" | .tickS => "tickS"
  | .advance dt => s!"advance {dt}"

def parseEv : List String → Option Ev
  | ["offerC", hx] => (ofHex hx).map .offerC
  | ["offerS", hx] => (ofHex hx).map .offerS
  | ["deliverUp"] => some .deliverUp | ["deliverDown"] => some .deliverDown
  | ["dropUp"] => some .dropUp | ["dropDown"] => some .dropDown
  | ["dupUp"] => some .dupUp | ["dupDown"] => some .dupDown
  | ["reorderUp"] => some .reorderUp | ["reorderDown"] => some .reorderDown
  | ["tickC"] => some .tickC | ["tickS"] => some .tickS
  | ["advance", dt] => dt.toNat?.map .advance
  | _ => none

/-- the head-of-queue item an event looks at, printed as the receiving side is fed it -/
def touched (w : W) : Ev → String
  | .deliverUp | .dupUp | .dropUp | .reorderUp =>
    match w.up with
    | [] => "-"
    | d :: _ => showSrvInput (srvInput d)
  | .deliverDown | .dupDown | .dropDown | .reorderDown =>
    match w.down with
    | [] => "-"
    | d :: _ => showCliInput (cliInput d)
  | _ => "-"

/-- does the event run the client (then only `up` can grow) or the server (then only `down` can grow)? -/
def clientSide : Ev → Bool
  | .offerC _ | .deliverDown | .dupDown | .tickC => true
  | _ => false

def serverSide : Ev → Bool
  | .offerS _ | .deliverUp | .dupUp | .tickS => true
  | _ => false

def srvSection (w0 w : W) : String :=
  s!"S to={timeoutS w0} tunsel={b01 (tunSelS w0)} | {Drv.Server.digest (Server.topOfLoop w.srv).1}"

def cliSection (w : W) : String :=
  let nx := match Client.pending w.cs with
    | .sel s => s!"sel to={s.to} tun={b01 s.tun} dns={b01 s.dns}"
    | _ => "idle"
  s!"C {nx} | {Drv.Client.digest w.cs.c}"

def nxSection (w : W) : String :=
  s!"nx to={timeoutS w} tunsel={b01 (tunSelS w)} pev={showEv (promptEv w)} quiet={b01 (quiet w.cs.c.userid.toNat w)} up={w.up.length} down={w.down.length} snow={w.srv.now}"

/-- one `World.step`, and the line describing it -/
def runEv (w : W) (e : Ev) : W × String :=
  let w' := step w e
  let newUp := if clientSide e then (w'.up.drop w.up.length).map showUp else []
  let newDown := if serverSide e then (w'.down.drop w.down.length).map showDown else []
  let newTunC := (w'.tunC.drop w.tunC.length).map fun f => s!"tunC {toHex f}"
  let newTunS := (w'.tunS.drop w.tunS.length).map fun f => s!"tunS {toHex f}"
  let items := newUp ++ newDown ++ newTunC ++ newTunS
  let prod := if items.isEmpty then "-" else " | ".intercalate items
  (w', " || ".intercalate [s!"{showEv e} {touched w e}", prod, srvSection w w', cliSection w', nxSection w'])

def parseUpD : List String → Option UpD
  | ["q", id, ty, hn] =>
    match id.toNat?, ty.toNat?, ofHex hn with
    | some id, some ty, some n => some (.query id ty n)
    | _, _, _ => none
  | ["rawf", hx] => (ofHex hx).map .raw
  | _ => none

def parseDownD : List String → Option DownD
  | ["ans", id, ty, hn, hd] =>
    match id.toNat?, ty.toNat?, ofHex hn, ofHex hd with
    | some id, some ty, some n, some d => some (.ans id ty n d)
    | _, _, _, _ => none
  | ["raw", hx] => (ofHex hx).map .raw
  | _ => none

/-- `srv`, `cli`: the component states the driver holds; `world`: the joint state once `wstart` was given -/
def handle (srv : Option Server.Srv) (cli : Client.CState) (world : Option W) (toks : List String) : Option (Option W × String) :=
  match toks with
  | ["wstart"] =>
    match srv with
    | none => some (world, "no-cfg")
    | some s =>
      let w : W := ⟨cli, s, [], [], [], []⟩
      some (some w, " || ".intercalate ["ok", srvSection w w, cliSection w, nxSection w])
  | "wput" :: "up" :: r =>
    match world, parseUpD r with
    | some w, some d => some (some { w with up := w.up ++ [d] }, "ok")
    | _, _ => some (world, "bad-op")
  | "wput" :: "down" :: r =>
    match world, parseDownD r with
    | some w, some d => some (some { w with down := w.down ++ [d] }, "ok")
    | _, _ => some (world, "bad-op")
  | "wev" :: r =>
    match world, parseEv r with
    | some w, some e => let x := runEv w e; some (some x.1, x.2)
    | none, _ => some (world, "no-world")
    | _, none => some (world, "bad-op")
  | _ => none

end Iodine.Drv.World
