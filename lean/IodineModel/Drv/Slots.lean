import IodineModel.Users
/-
Stateful driver for the slot table (`find_user_by_ip`, `find_available_user`):
  uinit <ip> <netbits>                          → n=<count>     (slots from init_users, all inactive)
  uset <i> <active> <auth> <disabled> <lastpkt> → ok
  ufind <now> <ip>                              → r=<idx>|r=-1
  uavail <now>                                  → r=<idx>|r=-1   (and claims the slot)
  uget <i>                                      → a=<active> u=<auth> d=<disabled> t=<lastpkt> ip=<tunip>
-/
namespace Iodine.Drv.Slots
open Iodine.Users

def b (s : String) : Option Bool := if s == "1" then some true else if s == "0" then some false else none
def showB (x : Bool) : String := if x then "1" else "0"

def handle (st : List Slot) (toks : List String) : Option (List Slot × String) :=
  match toks with
  | ["uinit", ip, nb] =>
    match ip.toNat?, nb.toNat? with
    | some ip, some nb =>
      let sl := (initUsers ip nb).map (fun a => ({ tunIp := a, active := false, authenticated := false, disabled := false, lastPkt := 0 } : Slot))
      some (sl, s!"n={sl.length}")
    | _, _ => some (st, "bad-op")
  | ["uset", i, a, u, d, t] =>
    match i.toNat?, b a, b u, b d, t.toNat? with
    | some i, some a, some u, some d, some t =>
      if h : i < st.length then
        some (st.set i { st[i] with active := a, authenticated := u, disabled := d, lastPkt := t }, "ok")
      else some (st, "bad-op")
    | _, _, _, _, _ => some (st, "bad-op")
  | ["ufind", now, ip] =>
    match now.toNat?, ip.toNat? with
    | some now, some ip =>
      match findUserByIp st now ip with
      | some i => some (st, s!"r={i}")
      | none => some (st, "r=-1")
    | _, _ => some (st, "bad-op")
  | ["uavail", now] =>
    match now.toNat? with
    | some now =>
      match findAvailableUser st now with
      | (some i, st') => some (st', s!"r={i}")
      | (none, st') => some (st', "r=-1")
    | none => some (st, "bad-op")
  | ["uget", i] =>
    match i.toNat? with
    | some i =>
      if h : i < st.length then
        let s := st[i]
        some (st, s!"a={showB s.active} u={showB s.authenticated} d={showB s.disabled} t={s.lastPkt} ip={s.tunIp}")
      else some (st, "bad-op")
    | none => some (st, "bad-op")
  | _ => none

end Iodine.Drv.Slots
