import IodineModel.Hex
import IodineModel.Login
/-
Driver ops for the login hash.
  md5 <hex>                 -> out=<32 hex chars>
  login <seedDecimal> <hex> -> out=<32 hex chars>
  md5selftest               -> ok | fail
-/
namespace Iodine.Drv.Login
open Iodine Iodine.Hex Iodine.Login

/-- What `strncpy(password, optarg, 33); password[32] = 0;` on the zero-filled `char password[33]`
leaves in the first 32 bytes: the typed string up to its first NUL, cut at 32, zero-padded. -/
def passwordBuf (typed : List Nat) : List Nat :=
  ((typed.takeWhile (· ≠ 0)) ++ List.replicate 32 0).take 32

/-- Decimal seed; a negative `int` is accepted and reduced to its 32-bit pattern. -/
def seedOf (s : String) : Option Nat :=
  s.toInt?.map (fun i => (i % (2 ^ 32 : Int)).toNat)

def ascii (s : String) : List Nat := s.toList.map Char.toNat

/-- RFC 1321 appendix A.5 test suite. -/
def vectors : List (String × String) := [
  ("", "d41d8cd98f00b204e9800998ecf8427e"),
  ("a", "0cc175b9c0f1b6a831c399e269772661"),
  ("abc", "900150983cd24fb0d6963f7d28e17f72"),
  ("message digest", "f96b697d7cb7938d525a2f31aaf161d0"),
  ("abcdefghijklmnopqrstuvwxyz", "c3fcd3d76192e4007dfb496cca67e13b"),
  ("ABCDEFGHIJKLMNOPQRSTUVWXYZabcdefghijklmnopqrstuvwxyz0123456789",
   "d174ab98d277d9f5a5611c2c9f419d9f"),
  ("12345678901234567890123456789012345678901234567890123456789012345678901234567890",
   "57edf4a22be3c955ac49da2e2107b67a")]

def selfTest : Bool :=
  vectors.all (fun (m, h) => toHex (md5 (ascii m)) == h)

def handle (toks : List String) : Option String :=
  match toks with
  | ["md5", hx] =>
    match ofHex hx with
    | some d => some s!"out={toHex (md5 d)}"
    | none => some "bad-op"
  | ["login", sd, hx] =>
    match seedOf sd, ofHex hx with
    | some seed, some pw => some s!"out={toHex (loginCalcC (passwordBuf pw) seed)}"
    | _, _ => some "bad-op"
  | ["md5selftest"] => some (if selfTest then "ok" else "fail")
  | _ => none

end Iodine.Drv.Login
