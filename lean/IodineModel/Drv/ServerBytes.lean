import IodineModel.Hex
import IodineModel.Server.Bytes
import IodineModel.Drv.Server
/-
Byte-level driver of the server model (docs/SRV_PROTOCOL.md): the ops that run one iteration of `tunnel()`,

  q <src> <id> <type> <hexname> | dns <src> <hexdatagram> | tun <hexframe> | bind <hexdatagram> | tick

answered with EXACTLY the line harness/h_srv.c prints: `dq …` first (how `dns_decode(QR_QUERY)` saw the datagram; not for
raw frames), then the events in order, `tx <dst> <hex>` after each `ans` whose encoding is sent, `nsa`/`fwd` with their
bytes, `to= tunsel=`, the slot digest.

`q`: the harness builds the datagram with the repository's `dns_encode(pkt[4096], &q, QR_QUERY, host, strlen(host))`,
`dnsc_use_edns0` forced to 0 for that call, `q.id`/`q.type` = `(unsigned short) atoi(…)`, `host` = the name up to its first
NUL (names of 600 bytes or more: `bad-op`; `len < 1`: `encode-failed`), and delivers it like a `dns` op.  So does this driver,
with `Wire.DnsEncode.dnsEncodeQuery`.

The static `td1`/`td2` of `write_dns_nameenc` are shared with the `wd` op (Drv/Downstream.lean): `Main` threads one `Td`.
-/
namespace Iodine.Drv.ServerBytes
open Iodine Iodine.Hex Iodine.Server Iodine.Drv.Server

def showBEvent : BEvent → String
  | .tx dst b => s!"tx {showAddrEv dst} {toHex b}"
  | .raw dst b => s!"raw {showAddrEv dst} {toHex b}"
  | .tunw f => s!"tunw {toHex f}"
  | .fwd dst b => s!"fwd {showAddrEv dst} {toHex b}"
  | .rly dst b => s!"rly {showAddrEv dst} {toHex b}"
  | .nsa dst b => s!"nsa {showAddrEv dst} {toHex b}"

/-- an event of the session machine and the datagrams it stands for, as the harness prints them: the `write_dns` hook's
`ans` line, then the `sendto`; the markers; for everything else just the `sendto`/`write` -/
def showPair : Event × List BEvent → List String
  | (e@(.ans ..), bs) => showEvent e :: bs.map showBEvent
  | (.sweep, _) => ["sweep"]
  | (.tunskip, _) => ["tunskip"]
  | (_, bs) => bs.map showBEvent

/-- one loop iteration op: body with the stored `tunsel`, the encoders, then the next top of loop
(see the header of Drv/Server.lean for why the top of the loop comes last) -/
def runOp (st : St) (td : WriteDns.Td) (pre : List String) (inp : Srv → Input) : St × WriteDns.Td × String :=
  match st.srv with
  | none => (st, td, "no-cfg")
  | some s =>
    let i := inp s
    let r := body s i st.tunsel
    let e := encodeEventsL s.cfg (queryOf i) td r.2
    let t := topOfLoop r.1
    let evs := pre ++ e.2.flatMap showPair
    let line := " | ".intercalate (evs ++ [s!"to={st.to} tunsel={b01 st.tunsel}", digest t.1])
    ({ st with srv := some t.1, to := t.2.1, tunsel := t.2.2 }, e.1, line)

/-- the `dq <rv> <id> <type> <hexname>` event of the harness (`emit_dq`): nothing for a datagram with the raw header -/
def dqLine (bytes : List Nat) : List String :=
  if bytes.length ≥ Gen.RAW_HDR_LEN ∧ bytes.take 3 = Gen.rawHeader.take 3 then []
  else
    match Wire.dnsDecodeQuery (rxBuf #[] (bytes.take 65536)) with
    | .ok d => [s!"dq {d.rv} {d.id} {d.type} {toHex d.name}"]
    | .error _ => ["dq fault"]

/-- a datagram on the DNS socket -/
def runDgram (st : St) (td : WriteDns.Td) (src : Addr) (bytes : List Nat) : St × WriteDns.Td × String :=
  runOp st td (dqLine bytes) fun s => toInput s (.dgram src bytes)

def handle (st : St) (td : WriteDns.Td) (toks : List String) : Option (St × WriteDns.Td × String) :=
  match toks with
  | ["tick"] => some (runOp st td [] fun s => toInput s .tick)
  | ["q", src, id, ty, hn] =>
    match parseAddr src, id.toInt?, ty.toInt?, ofHex hn with
    | some src, some id, some ty, some name =>
      if name.length ≥ 600 then some (st, td, "bad-op") else
      if st.srv.isNone then some (st, td, "no-cfg") else
      let host := name.takeWhile (· ≠ 0)
      match Wire.DnsEncode.dnsEncodeQuery 4096 (id % 65536).toNat (ty % 65536).toNat false host with
      | .ok pkt => if pkt.length < 1 then some (st, td, "encode-failed") else some (runDgram st td src pkt)
      | .ret _ => some (st, td, "encode-failed")
      | .fault _ => some (st, td, "fault=oobWrite")
    | _, _, _, _ => some (st, td, "bad-op")
  | ["dns", src, hx] =>
    match parseAddr src, ofHex hx with
    | some src, some b => some (runDgram st td src b)
    | _, _ => some (st, td, "bad-op")
  | ["tun", hx] =>
    match ofHex hx with
    | some b => some (runOp st td [] fun s => toInput s (.tun b))
    | none => some (st, td, "bad-op")
  | ["bind", hx] =>
    match ofHex hx with
    | some b => some (runOp st td [] fun s => toInput s (.bind b))
    | none => some (st, td, "bad-op")
  | _ => none

end Iodine.Drv.ServerBytes
