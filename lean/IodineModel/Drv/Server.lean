import IodineModel.Hex
import IodineModel.Server.Loop
/-
Line-protocol driver of the server session model (docs/SRV_PROTOCOL.md, "model ops"):
  cfg … | time t | rand v… | nop                      (state and environment)
  qd src id type hexname | rawf src hex               (SESSION level: an already decoded query / a raw frame; no `tx`/`dq`,
                                                       `nsa`/`fwd` without bytes)
The loop-iteration ops of the harness (`q dns tun bind tick`) are answered at BYTE level by Drv/ServerBytes.lean,
which shares this file's state `St`, parsers and printers.

The C harness parks the real `tunnel()` thread INSIDE `select`: the top of the loop of the next
iteration (clearing `q_sendrealsoon_new`, timeout, tun_fd selection) has already run, with the clock of
the previous op, when an op's answer line (and slot digest) is printed, and the `to=`/`tunsel=`
printed by an op are the ones computed at the end of the previous op.  The driver does the same:
an op is `Server.body` followed by `Server.topOfLoop`; this is `Server.iteration` with the clock
advancing while `select` blocks.
-/
namespace Iodine.Drv.Server
open Iodine Iodine.Hex Iodine.Server Iodine.Gen

structure St where
  srv : Option Srv := none
  /-- select timeout and tun selection computed by the last `topOfLoop` -/
  to : Nat := 0
  tunsel : Bool := false
  /-- values appended to the harness's rand queue since `cfg` (it holds 4096 values in total) -/
  nrand : Nat := 0

/-! ### parsing -/

def hexNat (s : String) : Option Nat :=
  s.toList.foldlM (fun acc c => (hexVal c).map (fun d => 16 * acc + d)) 0

def parseAddr (s : String) : Option Addr :=
  match s.splitOn ":" with
  | [f, ips, port] =>
    match hexNat ips, port.toNat? with
    | some ip, some port =>
      if f == "4" ∧ ips.length == 8 then some ⟨4, ip, port % 65536⟩
      else if f == "6" ∧ ips.length == 32 then some ⟨6, ip, port % 65536⟩
      else none
    | _, _ => none
  | _ => none

/-- `atoi`-like: decimal with optional sign -/
def parseInt (s : String) : Option Int := s.toInt?

/-! ### printing -/

def showAddrEv (a : Addr) : String :=
  if a.fam = 4 then s!"4:{toHex (beBytes 4 a.ip)}:{a.port}"
  else if a.fam = 6 then s!"6:{toHex (beBytes 16 a.ip)}:{a.port}"
  else s!"bad:fam{a.fam}:len0"

def showHost (a : Addr) : String := if a.fam = 0 then "none" else showAddrEv a

def showChar (c : Nat) : String := if c = 0 then "0" else String.singleton (Char.ofNat c)

def showEvent : Event → String
  | .ans dst id type dn name data _ => s!"ans {showAddrEv dst} {id} {type} {showChar dn} {toHex name} {toHex data}"
  | .raw dst b => s!"raw {showAddrEv dst} {toHex b}"
  | .tunw f => s!"tunw {toHex f}"
  | .fwd dst => s!"fwd {showAddrEv dst} -"
  | .rly dst b => s!"rly {showAddrEv dst} {toHex b}"
  | .nsa dst => s!"nsa {showAddrEv dst} -"
  | .sweep => "sweep"
  | .tunskip => "tunskip"

/-- `(Σ (i+1)·x[i]) mod 65521` -/
def wsum (d : List Nat) : Nat :=
  (d.zipIdx.foldl (fun acc (b, i) => (acc + (i + 1) * b) % 65521) 0)

def b01 (b : Bool) : String := if b then "1" else "0"

def showEnc : Enc → String
  | .b32 => "b32" | .b64 => "b64" | .b64u => "b64u" | .b128 => "b128"

def qmemSum (m : List QmemEntry) : Nat :=
  (m.filter (fun e => e.type != T_UNSET)).foldl (fun acc e => acc + e.type + e.cmc.foldl (· + ·) 0) 0

def showSlot (u : Nat) (t : Session) : String :=
  let oq :=
    if t.oqFilled = 0 then "-"
    else ",".intercalate ((List.range (min t.oqFilled OUTPACKETQ_LEN)).map fun i =>
      toString (t.outpacketq.getD ((t.oqNext + i) % OUTPACKETQ_LEN) Packet.zero).len)
  let dc := ",".intercalate (t.dnscache.map fun e =>
      s!"{e.q.id}:{e.answerlen}:{wsum (e.answer.take (if e.answerlen ≤ 4096 then e.answerlen else 0))}")
  let pk (p : Packet) : Nat := wsum (p.data.take (if p.len ≤ 65536 then p.len else 0))
  s!"u={u} au={b01 t.authenticated} ar={b01 t.authenticatedRaw} ol={b01 t.optionsLocked} lp={t.lastPkt} seed={t.seed} host={showHost t.host}" ++
  s!" conn={if t.conn = .dnsNull then 1 else 0} lazy={b01 t.lazy} fs={t.fragsize} enc={showEnc t.encoder} dn={showChar t.downenc}" ++
  s!" q={t.q.id}/{t.q.id2}/{t.q.type}/{wsum t.q.name} qs={t.qs.id}/{t.qs.id2}/{t.qs.type}/{wsum t.qs.name}/{b01 t.qsNew}" ++
  s!" in={t.inpacket.len}/{t.inpacket.offset}/{t.inpacket.seqno}/{t.inpacket.fragment}/{pk t.inpacket}" ++
  s!" out={t.outpacket.len}/{t.outpacket.offset}/{t.outpacket.sentlen}/{t.outpacket.seqno}/{t.outpacket.fragment}/{pk t.outpacket} ofr={t.outfragresent}" ++
  s!" oq={t.oqNext}/{t.oqFilled}/{oq} dc={t.dcLast}/{dc} mp={t.qmempingLast}/{qmemSum t.qmemping} md={t.qmemdataLast}/{qmemSum t.qmemdata}"

def digest (s : Srv) : String :=
  let act := (s.users.zipIdx.filter (fun (t, _) => t.active)).map (fun (t, u) => showSlot u t)
  if act.isEmpty then "st" else "st " ++ " ; ".intercalate act

/-! ### ops -/

/-- one loop iteration op: body with the stored `tunsel`, then the next top of loop -/
def runOp (st : St) (inp : Srv → Input) : St × String :=
  match st.srv with
  | none => (st, "no-cfg")
  | some s =>
    let r := body s (inp s) st.tunsel
    let t := topOfLoop r.1
    let evs := r.2.map showEvent
    let line := " | ".intercalate (evs ++ [s!"to={st.to} tunsel={b01 st.tunsel}", digest t.1])
    ({ st with srv := some t.1, to := t.2.1, tunsel := t.2.2 }, line)

def mkQuery (s : Srv) (src : Addr) (id type : Nat) (name : List Nat) : Query :=
  { name := name.takeWhile (· ≠ 0), type := type % 65536, id := id % 65536, from_ := src, id2 := 0, from2 := Addr.zero,
    dest := if src.fam = 4 then ⟨4, s.cfg.dest4, 0⟩ else ⟨6, s.cfg.dest6, 0⟩ }

def handle (st : St) (toks : List String) : Option (St × String) :=
  match toks with
  | ["cfg", ci, pw, myip, nb, td, mtu, nsip, bp, d4, d6] =>
    match ci.toNat?, ofHex pw, hexNat myip, nb.toNat?, ofHex td, parseInt mtu, hexNat nsip, bp.toNat?, hexNat d4, hexNat d6 with
    | some ci, some pw, some myip, some nb, some td, some mtu, some nsip, some bp, some d4, some d6 =>
      let cfg : Config :=
        { checkIp := ci ≠ 0, password := (pw ++ List.replicate 32 0).take 32, myIp := myip, netmask := nb,
          topdomain := td.takeWhile (· ≠ 0), mtu := mtu, nsIp := nsip, bindPort := bp, dest4 := d4, dest6 := d6,
          createdUsers := 0 }
      let s := Srv.init cfg nb
      let t := topOfLoop s
      some ({ srv := some t.1, to := t.2.1, tunsel := t.2.2, nrand := 0 }, s!"ok users={s.cfg.createdUsers}")
    | _, _, _, _, _, _, _, _, _, _ => some (st, "bad-op")
  | ["time", t] =>
    match t.toNat? with
    | some t => some ({ st with srv := st.srv.map fun s => { s with now := t } }, "ok")
    | none => some (st, "bad-op")
  | "rand" :: vs =>
    let vals := (vs.map fun v => (v.toNat?).getD 0).take (4096 - st.nrand)
    some ({ st with srv := st.srv.map (fun s => { s with rand := s.rand ++ vals }), nrand := st.nrand + vals.length }, "ok")
  | ["nop"] => some (st, "nop")
  | ["qd", src, id, ty, hn] =>
    match parseAddr src, id.toNat?, ty.toNat?, ofHex hn with
    | some src, some id, some ty, some name => some (runOp st fun s => .q (mkQuery s src id ty name))
    | _, _, _, _ => some (st, "bad-op")
  | ["rawf", src, hx] =>
    match parseAddr src, ofHex hx with
    | some src, some b => some (runOp st fun _ => .rawf src b)
    | _, _ => some (st, "bad-op")
  | _ => none

end Iodine.Drv.Server
