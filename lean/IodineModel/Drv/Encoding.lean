import IodineModel.Hex
import IodineModel.Codec.Inst
import IodineModel.Encoding
namespace Iodine.Drv.Encoding
open Iodine Iodine.Hex Iodine.Encoding

def handle (toks : List String) : Option String :=
  match toks with
  | ["bh", cn, maxlen, buflen, prev, htd, hd] =>
    match Codec.byName cn, maxlen.toNat?, buflen.toNat?, prev.toNat?, ofHex htd, ofHex hd with
    | some c, some ml, some bl, some pv, some td, some d =>
      match buildHostname c ml bl pv td d with
      | some b => some s!"r={b.used} name={toHex b.name}"
      | none => some "underflow"
    | _, _, _, _, _, _ => some "bad-op"
  | ["dotify", hx] =>
    match ofHex hx with
    | some s => let r := dotify s; some s!"r={r.length} out={toHex r}"
    | none => some "bad-op"
  | ["unpack", cn, cap, hx] =>
    match Codec.byName cn, cap.toNat?, ofHex hx with
    | some c, some cap, some s => let r := unpackData c cap s; some s!"r={r.length} out={toHex r}"
    | _, _, _ => some "bad-op"
  | ["extract", cn, h, dlen, hx] =>
    match Codec.byName cn, h.toNat?, dlen.toNat?, ofHex hx with
    | some c, some h, some dl, some s => let r := serverExtract c h dl s; some s!"r={r.length} out={toHex r}"
    | _, _, _, _ => some "bad-op"
  | _ => none

end Iodine.Drv.Encoding
