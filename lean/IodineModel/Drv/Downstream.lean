import IodineModel.Hex
import IodineModel.Server.WriteDns
import IodineModel.Client.ReadDns
/-
Driver ops for the downstream answer path (C09).

  wd <id> <type> <downenc char> <hexname> <hexpayload>
      → ans 4:0a630001:53 <id> <type> <dn> <hexname> <hexpayload> | tx 4:0a630001:53 <hexdatagram>
        (`ans …` alone when nothing is sent), exactly the line of harness/h_srv.c op `wd`, which calls the real
        `write_dns`.  The static variables `td1`, `td2` of `write_dns_nameenc` start at 0 with the process and
        advance with every name encoded: `handleWd` threads them.
  rdq <buflen> <hexdatagram>
      → rv=<n> q=<id>/<type>/<rcode> buf=<hex of buf[0..rv) or ->
        (harness/h_cli.c `start readq <buflen>` + `ans <hexdatagram>`: events `q <id> <type> <rcode> | buf <hex> | ret <rv>`)

Where the model predicts a store/read outside an array the answer is `fault=<kind>` (the C harness, built with
ASan, aborts on such an op).
-/
namespace Iodine.Drv.Downstream
open Iodine Iodine.Hex Iodine.Server.WriteDns Iodine.Client.ReadDns

/-- the C string in `q.name` after `memcpy(q.name, name, nlen)` into the zeroed struct -/
def cstr (raw : List Nat) : List Nat := raw.takeWhile (· ≠ 0)

def faultStr : Iodine.Wire.Fault → String
  | .oob => "fault=oob"
  | .oobWrite => "fault=oobWrite"
  | .fuel => "fault=fuel"
  | .precond => "fault=precond"

/-- stateful part: `wd` -/
def handleWd (td : Td) (toks : List String) : Option (Td × String) :=
  match toks with
  | ["wd", id, ty, dn, hn, hp] =>
    match id.toInt?, ty.toInt?, dn.toList, ofHex hn, ofHex hp with
    | some id, some ty, dnc :: _, some name, some pay =>
      if name.length ≥ 256 then some (td, "bad-op") else
      -- q.id = (unsigned short) atoi(..)
      let id := (id % 65536).toNat
      let ty := (ty % 65536).toNat
      let qn := cstr name
      let dnv := dnc.toNat
      let ans := s!"ans 4:0a630001:53 {id} {ty} {if dnv = 0 then "0" else String.singleton dnc} {toHex qn} {toHex pay}"
      match writeDnsR td id ty qn pay dnv with
      | (td', .ok pkt) =>
        if pkt.length < 1 then some (td', ans) else some (td', s!"{ans} | tx 4:0a630001:53 {toHex pkt}")
      | (td', .ret _) => some (td', ans)
      | (td', .fault _) => some (td', "fault=oobWrite")
    | _, _, _, _, _ => some (td, "bad-op")
  | "wd" :: _ => some (td, "bad-op")
  | _ => none

/-- stateless part: `rdq` -/
def handle (toks : List String) : Option String :=
  match toks with
  | ["rdq", bl, hd] =>
    match bl.toNat?, ofHex hd with
    | some buflen, some pkt =>
      if pkt.length > 65536 then some "bad-op" else
      match readDnsWithq buflen pkt with
      | .ok r => some s!"rv={r.rv} q={r.id}/{r.type}/{r.rcode} buf={toHex r.buf}"
      | .error f => some (faultStr f)
    | _, _ => some "bad-op"
  | "rdq" :: _ => some "bad-op"
  | _ => none

end Iodine.Drv.Downstream
