/-
Bit-level helpers shared by the codec models.  Bytes and table indices are `Nat`s with
explicit `< 2^k` side conditions (omega-friendly); bit strings are `List Bool`, most
significant bit first, exactly the order in which the C encoders consume input bits.
-/
namespace Iodine

/-- The low `k` bits of `n`, most significant first. -/
def bitsBE : Nat → Nat → List Bool
  | 0, _ => []
  | k+1, n => n.testBit k :: bitsBE k n

/-- Value of a big-endian bit string. -/
def ofBitsBE : List Bool → Nat
  | [] => 0
  | b :: bs => b.toNat * 2 ^ bs.length + ofBitsBE bs

@[simp] theorem bitsBE_length (k n : Nat) : (bitsBE k n).length = k := by
  induction k with
  | zero => rfl
  | succ k ih => simp [bitsBE, ih]

theorem ofBitsBE_lt (bs : List Bool) : ofBitsBE bs < 2 ^ bs.length := by
  induction bs with
  | nil => simp [ofBitsBE]
  | cons b bs ih =>
    simp only [ofBitsBE, List.length_cons, Nat.pow_succ]
    cases b <;> simp <;> omega

theorem bitsBE_mod (k n : Nat) : bitsBE k (n % 2 ^ k) = bitsBE k n := by
  suffices h : ∀ j, j ≤ k → bitsBE j (n % 2 ^ k) = bitsBE j n from h k (Nat.le_refl _)
  intro j
  induction j with
  | zero => intro _; rfl
  | succ j ih =>
    intro hj
    simp only [bitsBE]
    rw [ih (by omega), Nat.testBit_mod_two_pow]
    simp [show j < k by omega]

theorem ofBitsBE_bitsBE (k n : Nat) (h : n < 2 ^ k) : ofBitsBE (bitsBE k n) = n := by
  induction k generalizing n with
  | zero => simp [bitsBE, ofBitsBE]; omega
  | succ k ih =>
    simp only [bitsBE, ofBitsBE, bitsBE_length]
    rw [← bitsBE_mod, ih _ (Nat.mod_lt _ (Nat.two_pow_pos k))]
    have hdiv : n / 2 ^ k < 2 := by
      rw [Nat.div_lt_iff_lt_mul (Nat.two_pow_pos k)]; rw [Nat.pow_succ] at h; omega
    have hm := Nat.div_add_mod n (2 ^ k)
    have hbit : n.testBit k = decide (n / 2 ^ k % 2 = 1) := Nat.testBit_eq_decide_div_mod_eq
    have h01 : n / 2 ^ k = 0 ∨ n / 2 ^ k = 1 := by
      generalize n / 2 ^ k = q at hdiv; omega
    rcases h01 with h0 | h1
    · rw [h0] at hbit hm; simp at hbit; simp [hbit]; omega
    · rw [h1] at hbit hm; simp at hbit; simp [hbit]; omega

theorem bitsBE_ofBitsBE (bs : List Bool) : bitsBE bs.length (ofBitsBE bs) = bs := by
  induction bs with
  | nil => rfl
  | cons b bs ih =>
    simp only [List.length_cons, bitsBE, ofBitsBE]
    have hlt := ofBitsBE_lt bs
    congr 1
    · rw [Nat.mul_comm, Nat.testBit_two_pow_mul_add _ hlt]
      simp; cases b <;> simp
    · rw [← bitsBE_mod, Nat.mul_comm, Nat.mul_add_mod_self_left, Nat.mod_eq_of_lt hlt, ih]

/-- `m` consecutive groups of `k` elements (the list is cut, never padded). -/
def chunksN (k : Nat) : Nat → List α → List (List α)
  | 0, _ => []
  | m+1, l => l.take k :: chunksN k m (l.drop k)

@[simp] theorem chunksN_length (k m : Nat) (l : List α) : (chunksN k m l).length = m := by
  induction m generalizing l with
  | zero => rfl
  | succ m ih => simp [chunksN, ih]

theorem chunksN_flatten (k m : Nat) (l : List α) : (chunksN k m l).flatten = l.take (k * m) := by
  induction m generalizing l with
  | zero => simp [chunksN]
  | succ m ih =>
    simp only [chunksN, List.flatten_cons, ih, Nat.mul_succ]
    rw [Nat.add_comm, List.take_add]

theorem chunksN_elem_length (k m : Nat) (l : List α) (h : k * m ≤ l.length) :
    ∀ g ∈ chunksN k m l, g.length = k := by
  induction m generalizing l with
  | zero => simp [chunksN]
  | succ m ih =>
    intro g hg
    simp only [chunksN, List.mem_cons] at hg
    rw [Nat.mul_succ] at h
    rcases hg with rfl | hg
    · simp; omega
    · exact ih (l.drop k) (by simp; omega) g hg

theorem chunksN_take (k m j : Nat) (l : List α) (h : j ≤ m) :
    (chunksN k m l).take j = chunksN k j l := by
  induction j generalizing m l with
  | zero => simp [chunksN]
  | succ j ih =>
    cases m with
    | zero => omega
    | succ m => simp [chunksN, ih m (l.drop k) (by omega)]

/-- Chunking only looks at the first `k*m` elements. -/
theorem chunksN_append_left (k m : Nat) (l r : List α) (h : k * m ≤ l.length) :
    chunksN k m (l ++ r) = chunksN k m l := by
  induction m generalizing l with
  | zero => rfl
  | succ m ih =>
    rw [Nat.mul_succ] at h
    simp only [chunksN]
    rw [List.take_append_of_le_length (by omega), List.drop_append_of_le_length (by omega)]
    rw [ih _ (by simp; omega)]

theorem chunksN_flatMap (k : Nat) (xs : List β) (f : β → List α) (hf : ∀ x ∈ xs, (f x).length = k) :
    chunksN k xs.length (xs.flatMap f) = xs.map f := by
  induction xs with
  | nil => rfl
  | cons x xs ih =>
    have hx := hf x (by simp)
    have ht : (f x ++ xs.flatMap f).take k = f x := by rw [← hx]; simp
    have hd : (f x ++ xs.flatMap f).drop k = xs.flatMap f := by rw [← hx]; simp
    simp only [List.length_cons, chunksN, List.flatMap_cons, List.map_cons, ht, hd]
    rw [ih (fun y hy => hf y (by simp [hy]))]

end Iodine
