import IodineModel.Getopt
import IodineModel.Common
import IodineModel.Client.State
import IodineModel.Client.Handshake
/-
Model of `main()` of src/iodine.c: option handling, start-up validation, the `client_set_*` calls and the start-up actions up to
and around `client_handshake()` / `client_tunnel()`, exit by exit in the order of the C code.  Tied to the code by the `main` op of
harness/h_cli.c (the real `main()` runs with the operating system substituted) against the `cmain` op of Drv/Options.lean.
-/
namespace Iodine.Client.Options
open Iodine Iodine.Getopt Iodine.Client

/-- "46vfhru:t:d:R:P:m:M:F:T:O:L:I:"  (note: no `z:` although `main()` has a `case 'z'`; `R:` is accepted by `getopt` but has a
`case` only under `#ifdef OPENBSD`, so it falls into `default: usage()`) -/
def optstring : List Nat :=
  [52, 54, 118, 102, 104, 114, 117, 58, 116, 58, 100, 58, 82, 58, 80, 58, 109, 58, 77, 58, 70, 58, 84, 58, 79, 58, 76, 58, 73, 58]

example : optstring = ascii "46vfhru:t:d:R:P:m:M:F:T:O:L:I:" := by decide

structure Env where
  /-- `getenv("IODINE_PASS")` -/
  envPass : Option (List Nat)
  /-- the characters the terminal delivers to `fscanf(stdin, "%79[^\n]", pwd)` in `read_password` -/
  typed : List Nat
  /-- `get_resolvconf_addr()` -/
  resolv : Option (List Nat)
  /-- `get_addr(host, 53, family, 0, …)`: family (4 / 6) and, for IPv4, the address of the result; `none` = failure -/
  getAddr : Nat → List Nat → Option (Nat × Nat)
  userUid : List Nat → Option Nat
  setuidOk : Nat → Bool
  openTun : Option (List Nat) → Bool
  /-- the two `rand()` values `client_init()` draws -/
  r1 : Nat
  r2 : Nat
  /-- what `client_handshake()` returns -/
  hsRet : Int

/-- `main()`'s locals and the statics of client.c the option loop assigns -/
structure Opts where
  family : Nat := 0
  foreground : Bool := false
  rawMode : Bool := true
  username : Option (List Nat) := none
  newroot : Option (List Nat) := none
  device : Option (List Nat) := none
  pidfile : Option (List Nat) := none
  autoFrag : Bool := true
  fragsize : Int := 3072
  hostnameMaxlen : Int := 255
  lazymode : Int := 1
  selecttimeout : Int := 4
  doQtype : Nat := Gen.T_UNSET      -- static of client.c, set by client_set_qtype
  downenc : Nat := 32               -- static of client.c, set by client_set_downenc
  password : List Nat := List.replicate 33 0
deriving DecidableEq, Repr

def sNULL : List Nat := [110, 117, 108, 108]
def sPRIVATE : List Nat := [112, 114, 105, 118, 97, 116, 101]
def sCNAME : List Nat := [99, 110, 97, 109, 101]
def sA : List Nat := [97]
def sMX : List Nat := [109, 120]
def sSRV : List Nat := [115, 114, 118]
def sTXT : List Nat := [116, 120, 116]
def sBase32 : List Nat := [98, 97, 115, 101, 51, 50]
def sBase64 : List Nat := [98, 97, 115, 101, 54, 52]
def sBase64u : List Nat := [98, 97, 115, 101, 54, 52, 117]
def sBase128 : List Nat := [98, 97, 115, 101, 49, 50, 56]
def sRaw : List Nat := [114, 97, 119]

example : sNULL = ascii "null" ∧ sPRIVATE = ascii "private" ∧ sCNAME = ascii "cname" ∧ sA = ascii "a" ∧ sMX = ascii "mx" ∧
    sSRV = ascii "srv" ∧ sTXT = ascii "txt" ∧ sBase32 = ascii "base32" ∧ sBase64 = ascii "base64" ∧ sBase64u = ascii "base64u" ∧
    sBase128 = ascii "base128" ∧ sRaw = ascii "raw" := by decide

/-- `client_set_qtype(qtype)`: the new `do_qtype` (unchanged for an unknown name) -/
def setQtype (cur : Nat) (a : List Nat) : Nat :=
  if caseEq a sNULL then Gen.T_NULL
  else if caseEq a sPRIVATE then Gen.T_PRIVATE
  else if caseEq a sCNAME then Gen.T_CNAME
  else if caseEq a sA then Gen.T_A
  else if caseEq a sMX then Gen.T_MX
  else if caseEq a sSRV then Gen.T_SRV
  else if caseEq a sTXT then Gen.T_TXT
  else cur

/-- `client_set_downenc(encoding)` -/
def setDownenc (cur : Nat) (a : List Nat) : Nat :=
  if caseEq a sBase32 then 84
  else if caseEq a sBase64 then 83
  else if caseEq a sBase64u then 85
  else if caseEq a sBase128 then 86
  else if caseEq a sRaw then 82
  else cur

def clamp (lo hi x : Int) : Int := if x > hi then hi else if x < lo then lo else x

def optStep (o : Opts) : Opt → Except Exit Opts
  | .flag 52 => .ok { o with family := 4 }
  | .flag 54 => .ok { o with family := 6 }
  | .flag 118 => .error (.exit 0 "version")
  | .flag 102 => .ok { o with foreground := true }
  | .flag 104 => .error (.exit 0 "help")
  | .flag 114 => .ok { o with rawMode := false }
  | .arg 117 a => .ok { o with username := some a }
  | .arg 116 a => .ok { o with newroot := some a }
  | .arg 100 a => .ok { o with device := some a }
  | .arg 80 a => .ok { o with password := (strncpy o.password a 33).set 32 0 }
  | .arg 109 a => .ok { o with autoFrag := false, fragsize := atoi a }
  | .arg 77 a =>
    -- hostname_maxlen = atoi(optarg); if (> 255) = 255; if (< 10) = 10;
    .ok { o with hostnameMaxlen := clamp 10 255 (atoi a) }
  | .arg 70 a => .ok { o with pidfile := some a }
  | .arg 84 a =>
    -- if (client_set_qtype(optarg)) errx(5, …): the test is `do_qtype == T_UNSET` AFTER the call
    let q := setQtype o.doQtype a
    if q = Gen.T_UNSET then .error (.errx 5 "qtype") else .ok { o with doQtype := q }
  | .arg 79 a => .ok { o with downenc := setDownenc o.downenc a }
  | .arg 76 a =>
    let l := clamp 0 1 (atoi a)
    .ok { o with lazymode := l, selecttimeout := if l = 0 then 1 else o.selecttimeout }
  | .arg 73 a => let t := atoi a; .ok { o with selecttimeout := if t < 1 then 1 else t }
  | _ => .error (.exit 2 "usage:getopt")

def optLoop (o : Opts) : List Opt → Except Exit Opts
  | [] => .ok o
  | x :: xs =>
    match optStep o x with
    | .error e => .error e
    | .ok o' => optLoop o' xs

/-- what `client_handshake()` finds: the statics of client.c, its arguments, the password buffer `client_set_password` points at
and the nameserver address -/
structure Final where
  cli : Cli
  args : HsArgs
  password : List Nat          -- all 33 bytes of main()'s array
  nsFamily : Nat
  nsIp : Nat
  nsLen : Nat
deriving Repr

structure Result where
  outcome : Outcome
  events : List Ev
  final : Option Final
deriving Repr

def TUN_FD : Int := 1001
def DNS_FD : Int := 1002

def usage (tag : String) (evs : List Ev) : Result := ⟨.exit 2 ("usage:" ++ tag), evs, none⟩

/-- the statics after `client_init()` and the four setters -/
def statics (env : Env) (o : Opts) (topdomain : List Nat) : Cli :=
  let c := clientInit Cli.boot env.r1 env.r2
  { c with selecttimeout := o.selecttimeout, lazymode := o.lazymode ≠ 0, topdomain := topdomain,
           hostnameMaxlen := if o.hostnameMaxlen ≤ 255 then o.hostnameMaxlen else c.hostnameMaxlen,
           doQtype := o.doQtype, downenc := o.downenc,
           -- dns.c: `int dnsc_use_edns0 = 1;` (`Cli.boot` has the value `client_handshake()` stores first thing)
           edns0 := true }

/-- substituted calls after a successful handshake, up to `do_chroot` -/
def evMid (o : Opts) : List Ev :=
  (if o.foreground then [] else [Ev.detach]) ++
  (match o.pidfile with | some f => [.pidfile f] | none => []) ++
  (match o.newroot with | some d => [.chroot d] | none => [])

/-- what `client_handshake()` finds -/
def finalOf (env : Env) (o : Opts) (topdomain pw : List Nat) (fam ip : Nat) : Final :=
  { cli := statics env o topdomain, args := { rawMode := o.rawMode, autoFrag := o.autoFrag, fragsize := o.fragsize },
    password := pw, nsFamily := fam, nsIp := ip, nsLen := if fam = 6 then 28 else 16 }

/-- the positional arguments: nameserver (from resolv.conf if there is one argument only), top domain, substituted calls -/
def positional (env : Env) (rest : List (List Nat)) : Option (Option (List Nat) × List Nat × List Ev) :=
  match rest with
  | [td] => some (env.resolv, td, [.resolvconf])
  | [ns, td] => some (some ns, td, [])
  | _ => none

/-- from `open_tun` to the end of `main()` -/
def startup (env : Env) (o : Opts) (uid : Option Nat) (fin : Final) (evs : List Ev) : Result :=
  let evs := evs ++ [.tun o.device]
  if ¬ env.openTun o.device then ⟨.ret 1, evs, none⟩
  else
    let evs := evs ++ [.odh none 0 fin.nsFamily 1, .hs DNS_FD o.rawMode o.autoFrag o.fragsize]
    if env.hsRet ≠ 0 then ⟨.run 1, evs ++ [.cd DNS_FD, .ct TUN_FD], some fin⟩
    else
      match uid with
      | some u =>
        if env.setuidOk u then ⟨.run 0, evs ++ evMid o ++ [.setuid u, .ctunnel TUN_FD DNS_FD, .cd DNS_FD, .ct TUN_FD], some fin⟩
        else ⟨.exit 2 "usage:setuid", evs ++ evMid o ++ [.setuid u], some fin⟩
      | none => ⟨.run 0, evs ++ evMid o ++ [.ctunnel TUN_FD DNS_FD, .cd DNS_FD, .ct TUN_FD], some fin⟩

/-- from `check_superuser()` to the end of `main()` -/
def afterOpts (env : Env) (o : Opts) (rest : List (List Nat)) : Result :=
  match positional env rest with
  | none => usage "argc" []
  | some (host, topdomain, evs) =>
  if o.fragsize < 1 ∨ o.fragsize > 0xffff then usage "fragsize" evs
  else
    match host with
    | none => usage "nons" evs
    | some h =>
    match env.getAddr o.family h with
    | none => ⟨.errx 1 "lookup", evs ++ [.ga o.family (some h) 53 0], none⟩
    | some (fam, ip) =>
    if Common.checkTopdomain topdomain false ≠ 0 then usage "topdomain" (evs ++ [.ga o.family (some h) 53 0])
    else
      let uidE : Option (Option Nat) :=
        match o.username with
        | none => some none
        | some u => (env.userUid u).map some
      match uidE with
      | none => usage "nouser" (evs ++ [.ga o.family (some h) 53 0])
      | some uid =>
      let p := passwordPhase env.envPass env.typed o.password
      startup env o uid (finalOf env o topdomain p.1 fam ip)
        (evs ++ [.ga o.family (some h) 53 0] ++ (if p.2 then [.prompt] else []))

/-- `main(argc, argv)` of iodine.c -/
def clientMain (env : Env) (argv : List (List Nat)) : Result :=
  let g := getoptAll optstring argv
  match optLoop {} g.1 with
  | .error e => ⟨e.toOutcome, [], none⟩
  | .ok o => afterOpts env o g.2

end Iodine.Client.Options
