import IodineModel.Client.Tunnel
/-
The client thread as a step machine: one step = "the `select` the thread is parked in returns X" → run the C code
until the next `select` (or until `client_tunnel` returns).

The thread can be parked in two places: the `select` of `client_tunnel` (`Phase.tunnel`) and the `select` of
`handshake_waitdns`, reached through `send_query` → `handshake_lazyoff` from inside a handler (`Phase.lazyoff i k`).

Clock (as in the harness): a `select` that times out because of a `tick` consumed the whole seconds of its timeout;
`sleep(1)` advances the clock by 1; nothing else does.  A tun frame offered while tun_fd is not in the read set
makes `select` return 0 as well (that is what the harness does), without advancing the clock.
-/
namespace Iodine.Client
open Iodine

inductive CInput where
  | rq (q : Rq)                 -- DNS socket readable; `read_dns_withq` (DNS mode) makes this of the datagram
  | rawans (bytes : List Nat)   -- DNS socket readable (raw mode): the datagram
  | tun (frame : List Nat)      -- tun device readable
  | tick                        -- timeout
deriving Repr

/-- static variables + control state -/
structure CState where
  c : Cli
  ph : Phase
deriving DecidableEq, Repr, Inhabited

/-- the `select` of `handshake_waitdns(…, timeout = 1)` -/
def waitSel : Sel := ⟨1000000, false, true⟩

/-- the `select` the thread is parked in -/
def pending (s : CState) : Next :=
  match s.ph with
  | .idle => .none
  | .tunnel => .sel (selectOf s.c)
  | .lazyoff _ _ => .sel waitSel

/-- a timed-out `select` consumed `tv_sec` seconds (`tv_sec > 0 ? tv_sec : 0`) -/
def advanceClock (c : Cli) (sel : Sel) : Cli := { c with now := c.now + (sel.to / 1000000).toNat }

/-- `while (running)` at the top of `client_tunnel`'s loop, up to the call of `select`; `return rv` otherwise -/
def loopTop (c : Cli) (evs : List CEvent) : CState × List CEvent × Next :=
  if c.running then (⟨c, .tunnel⟩, evs, .sel (selectOf c)) else (⟨c, .idle⟩, evs, .finished 0)

/-- a handler of `client_tunnel`'s loop stopped: either it returned (every return leads to the top of the loop:
with one descriptor ready per `select`, `continue` and falling through are the same), or the thread is parked in
`handshake_lazyoff` -/
def settle (r : Cli × List CEvent × Stop) : CState × List CEvent × Next :=
  match r.2.2 with
  | .ret _ => loopTop r.1 r.2.1
  | .park k => (⟨r.1, .lazyoff 0 k⟩, r.2.1, .sel waitSel)

/-- `client_tunnel(tun_fd, dns_fd)` from its entry to the first `select` -/
def startTunnel (c : Cli) : CState × List CEvent × Next := loopTop (clientTunnelEnter c) []

/-- what `select` reported -/
inductive Fired where
  | timeout
  | tun (frame : List Nat)
  | dns (inp : CInput)

/-- how the harness maps an input to the return of a `select` with read set `sel`, and the clock -/
def fire (c : Cli) (sel : Sel) : CInput → Cli × Fired
  | .tick => (advanceClock c sel, .timeout)
  | .tun f => if sel.tun then (c, .tun f) else (c, .timeout)
  | inp => (c, .dns inp)

/-- `tunnel_dns` on what the DNS socket delivered.  DNS mode is fed an `Rq`, raw mode the datagram; the
mismatching input kinds are read as "nothing useful" (`Rq.zero` / the empty datagram). -/
def tunnelDnsInput (c : Cli) (inp : CInput) : Cli × List CEvent × Stop :=
  if c.conn = .dnsNull then
    match inp with
    | .rq q => tunnelDns c q
    | _ => tunnelDns c Rq.zero
  else
    match inp with
    | .rawans b => tunnelDnsRaw c b
    | _ => tunnelDnsRaw c []

/-- events that happened before a handler ran -/
def after (evs : List CEvent) (r : CState × List CEvent × Next) : CState × List CEvent × Next := (r.1, evs ++ r.2.1, r.2.2)

/-- one turn of `client_tunnel`'s loop, from the return of `select` to the next `select` -/
def tunnelStep (c : Cli) (inp : CInput) : CState × List CEvent × Next :=
  let f := fire c (selectOf c) inp
  let c := afterSelect f.1
  if !c.running then (⟨c, .idle⟩, [], .finished 0)
  else
    match f.2 with
    | .timeout => settle (timeoutBranch c)
    | .tun frame => let k := rawKeepalive c; after k.2 (settle (tunnelTun k.1 frame))
    | .dns inp => let k := rawKeepalive c; after k.2 (settle (tunnelDnsInput k.1 inp))

/-- `handshake_lazyoff` is over: back through `send_query` and the sender into the interrupted function (`k`),
then to the top of `client_tunnel`'s loop -/
def lazyoffReturn (c : Cli) (k : Resume) (evs : List CEvent) : CState × List CEvent × Next :=
  loopTop (resume c k).1 evs

/-- next iteration of `handshake_lazyoff`'s `for` loop -/
def lazyoffNext (c : Cli) (i : Nat) (k : Resume) : CState × List CEvent × Next :=
  let s := lazyoffIter c (i + 1)
  if s.parked then (⟨s.c, .lazyoff (i + 1) k⟩, s.evs, .sel waitSel)
  else lazyoffReturn s.c k s.evs

/-- one return of the `select` in `handshake_waitdns`, called from iteration `i` of `handshake_lazyoff` -/
def lazyoffStep (c : Cli) (i : Nat) (k : Resume) (inp : CInput) : CState × List CEvent × Next :=
  let f := fire c waitSel inp
  let w : WaitIn := match f.2 with
    | .dns (.rq q) => .ans q
    | .dns _ => .ans Rq.zero
    | _ => .timeout
  match waitdnsRound f.1 w with
  | none => (⟨f.1, .lazyoff i k⟩, [], .sel waitSel)
  | some (c, read) =>
    let buf := match w with | .ans q => q.buf | .timeout => []
    let g := lazyoffGot c read buf
    if g.2 then lazyoffReturn g.1 k [] else lazyoffNext g.1 i k

/-- the step function -/
def cstep (s : CState) (inp : CInput) : CState × List CEvent × Next :=
  match s.ph with
  | .idle => (s, [], .none)
  | .tunnel => tunnelStep s.c inp
  | .lazyoff i k => lazyoffStep s.c i k inp

end Iodine.Client
