import IodineModel.Codec.Inst
import IodineModel.Encoding
import IodineModel.Wire.Read
import IodineModel.Wire.DnsDecode
/-
Model of the client's downstream decoding, /repo/src/client.c:

  static int dns_namedec(char *outdata, int outdatalen, char *buf, int buflen)
  static int read_dns_withq(int dns_fd, int tun_fd, char *buf, int buflen, struct query *q)   (conn == CONN_DNS_NULL)

`dns_namedec` returns the number of bytes it stored in `outdata`; the model returns those bytes.
`unpack_data` undotifies `buf` IN PLACE (characters move towards the front of the region it is given, nothing
is written behind it and no NUL is introduced), so neither `strlen(buf)` nor the parts that `read_dns_withq`
decodes later change: the model reads everything from the buffer as `dns_decode` left it.
-/
namespace Iodine.Client.ReadDns
open Iodine.Codec Iodine.Encoding Iodine.Wire

/-- `dns_namedec(outdata, outdatalen, buf, buflen)` where `mem` is the memory at `buf` (zero behind the end of
the list) and `buflen ≥ 1` -/
def dnsNamedec (outdatalen : Nat) (mem : List Nat) (buflen : Nat) : List Nat :=
  let c := mem.headD 0
  let host (cd : Codec) : List Nat :=
    -- Need 1 byte H, 3 bytes ".xy", >=1 byte data
    if buflen < 5 then [] else unpackData cd outdatalen ((mem.drop 1).take (buflen - 4))
  let txt (cd : Codec) : List Nat :=
    if buflen < 2 then [] else dec cd outdatalen (buflen - 1) (mem.drop 1)
  if c = 104 ∨ c = 72 then host b32          -- h H
  else if c = 105 ∨ c = 73 then host b64     -- i I
  else if c = 106 ∨ c = 74 then host b64u    -- j J
  else if c = 107 ∨ c = 75 then host b128    -- k K
  else if c = 116 ∨ c = 84 then txt b32      -- t T
  else if c = 115 ∨ c = 83 then txt b64      -- s S
  else if c = 117 ∨ c = 85 then txt b64u     -- u U
  else if c = 118 ∨ c = 86 then txt b128     -- v V
  else if c = 114 ∨ c = 82 then              -- r R
    let n := min (buflen - 1) outdatalen
    -- memcpy(outdata, buf + 1, buflen): bytes behind the end of `mem` are zero
    let src := mem.drop 1
    (src ++ List.replicate (n - src.length) 0).take n
  else []

/-- `sizeof(data)` -/
def dataSize : Nat := 65536

/-- The `while (1)` loop of the MX/SRV branch.  `first = strlen(buf)` (see the header comment: constant),
`mem` the memory at `buf`, `out` what has been stored in `data` (`dataoffset = out.length`).  Every iteration
adds at least `thispartlen + 1 ≥ 2` to `bufoffset`, which ends the loop when it reaches `buftotal`. -/
def mxParts (first buftotal : Nat) (mem : List Nat) : (fuel : Nat) → (bufoffset : Nat) → (out : List Nat) → List Nat
  | 0, _, out => out
  | fuel + 1, bufoffset, out =>
    let thispartlen := min first (buftotal - bufoffset)
    let dataspace := dataSize - out.length
    if thispartlen = 0 ∨ dataspace = 0 then out else
    let d := dnsNamedec dataspace (mem.drop bufoffset) thispartlen
    if d.length = 0 then out else
    mxParts first buftotal mem fuel (bufoffset + thispartlen + 1) (out ++ d)

structure Result where
  /-- return value -/
  rv : Int
  /-- `q->id`, `q->type`, `q->rcode` -/
  id : Nat
  type : Nat
  rcode : Nat
  /-- `q->name[0]` (0 for the empty string) -/
  name0 : Nat
  /-- `buf[0 .. rv)` for `rv > 0`, else empty -/
  buf : List Nat
  deriving Repr, DecidableEq

/-- The DNS-mode half of `read_dns_withq(dns_fd, tun_fd, buf, buflen, q)` for the received datagram `pkt`
(`r = pkt.length`), `q` zero-filled before the call.  The receive buffer is `data[64K]`; what lies behind the
datagram there does not matter (Props/C12.lean), the model takes zeros. -/
def readDnsWithq (buflen : Nat) (pkt : List Nat) : Except Fault Result :=
  if pkt.length = 0 then .ok ⟨0, 0, 0, 0, 0, []⟩ else do
  let d ← dnsDecodeAnswer buflen { pkt := pkt.toArray, cap := dataSize }
  let res (rv : Int) (buf : List Nat) : Result := ⟨rv, d.id, d.type, d.rcode, d.name.headD 0, buf⟩
  if d.rv ≤ 0 then .ok (res d.rv []) else
  let rv := d.rv.toNat
  if d.type = 5 ∨ d.type = 16 then
    -- rv = dns_namedec(data, sizeof(data), buf, rv); rv = MIN(rv, buflen); memcpy(buf, data, rv)
    let o := dnsNamedec dataSize d.buf rv
    let o := o.take buflen
    .ok (res o.length o)
  else if d.type = 15 ∨ d.type = 33 then
    let first := (cstr d.buf).length
    let o := mxParts first rv d.buf (rv + 1) 0 []
    let o := o.take buflen
    .ok (res o.length o)
  else .ok (res d.rv (d.buf.take rv))

end Iodine.Client.ReadDns
