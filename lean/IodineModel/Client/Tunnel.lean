import IodineModel.Client.State
import IodineModel.Encoding
import IodineModel.Wire.DnsEncode
import IodineModel.Wire.DnsDecode
/-
Model of the tunnel phase of the iodine client (/repo/src/client.c): one Lean function per C function, the exits
in the order of the C text.  Everything is a pure function `Cli → … → Cli × List CEvent` (plus, where a C function
can be left through the `select` of `handshake_waitdns`, a `Stop` saying so).

What is NOT here: `dns_decode`/`dns_namedec` of a received DNS answer (the model is fed what `read_dns_withq`
returned: `Rq`), and the bytes of the queries (the event is `query id type name`, the name as the repository's own
`dns_decode` reads it back from the datagram — for every legal host name that is the name itself).
Compression is the test scheme of the harness (`0x5a ++ bytes`).
-/
namespace Iodine.Client
open Iodine Iodine.Gen

def ascii (s : String) : List Nat := s.toList.map Char.toNat

/-- `b32_5to8(int in)` = `cb32[in & 31]` -/
def b32_5to8 (x : Int) : Nat := cb32.getD (maskI x 32) 0

/-- `(size_t) x` for an `int` x -/
def sizeT (x : Int) : Nat := (x % (2 ^ 64 : Int)).toNat

/-! ### build_hostname as the client calls it -/

/-- `build_hostname(buf, buflen, data, datalen, topdomain, enc, hostname_maxlen)`; `prev` = the byte in front of
`buf`.  `Encoding.buildHostname` covers the normal case; when `MIN((size_t)maxlen, buflen) - strlen(topdomain) - 8`
wraps around (`size_t`) the C code encodes with that huge bound, i.e. everything it is given. -/
def buildHostname (cd : Codec.Codec) (maxlen : Int) (buflen prev : Nat) (td d : List Nat) : Encoding.Built :=
  match Encoding.buildHostname cd (sizeT maxlen) buflen prev td d with
  | some b => b
  | none =>
    let space0 := (min (sizeT maxlen) buflen + 2 ^ 64 - td.length - 8) % 2 ^ 64
    let space := space0 - space0 / 57
    let r := Codec.enc cd space d
    let s := Encoding.dotify r.chars
    let last := s.getLast?.getD prev
    let s' := if last = Encoding.DOT then s else s ++ [Encoding.DOT]
    ⟨s' ++ td, r.used⟩

/-! ### send_query -/

/-- the head of `send_query`: `chunkid_prev2 = chunkid_prev; chunkid_prev = chunkid; chunkid += 7727;
if (chunkid == 0) chunkid = 7727;` (`uint16_t`) -/
def rotateChunkid (c : Cli) : Cli :=
  let id := (c.chunkid + 7727) % 65536
  { c with chunkidPrev2 := c.chunkidPrev, chunkidPrev := c.chunkid, chunkid := if id = 0 then 7727 else id }

/-- `dns_encode(packet, 4096, &q, QR_QUERY, hostname, strlen(hostname))` + `sendto`, seen through the repository's
`dns_decode(NULL, 0, &q, QR_QUERY, …)` (what the harness prints).  `none`: `len < 1`, "dns_encode doesn't fit",
nothing is sent. -/
def wireQuery (id ty : Nat) (edns : Bool) (host : List Nat) : Option CEvent :=
  match Wire.DnsEncode.dnsEncodeQuery 4096 id ty edns host with
  | .ok pkt =>
    if pkt.length < 1 then none
    else
      match Wire.dnsDecodeQuery { pkt := pkt.toArray } with
      | .ok d => some (.query d.id d.type d.name)
      | .error _ => some (.query 0 0 [])
  | .ret _ => none
  | .fault _ => none

/-- `send_query` up to and including the `sendto`; the `Bool` says that the function went on behind the
`if (len < 1) return;` -/
def sendQueryPlain (c : Cli) (host : List Nat) : Res × Bool :=
  let c := rotateChunkid c
  match wireQuery c.chunkid c.doQtype c.edns0 host with
  | none => ((c, []), false)
  | some ev => ((c, [ev]), true)

/-- `send_handshake_query(fd, prefix)`: prefix (at most 60 characters) + 3 CMC characters + '.' + topdomain
(`buf[300]`: at most 292 characters of it).  The `send_query` in it is the one reached from `handshake_lazyoff`,
where `lazymode == 0`: its "too few answers" block is dead, so it is `sendQueryPlain`
(`Lemmas/Client.lean`, `sendQuery_of_not_lazy`: `sendQuery c h = ⟨…sendQueryPlain c h…, false⟩` when `c.lazymode = false`). -/
def sendHandshakeQuery (c : Cli) (prefix_ : List Nat) : Res :=
  let cmc := [b32_5to8 ((c.randSeed / 1024 % 32 : Nat) : Int), b32_5to8 ((c.randSeed / 32 % 32 : Nat) : Int),
              b32_5to8 ((c.randSeed % 32 : Nat) : Int), 46]
  let c := { c with randSeed := (c.randSeed + 1) % 65536 }
  let buf := prefix_.take 60 ++ cmc
  (sendQueryPlain c (buf ++ c.topdomain.take (300 - buf.length - 1))).1

/-- `send_lazy_switch(fd)` -/
def sendLazySwitch (c : Cli) : Res :=
  sendHandshakeQuery c [111, b32_5to8 c.userid, if c.lazymode then 108 else 105]

/-- what a piece of C code that ends in `send_query` did: `parked` = the thread did not come back, it sits in the
`select` of `handshake_waitdns` (first iteration of `handshake_lazyoff`) -/
structure Sent where
  c : Cli
  evs : List CEvent
  parked : Bool
deriving DecidableEq, Repr

/-- head of one iteration of `for (i = 0; running && i < 5; i++)` in `handshake_lazyoff`: either
`send_lazy_switch` and on into `handshake_waitdns`'s `select` (`parked`), or the loop is over and
`handshake_lazyoff` returns (both `if (!running) return;` and the `warnx` path). -/
def lazyoffIter (c : Cli) (i : Nat) : Sent :=
  if c.running ∧ i < 5 then
    let r := sendLazySwitch c
    ⟨r.1, r.2, true⟩
  else ⟨c, [], false⟩

/-- the test `(send_query_sendcnt > 6 && send_query_recvcnt <= 0) ||
(send_query_sendcnt > 10 && 4 * send_query_recvcnt < send_query_sendcnt)` -/
def tooFewAnswers (c : Cli) : Bool :=
  (c.sendcnt > 6 && c.recvcnt == 0) || (c.sendcnt > 10 && decide (4 * (c.recvcnt : Int) < c.sendcnt))

/-- the block after `sendto` in `send_query` -/
def sendQueryCount (c : Cli) : Sent :=
  if 0 ≤ c.sendcnt ∧ c.sendcnt < 100 ∧ c.lazymode then
    let c := { c with sendcnt := c.sendcnt + 1 }
    if tooFewAnswers c then
      if c.selecttimeout > 1 then
        ⟨{ c with selecttimeout := 1, sendcnt := 0, recvcnt := 0 }, [], false⟩
      else
        -- `else if (lazymode)`: true here
        lazyoffIter { c with lazymode := false, selecttimeout := 1 } 0
    else ⟨c, [], false⟩
  else ⟨c, [], false⟩

/-- `send_query(fd, hostname)` -/
def sendQuery (c : Cli) (host : List Nat) : Sent :=
  let r := sendQueryPlain c host
  if r.2 then
    let s := sendQueryCount r.1.1
    ⟨s.c, r.1.2 ++ s.evs, s.parked⟩
  else ⟨r.1.1, r.1.2, false⟩

/-! ### the senders -/

/-- `send_raw(fd, buf, buflen, cmd)`: `packet[4096]`, so at most 4092 bytes of payload -/
def sendRaw (c : Cli) (buf : List Nat) (buflen cmd : Nat) : CEvent :=
  .rawtx (rawHeader.take 3 ++ [(cmd ||| maskI c.userid 16) % 256] ++ buf.take (min (4096 - RAW_HDR_LEN) buflen))

/-- `send_raw_data(dns_fd)` -/
def sendRawData (c : Cli) : Res :=
  ({ c with outpkt := { c.outpkt with len := 0 } }, [sendRaw c c.outpkt.data c.outpkt.len RAW_HDR_CMD_DATA])

/-- `send_packet(fd, cmd, data, datalen)`: always Base32, `buf[4096]` -/
def sendPacket (c : Cli) (cmd : Nat) (data : List Nat) : Sent :=
  sendQuery c (cmd :: (buildHostname Codec.b32 c.hostnameMaxlen 4095 cmd c.topdomain data).name)

/-- the four header characters and the data-CMC character of an upstream data query -/
def chunkHeader (c : Cli) (last : Bool) : List Nat :=
  [c.useridChar,
   b32_5to8 ((maskI c.outpkt.seqno 8 * 4 ||| maskI c.outpkt.fragment 16 / 4 : Nat) : Int),
   b32_5to8 ((maskI c.outpkt.fragment 4 * 8 ||| maskI c.inpkt.seqno 8 : Nat) : Int),
   b32_5to8 ((maskI c.inpkt.fragment 16 * 2 ||| (if last then 1 else 0) : Nat) : Int),
   (ascii "abcdefghijklmnopqrstuvwxyz0123456789").getD c.datacmc 0]

/-- the bytes `send_chunk` offers to `build_hostname`: `outpkt.data[offset .. len)` -/
def outRest (p : Packet) : List Nat := (p.data.take p.len).drop p.offset

/-- `send_chunk(fd)`.  (`build_hostname` is given `buf + 5` before `buf[4]` has been written: for an empty encoding
it would look at an uninitialised byte, modelled as 0.) -/
def sendChunk (c : Cli) : Sent :=
  let avail := c.outpkt.len - c.outpkt.offset
  let b := buildHostname c.dataenc.codec c.hostnameMaxlen 4091 0 c.topdomain (outRest c.outpkt)
  let c := { c with outpkt := { c.outpkt with sentlen := b.used } }
  let hdr := chunkHeader c (b.used == avail)
  let c := { c with datacmc := if c.datacmc + 1 ≥ 36 then 0 else c.datacmc + 1 }
  sendQuery c (hdr ++ b.name)

/-- `send_ping(fd)` -/
def sendPing (c : Cli) : Sent :=
  if c.conn = .dnsNull then
    let data := [maskI c.userid 256, (maskI c.inpkt.seqno 8 * 16 ||| maskI c.inpkt.fragment 16) % 256,
                 c.randSeed / 256 % 256, c.randSeed % 256]
    sendPacket { c with randSeed := (c.randSeed + 1) % 65536 } 112 data
  else ⟨{ c with lastrawping := c.now }, [sendRaw c [] 0 RAW_HDR_CMD_PING], false⟩

/-! ### how a handler ends -/

inductive Stop where
  | ret (rv : Int)          -- the C function returned `rv`
  | park (k : Resume)       -- the thread is parked in `handshake_lazyoff`'s first `select`; `k` = rest of the function
deriving DecidableEq, Repr

/-- the code between the return of `send_chunk`/`send_ping` and the return of the enclosing function;
second component: the return value of that function (0 for the timeout branch of `client_tunnel`) -/
def resume (c : Cli) : Resume → Cli × Int
  | .tunChunk read => ({ c with sendPingSoon := 0 }, read)
  | .dnsOosPing => ({ c with sendPingSoon := 0 }, -1)
  | .dnsChunk read => ({ c with sendPingSoon := 0 }, read)     -- `send_something_now = 0`: no final ping
  | .dnsPing read => ({ c with sendPingSoon := 0 }, read)
  | .timeout => ({ c with sendPingSoon := 0 }, 0)

/-- a sender was called after `pre` had been emitted; `k` is what follows the call -/
def afterSend (s : Sent) (pre : List CEvent) (k : Resume) : Cli × List CEvent × Stop :=
  if s.parked then (s.c, pre ++ s.evs, .park k)
  else ((resume s.c k).1, pre ++ s.evs, .ret (resume s.c k).2)

/-! ### compression (test scheme), tun device -/

/-- test `compress2`: 0x5a followed by the input -/
def compress (d : List Nat) : List Nat := 0x5a :: d

/-- test `uncompress` into a buffer of `cap` bytes -/
def uncompress (d : List Nat) (cap : Nat) : Option (List Nat) :=
  match d with
  | [] => none
  | b :: rest => if b = 0x5a ∧ rest.length ≤ cap then some rest else none

/-- `write_tun(tun_fd, data, len)` on Linux: the first four bytes are overwritten with 00 00 08 00, then `len` bytes
are written -/
def writeTun (out : List Nat) : CEvent := .tunw (([0, 0, 8, 0] ++ out.drop 4).take out.length)

/-! ### tunnel_tun -/

/-- `tunnel_tun(tun_fd, dns_fd)` when `read_tun` delivers `frame` (`in[64*1024]`) -/
def tunnelTun (c : Cli) (frame : List Nat) : Cli × List CEvent × Stop :=
  let frame := frame.take 65536
  let read : Int := frame.length
  if frame.length = 0 then (c, [], .ret (-1))
  else if isSending c then (c, [], .ret (-1))
  else
    let out := compress frame
    let c := { c with outpkt := { c.outpkt with data := out.take 65536, sentlen := 0, offset := 0,
                                                seqno := sChar (((c.outpkt.seqno + 1) % 8 : Int)), len := out.length,
                                                fragment := 0 },
                      outchunkresent := 0 }
    if c.conn = .dnsNull then afterSend (sendChunk c) [] (.tunChunk read)
    else
      let r := sendRawData c
      (r.1, r.2, .ret read)

/-! ### read_dns_withq, raw-mode half -/

/-- `read_dns_withq` for `conn == CONN_RAW_UDP` on datagram `data` (`data[64*1024]`); it always returns 0 -/
def readRaw (c : Cli) (data : List Nat) : Res :=
  let data := data.take 65536
  if data.length < RAW_HDR_LEN then (c, [])
  else if data.take 3 ≠ rawHeader.take 3 then (c, [])
  else
    let b3 := data.getD 3 0
    if ((b3 &&& RAW_HDR_USR_MASK : Nat) : Int) ≠ c.userid then (c, [])
    else
      let cmd := b3 &&& RAW_HDR_CMD_MASK
      let c := if cmd = RAW_HDR_CMD_DATA ∨ cmd = RAW_HDR_CMD_PING then { c with lastdownstreamtime := c.now } else c
      if cmd ≠ RAW_HDR_CMD_DATA then (c, [])
      else
        match uncompress (data.drop RAW_HDR_LEN) 65536 with
        | some out => (c, [writeTun out])
        | none => (c, [])

/-! ### tunnel_dns -/

/-- what `read_dns_withq` returned in DNS mode: return value, `q.id`, `q.type`, `q.rcode`, `q.name[0]`
and `buf[0..rv)` -/
structure Rq where
  rv : Int
  id : Nat
  type : Nat
  rcode : Nat
  name0 : Nat
  buf : List Nat
deriving DecidableEq, Repr, Inhabited

/-- a datagram from which `read_dns_withq` got nothing -/
def Rq.zero : Rq := ⟨0, 0, 0, 0, 0, []⟩

/-- `recent_seqno(ourseqno, gotseqno)` (common.c): `n` iterations left -/
def recentSeqnoLoop (got : Int) : Nat → Int → Bool
  | 0, _ => false
  | n + 1, our =>
    let our := if our < 0 then 7 else our
    if got = our then true else recentSeqnoLoop got n (our - 1)

def recentSeqno (our got : Int) : Bool := recentSeqnoLoop got 4 our

/-- the two header bytes of a downstream data answer -/
structure Hdr where
  dnSeq : Int      -- new_down_seqno   = (buf[1] >> 5) & 7
  dnFrag : Int     -- new_down_fragment = (buf[1] >> 1) & 15
  upSeq : Int      -- up_ack_seqno     = (buf[0] >> 4) & 7
  upFrag : Int     -- up_ack_fragment  = buf[0] & 15
  last : Bool      -- buf[1] & 1
deriving DecidableEq, Repr

/-- `buf` is a `char[]`: for a byte ≥ 128 `buf[1] >> 5` shifts a negative `int` (arithmetic shift), the `& 7` /
`& 15` then keep exactly the bits an unsigned shift would have delivered -/
def decodeHdr (buf : List Nat) : Hdr :=
  let b0 := buf.getD 0 0
  let b1 := buf.getD 1 0
  { dnSeq := ((b1 / 32 % 8 : Nat) : Int), dnFrag := ((b1 / 2 % 16 : Nat) : Int),
    upSeq := ((b0 / 16 % 8 : Nat) : Int), upFrag := ((b0 % 16 : Nat) : Int), last := b1 % 2 = 1 }

/-- first exit: `q.name[0]` is none of 'P', 'p', userid_char, userid_char2 -/
def notData (c : Cli) (name0 : Nat) : Bool :=
  name0 != 80 && name0 != 112 && name0 != c.useridChar && name0 != c.useridChar2

/-- the SERVFAIL bookkeeping inside `if (read < 2)` -/
def servfailCount (c : Cli) (rq : Rq) : Cli :=
  if rq.rv < 0 ∧ rq.rcode = 2 ∧ c.lazymode ∧ c.selecttimeout > 1 then
    if c.packrecv < 500 ∧ c.packrecvServfail < 4 then
      { c with packrecvServfail := c.packrecvServfail + 1 }
    else if c.packrecv < 500 ∧ c.packrecvServfail = 4 then
      { c with packrecvServfail := c.packrecvServfail + 1, selecttimeout := 1, sendcnt := 0, recvcnt := 0 }
    else if c.packrecv ≥ 500 ∧ c.packrecvServfail > 0 then
      { c with packrecvServfail := 0 }
    else c
  else c

/-- "This is the previous seqno, or a bit earlier": `read = 2; send_ping_soon = 500;` -/
def dupeSeqno (c : Cli) (h : Hdr) (read : Int) : Cli × Int :=
  if read > 2 ∧ h.dnSeq ≠ c.inpkt.seqno ∧ recentSeqno c.inpkt.seqno h.dnSeq then
    ({ c with sendPingSoon := 500 }, 2)
  else (c, read)

/-- `if (!(packrecv & 0x1000000)) packrecv++; send_query_recvcnt++;` -/
def countRecv (c : Cli) : Cli :=
  { c with packrecv := if c.packrecv / 0x1000000 % 2 = 0 then c.packrecv + 1 else c.packrecv,
           recvcnt := c.recvcnt + 1 }

/-- `q.id` is one of the three remembered ids -/
def recentId (c : Cli) (id : Nat) : Bool := id == c.chunkid || id == c.chunkidPrev || id == c.chunkidPrev2

/-- the bookkeeping of the out-of-sequence exit (before its ping) -/
def oosCount (c : Cli) : Cli :=
  let c := { c with packrecvOos := c.packrecvOos + 1 }
  if c.lazymode ∧ c.packrecv < 1000 ∧ c.packrecvOos = 5 then
    { c with selecttimeout := 1, sendcnt := 0, recvcnt := 0 }
  else c

/-- "In lazy mode, we shouldn't get much replies to our most-recent query" -/
def lazyHint (c : Cli) (id : Nat) : Cli :=
  if id = c.chunkid ∧ c.lazymode then
    if c.sendPingSoon = 0 ∨ c.sendPingSoon > 900 then { c with sendPingSoon := 900 } else c
  else c

/-- "a seqno that we didn't see yet, but it has no data any more" -/
def datalessAdopt (c : Cli) (h : Hdr) (read : Int) : Cli :=
  if read = 2 ∧ h.dnSeq ≠ c.inpkt.seqno ∧ !recentSeqno c.inpkt.seqno h.dnSeq then
    { c with inpkt := { c.inpkt with seqno := sChar h.dnSeq, fragment := sChar h.dnFrag, len := 0 }, sendPingSoon := 500 }
  else c

/-- the `if … else if …` chain at the head of `while (read > 2)`: `none` = one of the two `break`s
(duplicate fragment / missed fragment), otherwise the state with which the fragment is taken -/
def acceptFragment (c : Cli) (h : Hdr) : Option Cli :=
  if h.dnSeq ≠ c.inpkt.seqno then
    some { c with inpkt := { c.inpkt with seqno := sChar h.dnSeq, fragment := sChar h.dnFrag, len := 0 } }
  else if c.inpkt.fragment = 0 ∧ h.dnFrag = 0 ∧ c.inpkt.len = 0 then some c      -- "weird situation"
  else if h.dnFrag ≤ c.inpkt.fragment then none
  else if h.dnFrag > c.inpkt.fragment + 1 then none
  else some c

/-- `inpkt.fragment = new_down_fragment; datalen = MIN(read - 2, sizeof(inpkt.data) - inpkt.len);
memcpy(&inpkt.data[inpkt.len], &buf[2], datalen); inpkt.len += datalen;` -/
def appendFragment (c : Cli) (h : Hdr) (buf : List Nat) (read : Int) : Cli :=
  let chunk := ((buf.take read.toNat).drop 2).take (PACKET_DATA_SIZE - c.inpkt.len)
  { c with inpkt := { c.inpkt with fragment := sChar h.dnFrag, data := c.inpkt.data.take c.inpkt.len ++ chunk,
                                   len := c.inpkt.len + chunk.length } }

/-- "If last fragment flag is set": uncompress → write_tun, `inpkt.len = 0` -/
def deliver (c : Cli) : Res :=
  let evs := match uncompress (c.inpkt.data.take c.inpkt.len) 65536 with
    | some out => [writeTun out]
    | none => []
  ({ c with inpkt := { c.inpkt with len := 0 } }, evs)

/-- the whole `while (read > 2) { … break; }`; the `Bool` is `send_something_now` -/
def downstream (c : Cli) (h : Hdr) (buf : List Nat) (read : Int) (sendNow : Bool) : Cli × List CEvent × Bool :=
  if read > 2 then
    match acceptFragment c h with
    | none => ({ c with sendPingSoon := 500 }, [], sendNow)
    | some c =>
      let c := appendFragment c h buf read
      let r : Res := if h.last then deliver c else (c, [])
      if r.1.inpkt.len = 0 then ({ r.1 with sendPingSoon := 5 }, r.2, sendNow)
      else (r.1, r.2, true)
  else (c, [], sendNow)

/-- "Send ping if we didn't send anything yet" … `return read;` -/
def finalPing (c : Cli) (evs : List CEvent) (sendNow : Bool) (read : Int) : Cli × List CEvent × Stop :=
  if sendNow then afterSend (sendPing c) evs (.dnsPing read) else (c, evs, .ret read)

/-- "Upstream data traffic" and the end of `tunnel_dns` -/
def upstream (c : Cli) (h : Hdr) (evs : List CEvent) (sendNow : Bool) (read : Int) : Cli × List CEvent × Stop :=
  if isSending c ∧ h.upSeq = c.outpkt.seqno ∧ h.upFrag = c.outpkt.fragment then
    let c := { c with outpkt := { c.outpkt with offset := c.outpkt.offset + c.outpkt.sentlen } }
    if c.outpkt.offset ≥ c.outpkt.len then
      -- Packet completed
      let c := { c with outpkt := { c.outpkt with offset := 0, len := 0, sentlen := 0 }, outchunkresent := 0 }
      let c := if c.sendPingSoon = 0 ∨ c.sendPingSoon > 20 then { c with sendPingSoon := 20 } else c
      finalPing c evs sendNow read
    else
      -- More to send
      let c := { c with outpkt := { c.outpkt with fragment := sChar (c.outpkt.fragment + 1) }, outchunkresent := 0 }
      afterSend (sendChunk c) evs (.dnsChunk read)
  else finalPing c evs sendNow read

/-- `tunnel_dns(tun_fd, dns_fd)` in DNS mode, from the return of `read_dns_withq` on -/
def tunnelDns (c : Cli) (rq : Rq) : Cli × List CEvent × Stop :=
  if notData c rq.name0 then ({ c with sendPingSoon := 700 }, [], .ret (-1))
  else if rq.rv < 2 then ({ servfailCount c rq with sendPingSoon := 900 }, [], .ret (-1))
  else if rq.rv = 5 ∧ rq.buf.take 5 = ascii "BADIP" then (c, [], .ret (-1))
  else
    let sendNow := c.sendPingSoon != 0
    let c := { c with sendPingSoon := 0 }
    let h := decodeHdr rq.buf
    let d := dupeSeqno c h rq.rv
    let read := d.2
    let c := countRecv d.1
    if !recentId c rq.id then
      let c := oosCount c
      if sendNow then afterSend (sendPing c) [] .dnsOosPing else (c, [], .ret (-1))
    else
      let c := { c with lastdownstreamtime := c.now }
      let c := lazyHint c rq.id
      let c := datalessAdopt c h read
      let r := downstream c h rq.buf read sendNow
      upstream r.1 h r.2.1 r.2.2 read

/-- `tunnel_dns(tun_fd, dns_fd)` in raw mode: `read_dns_withq` did everything, `return 1` -/
def tunnelDnsRaw (c : Cli) (data : List Nat) : Cli × List CEvent × Stop :=
  let r := readRaw c data
  (r.1, r.2, .ret 1)

/-! ### client_tunnel -/

/-- entry of `client_tunnel`: `lastdownstreamtime = time(NULL); lastrawping = time(NULL); send_query_sendcnt = 0;` -/
def clientTunnelEnter (c : Cli) : Cli := { c with lastdownstreamtime := c.now, lastrawping := c.now, sendcnt := 0 }

/-- `tv` and `fds` of the `select` in `client_tunnel` -/
def selectOf (c : Cli) : Sel :=
  let to : Int :=
    if c.sendPingSoon ≠ 0 then (c.sendPingSoon : Int) * 1000
    else if isSending c then 1000000
    else c.selecttimeout * 1000000
  { to := to, tun := !isSending c || decide (c.outchunkresent ≥ 2), dns := true }

/-- after `select`: the 60 s check -/
def afterSelect (c : Cli) : Cli :=
  if c.lastdownstreamtime + 60 < c.now then { c with running := false } else c

/-- `if (i > 0 && conn == CONN_RAW_UDP && lastrawping + selecttimeout <= time(NULL)) send_ping(dns_fd);` -
the raw-mode keepalive sent although `select` did not time out (traffic in one direction only) -/
def rawKeepalive (c : Cli) : Cli × List CEvent :=
  if c.conn ≠ .dnsNull ∧ (c.lastrawping : Int) + c.selecttimeout ≤ (c.now : Int) then
    ({ c with lastrawping := c.now }, [sendRaw c [] 0 RAW_HDR_CMD_PING])
  else (c, [])

/-- the `i == 0` branch -/
def timeoutBranch (c : Cli) : Cli × List CEvent × Stop :=
  if isSending c then
    if c.outchunkresent < 3 then
      afterSend (sendChunk { c with outchunkresent := c.outchunkresent + 1 }) [] .timeout
    else
      let c := { c with outpkt := { c.outpkt with offset := 0, len := 0, sentlen := 0 }, outchunkresent := 0 }
      afterSend (sendPing c) [] .timeout
  else afterSend (sendPing c) [] .timeout

/-! ### handshake_waitdns as called by handshake_lazyoff -/

/-- what the `select` of `handshake_waitdns` delivered -/
inductive WaitIn where
  | timeout            -- `r == 0`
  | ans (rq : Rq)      -- the socket was readable and `read_dns_withq` returned this

/-- one round of the `while (1)` of `handshake_waitdns(dns_fd, in, sizeof(in), 'o', 'O', 1)`:
`none` = `continue` (back into `select`), otherwise the return value (and the state: `sleep(1)`) -/
def waitdnsRound (c : Cli) : WaitIn → Option (Cli × Int)
  | .timeout => some (c, -3)
  | .ans rq =>
    if rq.id ≠ c.chunkid ∨ (rq.name0 ≠ 111 ∧ rq.name0 ≠ 79) then none
    else
      -- (the "Got empty reply" exit needs name[0] ∈ {Y,y,V,v}: impossible here)
      let c := if rq.rv < 0 ∧ rq.rcode = 2 then { c with now := c.now + 1 } else c
      if rq.rv < 0 then some (c, -2) else some (c, rq.rv)

/-- the body of the `for` loop of `handshake_lazyoff` after `handshake_waitdns` returned `read` with `in = buf`:
`true` = "Server switched back to legacy mode", return -/
def lazyoffGot (c : Cli) (read : Int) (buf : List Nat) : Cli × Bool :=
  if read = 9 ∧ buf.take 9 = ascii "Immediate" then ({ c with lazymode := false, selecttimeout := 1 }, true)
  else (c, false)

end Iodine.Client
