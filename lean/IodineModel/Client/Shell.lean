/-
Client side, login reply → operating-system commands.

Model of `handshake_login()` (src/client.c) from the point where a reply `in[0..read)` has been received,
of glibc's `sscanf(in, "%64[^-]-%64[^-]-%d-%d", server, client, &mtu, &netmask)`, of glibc's
`inet_pton(AF_INET, …)` (resolv/inet_pton.c, `inet_pton4`), and of `tun_setip()` / `tun_setmtu()`
(src/tun.c, LINUX branch) which build the command lines handed to `system()`.

Bytes are `Nat`, C strings are `List Nat` without the terminating NUL.  `dev` is the locally chosen
device name `if_name` (a C string: it contains no NUL; `char if_name[250]`, so at most 249 bytes).
-/
namespace Iodine.Client.Shell

/-! ### C strings and character classes -/

/-- What a `char *` pointing at these bytes (followed by a NUL) denotes: the bytes before the first NUL. -/
def cstr (s : List Nat) : List Nat := s.takeWhile (· ≠ 0)

/-- `isspace` in the "C" locale: space, \t \n \v \f \r. -/
def isSpace (c : Nat) : Bool := c == 32 || (9 ≤ c && c ≤ 13)

def isDigit (c : Nat) : Bool := 48 ≤ c && c ≤ 57

/-- ASCII codes of a literal. -/
def ascii (s : String) : List Nat := s.toList.map Char.toNat

/-! ### glibc `sscanf` for the format `%64[^-]-%64[^-]-%d-%d` -/

/-- `%64[^-]`: at least one and at most 64 bytes different from `-`; no white-space skipping.
Returns the field and the unread rest. -/
def scanSet (s : List Nat) : Option (List Nat × List Nat) :=
  let f := (s.takeWhile (· ≠ 45)).take 64
  if f.isEmpty then none else some (f, s.drop f.length)

/-- A literal `-` in the format: the next byte must be `-` (no white-space skipping). -/
def scanDash : List Nat → Option (List Nat)
  | 45 :: r => some r
  | _ => none

/-- Value of a digit string (most significant first). -/
def digitsVal (ds : List Nat) : Nat := ds.foldl (fun acc c => 10 * acc + (c - 48)) 0

/-- `strtol` result for sign and magnitude: saturates at LONG_MIN / LONG_MAX (64-bit `long`). -/
def strtolSat (neg : Bool) (v : Nat) : Int :=
  if neg then (if v ≥ 2 ^ 63 then -(2 ^ 63 : Int) else -(v : Int))
  else (if v ≥ 2 ^ 63 then (2 ^ 63 - 1 : Int) else (v : Int))

/-- `(int) x` for a `long` x: keep the low 32 bits, two's complement. -/
def toInt32 (x : Int) : Int := (x + 2 ^ 31) % 2 ^ 32 - 2 ^ 31

/-- optional single sign -/
def scanSign : List Nat → Bool × List Nat
  | 45 :: r => (true, r)
  | 43 :: r => (false, r)
  | s => (false, s)

/-- `%d` (no width): skip `isspace` bytes, optional single sign, at least one decimal digit, stop at the
first non-digit; the value goes through `strtol` (saturating `long`) and is stored into an `int` by truncation. -/
def scanInt (s : List Nat) : Option (Int × List Nat) :=
  let s1 := s.dropWhile isSpace
  let (neg, s2) := scanSign s1
  let ds := s2.takeWhile isDigit
  if ds.isEmpty then none
  else some (toInt32 (strtolSat neg (digitsVal ds)), s2.drop ds.length)

structure Login where
  server : List Nat
  client : List Nat
  mtu : Int
  netmask : Int
  deriving DecidableEq, Repr

/-- `sscanf(in, "%64[^-]-%64[^-]-%d-%d", …) == 4` on the C string `s` (already cut at its NUL):
`some` with the four converted values iff all four conversions succeed; what follows the fourth
number is ignored. -/
def scanLogin (s : List Nat) : Option Login :=
  match scanSet s with
  | none => none
  | some (server, r1) =>
  match scanDash r1 with
  | none => none
  | some r2 =>
  match scanSet r2 with
  | none => none
  | some (client, r3) =>
  match scanDash r3 with
  | none => none
  | some r4 =>
  match scanInt r4 with
  | none => none
  | some (mtu, r5) =>
  match scanDash r5 with
  | none => none
  | some r6 =>
  match scanInt r6 with
  | none => none
  | some (netmask, _) => some ⟨server, client, mtu, netmask⟩

/-! ### glibc `inet_pton4` -/

/-- The loop of `inet_pton4`: `saw` = saw_digit, `oct` = octets, `cur` = *tp.  `true` = returns 1. -/
def pton4Go (saw : Bool) (oct cur : Nat) : List Nat → Bool
  | [] => oct == 4                                   -- `if (octets < 4) return 0;`
  | ch :: rest =>
    if 48 ≤ ch ∧ ch ≤ 57 then
      let new := cur * 10 + (ch - 48)
      if saw ∧ cur = 0 then false                    -- leading zero
      else if new > 255 then false
      else if saw then pton4Go true oct new rest
      else if oct + 1 > 4 then false
      else pton4Go true (oct + 1) new rest
    else if ch = 46 ∧ saw then
      if oct = 4 then false else pton4Go false oct 0 rest
    else false

/-- `inet_pton(AF_INET, s, &dst) == 1` -/
def inetPton4 (s : List Nat) : Bool := pton4Go false 0 0 s

/-! ### printing -/

/-- The digit loop of `printf`: least significant digit first, prepended to what is already there. -/
def utoaGo : Nat → Nat → List Nat → List Nat
  | 0, _, acc => acc
  | fuel + 1, n, acc =>
    let acc' := (48 + n % 10) :: acc
    if n / 10 = 0 then acc' else utoaGo fuel (n / 10) acc'

/-- `%u` (and `%d` of a non-negative number): decimal, no padding.  Fuel `n + 1` always suffices
(`Lemmas/Shell.lean`, `utoa_eq_toDigits`). -/
def utoa (n : Nat) : List Nat := utoaGo (n + 1) n []

/-- `inet_ntoa` of the address whose host-order value is `m` (most significant octet first). -/
def inetNtoa (m : Nat) : List Nat :=
  utoa (m / 2 ^ 24 % 256) ++ 46 :: utoa (m / 2 ^ 16 % 256) ++ 46 :: utoa (m / 2 ^ 8 % 256) ++ 46 :: utoa (m % 256)

/-- `snprintf(cmdline, 512, …)`: at most 511 bytes are kept. -/
def snprintf512 (s : List Nat) : List Nat := s.take 511

/-- IFCONFIGPATH "ifconfig " -/
def ifconfig : List Nat :=
  [80, 65, 84, 72, 61, 47, 115, 98, 105, 110, 58, 47, 98, 105, 110, 32, 105, 102, 99, 111, 110, 102, 105, 103, 32]
/-- " netmask " -/
def sNetmask : List Nat := [32, 110, 101, 116, 109, 97, 115, 107, 32]
/-- " mtu " -/
def sMtu : List Nat := [32, 109, 116, 117, 32]
def sLNAK : List Nat := [76, 78, 65, 75]
def sBADIP : List Nat := [66, 65, 68, 73, 80]

example : ifconfig = ascii "PATH=/sbin:/bin ifconfig " := by decide
example : sNetmask = sNetmask := by decide
example : sMtu = sMtu := by decide
example : sLNAK = sLNAK ∧ sBADIP = sBADIP := by decide

/-- `netbits ? 0xffffffffU << (32 - netbits) : 0` as uint32, for 0 ≤ netbits ≤ 32 -/
def maskOf (netbits : Nat) : Nat :=
  if netbits = 0 then 0 else (0xffffffff <<< (32 - netbits)) % 2 ^ 32

/-! ### `tun_setip`, `tun_setmtu` -/

/-- `tun_setip(ip, other_ip, netbits)` (LINUX): the commands run and the return value.
`sysret` is what `system()` returns. -/
def tunSetip (dev ip other : List Nat) (netbits : Int) (sysret : Int := 0) : List (List Nat) × Int :=
  if netbits < 0 ∨ netbits > 32 then ([], 1)
  else if !inetPton4 ip then ([], 1)
  else if !inetPton4 other then ([], 1)
  else
    ([snprintf512 (ifconfig ++ dev ++ 32 :: ip ++ 32 :: ip ++ sNetmask ++ inetNtoa (maskOf netbits.toNat))],
     sysret)

/-- `tun_setmtu(mtu)`: the `int` argument is converted to `unsigned`. -/
def tunSetmtu (dev : List Nat) (mtu : Int) (sysret : Int := 0) : List (List Nat) × Int :=
  let u := (mtu % 2 ^ 32).toNat
  if 200 < u ∧ u ≤ 1500 then
    ([snprintf512 (ifconfig ++ dev ++ sMtu ++ utoa u)], sysret)
  else ([], 1)

/-! ### `handshake_login`, one received reply -/

inductive End where
  | ok            -- return 0
  | badPassword   -- "LNAK": return 1
  | badIp         -- "BADIP": return 1
  | badHandshake  -- "Received bad handshake" / nothing usable: the loop retries
  | errx          -- errx(4, "Failed to set IP and MTU")
  deriving DecidableEq, Repr

structure Outcome where
  /-- the strings handed to `system()`, in order -/
  commands : List (List Nat)
  result : End
  deriving DecidableEq, Repr

/-- One iteration of the loop of `handshake_login` with `read = reply.length` bytes received
(`read ≤ 4095` in the C code; nothing below depends on that bound). -/
def loginStep (dev reply : List Nat) (sysret : Int := 0) : Outcome :=
  if reply.isEmpty then ⟨[], .badHandshake⟩                      -- `if (read > 0)`
  else
    let s := cstr reply                                           -- `in[read] = 0`
    if s.take 4 = sLNAK then ⟨[], .badPassword⟩
    else if s.take 5 = sBADIP then ⟨[], .badIp⟩
    else match scanLogin s with
    | none => ⟨[], .badHandshake⟩
    | some l =>
      let a := tunSetip dev l.client l.server l.netmask sysret
      if a.2 = 0 then
        let b := tunSetmtu dev l.mtu sysret
        ⟨a.1 ++ b.1, if b.2 = 0 then .ok else .errx⟩
      else ⟨a.1, .errx⟩

end Iodine.Client.Shell
