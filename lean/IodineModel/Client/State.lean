import IodineModel.Gen.Tables
import IodineModel.Codec.Inst
/-
State of the model of the iodine CLIENT's tunnel phase (/repo/src/client.c).

`Cli` holds every file-scope `static` of client.c that the tunnel phase reads or writes, the function-scope
statics of `tunnel_dns` (`packrecv`, `packrecv_oos`, `packrecv_servfail`) and of `send_chunk` (`datacmc`),
`dnsc_use_edns0` of dns.c (it is in the digest) and the value of `time(NULL)`.

Representation choices
* bytes / characters are `Nat`; C strings are NUL-free `List Nat`;
* `struct packet.seqno/fragment`, `userid` are C `char`s: `Int`, wrapped with `sChar` where the C stores into them;
* `uint16_t` values are `Nat`s kept `< 65536` by an explicit `% 65536` at every store;
* `int`/`long` variables that can become negative (`selecttimeout`, `send_query_sendcnt`, `hostname_maxlen`)
  are `Int`, the ones that cannot are `Nat`; `int`s that are only 0/1 and tested for truth are `Bool`;
* `time_t` is `Nat` (seconds).

The C program is a thread that sits inside nested `select` loops: `client_tunnel`'s own, and — because
`send_query` calls `handshake_lazyoff` which calls `handshake_waitdns` — a second one that can be entered from
EVERY place that sends a query.  `Phase` says in which `select` the thread is parked and `Resume` is the rest of
the interrupted C function (the code between the return of `send_chunk`/`send_ping` and the next `select`).
-/
namespace Iodine.Client
open Iodine

/-- `struct packet` (common.h).  `data` holds the bytes of `data[]` from index 0 as far as the model has written
them (at least `len` of them whenever `len` is read); bytes behind `len` are stale and never read by the code. -/
structure Packet where
  len : Nat
  sentlen : Nat
  offset : Nat
  data : List Nat
  seqno : Int
  fragment : Int
deriving DecidableEq, Repr, Inhabited

def Packet.zero : Packet := ⟨0, 0, 0, [], 0, 0⟩

/-- conversion of an `int` to (signed) `char`, as gcc does it -/
def sChar (x : Int) : Int := (x + 128) % 256 - 128

/-- `x & m` for `m = 2^k - 1` on a two's complement `int` -/
def maskI (x : Int) (m1 : Nat) : Nat := (x % (m1 : Int)).toNat

/-- the encoder `dataenc` points to -/
inductive Enc where
  | b32 | b64 | b64u | b128
deriving DecidableEq, Repr, Inhabited

def Enc.codec : Enc → Codec.Codec
  | .b32 => Codec.b32
  | .b64 => Codec.b64
  | .b64u => Codec.b64u
  | .b128 => Codec.b128

/-- `enum connection` -/
inductive Conn where
  | rawUdp      -- CONN_RAW_UDP = 0
  | dnsNull     -- CONN_DNS_NULL = 1
deriving DecidableEq, Repr, Inhabited

structure Cli where
  topdomain : List Nat
  randSeed : Nat                -- uint16_t rand_seed
  outpkt : Packet
  inpkt : Packet
  outchunkresent : Nat
  userid : Int                  -- char
  useridChar : Nat
  useridChar2 : Nat
  chunkid : Nat                 -- uint16_t
  chunkidPrev : Nat
  chunkidPrev2 : Nat
  dataenc : Enc
  downenc : Nat                 -- char (only printed)
  doQtype : Nat                 -- unsigned short
  conn : Conn
  selecttimeout : Int
  lazymode : Bool
  sendPingSoon : Nat            -- long send_ping_soon (ms; only ever assigned non-negative constants)
  lastdownstreamtime : Nat
  lastrawping : Nat             -- time_t lastrawping (raw mode: last keepalive sent)
  sendcnt : Int                 -- long send_query_sendcnt (-1 = not counting)
  recvcnt : Nat                 -- long send_query_recvcnt
  hostnameMaxlen : Int
  packrecv : Nat                -- tunnel_dns: static long packrecv
  packrecvOos : Nat
  packrecvServfail : Nat
  datacmc : Nat                 -- send_chunk: static int datacmc
  running : Bool
  edns0 : Bool                  -- dnsc_use_edns0
  now : Nat                     -- time(NULL)
deriving DecidableEq, Repr, Inhabited

/-- the statics as the loader leaves them (`.bss`/`.data` initialisers of client.c) -/
def Cli.boot : Cli :=
  { topdomain := [], randSeed := 0, outpkt := Packet.zero, inpkt := Packet.zero, outchunkresent := 0,
    userid := 0, useridChar := 0, useridChar2 := 0, chunkid := 0, chunkidPrev := 0, chunkidPrev2 := 0,
    dataenc := .b32, downenc := 32, doQtype := Gen.T_UNSET, conn := .rawUdp, selecttimeout := 0, lazymode := false,
    sendPingSoon := 0, lastdownstreamtime := 0, lastrawping := 0, sendcnt := -1, recvcnt := 0, hostnameMaxlen := 255,
    packrecv := 0, packrecvOos := 0, packrecvServfail := 0, datacmc := 0, running := false, edns0 := false,
    now := 1000 }

/-- `client_init()` with `rand()` returning `r1`, `r2`.  (It does NOT touch `outpkt.offset/sentlen`, the packet
data, `lastdownstreamtime`, the counters of `send_query`/`tunnel_dns` or `datacmc`.) -/
def clientInit (c : Cli) (r1 r2 : Nat) : Cli :=
  { c with running := true, randSeed := r1 % 65536, sendPingSoon := 1, conn := .dnsNull,
           chunkid := r2 % 65536, chunkidPrev := 0, chunkidPrev2 := 0,
           outpkt := { c.outpkt with len := 0, seqno := 0, fragment := 0 }, outchunkresent := 0,
           inpkt := { c.inpkt with len := 0, seqno := 0, fragment := 0 } }

/-- output events (docs/CLI_PROTOCOL.md) -/
inductive CEvent where
  | query (id type : Nat) (name : List Nat)   -- `sendto` of a DNS query, as the repository's `dns_decode` reads it back
  | rawtx (bytes : List Nat)                  -- `sendto` of a raw-mode frame
  | tunw (frame : List Nat)                   -- `write_tun`
  | sys (cmd : List Nat)                      -- `system()` (handshake_login → tun_setip / tun_setmtu)
deriving DecidableEq, Repr

/-- The rest of a C function after the call of `send_chunk`/`send_ping` in it has returned.  Needed as data because
that call can park the thread in `handshake_waitdns`'s `select` (via `send_query` → `handshake_lazyoff`). -/
inductive Resume where
  | tunChunk (read : Int)     -- tunnel_tun: `send_ping_soon = 0; return read;`
  | dnsOosPing                -- tunnel_dns, out-of-sequence id: `send_ping_soon = 0; return -1;`
  | dnsChunk (read : Int)     -- tunnel_dns, next fragment sent: `send_ping_soon = 0; send_something_now = 0; … return read;`
  | dnsPing (read : Int)      -- tunnel_dns, final ping: `send_ping_soon = 0; return read;`
  | timeout                   -- client_tunnel, `i == 0` branch: `send_ping_soon = 0;`
deriving DecidableEq, Repr, Inhabited

/-- where the thread is -/
inductive Phase where
  | idle                                  -- no function running (`idle` in the answer line)
  | tunnel                                -- parked in the `select` of `client_tunnel`
  | lazyoff (i : Nat) (k : Resume)        -- parked in the `select` of `handshake_waitdns`, called by iteration `i` of
                                          -- `handshake_lazyoff`, itself called by `send_query` with `k` left to do
deriving DecidableEq, Repr, Inhabited

/-- the `select` the thread is parked in: timeout in µs, read set -/
structure Sel where
  to : Int
  tun : Bool
  dns : Bool
deriving DecidableEq, Repr, Inhabited

inductive Next where
  | sel (s : Sel)
  | finished (ret : Int)        -- `client_tunnel` / `client_handshake` returned
  | errx (code : Int)           -- the function called `errx`/`err` (handshake_login: "Failed to set IP and MTU")
  | none                        -- nothing was running
deriving DecidableEq, Repr, Inhabited

/-- result of a function: new state and the events it produced, in order -/
abbrev Res := Cli × List CEvent

/-- `is_sending()` -/
def isSending (c : Cli) : Bool := c.outpkt.len != 0

end Iodine.Client
