import IodineModel.Client.Loop
import IodineModel.Client.Shell
import IodineModel.Login
/-
Model of the client's HANDSHAKE (/repo/src/client.c, `client_handshake()` and everything it calls) as a step
machine in the style of `Client/Loop.lean`: one step = "the `select` the thread is parked in returns X" → run the
C code until the next `select` (or until `client_handshake` returns / calls `errx`).

Every `select` of the handshake is the one of `handshake_waitdns` except one (the raw login of
`handshake_raw_udp`).  `HPos` says in which function, which iteration of its retry loop (and of the enclosing
search loops) the thread is parked; `HState` adds the statics (`Cli`), the arguments of `client_handshake`, the
password and the receive buffer `in[]` of the function that is running.

One C function = a group `xEnter` (code before the loop) / `xHead` (head of one `for` iteration: either send and
park, or leave the loop) / `xGot` (body of the loop after `handshake_waitdns` returned `read`) / `xRet` (the code
of `client_handshake` behind the call).  The groups are written bottom-up (last function of the handshake first)
because each one continues into the next.

What is modelled as it is, odd or not
* `handshake_waitdns`: a fitting error reply gives -2 (after `sleep(1)` for SERVFAIL), a timeout -3; each caller
  treats them as the C text says (e.g. `handshake_downenctest` gives up at once on -2, `handshake_version` retries;
  `handshake_qtypetest` has no retry at all).
* the receive buffer `in[]`.  `handshake_waitdns` decodes every datagram into the caller's `in[]` BEFORE the id /
  first-character test, so ignored and earlier replies do leave their bytes there (and the rest is stack garbage).
  Since ee87c7d ("compare handshake replies only up to their length") no caller reads a byte of `in[]` at an index
  `>= read` of the reply it is looking at: version needs `read >= 9` and reads `in[0..9)`; login terminates at
  `in[read]`; the address reply needs `read == 5/17` and reads `in[0]`; the echo test needs `read >= slen + 4`; the
  check-string tests need `read == 48`; the four switch handshakes compare a literal of n bytes only if `read >= n`;
  `fragsize_check` returns at once for `read < 2`, reads `in[2]` only for `read >= 3`, `in[3]` only for `read > 3`
  and the pattern only below `read`; the raw login needs `len >= 20`.  So `HState.inb` holds just the bytes of the
  reply at hand (`in[0..read)`; `[]` after a timeout): nothing an earlier reply wrote can be observed
  (`Lemmas/Hs.lean`, `hstep_residue_free`).  The length guards are written out in the model as in the C text.
* `buflen` is 4096, or 4095 where the C passes `sizeof(in) - 1`; the `Rq` the model is fed was produced with a
  64 KiB buffer, the model cuts it at `buflen` (exact for NULL/PRIVATE/A/CNAME answers and for every TXT/MX/SRV
  answer that decodes to at most `buflen` bytes).
* clock: a `select` that times out consumed its whole seconds, `sleep(1)` one second.
* `send_query`'s "too few answers" block needs `send_query_sendcnt >= 0`; that static is -1 until `client_tunnel`
  starts, so inside the handshake `send_query` is `sendQueryPlain` (`Lemmas/Hs.lean`, `sendQuery_of_sendcnt_neg`).
  The driver refuses to start a handshake in a state with `sendcnt ≥ 0`.
* `running` can only be cleared by a signal; the tests of it are kept.
-/
namespace Iodine.Client
open Iodine Iodine.Gen

/-- arguments of `client_handshake(dns_fd, raw_mode, autodetect_frag_size, fragsize)` -/
structure HsArgs where
  rawMode : Bool
  autoFrag : Bool
  fragsize : Int
deriving DecidableEq, Repr, Inhabited

/-- where the thread is parked -/
inductive HPos where
  | qtype (timeout qnum highest : Nat)          -- handshake_qtypetest(timeout) for type number `qnum`
  | version (i : Nat)
  | login (seed i : Nat)
  | rawIp (seed i : Nat)                        -- handshake_raw_udp, first loop
  | rawLogin (seed i : Nat)                     -- handshake_raw_udp, second loop (its own `select`)
  | edns (i : Nat)
  | upenc (p i : Nat)                           -- handshake_upenctest for pattern number `p` (0..4 = pat128a..e, 5 = pat64, 6 = pat64u)
  | switchCodec (bits i : Nat)
  | downenc (codec : Nat) (b64 : Bool) (i : Nat) -- handshake_downenctest(codec); `b64`: for 'V' — base64ok (else base64uok)
  | switchDown (i : Nat)
  | lazy (i : Nat)
  | frag (proposed range : Nat) (max : Int) (i : Nat)
  | setFrag (fragsize : Int) (i : Nat)
deriving DecidableEq, Repr, Inhabited

structure HState where
  c : Cli
  /-- `none`: `client_handshake` is not running -/
  pos : Option HPos
  /-- `in[0..read)` of the running `handshake_*` function: the bytes of the reply at hand -/
  inb : List Nat
  args : HsArgs
  /-- the 32 bytes `login_calculate` reads at `password` -/
  pw : List Nat
  /-- `if_name` of tun.c -/
  dev : List Nat
deriving DecidableEq, Repr, Inhabited

abbrev HOut := HState × List CEvent × Next

/-! ### the `select`s -/

/-- `c1` (the upper-case `c2` is `c1 - 32`), timeout in seconds and `buflen` of the `handshake_waitdns` call the
thread is parked in (for `rawLogin`: only the timeout means something) -/
def HPos.wait : HPos → Nat × Nat × Nat
  | .qtype t _ _ => (121, t, 4096)
  | .version i => (118, i + 1, 4096)
  | .login _ i => (108, i + 1, 4095)
  | .rawIp _ i => (105, i + 1, 4096)
  | .rawLogin _ i => (0, i + 1, 4096)
  | .edns i => (121, i + 1, 4096)
  | .upenc _ i => (122, i + 1, 4096)
  | .switchCodec _ i => (115, i + 1, 4095)
  | .downenc _ _ i => (121, i + 1, 4096)
  | .switchDown i => (111, i + 1, 4095)
  | .lazy i => (111, i + 1, 4096)
  | .frag _ _ _ _ => (114, 1, 4096)
  | .setFrag _ i => (110, i + 1, 4096)

def HPos.sel (p : HPos) : Sel := ⟨(p.wait.2.1 : Int) * 1000000, false, true⟩

def HState.done (s : HState) (evs : List CEvent) (rv : Int) : HOut := ({ s with pos := none }, evs, .finished rv)

def HState.park (s : HState) (r : Res) (evs : List CEvent) (p : HPos) : HOut :=
  ({ s with c := r.1, pos := some p }, evs ++ r.2, .sel p.sel)

/-- `in[k]` as an unsigned byte -/
def HState.inAt (s : HState) (k : Nat) : Nat := s.inb.getD k 0

/-- `strncmp(lit, in, |lit|) == 0` for a NUL-free literal -/
def HState.inIs (s : HState) (lit : String) : Bool :=
  let l := ascii lit
  (List.range l.length).all fun k => s.inAt k == l.getD k 0

/-- `read >= |lit| && strncmp(lit, in, |lit|) == 0` -/
def HState.inIsN (s : HState) (read : Int) (lit : String) : Bool :=
  decide (read ≥ ((ascii lit).length : Int)) && s.inIs lit

/-! ### the senders (`send_query` = `sendQueryPlain`, see the header) -/

/-- `send_packet(fd, cmd, data, datalen)` -/
def hsSendPacket (c : Cli) (cmd : Nat) (data : List Nat) : Res :=
  (sendQueryPlain c (cmd :: (buildHostname Codec.b32 c.hostnameMaxlen 4095 cmd c.topdomain data).name)).1

def seedBytes (c : Cli) : List Nat := [c.randSeed / 256 % 256, c.randSeed % 256]

def bumpSeed (c : Cli) : Cli := { c with randSeed := (c.randSeed + 1) % 65536 }

/-- `send_version(fd, PROTOCOL_VERSION)` -/
def sendVersion (c : Cli) : Res :=
  let v := PROTOCOL_VERSION
  hsSendPacket (bumpSeed c) 118 ([v / 2 ^ 24 % 256, v / 2 ^ 16 % 256, v / 2 ^ 8 % 256, v % 256] ++ seedBytes c)

/-- `send_login(fd, login, 16)` -/
def sendLogin (c : Cli) (login : List Nat) : Res :=
  hsSendPacket (bumpSeed c) 108 (maskI c.userid 256 :: ((login.take 16 ++ List.replicate 16 0).take 16) ++ seedBytes c)

/-- `send_set_downstream_fragsize(fd, fragsize)` -/
def sendSetFragsize (c : Cli) (fragsize : Int) : Res :=
  hsSendPacket (bumpSeed c) 110 ([maskI c.userid 256, maskI fragsize 65536 / 256, maskI fragsize 256] ++ seedBytes c)

/-- `tolower` (C locale) -/
def toLower (ch : Nat) : Nat := if 65 ≤ ch ∧ ch ≤ 90 then ch + 32 else ch

/-- `send_downenctest(fd, downenc, 1)` -/
def sendDownenctest (c : Cli) (codec : Nat) : Res :=
  sendHandshakeQuery c [121, toLower codec, b32_5to8 1]

/-- `send_upenctest(fd, s)`: `buf[512] = "z___"`, the three CMC characters, `strncat(buf, s, 128)`, ".",
`strncat(buf, topdomain, 512 - strlen(buf))` -/
def sendUpenctest (c : Cli) (s : List Nat) : Res :=
  let buf := [122, b32_5to8 ((c.randSeed / 1024 % 32 : Nat) : Int), b32_5to8 ((c.randSeed / 32 % 32 : Nat) : Int),
              b32_5to8 ((c.randSeed % 32 : Nat) : Int)] ++ s.take 128 ++ [46]
  (sendQueryPlain (bumpSeed c) (buf ++ c.topdomain.take (512 - buf.length))).1

/-- `send_fragsize_probe(fd, fragsize)`.  (As in `send_chunk`, `build_hostname` is given `buf + 5` before `buf[4]`
is written: the byte it would look at for an empty encoding is read as 0; the encoding of 256 bytes is never empty
unless there is no room at all.) -/
def sendFragsizeProbe (c : Cli) (fragsize : Nat) : Res :=
  let fill := max 1 (c.randSeed % 256)
  let probedata := fill :: max 1 (c.randSeed / 256 % 256) :: List.replicate 254 fill
  let b := buildHostname c.dataenc.codec c.hostnameMaxlen 4091 0 c.topdomain probedata
  let f := fragsize % 2048
  -- `((userid & 15) << 1) | ((fragsize >> 10) & 1)` (d07a0ed; before: `userid << 1`, the same character)
  let hdr := [114, b32_5to8 ((maskI c.userid 16 * 2 + f / 1024 % 2 : Nat) : Int), b32_5to8 ((f / 32 % 32 : Nat) : Int),
              b32_5to8 ((f % 32 : Nat) : Int), 100]
  (sendQueryPlain (bumpSeed c) (hdr ++ b.name)).1

/-- `send_raw_udp_login(dns_fd, seed)`: the hash for `seed + 1` (unsigned wrap) in a raw LOGIN frame -/
def sendRawUdpLogin (s : HState) (seed : Nat) : Res :=
  (s.c, [sendRaw s.c (Login.loginCalcC s.pw ((seed + 1) % 2 ^ 32)) 16 RAW_HDR_CMD_LOGIN])

/-! ### handshake_waitdns -/

/-- one round of `while (1)` in `handshake_waitdns(dns_fd, in, buflen, c1, c1 - 32, timeout)` on what `select`
delivered: `none` = `continue`; otherwise the return value.  The state carries the clock (`sleep(1)`) and `in[]`. -/
def hsWaitRound (s : HState) (c1 buflen : Nat) : WaitIn → HState × Option Int
  | .timeout => ({ s with inb := [] }, some (-3))
  | .ans rq =>
    -- read_dns_withq(dns_fd, 0, buf, buflen, &q)
    let k := min rq.rv.toNat buflen
    let s := { s with inb := rq.buf.take k }
    if rq.id ≠ s.c.chunkid ∨ (rq.name0 ≠ c1 ∧ rq.name0 ≠ c1 - 32) then (s, none)
    else if rq.rv < 0 then
      -- "Got empty reply" (NOERROR, first character Y/y/V/v) and every other error reply: -2; SERVFAIL sleeps first
      ({ s with c := if rq.rcode = 2 then { s.c with now := s.c.now + 1 } else s.c }, some (-2))
    else (s, some (k : Int))

/-! ### the end: handshake_set_fragsize -/

/-- `handshake_set_fragsize` returned: `if (!running) return -1; … return 0;` -/
def hsEnd (s : HState) (evs : List CEvent) : HOut := s.done evs (if s.c.running then 0 else -1)

def setFragHead (s : HState) (evs : List CEvent) (fragsize : Int) (i : Nat) : HOut :=
  if s.c.running ∧ i < 5 then s.park (sendSetFragsize s.c fragsize) evs (.setFrag fragsize i)
  else hsEnd s evs

/-- every reply with `read > 0` ends the function ("BADFRAG", "BADIP" and an acknowledgement alike) -/
def setFragGot (s : HState) (fragsize : Int) (i : Nat) (read : Int) : HOut :=
  if read > 0 then hsEnd s [] else setFragHead s [] fragsize (i + 1)

def setFragEnter (s : HState) (evs : List CEvent) (fragsize : Int) : HOut :=
  setFragHead { s with inb := [] } evs fragsize 0

/-! ### handshake_autoprobe_fragsize -/

/-- behind `handshake_autoprobe_fragsize`'s `while` loop, and `client_handshake` behind the call -/
def fragFinish (s : HState) (evs : List CEvent) (max : Int) : HOut :=
  let fragsize : Int := if !s.c.running then 0 else if max ≤ 2 then 0 else max - 2
  if fragsize = 0 then s.done evs 1 else setFragEnter s evs fragsize

/-- `fragsize_check(in, read, proposed, &max_fragsize)`: new `max_fragsize` and the return value (true = 1: break) -/
def fragsizeCheck (s : HState) (read : Int) (proposed : Nat) (max : Int) : Int × Bool :=
  if read < 2 then (max, false)                        -- "no fragsize in this reply"
  else
    let acked := s.inAt 0 * 256 + s.inAt 1
    if read ≥ 5 ∧ s.inIs "BADIP" then (max, false)
    else if acked ≠ proposed then (max, false)
    else if read ≠ (proposed : Int) then (max, true)
    else if read < 3 then ((acked : Int), true)        -- "nothing behind the length to check"
    else if s.inAt 2 ≠ 107 then (-1, true)
    else
      let v0 := if read > 3 then s.inAt 3 else 0
      if (List.range (proposed - 3)).all fun j => s.inAt (3 + j) == (v0 + 107 * j) % 256 then ((acked : Int), true)
      else (max, true)

/-- head of the `while` loop of `handshake_autoprobe_fragsize` / of its inner `for` loop (iteration `i`) -/
def fragHead (s : HState) (evs : List CEvent) (proposed range : Nat) (max : Int) (i : Nat) : HOut :=
  if s.c.running ∧ i < 3 then s.park (sendFragsizeProbe s.c proposed) evs (.frag proposed range max i)
  else
    -- behind the `for` loop
    if max < 0 then fragFinish s evs max
    else
      let range := range / 2
      let proposed := if max = (proposed : Int) then proposed + range else proposed - range
      -- `while (running && range > 0 && (range >= 8 || max_fragsize < 300))`; its body starts with `i = 0`, `running` holds
      if s.c.running ∧ range > 0 ∧ (range ≥ 8 ∨ max < 300) then
        s.park (sendFragsizeProbe s.c proposed) evs (.frag proposed range max 0)
      else fragFinish s evs max

/-- `break` out of the `for` loop = its head with the loop condition false -/
def fragGot (s : HState) (proposed range : Nat) (max : Int) (i : Nat) (read : Int) : HOut :=
  if read > 0 then
    let r := fragsizeCheck s read proposed max
    if r.2 then fragHead s [] proposed range r.1 3 else fragHead s [] proposed range r.1 (i + 1)
  else fragHead s [] proposed range max (i + 1)

/-- `handshake_autoprobe_fragsize` from its entry (`proposed = range = 768`, `max = 0`: the `while` condition is
`running`) -/
def fragEnter (s : HState) (evs : List CEvent) : HOut :=
  let s := { s with inb := [] }
  if s.c.running then fragHead s evs 768 768 0 0 else fragFinish s evs 0

/-- `client_handshake` from `if (autodetect_frag_size)` on -/
def afterLazy (s : HState) (evs : List CEvent) : HOut :=
  if !s.c.running then s.done evs (-1)
  else if s.args.autoFrag then fragEnter s evs
  else setFragEnter s evs s.args.fragsize

/-! ### handshake_try_lazy -/

/-- `codec_revert:` of `handshake_try_lazy` -/
def lazyRevert (s : HState) : HState := { s with c := { s.c with lazymode := false, selecttimeout := 1 } }

def lazyHead (s : HState) (evs : List CEvent) (i : Nat) : HOut :=
  if s.c.running ∧ i < 5 then s.park (sendLazySwitch s.c) evs (.lazy i)
  else if !s.c.running then afterLazy s evs
  else afterLazy (lazyRevert s) evs

def lazyGot (s : HState) (i : Nat) (read : Int) : HOut :=
  if read > 0 then
    if s.inIsN read "BADLEN" ∨ s.inIsN read "BADIP" ∨ s.inIsN read "BADCODEC" then afterLazy (lazyRevert s) []
    else if s.inIsN read "Lazy" then afterLazy { s with c := { s.c with lazymode := true } } []
    else lazyHead s [] (i + 1)
  else lazyHead s [] (i + 1)

/-- `client_handshake` from `if (lazymode)` on -/
def afterSwitchDown (s : HState) (evs : List CEvent) : HOut :=
  if !s.c.running then s.done evs (-1)
  else if s.c.lazymode then lazyHead { s with inb := [] } evs 0
  else afterLazy s evs

/-! ### handshake_switch_downenc -/

/-- `sw_downenc` -/
def switchDownPrefix (c : Cli) : List Nat := [111, b32_5to8 c.userid, toLower c.downenc]

def switchDownHead (s : HState) (evs : List CEvent) (i : Nat) : HOut :=
  if s.c.running ∧ i < 5 then s.park (sendHandshakeQuery s.c (switchDownPrefix s.c)) evs (.switchDown i)
  else afterSwitchDown s evs

/-- every `read > 0` returns (error strings and the acknowledgement alike; nothing is changed) -/
def switchDownGot (s : HState) (i : Nat) (read : Int) : HOut :=
  if read > 0 then afterSwitchDown s [] else switchDownHead s [] (i + 1)

/-- `client_handshake` from `if (downenc != ' ')` on -/
def afterDownenc (s : HState) (evs : List CEvent) : HOut :=
  if !s.c.running then s.done evs (-1)
  else if s.c.downenc ≠ 32 then switchDownHead { s with inb := [] } evs 0
  else afterSwitchDown s evs

/-! ### handshake_downenc_autodetect -/

/-- `downenc = handshake_downenc_autodetect(…)` returned `d` -/
def downencRet (s : HState) (evs : List CEvent) (d : Nat) : HOut :=
  afterDownenc { s with c := { s.c with downenc := d } } evs

/-- the end of `handshake_downenc_autodetect` once base128ok is known -/
def downencFinish (s : HState) (evs : List CEvent) (b64ok b64uok b128ok : Bool) : HOut :=
  if !s.c.running then downencRet s evs 32
  else if b128ok then downencRet s evs 86
  else if b64ok then downencRet s evs 83
  else if b64uok then downencRet s evs 85
  else downencRet s evs 32

/-- `handshake_downenctest(codec)` returned `ok`: the rest of `handshake_downenc_autodetect` -/
def downencTestRet (s : HState) (evs : List CEvent) (codec : Nat) (b64 : Bool) (ok : Bool) : HOut :=
  -- the next `handshake_downenctest`, up to its first `select` (`running` has just been tested by the caller)
  let enter (s : HState) (codec : Nat) (b64 : Bool) : HOut := s.park (sendDownenctest s.c codec) evs (.downenc codec b64 0)
  if codec = 83 then
    if ok then
      if s.c.running then enter { s with inb := [] } 86 true else downencFinish s evs true false false
    else if s.c.running then enter { s with inb := [] } 85 false
    else downencFinish s evs false false false
  else if codec = 85 then
    if ok ∧ s.c.running then enter { s with inb := [] } 86 false
    else downencFinish s evs false ok false
  else if codec = 86 then
    if s.c.running ∧ ok ∧ s.c.doQtype = T_TXT then enter { s with inb := [] } 82 b64
    else downencFinish s evs b64 (!b64) ok
  else
    -- 'R'
    if ok then downencRet s evs 82 else downencFinish s evs b64 (!b64) true

def downencTestHead (s : HState) (evs : List CEvent) (codec : Nat) (b64 : Bool) (i : Nat) : HOut :=
  if s.c.running ∧ i < 3 then s.park (sendDownenctest s.c codec) evs (.downenc codec b64 i)
  else downencTestRet s evs codec b64 false

/-- the 48 check bytes -/
def inIsCheck (s : HState) : Bool :=
  (List.range DOWNCODECCHECK1.length).all fun k => s.inAt k == DOWNCODECCHECK1.getD k 0

/-- the body shared by `handshake_downenctest` and `handshake_edns0_check`: `some ok` = return, `none` = retry -/
def checkReply (s : HState) (read : Int) : Option Bool :=
  if read = -2 then some false
  else if read > 0 ∧ read ≠ DOWNCODECCHECK1.length then some false
  else if read > 0 then some (inIsCheck s)
  else none

def downencTestGot (s : HState) (codec : Nat) (b64 : Bool) (i : Nat) (read : Int) : HOut :=
  match checkReply s read with
  | some ok => downencTestRet s [] codec b64 ok
  | none => downencTestHead s [] codec b64 (i + 1)

/-- `client_handshake` from `if (downenc == ' ')` on -/
def afterSwitchCodec (s : HState) (evs : List CEvent) : HOut :=
  if !s.c.running then s.done evs (-1)
  else if s.c.downenc = 32 then
    if s.c.doQtype = T_NULL ∨ s.c.doQtype = T_PRIVATE then downencRet s evs 32
    else downencTestHead { s with inb := [] } evs 83 false 0
  else afterDownenc s evs

/-! ### handshake_switch_codec -/

def switchCodecHead (s : HState) (evs : List CEvent) (bits i : Nat) : HOut :=
  if s.c.running ∧ i < 5 then
    s.park (sendHandshakeQuery s.c [115, b32_5to8 s.c.userid, b32_5to8 (bits : Int)]) evs (.switchCodec bits i)
  else afterSwitchCodec s evs

def encOfBits (bits : Nat) : Enc := if bits = 6 then .b64 else if bits = 26 then .b64u else if bits = 7 then .b128 else .b32

def switchCodecGot (s : HState) (bits i : Nat) (read : Int) : HOut :=
  if read > 0 then
    if s.inIsN read "BADLEN" ∨ s.inIsN read "BADIP" ∨ s.inIsN read "BADCODEC" then afterSwitchCodec s []
    else afterSwitchCodec { s with c := { s.c with dataenc := encOfBits bits } } []
  else switchCodecHead s [] (bits) (i + 1)

/-- `upcodec = handshake_upenc_autodetect(…)` returned: the rest of `client_handshake` -/
def upencRet (s : HState) (evs : List CEvent) (upcodec : Nat) : HOut :=
  if !s.c.running then s.done evs (-1)
  else if upcodec = 1 then switchCodecHead { s with inb := [] } evs 6 0
  else if upcodec = 2 then switchCodecHead { s with inb := [] } evs 26 0
  else if upcodec = 3 then switchCodecHead { s with inb := [] } evs 7 0
  else afterSwitchCodec s evs

/-! ### handshake_upenc_autodetect -/

/-- the probe strings in the order of their numbers -/
def upPattern (p : Nat) : List Nat :=
  match p with
  | 0 => pat128a | 1 => pat128b | 2 => pat128c | 3 => pat128d | 4 => pat128e | 5 => pat64 | _ => pat64u

/-- `handshake_upenctest(pattern p)` returned `res` (-1, 0, 1) -/
def upencTestRet (s : HState) (evs : List CEvent) (p : Nat) (res : Int) : HOut :=
  let enter (q : Nat) : HOut :=
    let s := { s with inb := [] }
    if s.c.running ∧ 0 < 3 then s.park (sendUpenctest s.c (upPattern q)) evs (.upenc q 0)
    else upencRet s evs 0      -- `!running`: handshake_upenctest returns -1, the autodetection 0
  if p < 5 then
    if res < 0 then upencRet s evs 0
    else if res = 0 then enter 5
    else if p = 4 then upencRet s evs 3
    else enter (p + 1)
  else if p = 5 then
    if res < 0 then upencRet s evs 0
    else if res > 0 then upencRet s evs 1
    else enter 6
  else
    if res < 0 then upencRet s evs 0
    else if res > 0 then upencRet s evs 2
    else upencRet s evs 0

def upencTestHead (s : HState) (evs : List CEvent) (p i : Nat) : HOut :=
  if s.c.running ∧ i < 3 then s.park (sendUpenctest s.c (upPattern p)) evs (.upenc p i)
  else upencTestRet s evs p (if !s.c.running then -1 else 0)

def upencTestGot (s : HState) (p i : Nat) (read : Int) : HOut :=
  let pat := upPattern p
  if read = -2 then upencTestRet s [] p 0
  else if read > 0 ∧ read < (pat.length : Int) + 4 then upencTestRet s [] p 0
  else if read > 0 then
    if s.inAt 4 = 65 then upencTestRet s [] p (-1)
    else if s.inAt 5 = 97 then upencTestRet s [] p (-1)
    else if (List.range pat.length).all fun k => s.inAt (k + 4) == pat.getD k 0 then upencTestRet s [] p 1
    else upencTestRet s [] p 0
  else upencTestHead s [] p (i + 1)

/-! ### handshake_edns0_check -/

/-- `handshake_edns0_check` returned `ok`: `client_handshake` up to the call of `handshake_upenc_autodetect` -/
def ednsRet (s : HState) (evs : List CEvent) (ok : Bool) : HOut :=
  if ok ∧ s.c.running then upencTestHead { s with inb := [] } evs 0 0
  else if !s.c.running then s.done evs (-1)
  else upencTestHead { s with c := { s.c with edns0 := false }, inb := [] } evs 0 0

/-- the codec letter `handshake_edns0_check` asks for (NOT 'R' for PRIVATE, unlike `handshake_qtypetest`) -/
def ednsCodec (c : Cli) : Nat := if c.doQtype = T_NULL then 82 else 84

def ednsHead (s : HState) (evs : List CEvent) (i : Nat) : HOut :=
  if s.c.running ∧ i < 3 then s.park (sendDownenctest s.c (ednsCodec s.c)) evs (.edns i)
  else ednsRet s evs false

def ednsGot (s : HState) (i : Nat) (read : Int) : HOut :=
  match checkReply s read with
  | some ok => ednsRet s [] ok
  | none => ednsHead s [] (i + 1)

/-- the `else` branch of `if (raw_mode && handshake_raw_udp(…))`: `dnsc_use_edns0 = 1; handshake_edns0_check …` -/
def dnsBranch (s : HState) (evs : List CEvent) : HOut :=
  ednsHead { s with c := { s.c with edns0 := true }, inb := [] } evs 0

/-! ### handshake_raw_udp -/

/-- `handshake_raw_udp` returned `ok` -/
def rawRet (s : HState) (evs : List CEvent) (ok : Bool) : HOut :=
  if ok then ({ s with c := { s.c with conn := .rawUdp, selecttimeout := 20 } }).done evs 0
  else dnsBranch s evs

def rawLoginHead (s : HState) (evs : List CEvent) (seed i : Nat) : HOut :=
  if s.c.running ∧ i < 4 then s.park (sendRawUdpLogin s seed) evs (.rawLogin seed i)
  else rawRet s evs false

/-- behind the first loop of `handshake_raw_udp` -/
def rawIpDone (s : HState) (evs : List CEvent) (seed : Nat) (gotAddr : Bool) : HOut :=
  if !s.c.running then rawRet s evs false
  else if !gotAddr then rawRet s evs false
  else rawLoginHead s evs seed 0

def rawIpHead (s : HState) (evs : List CEvent) (seed i : Nat) : HOut :=
  if s.c.running ∧ i < 3 then s.park (sendHandshakeQuery s.c [105, b32_5to8 s.c.userid]) evs (.rawIp seed i)
  else rawIpDone s evs seed false

def rawIpGot (s : HState) (seed i : Nat) (read : Int) : HOut :=
  if (read = 5 ∨ read = 17) ∧ s.inAt 0 = 73 then rawIpDone s [] seed true
  else rawIpHead s [] seed (i + 1)

/-- the raw login's own `select` returned with datagram `d` (`none`: timeout): `recv(dns_fd, in, sizeof(in), 0)` -/
def rawLoginGot (s : HState) (seed i : Nat) (d : Option (List Nat)) : HOut :=
  match d with
  | none => rawLoginHead { s with inb := [] } [] seed (i + 1)
  | some d =>
    let d := d.take 4096
    let s := { s with inb := d }
    if d.length ≥ 16 + RAW_HDR_LEN ∧ d.take 3 = rawHeader.take 3 ∧ d.getD 3 0 &&& RAW_HDR_CMD_MASK = RAW_HDR_CMD_LOGIN ∧
       (d.drop RAW_HDR_LEN).take 16 = Login.loginCalcC s.pw ((seed + 2 ^ 32 - 1) % 2 ^ 32) then rawRet s [] true
    else rawLoginHead s [] seed (i + 1)

/-- `client_handshake` behind `handshake_login` -/
def afterLogin (s : HState) (evs : List CEvent) (seed : Nat) : HOut :=
  if s.args.rawMode then rawIpHead { s with inb := [] } evs seed 0 else dnsBranch s evs

/-! ### handshake_login -/

def loginHead (s : HState) (evs : List CEvent) (seed i : Nat) : HOut :=
  if s.c.running ∧ i < 5 then s.park (sendLogin s.c (Login.loginCalcC s.pw seed)) evs (.login seed i)
  else s.done evs 1

/-- the loop body: `Shell.loginStep` is `if (read > 0) { in[read] = 0; … }` with `system()` returning 0 -/
def loginGot (s : HState) (seed i : Nat) (read : Int) : HOut :=
  if read > 0 then
    let o := Shell.loginStep s.dev (s.inb.take read.toNat) 0
    let evs := o.commands.map CEvent.sys
    match o.result with
    | .ok => afterLogin s evs seed
    | .badPassword => s.done evs 1
    | .badIp => s.done evs 1
    | .errx => ({ s with pos := none }, evs, .errx 4)
    | .badHandshake => loginHead s evs seed (i + 1)
  else loginHead s [] seed (i + 1)

/-! ### handshake_version -/

def hexLower : List Nat := ascii "0123456789abcdef"
def hexUpper : List Nat := ascii "0123456789ABCDEF"

def versionHead (s : HState) (evs : List CEvent) (i : Nat) : HOut :=
  if s.c.running ∧ i < 5 then s.park (sendVersion s.c) evs (.version i)
  else s.done evs 1

def versionGot (s : HState) (i : Nat) (read : Int) : HOut :=
  if read ≥ 9 then
    let payload := s.inAt 4 * 2 ^ 24 + s.inAt 5 * 2 ^ 16 + s.inAt 6 * 2 ^ 8 + s.inAt 7
    if s.inIs "VACK" then
      let u := sChar (s.inAt 8)
      let c := { s.c with userid := u, useridChar := hexLower.getD (maskI u 16) 0, useridChar2 := hexUpper.getD (maskI u 16) 0 }
      loginHead { s with c := c, inb := [] } [] payload 0
    else if s.inIs "VNAK" then s.done [] 1
    else if s.inIs "VFUL" then s.done [] 1
    else versionHead s [] (i + 1)
  else versionHead s [] (i + 1)

/-- `client_handshake` behind the query-type detection -/
def afterQtype (s : HState) (evs : List CEvent) : HOut := versionHead { s with inb := [] } evs 0

/-! ### handshake_qtype_autodetect -/

/-- `handshake_qtype_numcvt` -/
def qtypeNumcvt (num : Nat) : Nat :=
  match num with
  | 0 => T_NULL | 1 => T_PRIVATE | 2 => T_TXT | 3 => T_SRV | 4 => T_MX | 5 => T_CNAME | 6 => T_A
  | _ => T_UNSET

/-- behind the two loops of `handshake_qtype_autodetect`, and `client_handshake` behind the call -/
def qtypeFinish (s : HState) (evs : List CEvent) (highest : Nat) : HOut :=
  if !s.c.running then s.done evs 1
  else
    let s := { s with c := { s.c with doQtype := qtypeNumcvt highest } }
    if s.c.doQtype = T_UNSET then s.done evs 1 else afterQtype s evs

/-- `handshake_qtypetest(timeout)` for type number `qnum` (do_qtype already set): send and park -/
def qtypeTest (s : HState) (evs : List CEvent) (timeout qnum highest : Nat) : HOut :=
  let codec := if s.c.doQtype = T_NULL ∨ s.c.doQtype = T_PRIVATE then 82 else 84
  ({ s with inb := [] }).park (sendDownenctest s.c codec) evs (.qtype timeout qnum highest)

/-- head of the outer loop `for (timeout = …; running && timeout <= 3; timeout++)`; its body begins with the head of
the inner loop at `qtypenum = 0` -/
def qtypeOuterHead (s : HState) (evs : List CEvent) (timeout highest : Nat) : HOut :=
  if s.c.running ∧ timeout ≤ 3 then
    if 0 < highest then
      qtypeTest { s with c := { s.c with doQtype := qtypeNumcvt 0 } } evs timeout 0 highest
    else qtypeFinish s evs highest                 -- inner loop empty, `highestworking == 0`: break
  else qtypeFinish s evs highest

/-- behind the inner loop: `if (highestworking == 0) break;` then `timeout++` -/
def qtypeAfterInner (s : HState) (evs : List CEvent) (timeout highest : Nat) : HOut :=
  if highest = 0 then qtypeFinish s evs highest else qtypeOuterHead s evs (timeout + 1) highest

/-- head of the inner loop at `qnum` -/
def qtypeInnerHead (s : HState) (evs : List CEvent) (timeout qnum highest : Nat) : HOut :=
  if s.c.running ∧ qnum < highest then
    let s := { s with c := { s.c with doQtype := qtypeNumcvt qnum } }
    if s.c.doQtype = T_UNSET then qtypeAfterInner s evs timeout highest
    else qtypeTest s evs timeout qnum highest
  else qtypeAfterInner s evs timeout highest

def qtypeGot (s : HState) (timeout qnum highest : Nat) (read : Int) : HOut :=
  if read = DOWNCODECCHECK1.length ∧ inIsCheck s then qtypeAfterInner s [] timeout qnum
  else qtypeInnerHead s [] timeout (qnum + 1) highest

/-! ### client_handshake -/

/-- `client_handshake(dns_fd, raw_mode, autodetect_frag_size, fragsize)` from its entry to the first `select` -/
def hsStart (c : Cli) (args : HsArgs) (pw dev : List Nat) : HOut :=
  let s : HState := { c := { c with edns0 := false }, pos := none, inb := [], args := args, pw := pw, dev := dev }
  if s.c.doQtype = T_UNSET then qtypeOuterHead s [] 1 100 else afterQtype s []

/-- the loop body of the function the thread is parked in, `handshake_waitdns` having returned `read` -/
def hsGot (s : HState) (p : HPos) (read : Int) : HOut :=
  match p with
  | .qtype t q h => qtypeGot s t q h read
  | .version i => versionGot s i read
  | .login seed i => loginGot s seed i read
  | .rawIp seed i => rawIpGot s seed i read
  | .rawLogin seed i => rawLoginGot s seed i none        -- (not used: `hstep` handles the raw login's `select`)
  | .edns i => ednsGot s i read
  | .upenc p i => upencTestGot s p i read
  | .switchCodec b i => switchCodecGot s b i read
  | .downenc cd b i => downencTestGot s cd b i read
  | .switchDown i => switchDownGot s i read
  | .lazy i => lazyGot s i read
  | .frag pr r m i => fragGot s pr r m i read
  | .setFrag f i => setFragGot s f i read

/-- the raw login of `handshake_raw_udp` has its own `select` -/
def HPos.rawLogin? : HPos → Option (Nat × Nat)
  | .rawLogin seed i => some (seed, i)
  | _ => none

/-- what `handshake_waitdns` sees when its `select` returned -/
def hsWaitIn : Fired → WaitIn
  | .dns (.rq q) => .ans q
  | .dns _ => .ans Rq.zero
  | _ => .timeout

/-- what the raw login sees when its `select` returned: the datagram (`none`: timeout) -/
def hsRawIn : Fired → Option (List Nat)
  | .dns (.rawans d) => some d
  | .dns _ => some []
  | _ => none

/-- the thread is parked at `p`, `select` reported `f` -/
def hstepAt (s : HState) (p : HPos) (f : Fired) : HOut :=
  match p.rawLogin? with
  | some (seed, i) => rawLoginGot s seed i (hsRawIn f)
  | none =>
    let r := hsWaitRound s p.wait.1 p.wait.2.2 (hsWaitIn f)
    match r.2 with
    | none => (r.1, [], .sel p.sel)
    | some read => hsGot r.1 p read

/-- the step function: the `select` the thread is parked in returned -/
def hstep (s : HState) (inp : CInput) : HOut :=
  match s.pos with
  | none => (s, [], .none)
  | some p =>
    let f := fire s.c p.sel inp
    hstepAt { s with c := f.1 } p f.2

/-- the `select` the thread is parked in -/
def hpending (s : HState) : Next :=
  match s.pos with
  | none => .none
  | some p => .sel p.sel

end Iodine.Client
