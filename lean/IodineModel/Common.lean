/-
Model of two functions of /repo/src/common.c:

  int check_topdomain(char *str, int allow_wildcard, char **errormsg)   (0 = accepted, 1 = rejected)
  int query_datalen(const char *qname, const char *topdomain)           (-1 or number of data bytes)

Strings are NUL-free `List Nat`.  `isdigit`/`tolower` are the C-locale ones (bytes ≥ 128 are not
digits and are left unchanged by `tolower`; see the note at `toLower`).
The control flow of the C code is mirrored exit by exit; `errormsg` is ignored.
-/
namespace Iodine.Common

/-- C-locale `isdigit` -/
def isDigit (c : Nat) : Bool := 48 ≤ c && c ≤ 57

/-- C-locale `tolower`.  (On a platform with signed `char` a byte ≥ 128 reaches `tolower` as a
negative `int`; glibc maps -128..-2 to 128..254 and -1 to -1, which is injective on those bytes and
disjoint from the images of 0..127, so comparing `tolower(a) == tolower(b)` is still "equal bytes"
there — the only thing the model needs.) -/
def toLower (c : Nat) : Nat := if 65 ≤ c && c ≤ 90 then c + 32 else c

/-- the test `(c >= 'a' && c <= 'z') || (c >= 'A' && c <= 'Z') || isdigit(c) || c == '-' || c == '.'` -/
def plainChar (c : Nat) : Bool :=
  (97 ≤ c && c ≤ 122) || (65 ≤ c && c ≤ 90) || isDigit c || c == 45 || c == 46

/-- One iteration of the `for` loop of `check_topdomain` on character `c = str[i]`, `s1 = str[1]`.
`none` = `return 1`; `some (dots, chunklen)` = `continue` with the updated counters. -/
def ctStep (w : Bool) (s1 c i dots chunk : Nat) : Option (Nat × Nat) :=
  -- if (str[i] == '.') { dots++; if (chunklen == 0) return 1; if (chunklen > 63) return 1; chunklen = 0; }
  -- else chunklen++;
  let upd : Option (Nat × Nat) :=
    if c = 46 then
      if chunk = 0 then none
      else if chunk > 63 then none
      else some (dots + 1, 0)
    else some (dots, chunk + 1)
  match upd with
  | none => none
  | some st =>
    if plainChar c then some st
    else if w && c == 42 then
      if i = 0 then
        if s1 = 46 then some st else none
      else none
    else none

/-- the `for (i = 0; i < strlen(str); i++)` loop followed by the three final tests -/
def ctLoop (w : Bool) (s1 : Nat) : List Nat → Nat → Nat → Nat → Nat
  | [], _, dots, chunk =>
    if dots = 0 then 1
    else if chunk = 0 then 1
    else if chunk > 63 then 1
    else 0
  | c :: rest, i, dots, chunk =>
    match ctStep w s1 c i dots chunk with
    | none => 1
    | some (dots', chunk') => ctLoop w s1 rest (i + 1) dots' chunk'

/-- `check_topdomain(str, allow_wildcard, _)` -/
def checkTopdomain (s : List Nat) (allowWild : Bool) : Nat :=
  if s.length < 3 then 1
  else if s.length > 128 then 1
  else if s.head? = some 46 then 1
  else ctLoop allowWild (s.getD 1 0) s 0 0 0

/-- `qpos == 0 || qname[qpos-1] == '.'`, where the argument is `qname[0..qpos)` reversed -/
def atBoundary (qbefore : List Nat) : Bool := qbefore.isEmpty || qbefore.head? == some 46

/-- The `while (qpos >= 0)` loop of `query_datalen`.  First argument: `qname[0..qpos]` reversed (head is
`qname[qpos]`, empty when `qpos < 0`); second argument: `topdomain[0..tpos]` reversed (head is
`topdomain[tpos]`).  `qpos` itself is the length of the tail of the first argument. -/
def qdScan : List Nat → List Nat → Option Nat
  | [], _ => none                                   -- loop ends: return -1
  | _ :: _, [] => none                              -- unreachable (tpos never goes below 0)
  | qc :: qrest, tc :: trest =>
    if tc = 42 then
      if qc = 42 then none
      else if atBoundary qrest then some qrest.length
      else qdScan qrest (tc :: trest)               -- qpos--
    else if toLower qc = toLower tc then
      if trest.isEmpty then                         -- tpos == 0
        if atBoundary qrest then some qrest.length else none
      else qdScan qrest trest                       -- tpos--, qpos--
    else none

/-- `query_datalen(qname, topdomain)` -/
def queryDatalen (q t : List Nat) : Option Nat :=
  if t.length < 3 || q.length < t.length then none
  else qdScan q.reverse t.reverse

end Iodine.Common
