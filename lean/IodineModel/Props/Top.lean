import IodineModel.Server.Options
import IodineModel.Server.Bytes
import IodineModel.Client.Options
/-
Vocabulary for the "from the command line on" theorems (Props/C03Main.lean, C04Main, C09Main, C10Main, C12Main, C14Main, C15Main,
C16Main): only definitions live here; the theorems are in the property files so that each property's proof audit lists them.

The quantifier they share: for every argument vector `argv` and environment `env` (password variable, typed line, the result of every
operating-system call `main()` makes) for which `main()` of iodined reaches `tunnel()` with the globals `f` (`Starts env argv f`), every
stream `rnd` of `rand()` values, every pair `dest4 dest6` of local addresses `recvmsg` reports, and then every sequence of inputs
(datagram bytes, tun frames, forwarded replies, time-outs) and clock values.
-/
namespace Iodine.Top
open Iodine Iodine.Server Iodine.Server.Options

/-- `main(argc, argv)` of iodined, run in environment `env`, calls `tunnel()` with the globals `f` -/
def Starts (env : Env) (argv : List (List Nat)) (f : Final) : Prop := (serverMain env argv).final = some f

/-- the state of the session machine when `tunnel()` is entered (the stored clock value is irrelevant: `C10.start_clock_irrelevant`) -/
def entry (f : Final) (rnd : List Nat) (dest4 dest6 : Nat) : Srv := f.srv rnd dest4 dest6 1000

/-- the same with the statics `td1 = td2 = 0` of `write_dns_nameenc`: the state of the byte-level process -/
def bentry (f : Final) (rnd : List Nat) (dest4 dest6 : Nat) : BSrv := ⟨entry f rnd dest4 dest6, (0, 0)⟩

/-- `main(argc, argv)` of iodine, run in environment `env`, calls `client_handshake()` with client.c's statics, the arguments and the
password buffer of `f` -/
def CStarts (env : Client.Options.Env) (argv : List (List Nat)) (f : Client.Options.Final) : Prop :=
  (Client.Options.clientMain env argv).final = some f

/-- the 32 bytes `login_calculate` reads through the pointer `client_set_password` stored -/
def cpw (f : Client.Options.Final) : List Nat := f.password.take 32

end Iodine.Top
