import IodineModel.Props.C18
import IodineModel.Lemmas.OptSrv
/-
C18, continued: the hypotheses of the pool theorems (`8 ≤ n ≤ 30`, `my < 2^32`) are what `main()` of iodined establishes.

`init_users(my_ip, netmask)` is called with `my_ip = inet_addr(argv[0])` (glibc `inet_aton`: decimal / octal / hex parts, 1 to 4 of
them) and `netmask = atoi(strchr(argv[0], '/') + 1)` (default 27).  For every argument vector and environment for which the model
of `main()` (Server/Options.lean) reaches `tunnel()`: the netmask is in 8..30, the address is a 32-bit value and not
`255.255.255.255`, `users[]` holds exactly `init_users`' pool and `created_users` is its length — hence (Props/C18.lean) the pool
has `min(16, 2^(32-n) - 3)` distinct addresses of the server's subnet, none of them the server's, the network or the broadcast
address.
-/
namespace Iodine.C18
open Iodine Iodine.Getopt Iodine.Server.Options Iodine.Users

/-- **server_main_pool.** -/
theorem server_main_pool (env : Env) (argv : List (List Nat)) (f : Final) (h : (serverMain env argv).final = some f) :
    8 ≤ f.netmask ∧ f.netmask ≤ 30 ∧ f.myIp < 2 ^ 32 - 1 ∧
    f.pool = initUsers f.myIp f.netmask.toNat ∧ f.createdUsers = f.pool.length ∧
    f.pool.length = min Gen.USERS (2 ^ (32 - f.netmask.toNat) - 3) ∧ f.pool.Nodup ∧
    ∀ ip ∈ f.pool, net ip f.netmask.toNat = net f.myIp f.netmask.toNat ∧ ip ≠ f.myIp ∧
      ip ≠ net f.myIp f.netmask.toNat ∧ ip ≠ bcast f.myIp f.netmask.toNat := by
  obtain ⟨o, v, evs, v4, v6, ho, hv, hf⟩ := OptL.serverMain_final env argv f h
  have hval := OptL.validate_ok env o _ v evs hv
  have hnm := hval.nm
  have hip : v.myIp < 2 ^ 32 := by have := hval.ip_le; omega
  have h8 : 8 ≤ v.netmask.toNat := by omega
  have h30 : v.netmask.toNat ≤ 30 := by omega
  subst hf
  refine ⟨hnm.1, hnm.2, ?_, rfl, rfl, pool_size v.myIp _ h8 h30 hip, pool_distinct v.myIp _ h8 h30 hip, ?_⟩
  · have h1 := hval.ip; have h2 := hval.ip_le
    show v.myIp < 2 ^ 32 - 1
    omega
  · intro ip hmem
    have h1 := pool_in_subnet v.myIp v.netmask.toNat h8 h30 hip ip hmem
    have h2 := pool_excludes v.myIp v.netmask.toNat h8 h30 hip ip hmem
    exact ⟨h1.1, h2.1, h2.2.1, h2.2.2⟩

def exEnvPool : Env :=
  { envPass := some [120], typed := [], extIp := none, sd := 0, userUid := fun _ => none, setuidOk := fun _ => true,
    openTun := fun _ => true, getAddr4 := fun _ => some 0, getAddr6 := fun _ => true, stack4 := 0 }

-- `iodined 0x0a.1/29 t.co` (inet_addr: hex part, two parts = 10.0.0.1): pool 10.0.0.2 .. 10.0.0.6
example : ((serverMain exEnvPool [ascii "iodined", ascii "0x0a.1/29", ascii "t.co"]).final.map (·.pool)) =
    some [0x0a000002, 0x0a000003, 0x0a000004, 0x0a000005, 0x0a000006] := by decide +kernel

-- netmask strings: "/30" is the narrowest accepted, "/31", "/7", "/" (atoi "" = 0) and "/4294967320" (atoi wraps to 24!) —
-- the last one IS accepted: glibc's atoi keeps the low 32 bits
example : ((serverMain exEnvPool [ascii "iodined", ascii "10.0.0.1/30", ascii "t.co"]).final.map (·.pool)) = some [0x0a000002] ∧
    (serverMain exEnvPool [ascii "iodined", ascii "10.0.0.1/31", ascii "t.co"]).outcome = .exit 2 "usage:netmask" ∧
    (serverMain exEnvPool [ascii "iodined", ascii "10.0.0.1/7", ascii "t.co"]).outcome = .exit 2 "usage:netmask" ∧
    (serverMain exEnvPool [ascii "iodined", ascii "10.0.0.1/", ascii "t.co"]).outcome = .exit 2 "usage:netmask" ∧
    ((serverMain exEnvPool [ascii "iodined", ascii "10.0.0.1/4294967320", ascii "t.co"]).final.map (·.netmask)) = some 24 := by
  decide +kernel

end Iodine.C18
