import IodineModel.Props.C05Session
import IodineModel.Props.C05Continue
import IodineModel.Props.C10Main
/-
C05 from the command line on: the whole-session theorems of Props/C05Session.lean (and the non-interference theorems of
Props/C05Continue.lean, which hold in every state) restated for the process that `main()` of iodined starts — for EVERY argument vector
and environment with which `main()` reaches `tunnel()` (`Top.Starts env argv f`), every `rand()` stream, every pair of local addresses,
every run on arbitrary byte-valued inputs.  The hypothesis `ConfigOk` is gone: `C10.server_main_establishes_ConfigOk`.
-/
namespace Iodine.C05
open Iodine Iodine.Server Iodine.Server.Options

/-- the state `main()` leaves is where the runs of `AnyReachable` start -/
theorem anyReachable_bentry {env : Env} {argv : List (List Nat)} {f : Final} (h : Top.Starts env argv f) (rnd : List Nat)
    (d4 d6 : Nat) : AnyReachable (f.cfg d4 d6) (Top.bentry f rnd d4 d6) := by
  rw [OptL.bentry_eq_bstart h]; exact .init rnd

/-- every run of that process on byte-valued inputs stays in `AnyReachable` -/
theorem anyReachable_from_main {env : Env} {argv : List (List Nat)} {f : Final} (h : Top.Starts env argv f) (rnd : List Nat)
    (d4 d6 : Nat) (l : List (BInput × Nat)) (hl : ∀ p ∈ l, ByteInput p.1) :
    AnyReachable (f.cfg d4 d6) (brun (Top.bentry f rnd d4 d6) l) :=
  anyReachable_brun (anyReachable_bentry h rnd d4 d6) l hl

/-- **server_never_leaves_its_buffers_from_main.**  For every command line and environment with which iodined reaches `tunnel()`, every
run `l` of the process on ARBITRARY inputs made of octets (any datagrams from any address, tun frames, forwarded replies, time-outs, any
clock values) and every further such input, over every residue of the receive buffer: the iteration returns a result, no encoder call of
the iteration stores outside its buffer, every event fits the local buffer it is sent from, and the state is within its C arrays before
and after.  No hypothesis on the configuration is left. -/
theorem server_never_leaves_its_buffers_from_main (env : Env) (argv : List (List Nat)) (f : Final) (h : Top.Starts env argv f)
    (rnd : List Nat) (d4 d6 : Nat) (l : List (BInput × Nat)) (hl : ∀ p ∈ l, ByteInput p.1)
    (inp : BInput) (hby : ByteInput inp) (now' : Nat) (res : Array Nat) :
    let b := brun (Top.bentry f rnd d4 d6) l
    biterationR res b inp now' = some (biteration b inp now') ∧
    (∀ r ∈ encoderCalls b.srv.cfg (queryOf (toInput b.srv inp)) b.td (out b.srv ⟨toInput b.srv inp, now'⟩), ¬ IsFault r) ∧
    (∀ e ∈ out b.srv ⟨toInput b.srv inp, now'⟩, EventFits e) ∧
    BufInv b ∧ BufInv (biteration b inp now').1 :=
  server_never_leaves_its_buffers _ (C10.configOk_from_main h d4 d6) _ (anyReachable_from_main h rnd d4 d6 l hl) inp hby now' res

/-- **server_iteration_bounded_from_main.**  Likewise the explicit bound on the loops of one iteration. -/
theorem server_iteration_bounded_from_main (env : Env) (argv : List (List Nat)) (f : Final) (h : Top.Starts env argv f)
    (rnd : List Nat) (d4 d6 : Nat) (l : List (BInput × Nat)) (hl : ∀ p ∈ l, ByteInput p.1)
    (inp : BInput) (hby : ByteInput inp) (now' : Nat) :
    let b := brun (Top.bentry f rnd d4 d6) l
    (∀ res, (biterationR res b inp now').isSome) ∧
    (out b.srv ⟨toInput b.srv inp, now'⟩).length ≤ 2 * b.srv.cfg.createdUsers + 10 ∧ b.srv.cfg.createdUsers ≤ 16 ∧
    iterationBudget b inp now' ≤ 11 * inputLen inp + 2818962 ∧ inputLen inp ≤ 65536 :=
  server_iteration_bounded _ (C10.configOk_from_main h d4 d6) _ (anyReachable_from_main h rnd d4 d6 l hl) inp hby now'

/-! ### Established sessions continue, for the byte-level process `main()` started -/

/-- a datagram of ANY content from an address other than `a` is a foreign input of the session machine: `read_dns` hands it on as a
query or raw frame with that source address, or drops it (a time-out iteration) -/
theorem foreign_of_dgram (s : Srv) (a src : Addr) (bytes : List Nat) (h : ¬ (src.fam = a.fam ∧ src.ip = a.ip)) :
    Foreign a (toInput s (.dgram src bytes)) := by
  cases hti : toInput s (.dgram src bytes) with
  | q q =>
    have hq : q.from_ = src := (BytesL.decodeInput_q (s := s) hti).2.2.2.1
    show ¬ (q.from_.fam = a.fam ∧ q.from_.ip = a.ip)
    rw [hq]; exact h
  | rawf src' pkt =>
    have : src' = src := by
      unfold toInput decodeInput decodeInputR at hti
      simp only [] at hti
      split at hti
      · rename_i i hi
        split at hi
        · cases hi; cases hti
        · split at hi
          · cases hi; cases hti; rfl
          · obtain ⟨d, _, hi⟩ := BytesL.bind_eq_ok hi
            split at hi <;> (cases hi; cases hti)
      · cases hti
    show ¬ (src'.fam = a.fam ∧ src'.ip = a.ip)
    rw [this]; exact h
  | tun f =>
    exfalso
    unfold toInput decodeInput decodeInputR at hti
    simp only [] at hti
    split at hti
    · rename_i i hi
      split at hi
      · cases hi; cases hti
      · split at hi
        · cases hi; cases hti
        · obtain ⟨d, _, hi⟩ := BytesL.bind_eq_ok hi
          split at hi <;> (cases hi; cases hti)
    · cases hti
  | bind d => trivial
  | tick => trivial

/-- **foreign_run_like_ticks_from_main.**  For every command line and environment with which iodined reaches `tunnel()`, every run `l0` of
the process on ANY inputs after which session `u` is established for address `a`, and every further run `l` of byte-level inputs whose
session steps satisfy `ForeignRunOk` (datagrams of any content from other addresses, forwarder replies, time-outs; `u` unexpired; no raw
login with `u`'s hash; no packet completed for `u`'s tunnel address): slot `u` and the tunnel-data answers of `u` are exactly those of the
run in which the process merely woke up at the same moments, and `u` is still established. -/
theorem foreign_run_like_ticks_from_main (env : Env) (argv : List (List Nat)) (f : Final) (_h : Top.Starts env argv f)
    (rnd : List Nat) (d4 d6 : Nat) (l0 l : List (BInput × Nat)) (u : Nat) (a : Addr)
    (hest : Established (brun (Top.bentry f rnd d4 d6) l0).srv u a)
    (hok : ForeignRunOk u a (brun (Top.bentry f rnd d4 d6) l0).srv (bsteps (brun (Top.bentry f rnd d4 d6) l0) l)) :
    let b := brun (Top.bentry f rnd d4 d6) l0
    getUser (brun b l).srv u = getUser (runFrom b.srv (ticks (bsteps b l))) u ∧
    answersAlong u b.srv (bsteps b l) = answersAlong u b.srv (ticks (bsteps b l)) ∧
    Established (brun b l).srv u a := by
  intro b
  have := foreign_run_like_ticks b.srv b.srv u a (bsteps b l) ⟨rfl, rfl, rfl, hest.2.2.1⟩ hest hok
  rw [BytesL.runFrom_bsteps l b] at this
  exact this

/-- **established_session_still_accepted_from_main.**  … and afterwards a request from `a` naming `u` that arrives while `u` has not
expired passes the access check: it is served, not refused — whatever the other clients sent. -/
theorem established_session_still_accepted_from_main (env : Env) (argv : List (List Nat)) (f : Final) (_h : Top.Starts env argv f)
    (rnd : List Nat) (d4 d6 : Nat) (l0 l : List (BInput × Nat)) (u : Nat) (a : Addr)
    (hest : Established (brun (Top.bentry f rnd d4 d6) l0).srv u a)
    (hok : ForeignRunOk u a (brun (Top.bentry f rnd d4 d6) l0).srv (bsteps (brun (Top.bentry f rnd d4 d6) l0) l))
    (q : Query) (n : Nat) (hfrom : q.from_.fam = a.fam ∧ q.from_.ip = a.ip)
    (hlive : LiveAt (brun (brun (Top.bentry f rnd d4 d6) l0) l).srv u n) :
    C04.Accepted (handlerState (brun (brun (Top.bentry f rnd d4 d6) l0) l).srv n) q u ∧
    (getUser (handlerState (brun (brun (Top.bentry f rnd d4 d6) l0) l).srv n) u).authenticated = true := by
  have h := established_session_still_accepted (brun (Top.bentry f rnd d4 d6) l0).srv u a
    (bsteps (brun (Top.bentry f rnd d4 d6) l0) l) hest hok q n hfrom
  rw [BytesL.runFrom_bsteps l (brun (Top.bentry f rnd d4 d6) l0)] at h
  exact h hlive

/-- **established_sessions_continue_partial_from_main.**  The interleaved form: between the foreign datagrams, the bound client's own pings
naming `u` arrive (`MixedRunOk`); slot `u` and its tunnel-data answers are those of the run with every foreign step replaced by a time-out
(`mask`).  PARTIAL: of the client's own inputs only pings are covered (see Props/C05Continue.lean for the list and the reasons). -/
theorem established_sessions_continue_partial_from_main (env : Env) (argv : List (List Nat)) (f : Final) (_h : Top.Starts env argv f)
    (rnd : List Nat) (d4 d6 : Nat) (l0 l : List (BInput × Nat)) (u : Nat) (a : Addr)
    (hest : Established (brun (Top.bentry f rnd d4 d6) l0).srv u a)
    (hok : MixedRunOk u a (brun (Top.bentry f rnd d4 d6) l0).srv (bsteps (brun (Top.bentry f rnd d4 d6) l0) l)) :
    let b := brun (Top.bentry f rnd d4 d6) l0
    getUser (brun b l).srv u = getUser (runFrom b.srv (mask a (bsteps b l))) u ∧
    answersAlong u b.srv (bsteps b l) = answersAlong u b.srv (mask a (bsteps b l)) ∧
    Established (brun b l).srv u a := by
  intro b
  have := established_sessions_continue_partial b.srv b.srv u a (bsteps b l) ⟨rfl, rfl, rfl, hest.2.2.1⟩ hest hok
  rw [BytesL.runFrom_bsteps l b] at this
  exact this

/-! ### Non-vacuity: from a command line to hostile datagrams -/

/-- `iodined -f -b 5353 -P secret 10.0.0.1 t.co` -/
def exArgvFwd : List (List Nat) :=
  [Getopt.ascii "iodined", Getopt.ascii "-f", Getopt.ascii "-b", Getopt.ascii "5353", Getopt.ascii "-P", Getopt.ascii "secret",
   Getopt.ascii "10.0.0.1", Getopt.ascii "t.co"]

/-- the process started by that command line runs through the hostile run `exRun` and then receives the MX request with bytes ≥ 0x80
in its name: one encoder call, a datagram -/
def exFromArgv : Option (List Bool) :=
  (serverMain C19.exEnv exArgvFwd).final.map fun f => exCalls (brun (Top.bentry f [] 0 0) exRun) exHigh 1002

example : (serverMain C19.exEnv exArgvFwd).outcome = .run 0 ∧ exFromArgv = some [true] := by decide +kernel

example (f : Final) (h : Top.Starts C19.exEnv exArgvFwd f) (res : Array Nat) :=
  server_never_leaves_its_buffers_from_main _ _ f h [] 0 0 exRun (by decide +kernel) (.dgram C10.exSrc exHigh) (by decide +kernel)
    1002 res

end Iodine.C05
