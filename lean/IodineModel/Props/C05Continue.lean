import IodineModel.Props.C04
import IodineModel.Lemmas.C05N6
/-
C05, last clause — "iodined keeps serving; established sessions of other clients continue to work", for every sequence
of datagrams of any content: NON-INTERFERENCE OVER RUNS at the session level (`Server.next/out/runFrom`).

Setting.  Session `u` is established and bound to address `a` (family + address; the port is not compared), source
checking is on.  An input of the session machine is FOREIGN (w.r.t. `a`) if it is a DNS query or raw datagram from
another address (ANY name/type/id/content, including names that carry userid `u`), a forwarder reply (`bind`) or a
time-out.  Tun frames are the environment's traffic, not foreign inputs.

Formulation by REPLACEMENT: a run `l` is compared with the run `ticks l` in which every step is replaced by a time-out
with the same clock value.  (Removing an iteration is not equivalent: every iteration runs the top-of-loop flag
clearing and the "send real soon" sweep, which act on slot `u` exactly as they do after a `select` time-out.)

Proved here, for EVERY state `s` (no reachability needed):
* `foreign_iteration_like_tick`  one foreign iteration ≈ one time-out iteration on slot `u` (state and tunnel-data answers);
* `foreign_run_like_ticks`       the same for every run of foreign steps, prefix by prefix;
* `established_session_still_accepted`  after any such run, a request from `a` naming `u` is `C04.Accepted`
  (answered, not refused with BADIP) as long as `u` has not expired.

WHICH SHARED RESOURCES ARE REAL (the numbered candidates of the work package), each with a counterexample below:
 1. slot allocation — REAL.  Hypothesis `LiveAt`: `¬ last_pkt + 60 < now` when the step's handler runs (the `+60 <`
    form of `check_user_and_ip` / `find_available_user`; at exactly 60 s the slot is still safe).
 2. raw login — REAL.  Hypothesis `¬ CarriesLogin`: the foreign datagram is not a raw login frame for `u` with the hash of
    (password, seed_u + 1).
 3. inter-client forwarding — REAL (DNS data requests and raw data frames of another session).  Hypothesis
    `¬ AddressedTo … tunIp_u`: the foreign input is not an ACCEPTED data request / raw data frame of another session
    that completes a tunnelled packet whose IP destination is `u`'s tunnel address.  (Slightly stronger than "is not
    delivered to `u`": delivery also needs `u` to be the first live owner of that address.)
    The DNS case is phrased with the model's own reassembly step `C05N.dataPre` (state in which `handle_full_packet` is
    called, `upstream_ok`, `lastfrag`); the raw case is model-free.
 4. `rand()` — NOT a channel into slot `u` for foreign steps: `s.rand` differs between the runs, but nothing in slot `u`
    or in `u`'s tunnel-data answers depends on it (the conclusion compares slot `u`, not the whole state).  It becomes
    one for OWN later `V`/`R` requests of `a` (their answers carry `rand()` values): outside the theorems here.
 5. tun gating (`all_users_waiting_to_send` looks at all slots) — irrelevant for foreign steps (no tun frame is read in
    either run); REAL for own `.tun` steps of an interleaved run: not covered here (see below).
 6. forward ring `fw` / `tunnel_bind` — confirmed harmless: `bind` inputs change no slot and send only `rly` events.
 7. `find_user_by_ip` — only matters for own `.tun` steps and for own data requests completing a packet: not covered.

* `established_sessions_continue_partial`  the INTERLEAVED version: run `l` vs `mask a l` (foreign steps replaced by
  time-outs, all other steps kept), where the non-foreign steps are restricted to PING requests naming `u` (`OwnPing`).

NOT PROVED: the interleaved version with a wider class of own steps.  The generic step lemma is there
(`C05N.agree_iteration`: ANY two inputs whose handler phases keep agreement on slot `u` keep it through the iteration),
the downstream machinery and the ping handler are proved slot-local (`C05N.agree_sendChunkOrDataless`,
`agree_processDownstreamAck`, `agree_handlePing`, …); what is missing is the slot-locality of the other own handlers
(`O S N I Z Y`: straightforward; `handleData` up to `handle_full_packet`; `tunnelTun` under equal `tunsel` and equal
`find_user_by_ip`, which needs C18 `pool_distinct`; own `V`/`R` pop `rand`).
-/
namespace Iodine.C05
open Iodine Iodine.Server Iodine.Gen

/-! ### Specification vocabulary -/

/-- the input does not come from `a` (family and address; the port does not count) -/
def Foreign (a : Addr) (inp : Input) : Prop :=
  match inp with
  | .q q => ¬ (q.from_.fam = a.fam ∧ q.from_.ip = a.ip)
  | .rawf src _ => ¬ (src.fam = a.fam ∧ src.ip = a.ip)
  | .bind _ => True
  | .tick => True
  | .tun _ => False

instance (a : Addr) (inp : Input) : Decidable (Foreign a inp) := by
  unfold Foreign; split <;> exact inferInstance

/-- session `u` is established and bound to `a`, with source checking on -/
def Established (s : Srv) (u : Nat) (a : Addr) : Prop :=
  s.cfg.checkIp = true ∧ u < s.cfg.createdUsers ∧ u < s.users.length ∧
  (getUser s u).active = true ∧ (getUser s u).disabled = false ∧ (getUser s u).authenticated = true ∧
  (getUser s u).host.fam = a.fam ∧ (getUser s u).host.ip = a.ip

instance (s : Srv) (u : Nat) (a : Addr) : Decidable (Established s u a) := by unfold Established; exact inferInstance

/-- the user a data-path answer belongs to -/
def tagUser : Tag → Option Nat
  | .ctrl => none
  | .chunk u => some u
  | .dupe u => some u
  | .cached u => some u
  | .qmem u => some u

/-- the tunnel-data answers of session `u` among the events of an iteration, in order -/
def dataAnswers (u : Nat) (evs : List Event) : List Event :=
  evs.filter fun e => match e with
    | .ans _ _ _ _ _ _ tag => tagUser tag == some u
    | _ => false

/-- the state the handler of an iteration with clock value `n` runs in -/
def handlerState (s : Srv) (n : Nat) : Srv := { (topOfLoop s).1 with now := n }

/-- hypothesis 1: `u` has not expired at clock value `n` -/
def LiveAt (s : Srv) (u n : Nat) : Prop := ¬ (getUser s u).lastPkt + 60 < n

instance (s : Srv) (u n : Nat) : Decidable (LiveAt s u n) := by unfold LiveAt; exact inferInstance

/-- hypothesis 2 (negated): the input is a raw-mode login frame for `u` carrying the hash of the password and `seed_u + 1` -/
def CarriesLogin (s : Srv) (inp : Input) (u : Nat) : Prop :=
  match inp with
  | .rawf _ bytes =>
    C04.IsRawLoginFrame (bytes.take 65536) u (Login.loginCalcC s.cfg.password ((getUser s u).seed + 1))
  | _ => False

instance (s : Srv) (inp : Input) (u : Nat) : Decidable (CarriesLogin s inp u) := by
  unfold CarriesLogin; split
  · unfold C04.IsRawLoginFrame; exact inferInstance
  · exact inferInstance

/-- IP destination of the upstream packet session `w` has reassembled in `s'`, if it is a whole IP frame -/
def completedDest (s' : Srv) (w : Nat) : Option Nat :=
  match uncompress ((getUser s' w).inpacket.data.take (getUser s' w).inpacket.len) 65536 with
  | some out => if 24 ≤ out.length then some (ipDst out) else none
  | none => none

/-- hypothesis 3 (negated): the input completes a tunnelled packet with IP destination `A` — a DNS upstream-data request
(hex digit `w` in front) that passes the access check for session `w` (`C04.Accepted`), is an accepted last fragment and
leaves a packet for `A` in `w`'s reassembly buffer; or a raw-mode data frame for a session `w` it is accepted for, whose
payload is a packet for `A` -/
def addressedTo (s : Srv) (inp : Input) (A : Nat) : Bool :=
  match inp with
  | .q q =>
    match Common.queryDatalen q.name s.cfg.topdomain with
    | some dlen =>
      match C04.hexVal (C04.lower ((C04.payload q dlen).getD 0 0)) with
      | some w =>
        let p := C05N.dataPre s w (C04.payload q dlen)
        decide (C04.Accepted s q w) && p.2.1 && p.2.2 && (completedDest p.1 w == some A)
      | none => false
    | none => false
  | .rawf src bytes =>
    let b := bytes.take 65536
    (b.take 3 == [16, 209, 158]) && (b.getD 3 0 &&& 240 == 32) &&
      decide (C04.Accepted s (rawQuery src) (b.getD 3 0 &&& 15)) &&
      (match uncompress (b.drop 4) 65536 with
       | some out => decide (24 ≤ out.length) && (ipDst out == A)
       | none => false)
  | _ => false

def AddressedTo (s : Srv) (inp : Input) (A : Nat) : Prop := addressedTo s inp A = true

instance (s : Srv) (inp : Input) (A : Nat) : Decidable (AddressedTo s inp A) := by unfold AddressedTo; exact inferInstance

/-- the hypotheses on one foreign step `⟨inp, n⟩` taken in state `s` -/
def ForeignStepOk (u : Nat) (a : Addr) (s : Srv) (st : Step) : Prop :=
  Foreign a st.inp ∧ LiveAt s u st.now ∧ ¬ CarriesLogin (handlerState s st.now) st.inp u ∧
    ¬ AddressedTo (handlerState s st.now) st.inp (getUser s u).tunIp

instance (u : Nat) (a : Addr) (s : Srv) (st : Step) : Decidable (ForeignStepOk u a s st) := by
  unfold ForeignStepOk; exact inferInstance

/-- ... on every step of a run from `s` -/
def ForeignRunOk (u : Nat) (a : Addr) : Srv → List Step → Prop
  | _, [] => True
  | s, st :: rest => ForeignStepOk u a s st ∧ ForeignRunOk u a (next s st) rest

instance decForeignRunOk (u : Nat) (a : Addr) : ∀ (s : Srv) (l : List Step), Decidable (ForeignRunOk u a s l)
  | _, [] => isTrue trivial
  | s, st :: rest => by
    unfold ForeignRunOk
    exact @instDecidableAnd _ _ inferInstance (decForeignRunOk u a (next s st) rest)

/-- the run in which every step is replaced by a time-out with the same clock value -/
def ticks (l : List Step) : List Step := l.map fun st => ⟨.tick, st.now⟩

/-- the tunnel-data answers of `u`, iteration by iteration -/
def answersAlong (u : Nat) : Srv → List Step → List (List Event)
  | _, [] => []
  | s, st :: rest => dataAnswers u (out s st) :: answersAlong u (next s st) rest

/-! ### Bridging to the model-side lemmas (C05N) -/

section Bridge

private theorem dataAnswers_eq (u : Nat) (evs : List Event) : dataAnswers u evs = C05N.dataOf u evs := by
  unfold dataAnswers C05N.dataOf
  congr 1
  funext e
  cases e with
  | ans _ _ _ _ _ _ tag => cases tag <;> rfl
  | _ => rfl

private theorem answersAlong_eq (u : Nat) : ∀ (l : List Step) (s : Srv), answersAlong u s l = C05N.dataTrace u s l := by
  intro l
  induction l with
  | nil => intro s; rfl
  | cons st rest ih => intro s; simp only [answersAlong, C05N.dataTrace, dataAnswers_eq, ih]

private theorem ticks_eq (l : List Step) : ticks l = C05N.ticks l := rfl

private theorem foreign_iff (a : Addr) (inp : Input) : Foreign a inp ↔ C05N.foreign a inp := by
  cases inp <;> exact Iff.rfl

private theorem bound_of (s : Srv) (u : Nat) (a : Addr) (h : Established s u a) : C05N.Bound s u a :=
  ⟨h.1, h.2.2.2.1, h.2.2.2.2.2.2.1, h.2.2.2.2.2.2.2⟩

private theorem hexVal_of_isHex (c : Nat) (h : isHexDigit c = true) :
    ∃ v, C04.hexVal (C04.lower c) = some v ∧ hexCode c = (v : Int) := by
  unfold isHexDigit at h
  simp only [Bool.or_eq_true, Bool.and_eq_true, decide_eq_true_eq] at h
  rcases h with (h | h) | h
  · have hl : C04.lower c = c := by unfold C04.lower; rw [if_neg (by omega)]
    refine ⟨c - 48, ?_, ?_⟩
    · rw [hl]; unfold C04.hexVal; rw [if_pos (by omega)]
    · unfold hexCode; dsimp only; rw [if_neg (by omega), if_neg (by omega), if_pos (by omega)]; omega
  · have hl : C04.lower c = c := by unfold C04.lower; rw [if_neg (by omega)]
    refine ⟨c - 87, ?_, ?_⟩
    · rw [hl]; unfold C04.hexVal; rw [if_neg (by omega), if_pos (by omega)]
    · unfold hexCode; dsimp only; rw [if_neg (by omega), if_pos (by omega)]; omega
  · have hl : C04.lower c = c + 32 := by unfold C04.lower; rw [if_pos (by omega)]
    refine ⟨c + 32 - 87, ?_, ?_⟩
    · rw [hl]; unfold C04.hexVal; rw [if_neg (by omega), if_pos (by omega)]
    · unfold hexCode; dsimp only; rw [if_pos (by omega)]; omega

private theorem addressed_of_fwd (s : Srv) (inp : Input) (u : Nat) (h : C05N.fwdTo s inp u) :
    AddressedTo s inp (getUser s u).tunIp := by
  unfold AddressedTo
  cases inp with
  | q q =>
    obtain ⟨dlen, w, out, hd, hx, hcode, hp, hout, hdst, hacc⟩ := C05N.fwdTo_q_elim h
    have hacc' : C04.Accepted s q w := hacc
    obtain ⟨v, hv, hcv⟩ := hexVal_of_isHex _ hx
    have hvw : v = w := by rw [hcode] at hcv; omega
    subst hvw
    obtain ⟨k1, k2⟩ := C05N.fullPacketOut_elim _ _ _ hout
    have hpay : C04.payload q dlen = C04L.inbOf q dlen := rfl
    unfold addressedTo
    simp only [hd, hpay, hv, hp, completedDest, k1, if_pos k2, hdst, hacc', decide_true, Bool.and_self,
      beq_self_eq_true]
  | rawf src bytes =>
    obtain ⟨h2, h3, ⟨out, k1, k2, hdst⟩, hacc⟩ := C05N.fwdTo_raw_elim h
    have hacc' : C04.Accepted s (rawQuery src) ((bytes.take 65536).getD 3 0 &&& 15) := hacc
    unfold addressedTo
    simp only [h2, h3, k1, k2, hdst, hacc', beq_self_eq_true, decide_true, Bool.and_self]
  | tun f => exact absurd h (fun x => x)
  | bind b => exact absurd h (fun x => x)
  | tick => exact absurd h (fun x => x)

private theorem carries_of_login (s : Srv) (inp : Input) (u : Nat) (h : C05N.rawLoginFor s inp u) : CarriesLogin s inp u := by
  cases inp with
  | rawf src bytes => exact C05N.rawLoginFor_elim h
  | q q => exact absurd h (fun x => x)
  | tun f => exact absurd h (fun x => x)
  | bind b => exact absurd h (fun x => x)
  | tick => exact absurd h (fun x => x)

private theorem tunIp_handlerState (s : Srv) (u n : Nat) :
    (getUser (handlerState s n) u).tunIp = (getUser s u).tunIp := by
  show (getUser (C05N.pre s n) u).tunIp = _
  rw [C05N.getUser_pre]; split <;> rfl

private theorem stepOk_model {u : Nat} {a : Addr} {s : Srv} {st : Step} (h : ForeignStepOk u a s st) :
    C05N.foreign a st.inp ∧ ¬ (getUser s u).lastPkt + 60 < st.now ∧ ¬ C05N.rawLoginFor (C05N.pre s st.now) st.inp u ∧
      ¬ C05N.fwdTo (C05N.pre s st.now) st.inp u := by
  obtain ⟨h1, h2, h3, h4⟩ := h
  refine ⟨(foreign_iff a _).1 h1, h2, fun k => h3 (carries_of_login _ _ _ k), fun k => h4 ?_⟩
  have := addressed_of_fwd _ _ _ k
  rw [show C05N.pre s st.now = handlerState s st.now from rfl, tunIp_handlerState] at this
  exact this

private theorem runOk_model {u : Nat} {a : Addr} : ∀ (l : List Step) (s : Srv), ForeignRunOk u a s l →
    C05N.ForeignRun u a s l := by
  intro l
  induction l with
  | nil => intro s _; trivial
  | cons st rest ih => intro s h; exact ⟨stepOk_model h.1, ih _ h.2⟩

end Bridge

/-! ### A concrete scenario for the non-vacuity examples and the counterexamples

The scenario of Props/C04.lean: Alice (192.168.1.1) owns slot 0 (tunnel address 10.0.0.2), logged in, lazy mode, ping 21
waiting; Bob (192.168.1.2) owns slot 1 (10.0.0.3), logged in; Mallory is 192.168.1.223.  In `sA` Alice's slot also holds
query 30 to be answered "real soon", so the sweep of the next iteration sends her a (dataless) tunnel-data answer. -/
namespace Ex
open C04.Ex

def sA : Srv := setUser s5 0 fun x => { x with qs := pq 0 30 alice }

/-- a query with an arbitrary name (not inside the tunnel domain unless it ends in `.t.io`) -/
def rawq (name : List Nat) (ty id : Nat) (a : Addr) : Query := ⟨name, ty, id, a, 0, Addr.zero, Addr.zero⟩

/-- what Mallory sends: a version request (allocates slot 2), a login for Alice's userid 0 with a wrong hash, a login
with the RIGHT hash (refused: wrong source), a ping and an options request naming userid 0, a data request naming
userid 0, a raw login frame with a wrong hash, a raw data frame and a raw ping naming userid 0, a frame with the raw
magic and an unknown command, a garbage name inside the domain, an NS query, an A query for `ns.t.io`, a query outside
the domain, an empty name, a forwarder reply, a time-out -/
def mallorysRun : List Step :=
  [⟨.q (vq mallory), 1001⟩,
   ⟨.q (lqGen 0 41 mallory), 1002⟩,
   ⟨.q (lq 0 42 mallory), 1002⟩,
   ⟨.q (pq 0 8 mallory), 1003⟩,
   ⟨.q (oq mallory), 1003⟩,
   ⟨.q (mkq [48, 101, 97, 98, 97, 97, 97, 97] 12 mallory), 1004⟩,
   ⟨.rawf mallory ([16, 209, 158, 16] ++ List.replicate 16 7), 1005⟩,
   ⟨.rawf mallory ([16, 209, 158, 32] ++ 0x5a :: frame 2), 1005⟩,
   ⟨.rawf mallory [16, 209, 158, 48], 1006⟩,
   ⟨.rawf mallory [16, 209, 158, 240, 1, 2, 3], 1006⟩,
   ⟨.q (mkq [255, 0, 46, 46, 200] 13 mallory), 1007⟩,
   ⟨.q (rawq [120, 46, 116, 46, 105, 111] 2 14 mallory), 1008⟩,
   ⟨.q (rawq [110, 115, 46, 116, 46, 105, 111] 1 15 mallory), 1008⟩,
   ⟨.q (rawq [119, 119, 119, 46, 101, 120, 46, 99, 111, 109] 1 16 mallory), 1009⟩,
   ⟨.q (rawq [] 10 17 mallory), 1009⟩,
   ⟨.bind [0, 1, 2, 3, 4, 5, 6, 7, 8, 9, 10, 11, 12], 1010⟩,
   ⟨.tick, 1060⟩]

/-- Bob's upstream data request (userid 1, upstream seqno 1, fragment 0, last fragment): the compressed packet
`frame d` for 10.0.0.`d` in one fragment -/
def bobData (d : Nat) : Query :=
  mkq ([49, 101, 97, 98, 97] ++ Codec.encFull Codec.b32 (0x5a :: frame d)) 33 bob

end Ex

/-! ### (a) one foreign iteration -/

/-- **One foreign iteration is like a time-out for an established session.**  `s` and `t` are two server states that
agree on slot `u` (same slot contents, clock and configuration; everything else — other slots, `rand` queue, forward
ring — arbitrary).  If `u` is established for `a` in `s` and the step `⟨inp, n⟩` is foreign, finds `u` unexpired, is not
a raw login with `u`'s hash and completes no packet for `u`'s tunnel address, then after the iteration slot `u` is the
same as after a time-out iteration of `t` at the same clock value, the same tunnel-data answers of `u` were sent, and
`u` is still established for `a`. -/
theorem foreign_iteration_like_tick (s t : Srv) (u : Nat) (a : Addr) (st : Step)
    (hagree : getUser s u = getUser t u ∧ s.now = t.now ∧ s.cfg = t.cfg ∧ u < t.users.length)
    (hest : Established s u a) (hok : ForeignStepOk u a s st) :
    getUser (next s st) u = getUser (next t ⟨.tick, st.now⟩) u ∧
    dataAnswers u (out s st) = dataAnswers u (out t ⟨.tick, st.now⟩) ∧
    Established (next s st) u a := by
  have hA : C05N.Agree u s t := ⟨hagree.1, hagree.2.1, hagree.2.2.1, hest.2.2.1, hagree.2.2.2⟩
  obtain ⟨hf, hl, hlog, hw⟩ := stepOk_model hok
  have hb := bound_of s u a hest
  have k := C05N.foreign_iteration hA hb st.inp st.now hl hf hlog hw
  have hk := (C05N.foreign_dispatch (C05N.bound_pre hb st.now) (by rw [C05N.lastPkt_pre]; exact hl) st.inp
    (C05N.tunsel s) hf hlog hw).1
  have hb' := C05N.bound_next hb st.inp st.now hk
  refine ⟨k.1.user, by rw [dataAnswers_eq, dataAnswers_eq]; exact k.2, ?_⟩
  -- `disabled` and `authenticated` are kept as well: slot `u` after the iteration is slot `u` after the sweep of a state
  -- whose slot `u` is that of the handler state
  have hs := (C04L.frame_sweep (dispatch (C05N.pre s st.now) st.inp (C05N.tunsel s)).1).rel u
  rw [hk] at hs
  have e0 : getUser (next s st) u = getUser (sweep (dispatch (C05N.pre s st.now) st.inp (C05N.tunsel s)).1).1 u := by
    rw [C05N.next_eq, C04L.body_fst]
  have d1 : (getUser (next s st) u).disabled = (getUser (C05N.pre s st.now) u).disabled := by
    rw [e0]; exact C05N.erData_disabled hs
  have d2 : (getUser (next s st) u).authenticated = (getUser (C05N.pre s st.now) u).authenticated := by
    rw [e0]; exact C05N.erData_authenticated hs
  have p1 : (getUser (C05N.pre s st.now) u).disabled = (getUser s u).disabled := by
    rw [C05N.getUser_pre]; split <;> rfl
  have p2 : (getUser (C05N.pre s st.now) u).authenticated = (getUser s u).authenticated := by
    rw [C05N.getUser_pre]; split <;> rfl
  exact ⟨hb'.ck, by rw [C05N.next_cfg]; exact hest.2.1, by rw [C05N.next_len]; exact hest.2.2.1, hb'.act,
    by rw [d1, p1]; exact hest.2.2.2.2.1, by rw [d2, p2]; exact hest.2.2.2.2.2.1, hb'.fam, hb'.ip⟩

-- non-vacuity: Mallory's version request at t = 1001 while Alice holds query 30 for "real soon": the hypotheses hold,
-- the iteration allocates slot 2 for Mallory (so the whole states differ), and the sweep answers Alice's query 30 —
-- the same answer as in the time-out iteration.
example :
    Established Ex.sA 0 C04.Ex.alice ∧ ForeignStepOk 0 C04.Ex.alice Ex.sA ⟨.q (C04.Ex.vq C04.Ex.mallory), 1001⟩ ∧
    dataAnswers 0 (out Ex.sA ⟨.q (C04.Ex.vq C04.Ex.mallory), 1001⟩) =
      [Event.ans C04.Ex.alice 30 10 84 (C04.Ex.pq 0 30 C04.Ex.alice).name [128, 0] (.chunk 0)] ∧
    (getUser (next Ex.sA ⟨.q (C04.Ex.vq C04.Ex.mallory), 1001⟩) 2).active = true ∧
    (getUser (next Ex.sA ⟨.tick, 1001⟩) 2).active = false := by
  decide +kernel

/-! ### (b) runs of foreign steps -/

/-- **A run of foreign steps is like a run of time-outs for an established session.**  From states agreeing on slot `u`,
with `u` established for `a`: if every step of the run `l` satisfies `ForeignStepOk` in the state it is taken in, then
slot `u` after `l` equals slot `u` after the all-time-out run with the same clock values, the tunnel-data answers of `u`
are the same iteration by iteration, and `u` is still established for `a`.  (Applied to a prefix of `l` this gives the
equality after every prefix: `ForeignRunOk` is prefix-closed.) -/
theorem foreign_run_like_ticks (s t : Srv) (u : Nat) (a : Addr) (l : List Step)
    (hagree : getUser s u = getUser t u ∧ s.now = t.now ∧ s.cfg = t.cfg ∧ u < t.users.length)
    (hest : Established s u a) (hok : ForeignRunOk u a s l) :
    getUser (runFrom s l) u = getUser (runFrom t (ticks l)) u ∧
    answersAlong u s l = answersAlong u t (ticks l) ∧
    Established (runFrom s l) u a := by
  induction l generalizing s t with
  | nil => exact ⟨hagree.1, rfl, hest⟩
  | cons st rest ih =>
    obtain ⟨h1, h2, h3⟩ := foreign_iteration_like_tick s t u a st hagree hest hok.1
    have hA : C05N.Agree u s t := ⟨hagree.1, hagree.2.1, hagree.2.2.1, hest.2.2.1, hagree.2.2.2⟩
    have hagree' : getUser (next s st) u = getUser (next t ⟨.tick, st.now⟩) u ∧
        (next s st).now = (next t ⟨.tick, st.now⟩).now ∧ (next s st).cfg = (next t ⟨.tick, st.now⟩).cfg ∧
        u < (next t ⟨.tick, st.now⟩).users.length :=
      ⟨h1, by rw [C05N.next_now, C05N.next_now], by rw [C05N.next_cfg, C05N.next_cfg]; exact hagree.2.2.1,
       by rw [C05N.next_len]; exact hagree.2.2.2⟩
    obtain ⟨r1, r2, r3⟩ := ih (next s st) (next t ⟨.tick, st.now⟩) hagree' h3 hok.2
    refine ⟨r1, ?_, r3⟩
    show dataAnswers u (out s st) :: answersAlong u (next s st) rest =
      dataAnswers u (out t ⟨.tick, st.now⟩) :: answersAlong u (next t ⟨.tick, st.now⟩) (ticks rest)
    rw [h2, r2]

-- non-vacuity: Mallory's whole repertoire (17 steps, see `Ex.mallorysRun`) satisfies the hypotheses from `sA`; the
-- runs differ globally (Mallory got slot 2, the `rand` queue was popped) and Alice's answers are not trivial (the first
-- iteration's sweep answers her query 30).
example : Established Ex.sA 0 C04.Ex.alice ∧ ForeignRunOk 0 C04.Ex.alice Ex.sA Ex.mallorysRun := by
  decide +kernel
example :
    (getUser (runFrom Ex.sA Ex.mallorysRun) 2).active = true ∧
    (getUser (runFrom Ex.sA (ticks Ex.mallorysRun)) 2).active = false ∧
    (answersAlong 0 Ex.sA Ex.mallorysRun).head? =
      some [Event.ans C04.Ex.alice 30 10 84 (C04.Ex.pq 0 30 C04.Ex.alice).name [128, 0] (.chunk 0)] := by
  decide +kernel

/-! ### Each hypothesis is needed -/

-- (1) liveness: at t = 1061 Alice's slot (last heard at 1000) has expired; Mallory's version request takes it over.
example :
    ¬ LiveAt Ex.sA 0 1061 ∧
    getUser (next Ex.sA ⟨.q (C04.Ex.vq C04.Ex.mallory), 1061⟩) 0 ≠ getUser (next Ex.sA ⟨.tick, 1061⟩) 0 := by
  decide +kernel
-- ... while at exactly t = 1060 (the boundary of `last_pkt + 60 < now`) she is still safe
example : LiveAt Ex.sA 0 1060 ∧
    getUser (next Ex.sA ⟨.q (C04.Ex.vq C04.Ex.mallory), 1060⟩) 0 = getUser (next Ex.sA ⟨.tick, 1060⟩) 0 := by
  decide +kernel

-- (2) raw login: a raw login frame with the hash for seed 42 + 1 from Mallory's address rebinds Alice's slot.
example :
    CarriesLogin (handlerState Ex.sA 1001)
      (.rawf C04.Ex.mallory ([16, 209, 158, 16] ++ Login.loginCalcC C04.Ex.cfg.password 43)) 0 ∧
    getUser (next Ex.sA ⟨.rawf C04.Ex.mallory ([16, 209, 158, 16] ++ Login.loginCalcC C04.Ex.cfg.password 43), 1001⟩) 0 ≠
      getUser (next Ex.sA ⟨.tick, 1001⟩) 0 := by
  decide +kernel

-- (3) forwarding: Bob's (accepted) data request completing a packet for 10.0.0.2 is handed to Alice: her slot changes
-- and she is sent tunnel data in this iteration; the same request carrying a packet for 10.0.0.9 satisfies the
-- hypotheses (it goes to the tun device).
example :
    AddressedTo (handlerState Ex.sA 1001) (.q (Ex.bobData 2)) (getUser Ex.sA 0).tunIp ∧
    getUser (next Ex.sA ⟨.q (Ex.bobData 2), 1001⟩) 0 ≠ getUser (next Ex.sA ⟨.tick, 1001⟩) 0 ∧
    dataAnswers 0 (out Ex.sA ⟨.q (Ex.bobData 2), 1001⟩) ≠ dataAnswers 0 (out Ex.sA ⟨.tick, 1001⟩) ∧
    ForeignStepOk 0 C04.Ex.alice Ex.sA ⟨.q (Ex.bobData 9), 1001⟩ ∧
    (out Ex.sA ⟨.q (Ex.bobData 9), 1001⟩).head? = some (Event.tunw (C04.Ex.frame 9)) := by
  decide +kernel

/-! ### Corollary: the established session is still served -/

/-- **Established sessions continue to be accepted.**  After ANY run of foreign steps satisfying the hypotheses, a
request `q` from `a` that arrives in an iteration with clock value `n` at which `u` has not expired is ACCEPTED for `u`
(`C04.Accepted` in the state its handler runs in): the access check `check_user_and_ip` passes, so a ping or data request
naming `u` is answered on the data path and not refused with BADIP — whatever the foreign datagrams were. -/
theorem established_session_still_accepted (s : Srv) (u : Nat) (a : Addr) (l : List Step)
    (hest : Established s u a) (hok : ForeignRunOk u a s l) (q : Query) (n : Nat)
    (hfrom : q.from_.fam = a.fam ∧ q.from_.ip = a.ip) (hlive : LiveAt (runFrom s l) u n) :
    C04.Accepted (handlerState (runFrom s l) n) q u ∧
    (getUser (handlerState (runFrom s l) n) u).authenticated = true := by
  obtain ⟨_, _, he⟩ := foreign_run_like_ticks s s u a l ⟨rfl, rfl, rfl, hest.2.2.1⟩ hest hok
  obtain ⟨e1, e2, _, e4, e5, e6, e7, e8⟩ := he
  generalize runFrom s l = s' at *
  have hp : ∀ (P : Session → Prop), P (getUser s' u) → (∀ x : Session, P x → P { x with qsNew := false }) →
      P (getUser (handlerState s' n) u) := by
    intro P h0 h1
    show P (getUser (C05N.pre s' n) u)
    rw [C05N.getUser_pre]; split
    · exact h1 _ h0
    · exact h0
  refine ⟨⟨e2, hp (·.active = true) e4 (fun _ h => h), hp (·.disabled = false) e5 (fun _ h => h), ?_, ?_⟩,
    hp (·.authenticated = true) e6 (fun _ h => h)⟩
  · exact hp (fun x => ¬ x.lastPkt + 60 < n) hlive (fun _ h => h)
  · intro _
    unfold C04.bound
    exact hp (fun x => q.from_.fam = x.host.fam ∧ q.from_.ip = x.host.ip) ⟨hfrom.1.trans e7.symm, hfrom.2.trans e8.symm⟩
      (fun _ h => h)

-- non-vacuity: after Mallory's 17 steps Alice's ping 22 at t = 1060 is accepted and answered on the data path
-- (her waiting ping 21 gets the dataless answer), exactly as after 17 time-outs
example :
    LiveAt (runFrom Ex.sA Ex.mallorysRun) 0 1060 ∧
    C04.Accepted (handlerState (runFrom Ex.sA Ex.mallorysRun) 1060) (C04.Ex.pq 0 22 C04.Ex.alice) 0 ∧
    dataAnswers 0 (out (runFrom Ex.sA Ex.mallorysRun) ⟨.q (C04.Ex.pq 0 22 C04.Ex.alice), 1060⟩) ≠ [] ∧
    dataAnswers 0 (out (runFrom Ex.sA Ex.mallorysRun) ⟨.q (C04.Ex.pq 0 22 C04.Ex.alice), 1060⟩) =
      dataAnswers 0 (out (runFrom Ex.sA (ticks Ex.mallorysRun)) ⟨.q (C04.Ex.pq 0 22 C04.Ex.alice), 1060⟩) := by
  decide +kernel

/-! ### (c) interleaved runs: foreign steps among the session's own pings -/

/-- the run in which every FOREIGN step is replaced by a time-out with the same clock value; all other steps are kept -/
def mask (a : Addr) (l : List Step) : List Step :=
  l.map fun st => if Foreign a st.inp then ⟨.tick, st.now⟩ else st

/-- the class of own steps covered: a DNS query inside the tunnel domain that is a PING request (`p`/`P`) naming userid
`u` (`C04.names`) -/
def OwnPing (cfg : Config) (inp : Input) (u : Nat) : Prop :=
  match inp with
  | .q q =>
    match Common.queryDatalen q.name cfg.topdomain with
    | some dlen =>
      C04.IsTunnelRequest q dlen ∧ C04.lower ((C04.payload q dlen).getD 0 0) = 112 ∧ C04.names q dlen = some (u : Int)
    | none => False
  | _ => False

instance (cfg : Config) (inp : Input) (u : Nat) : Decidable (OwnPing cfg inp u) := by
  unfold OwnPing; split
  · split <;> exact inferInstance
  · exact inferInstance

/-- a step of a mixed run: foreign and harmless (`ForeignStepOk`), or one of `a`'s own pings naming `u` -/
def MixedStepOk (u : Nat) (a : Addr) (s : Srv) (st : Step) : Prop :=
  if Foreign a st.inp then ForeignStepOk u a s st else OwnPing s.cfg st.inp u

instance (u : Nat) (a : Addr) (s : Srv) (st : Step) : Decidable (MixedStepOk u a s st) := by
  unfold MixedStepOk; exact inferInstance

def MixedRunOk (u : Nat) (a : Addr) : Srv → List Step → Prop
  | _, [] => True
  | s, st :: rest => MixedStepOk u a s st ∧ MixedRunOk u a (next s st) rest

instance decMixedRunOk (u : Nat) (a : Addr) : ∀ (s : Srv) (l : List Step), Decidable (MixedRunOk u a s l)
  | _, [] => isTrue trivial
  | s, st :: rest => by
    unfold MixedRunOk
    exact @instDecidableAnd _ _ inferInstance (decMixedRunOk u a (next s st) rest)

section Bridge2

private theorem lower_eq (c k : Nat) (hk : 97 ≤ k ∧ k ≤ 122) : C04.lower c = k ↔ (c = k - 32 ∨ c = k) := by
  unfold C04.lower; split <;> omega

private theorem schar_eq (b : Nat) : C04.schar b = charVal b := by
  unfold C04.schar charVal sChar; split <;> omega

private theorem pingFor_of_ownPing (cfg : Config) (q : Query) (u : Nat) (h : OwnPing cfg (.q q) u) :
    C05N.pingFor cfg q u := by
  unfold OwnPing at h
  dsimp only at h
  cases hd : Common.queryDatalen q.name cfg.topdomain with
  | none => rw [hd] at h; exact absurd h (fun x => x)
  | some dlen =>
    rw [hd] at h
    obtain ⟨hreq, hc, hn⟩ := h
    obtain ⟨h2, hty, hns, hwww⟩ := hreq
    have hns' : ¬ C04L.isNsA q dlen := by
      intro k; apply hns
      obtain ⟨a, b, c, d, e⟩ := k
      exact ⟨a, b, (lower_eq _ 110 (by omega)).2 (by omega), (lower_eq _ 115 (by omega)).2 (by omega), e⟩
    have hwww' : ¬ C04L.isWwwA q dlen := by
      intro k; apply hwww
      obtain ⟨a, b, c, d, e, f⟩ := k
      exact ⟨a, b, (lower_eq _ 119 (by omega)).2 (by omega), (lower_eq _ 119 (by omega)).2 (by omega),
        (lower_eq _ 119 (by omega)).2 (by omega), f⟩
    have hty' : C04L.tunnelType q.type := by
      unfold C04L.tunnelType
      simp only [List.mem_cons, List.not_mem_nil, or_false] at hty
      exact hty
    have hpay : C04.payload q dlen = C04L.inbOf q dlen := rfl
    have hcmd : C04L.cmdOf ((C04L.inbOf q dlen).getD 0 0) = some .ping := by
      rw [hpay] at hc
      rcases (lower_eq _ 112 (by omega)).1 hc with k | k <;> rw [k] <;> rfl
    refine ⟨dlen, hd, hns', hwww', hty', h2, hcmd, ?_⟩
    unfold C04.names at hn
    rw [if_neg (fun k => k ⟨h2, hty, hns, hwww⟩)] at hn
    dsimp only at hn
    rw [if_pos (Or.inr (Or.inr hc))] at hn
    simp only [Option.some.injEq] at hn
    rw [schar_eq] at hn
    have : C04L.uidOf q dlen .ping = charVal ((C04.decoded q dlen).getD 0 0) := rfl
    rw [this, hn]; simp

private theorem est_of (s : Srv) (u : Nat) (a : Addr) (h : Established s u a) : C05N.Est s u a :=
  ⟨h.1, h.2.1, h.2.2.1, h.2.2.2.1, h.2.2.2.2.1, h.2.2.2.2.2.1, h.2.2.2.2.2.2.1, h.2.2.2.2.2.2.2⟩

private theorem est_to (s : Srv) (u : Nat) (a : Addr) (h : C05N.Est s u a) : Established s u a :=
  ⟨h.ck, h.cr, h.ln, h.act, h.en, h.au, h.fam, h.ip⟩

private theorem mixedStep_model {u : Nat} {a : Addr} {s : Srv} {st : Step} (h : MixedStepOk u a s st) :
    C05N.MixedStep u a s st := by
  unfold MixedStepOk at h
  by_cases hf : Foreign a st.inp
  · rw [if_pos hf] at h
    exact Or.inl (stepOk_model h)
  · rw [if_neg hf] at h
    refine Or.inr ⟨fun k => hf ((foreign_iff a _).2 k), ?_⟩
    obtain ⟨inp, n⟩ := st
    cases inp with
    | q q => exact ⟨q, rfl, pingFor_of_ownPing _ q u h⟩
    | rawf _ _ => exact absurd h (fun x => x)
    | tun _ => exact absurd h (fun x => x)
    | bind _ => exact absurd h (fun x => x)
    | tick => exact absurd h (fun x => x)

end Bridge2

/-- **Established sessions continue (PARTIAL: own steps restricted to pings).**  From states agreeing on slot `u`, with
`u` established for `a`: let `l` be ANY interleaving of (i) foreign steps satisfying `ForeignStepOk` (hypotheses 1–3) in
the state they are taken in and (ii) non-foreign steps that are DNS ping requests naming `u` (`OwnPing`; coming from `a`
they are the session's own keep-alives / downstream polls, answered with tunnel data).  Then slot `u` after `l` equals
slot `u` after `mask a l` (foreign steps replaced by time-outs, own steps kept), the tunnel-data answers of `u` — including
the answers to `a`'s own pings — are the same iteration by iteration, and `u` is still established for `a`.

Hypotheses beyond 1–3, i.e. what makes this `_partial`: own steps are pings only.  EXCLUDED own steps and why:
`.tun` frames (whether the frame is read depends on `all_users_waiting_to_send`, which looks at ALL slots, and its
routing on `find_user_by_ip` over all slots); own `V` (scans all slots, pops `rand`), `L`, `R` (pops `rand`);
own upstream-data requests (a completed packet is routed by `find_user_by_ip` over all slots); own requests naming
other slots; own `O S N I Z Y` (slot-local like the ping, not done for lack of time); raw-mode frames from `a`. -/
theorem established_sessions_continue_partial (s t : Srv) (u : Nat) (a : Addr) (l : List Step)
    (hagree : getUser s u = getUser t u ∧ s.now = t.now ∧ s.cfg = t.cfg ∧ u < t.users.length)
    (hest : Established s u a) (hok : MixedRunOk u a s l) :
    getUser (runFrom s l) u = getUser (runFrom t (mask a l)) u ∧
    answersAlong u s l = answersAlong u t (mask a l) ∧
    Established (runFrom s l) u a := by
  have hA : C05N.Agree u s t := ⟨hagree.1, hagree.2.1, hagree.2.2.1, hest.2.2.1, hagree.2.2.2⟩
  have key : ∀ (l : List Step) (s t : Srv), C05N.Agree u s t → C05N.Est s u a → MixedRunOk u a s l →
      C05N.Agree u (runFrom s l) (runFrom t (mask a l)) ∧ answersAlong u s l = answersAlong u t (mask a l) ∧
        C05N.Est (runFrom s l) u a := by
    intro l
    induction l with
    | nil => intro s t h he _; exact ⟨h, rfl, he⟩
    | cons st rest ih =>
      intro s t h he hr
      have hst : (C05N.foreign a st.inp → (if Foreign a st.inp then (⟨.tick, st.now⟩ : Step) else st) = ⟨.tick, st.now⟩) ∧
          (¬ C05N.foreign a st.inp → (if Foreign a st.inp then (⟨.tick, st.now⟩ : Step) else st) = st) :=
        ⟨fun k => by rw [if_pos ((foreign_iff a _).2 k)], fun k => by rw [if_neg (fun x => k ((foreign_iff a _).1 x))]⟩
      obtain ⟨k1, k2, k3⟩ := C05N.mixed_iteration h he st _ hst (mixedStep_model hr.1)
      obtain ⟨r1, r2, r3⟩ := ih _ _ k1 k3 hr.2
      refine ⟨r1, ?_, r3⟩
      show dataAnswers u (out s st) :: answersAlong u (next s st) rest =
        dataAnswers u (out t (if Foreign a st.inp then ⟨.tick, st.now⟩ else st)) ::
          answersAlong u (next t (if Foreign a st.inp then ⟨.tick, st.now⟩ else st)) (mask a rest)
      rw [dataAnswers_eq, dataAnswers_eq, k2, r2]
  obtain ⟨r1, r2, r3⟩ := key l s t hA (est_of s u a hest) hok
  exact ⟨r1.user, r2, est_to _ u a r3⟩

namespace Ex
open C04.Ex
/-- Alice's pings 22, 23, 24 among Mallory's datagrams and Bob's data request for the tun device -/
def mixedRun : List Step :=
  [⟨.q (vq mallory), 1001⟩,
   ⟨.q (pq 0 22 alice), 1002⟩,
   ⟨.q (pq 0 8 mallory), 1003⟩,
   ⟨.rawf mallory ([16, 209, 158, 32] ++ 0x5a :: frame 2), 1004⟩,
   ⟨.q (bobData 9), 1005⟩,
   ⟨.q (pq 0 23 alice), 1006⟩,
   ⟨.q (lq 0 42 mallory), 1007⟩,
   ⟨.tick, 1008⟩,
   ⟨.q (pq 0 24 alice), 1066⟩]
end Ex

-- non-vacuity: the hypotheses hold on `Ex.mixedRun` from `sA`; the masked run keeps exactly Alice's three pings; Alice's
-- answers are not trivial (iteration 2 answers her waiting ping 21 when ping 22 arrives) — and at t = 1066 she is still
-- served although more than 60 s have passed since the START, because her own pings refreshed `last_pkt`.
example : Established Ex.sA 0 C04.Ex.alice ∧ MixedRunOk 0 C04.Ex.alice Ex.sA Ex.mixedRun := by
  decide +kernel
example :
    (mask C04.Ex.alice Ex.mixedRun).map (fun st => st.now) = [1001, 1002, 1003, 1004, 1005, 1006, 1007, 1008, 1066] ∧
    ((answersAlong 0 Ex.sA Ex.mixedRun).map List.length) = ((answersAlong 0 Ex.sA (mask C04.Ex.alice Ex.mixedRun)).map List.length) ∧
    (answersAlong 0 Ex.sA Ex.mixedRun).getD 1 [] ≠ [] ∧
    (getUser (runFrom Ex.sA Ex.mixedRun) 2).active = true ∧
    (getUser (runFrom Ex.sA (mask C04.Ex.alice Ex.mixedRun)) 2).active = false := by
  decide +kernel

end Iodine.C05

#print axioms Iodine.C05.foreign_iteration_like_tick
#print axioms Iodine.C05.foreign_run_like_ticks
#print axioms Iodine.C05.established_session_still_accepted
#print axioms Iodine.C05.established_sessions_continue_partial
