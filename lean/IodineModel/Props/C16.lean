import IodineModel.Server.Run
import IodineModel.Lemmas.SrvC16a
import IodineModel.Lemmas.SrvC16b
import IodineModel.Lemmas.SrvC16g
import IodineModel.Lemmas.SrvC16h
/-
C16 — Re-delivered queries are never processed twice.

For an established session, re-delivery of a ping or data query that the server has recently seen (an
impatient or load-balanced relay repeating it, possibly with a new DNS id or changed letter case) never
appends its upstream payload again and never advances or rewinds the downstream stream.  While the original
answer is still in the server's answer cache, an identical repeat receives an answer carrying the same
payload as the original.

This file holds the specification side (predicates written from the property text) and the theorems about
the model `IodineModel/Server/*`; helper lemmas are in `IodineModel/Lemmas/SrvC16{a..h}.lean`.  The lemmas of
this file that mention `C16L.*` are bridges between the specification-side monitors and the ones the helper
files use; the property theorems are

(A) `cache_hit_is_stutter`, `qmem_hit_is_stutter`, `pending_duplicate_is_stutter` — the handler phase
    (`dispatch`) for an accepted ping/data query that hits the answer cache / the query memory / a pending
    query: exactly one replay answer (resp. none) and the server state unchanged (resp. changed in
    `id2`/`from2` of the held query only);
    `cache_slot_holds_fresh`, `cache_holds_last_four`, `cache_replay_same_payload` — over any run from a
    reachable state the cache ring of a slot holds its last four fresh answers with name, type and payload,
    the lookup finds them, and the replay carries the original payload;
(B) `qmem_holds_recent_data`, `qmem_holds_recent_ping`, `qmem_holds_recent`, `ping_repeat_fingerprint`
    (the exact condition under which a ping is remembered), `recognised_is_stutter`,
    `stutter_any_number_of_times`;
(C) `cache_hit_indep_of_id_and_source`, `qmem_hit_indep_of_id_and_source`, `pending_indep_of_id_and_source`,
    `established_indep_of_port`, `established_without_check_ip`, `dataPrint_case_insensitive`,
    `b32_rev_case_insensitive`, `pingPrint_case_insensitive`.

All statements hold at full strength for the model; the only side condition beyond the property text is
`u < s.users.length` (the session is a slot of the table) in the statements about runs.  Things worth knowing
that the statements make visible: the cache compares names with `strcmp`, the query memories are case
insensitive, so a case-changed repeat of a still-cached query gets the one-byte "x" answer and not the cached
payload (last example of the file); a ping is remembered only if its first label has at least 7 characters; a
second repeat of a pending query overwrites the first in `id2`/`from2`, so only the last repeat is answered.
-/
namespace Iodine.C16
open Iodine Iodine.Server Iodine.Gen

/-! ### specification side -/

/-- "upstream reassembly and downstream position" of a session: what a re-delivered query must not move.
(`sentlen`, `outfragresent`, the stored queries, the answer cache and the query memories are not part of it.) -/
def stream (x : Session) :=
  (x.inpacket, x.outpacket.seqno, x.outpacket.fragment, x.outpacket.offset, x.outpacket.len, x.outpacket.data,
   x.outpacketq, x.oqNext, x.oqFilled)

/-- the name starts with `P` or `p` -/
def IsPing (name : List Nat) : Prop := name.getD 0 0 = 80 ∨ name.getD 0 0 = 112

instance (n : List Nat) : Decidable (IsPing n) := by unfold IsPing; infer_instance

/-- the name starts with a hex digit (the user id of a data query) -/
def IsData (name : List Nat) : Prop :=
  let c := name.getD 0 0
  (48 ≤ c ∧ c ≤ 57) ∨ (97 ≤ c ∧ c ≤ 102) ∨ (65 ≤ c ∧ c ≤ 70)

instance (n : List Nat) : Decidable (IsData n) := by unfold IsData; infer_instance

/-- the query types that carry tunnel traffic -/
def TunnelType (t : Nat) : Prop :=
  t = T_NULL ∨ t = T_PRIVATE ∨ t = T_CNAME ∨ t = T_A ∨ t = T_MX ∨ t = T_SRV ∨ t = T_TXT

instance (t : Nat) : Decidable (TunnelType t) := by unfold TunnelType; infer_instance

/-- number of characters in front of the topdomain (0 if the name is not below the topdomain) -/
def dlen (td : List Nat) (q : Query) : Nat := (Common.queryDatalen q.name td).getD 0

/-- the decoded payload of a ping name: the characters between the `P` and the topdomain, dots removed,
Base32-decoded (the model's decoder, used here only to get at the user id and the fingerprint) -/
def pingBytes (td : List Nat) (q : Query) : List Nat :=
  Encoding.unpackData Codec.b32 65536 ((q.name.take (min (dlen td q) 512)).drop 1)

/-- slot `u` is an established session and a datagram from `src` is allowed to speak for it:
logged in, not timed out, and (with `check_ip`) from the address that logged in -/
def Established (s : Srv) (u : Nat) (src : Addr) : Prop :=
  let x := getUser s u
  u < s.cfg.createdUsers ∧ x.active = true ∧ x.disabled = false ∧ s.now ≤ x.lastPkt + 60 ∧
  x.authenticated = true ∧
  (s.cfg.checkIp = true → src.fam = x.host.fam ∧ (src.fam = 4 ∨ src.fam = 6) ∧ x.host.ip = src.ip)

instance (s : Srv) (u : Nat) (src : Addr) : Decidable (Established s u src) := by
  unfold Established; infer_instance

/-- `q` is a ping or data query of the established session `u`: it is below the topdomain, has a tunnel type
and a non-zero DNS id, names slot `u`, and comes from an acceptable address — i.e. the server gets as far as
its duplicate checks for slot `u`. -/
def Accepted (s : Srv) (q : Query) (u : Nat) : Prop :=
  q.id ≠ 0 ∧ TunnelType q.type ∧ (Common.queryDatalen q.name s.cfg.topdomain).isSome ∧
  Established s u q.from_ ∧
  ((IsPing q.name ∧ 2 ≤ dlen s.cfg.topdomain q ∧ 4 ≤ (pingBytes s.cfg.topdomain q).length ∧
      charVal ((pingBytes s.cfg.topdomain q).getD 0 0) = (u : Int))
   ∨ (IsData q.name ∧ 6 ≤ dlen s.cfg.topdomain q ∧ hexCode (q.name.getD 0 0) = (u : Int)))

instance (s : Srv) (q : Query) (u : Nat) : Decidable (Accepted s q u) := by unfold Accepted; infer_instance

/-- C-locale `tolower` -/
def lower (c : Nat) : Nat := if 65 ≤ c ∧ c ≤ 90 then c + 32 else c

/-- fingerprint of a data query: the four header characters behind the user id, case folded -/
def dataPrint (name : List Nat) : List Nat :=
  [lower (name.getD 1 0), lower (name.getD 2 0), lower (name.getD 3 0), lower (name.getD 4 0)]

/-- fingerprint of a ping query as the ping handler computes it: the first four decoded bytes
(user id, downstream ack, and the two bytes of the client's ping counter) -/
def pingPrint (td : List Nat) (q : Query) : List Nat := (pingBytes td q).take 4

/-- a query memory holds the fingerprint `cmc` for query type `t` -/
def Remembered (mem : List QmemEntry) (t : Nat) (cmc : List Nat) : Prop :=
  ∃ e ∈ mem, e.type ≠ T_UNSET ∧ e.type = t ∧ e.cmc = cmc

instance (mem : List QmemEntry) (t : Nat) (c : List Nat) : Decidable (Remembered mem t c) := by
  unfold Remembered; infer_instance

/-- the query-memory check of session `u` recognises `q` -/
def QmemHit (s : Srv) (q : Query) (u : Nat) : Prop :=
  (IsPing q.name ∧ Remembered (getUser s u).qmemping q.type (pingPrint s.cfg.topdomain q)) ∨
  (IsData q.name ∧ Remembered (getUser s u).qmemdata q.type (dataPrint q.name))

instance (s : Srv) (q : Query) (u : Nat) : Decidable (QmemHit s q u) := by unfold QmemHit; infer_instance

/-- the same name and type are held unanswered in `q` (only looked at in lazy mode) -/
def PendingInQ (s : Srv) (q : Query) (u : Nat) : Prop :=
  let x := getUser s u
  x.q.id ≠ 0 ∧ x.q.type = q.type ∧ x.q.name = q.name ∧ x.lazy = true

/-- the same name and type are held unanswered in `q_sendrealsoon` -/
def PendingInQs (s : Srv) (q : Query) (u : Nat) : Prop :=
  let x := getUser s u
  x.qs.id ≠ 0 ∧ x.qs.type = q.type ∧ x.qs.name = q.name

instance (s : Srv) (q : Query) (u : Nat) : Decidable (PendingInQ s q u) := by unfold PendingInQ; infer_instance
instance (s : Srv) (q : Query) (u : Nat) : Decidable (PendingInQs s q u) := by unfold PendingInQs; infer_instance

/-- the state in which the handlers of the next iteration run: top of the loop done, `select` returned at
time `now'` -/
def afterSelect (s : Srv) (now' : Nat) : Srv := { (topOfLoop s).1 with now := now' }

/-! ### the concrete run used by the non-vacuity examples

Server 10.0.0.1/27, topdomain `t.ex`, `check_ip` on, `rand()` returns 77.  A client at 192.168.1.5 does the version
handshake (gets slot 0, seed 77), logs in with the right hash, and then sends pings `p<base32 of 00 00 00 k>.t.ex`
or data queries; `rep` is a repeat of a query from another port (another relay) with a new DNS id. -/
namespace Ex

def cfg : Config :=
  { checkIp := true, password := [97, 98, 99, 100] ++ List.replicate 28 0, myIp := 0x0a000001, netmask := 27,
    topdomain := ascii "t.ex", mtu := 1130, nsIp := 0, bindPort := 0, dest4 := 0, dest6 := 0, createdUsers := 0 }
def src1 : Addr := ⟨4, 0xc0a80105, 5353⟩
def src2 : Addr := ⟨4, 0xc0a80105, 6000⟩
def mkq (name : List Nat) (id : Nat) (src : Addr) : Query := ⟨name, T_NULL, id, src, 0, Addr.zero, Addr.zero⟩
/-- `V`: protocol version 0x00000502 + two more bytes -/
def vName : List Nat := [118] ++ Codec.encFull Codec.b32 [0, 0, 5, 2, 1, 2] ++ ascii ".t.ex"
/-- `L`: user 0, the login hash for seed 77, two more bytes -/
def lName : List Nat :=
  [108] ++ Codec.encFull Codec.b32 ([0] ++ Login.loginCalcC cfg.password 77 ++ [0, 0]) ++ ascii ".t.ex"
/-- `O`: user 0 (`a`), lazy mode (`l`) -/
def oName : List Nat := ascii "oal.t.ex"
/-- ping of user 0 with ping counter `k` -/
def pName (k : Nat) : List Nat := [112] ++ Codec.encFull Codec.b32 [0, 0, 0, k] ++ ascii ".t.ex"
/-- the same name as a relay that upper-cases everything would send it -/
def pNameUpper (k : Nat) : List Nat := (pName k).map fun c => if 97 ≤ c ∧ c ≤ 122 then c - 32 else c
/-- data query of user 0: upstream seq 1 frag 0, downstream ack 0/`k`, payload "abc" -/
def dName (k : Nat) : List Nat := ascii "0" ++ [101, 97, 97, 97 + k] ++ ascii "mfrgg.t.ex"
def login : List Step := [⟨.q (mkq vName 100 src1), 1000⟩, ⟨.q (mkq lName 101 src1), 1001⟩]
def pings (ks : List Nat) : List Step := ks.map fun k => ⟨.q (mkq (pName k) (200 + k) src1), 1002⟩
def datas (ks : List Nat) : List Step := ks.map fun k => ⟨.q (mkq (dName k) (400 + k) src1), 1002⟩
def s0 : Srv := start cfg [77]
theorem s0_reachable : Reachable cfg s0 := Reachable.init [77]
/-- a repeat of ping `k` with id 300 from the other port -/
def rep (k : Nat) : Query := mkq (pName k) 300 src2
/-- handshake, login, one ping answered; next `select` returned at 1003 -/
def sC : Srv := afterSelect (runFrom s0 (login ++ pings [1])) 1003
/-- … five pings answered: ping 1 has left the answer cache and is in the ping memory only -/
def sA : Srv := afterSelect (runFrom s0 (login ++ pings [1, 2, 3, 4, 5])) 1003
/-- … lazy mode switched on, one ping held unanswered -/
def sL : Srv := afterSelect (runFrom s0 (login ++ [⟨.q (mkq oName 150 src1), 1001⟩] ++ pings [1])) 1003

end Ex

/-! ### bridges from the specification predicates to the model's tests -/

theorem tunnelType_iff (t : Nat) : TunnelType t ↔ C16L.TunnelType t := Iff.rfl

theorem check_of_established {s : Srv} {u : Nat} {q : Query} (h : Established s u q.from_) :
    checkAuthenticatedUserAndIp s (u : Int) q = false := by
  obtain ⟨h1, h2, h3, h4, h5, h6⟩ := h
  have hc : checkUserAndIp s (u : Int) q = false := by
    unfold checkUserAndIp
    simp only [Int.toNat_natCast, h2, h3]
    rw [if_neg (by omega)]
    simp only [Bool.not_true, Bool.or_false, Bool.false_eq_true, if_false]
    rw [if_neg (by omega)]
    by_cases hc : s.cfg.checkIp = true
    · obtain ⟨a, b, c⟩ := h6 hc
      simp only [hc, Bool.not_true, Bool.false_eq_true, if_false]
      rw [if_neg (by simp [a])]
      rcases b with b | b
      · simp [b, c]
      · simp [b, c]
    · simp [hc]
  unfold checkAuthenticatedUserAndIp
  simp [hc, h5]

theorem isHexDigit_of_isData {name : List Nat} (h : IsData name) : isHexDigit (name.getD 0 0) = true := by
  unfold IsData at h
  unfold isHexDigit
  simp only [Bool.or_eq_true, Bool.and_eq_true, decide_eq_true_eq]
  omega

theorem dataPrint_eq (name : List Nat) : dataPrint name = dataCmc name := by
  simp [dataPrint, dataCmc, lower, List.range, List.range.loop]

/-- what the handler phase does with an accepted query: the duplicate filters of the ping or data handler -/
theorem dispatch_accepted {s : Srv} {q : Query} {u : Nat} (tunsel : Bool) (ha : Accepted s q u) :
    (IsPing q.name ∧ dispatch s (.q q) tunsel = C16L.pingFilters s u q (pingBytes s.cfg.topdomain q)) ∨
    (IsData q.name ∧ dispatch s (.q q) tunsel
        = C16L.dataFilters s u q (q.name.take (min (dlen s.cfg.topdomain q) 512))) := by
  obtain ⟨hid, ht, hd, hest, hk⟩ := ha
  have hchk := check_of_established hest
  obtain ⟨d, hd'⟩ := Option.isSome_iff_exists.mp hd
  have hdl : dlen s.cfg.topdomain q = d := by simp [dlen, hd']
  rcases hk with ⟨hp, h2, h4, hu⟩ | ⟨hdat, h6, hu⟩
  · left
    refine ⟨hp, ?_⟩
    show tunnelDns s q = _
    rw [C16L.tunnelDns_null s q d hd' ht (by unfold IsPing at hp; omega),
      C16L.handleNull_ping s q d (by omega) hp]
    unfold pingBytes at h4 hu ⊢
    rw [hdl] at h4 hu ⊢
    exact C16L.handlePing_accepted s q _ u hid h4 hu hchk
  · right
    refine ⟨hdat, ?_⟩
    show tunnelDns s q = _
    have hx := isHexDigit_of_isData hdat
    rw [C16L.tunnelDns_null s q d hd' ht (by unfold IsData at hdat; omega),
      C16L.handleNull_data s q d (by omega) hx, hdl]
    refine C16L.handleData_accepted s q d _ u hid (by omega) ?_ hchk
    rw [C16L.take_getD_zero _ _ (by omega)]
    exact hu

/-! ### (A) a re-delivered query that hits the answer cache, the query memory or a pending query is a
stutter step of the handler phase -/

/-- **Cache hit.**  If the answer cache of session `u` holds an answer for the name and type of the accepted
query `q`, the handler phase sends exactly one answer — to `q`'s own address and id, carrying the cached
payload — and changes nothing at all in the server state (no session, not only `stream`): nothing is appended
upstream, the downstream stream neither advances nor rewinds, nothing is written to the tun device. -/
theorem cache_hit_is_stutter {s : Srv} {q : Query} {u : Nat} (tunsel : Bool) {e : DnsCacheEntry}
    (ha : Accepted s q u) (hc : dnscacheFind (getUser s u) q DNSCACHE_LEN 0 = some e) :
    dispatch s (.q q) tunsel =
      (s, [Event.ans q.from_ q.id q.type (getUser s u).downenc q.name (e.answer.take e.answerlen) (.cached u)]) := by
  rcases dispatch_accepted tunsel ha with ⟨_, h⟩ | ⟨_, h⟩
  · rw [h]; unfold C16L.pingFilters answerFromDnscache; simp only [hc]; rfl
  · rw [h]; unfold C16L.dataFilters answerFromDnscache; simp only [hc]; rfl

/-- non-vacuity: the repeat of ping 1 (new id, other port) is accepted for slot 0, hits the cache, and the handler
phase answers it with the cached payload `80 00` and leaves the state alone -/
example : Accepted Ex.sC (Ex.rep 1) 0 ∧ (dnscacheFind (getUser Ex.sC 0) (Ex.rep 1) DNSCACHE_LEN 0).isSome ∧
    dispatch Ex.sC (.q (Ex.rep 1)) true
      = (Ex.sC, [Event.ans Ex.src2 300 T_NULL 84 (Ex.pName 1) [128, 0] (.cached 0)]) := by
  decide +kernel

theorem remembered_iff (mem : List QmemEntry) (t : Nat) (cmc : List Nat) :
    Remembered mem t cmc ↔ (mem.any fun e => e.type != T_UNSET && e.type == t && e.cmc == cmc) = true := by
  unfold Remembered
  simp only [List.any_eq_true, Bool.and_eq_true, bne_iff_ne, ne_eq, beq_iff_eq]
  constructor
  · rintro ⟨e, he, h1, h2, h3⟩; exact ⟨e, he, ⟨h1, h2⟩, h3⟩
  · rintro ⟨e, he, ⟨h1, h2⟩, h3⟩; exact ⟨e, he, h1, h2, h3⟩

/-- **Query-memory hit.**  No cache hit, but the query memory of session `u` recognises the fingerprint of
`q`: exactly one answer, the (illegal) one-byte answer "x" in Base32 (`T`) to `q`'s own address and id, and
the server state is unchanged. -/
theorem qmem_hit_is_stutter {s : Srv} {q : Query} {u : Nat} (tunsel : Bool)
    (ha : Accepted s q u) (hc : dnscacheFind (getUser s u) q DNSCACHE_LEN 0 = none) (hq : QmemHit s q u) :
    dispatch s (.q q) tunsel = (s, [Event.ans q.from_ q.id q.type 84 q.name [120] (.qmem u)]) := by
  have excl : IsPing q.name → IsData q.name → False := by
    unfold IsPing IsData; intro a b; omega
  rcases dispatch_accepted tunsel ha with ⟨hp, h⟩ | ⟨hd, h⟩
  · rcases hq with ⟨_, hr⟩ | ⟨hd, _⟩
    · rw [h]; unfold C16L.pingFilters answerFromDnscache answerFromQmem
      simp only [hc]
      unfold pingPrint at hr
      rw [if_pos ((remembered_iff _ _ _).mp hr)]
      rfl
    · exact (excl hp hd).elim
  · rcases hq with ⟨hp, _⟩ | ⟨_, hr⟩
    · exact (excl hp hd).elim
    · rw [h]; unfold C16L.dataFilters answerFromDnscache answerFromQmemData answerFromQmem
      simp only [hc]
      rw [dataPrint_eq] at hr
      rw [if_pos ((remembered_iff _ _ _).mp hr)]
      rfl

/-- non-vacuity: after four more pings the repeat of ping 1 misses the cache and is recognised by the ping memory -/
example : Accepted Ex.sA (Ex.rep 1) 0 ∧ dnscacheFind (getUser Ex.sA 0) (Ex.rep 1) DNSCACHE_LEN 0 = none ∧
    QmemHit Ex.sA (Ex.rep 1) 0 ∧
    dispatch Ex.sA (.q (Ex.rep 1)) true = (Ex.sA, [Event.ans Ex.src2 300 T_NULL 84 (Ex.pName 1) [120] (.qmem 0)]) := by
  decide +kernel

/-- what the handler does to session `u` when it recognises `q` as a repeat of the query held in `q` -/
def noteInQ (q : Query) (x : Session) : Session := { x with q := { x.q with id2 := q.id, from2 := q.from_ } }

/-- … or of the query held in `q_sendrealsoon` -/
def noteInQs (q : Query) (x : Session) : Session := { x with qs := { x.qs with id2 := q.id, from2 := q.from_ } }

theorem filters_pending {s : Srv} {q : Query} {u : Nat}
    (hp : PendingInQ s q u ∨ PendingInQs s q u) :
    rememberDuplicate s u q = some (setUser s u (noteInQ q)) ∧ PendingInQ s q u ∨
    rememberDuplicate s u q = some (setUser s u (noteInQs q)) ∧ ¬ PendingInQ s q u := by
  by_cases h1 : PendingInQ s q u
  · left
    refine ⟨?_, h1⟩
    obtain ⟨a, b, c, d⟩ := h1
    unfold rememberDuplicate
    simp only []
    rw [if_pos ⟨a, b.symm, c.symm, d⟩]
    rfl
  · right
    refine ⟨?_, h1⟩
    rcases hp with hp | hp
    · exact (h1 hp).elim
    · obtain ⟨a, b, c⟩ := hp
      unfold rememberDuplicate
      simp only []
      rw [if_neg (fun h => h1 ⟨h.1, h.2.1.symm, h.2.2.1.symm, h.2.2.2⟩), if_pos ⟨a, b.symm, c.symm⟩]
      rfl

/-- **Pending duplicate.**  No cache hit, no query-memory hit, and the same name and type are held unanswered
in `q` (lazy mode) or in `q_sendrealsoon`: the handler phase sends nothing, and the only change to the server
state is that `id2`/`from2` of the held query of session `u` now name the repeat (so that the eventual answer
is sent to both).  In particular `stream` is unchanged for every session and every other session is unchanged
altogether. -/
theorem pending_duplicate_is_stutter {s : Srv} {q : Query} {u : Nat} (tunsel : Bool)
    (ha : Accepted s q u) (hc : dnscacheFind (getUser s u) q DNSCACHE_LEN 0 = none) (hq : ¬ QmemHit s q u)
    (hp : PendingInQ s q u ∨ PendingInQs s q u) :
    (dispatch s (.q q) tunsel).2 = [] ∧
    (PendingInQ s q u → (dispatch s (.q q) tunsel).1 = setUser s u (noteInQ q)) ∧
    (¬ PendingInQ s q u → (dispatch s (.q q) tunsel).1 = setUser s u (noteInQs q)) ∧
    (∀ v, stream (getUser (dispatch s (.q q) tunsel).1 v) = stream (getUser s v)) ∧
    (∀ v, v ≠ u → getUser (dispatch s (.q q) tunsel).1 v = getUser s v) := by
  have key : dispatch s (.q q) tunsel = (setUser s u (noteInQ q), []) ∧ PendingInQ s q u ∨
      dispatch s (.q q) tunsel = (setUser s u (noteInQs q), []) ∧ ¬ PendingInQ s q u := by
    have hrd := filters_pending hp
    rcases dispatch_accepted tunsel ha with ⟨hpi, h⟩ | ⟨hd, h⟩
    · have hnq : answerFromQmem q (getUser s u).qmemping ((pingBytes s.cfg.topdomain q).take 4) u = none := by
        unfold answerFromQmem
        rw [if_neg]
        intro hh
        exact hq (Or.inl ⟨hpi, (remembered_iff _ _ _).mpr hh⟩)
      rw [h]; unfold C16L.pingFilters answerFromDnscache
      simp only [hc, hnq]
      rcases hrd with ⟨e, p⟩ | ⟨e, p⟩
      · left; rw [e]; exact ⟨rfl, p⟩
      · right; rw [e]; exact ⟨rfl, p⟩
    · have hnq : answerFromQmemData s u q = none := by
        unfold answerFromQmemData answerFromQmem
        rw [if_neg]
        intro hh
        refine hq (Or.inr ⟨hd, ?_⟩)
        rw [dataPrint_eq]
        exact (remembered_iff _ _ _).mpr hh
      rw [h]; unfold C16L.dataFilters answerFromDnscache
      simp only [hc, hnq]
      rcases hrd with ⟨e, p⟩ | ⟨e, p⟩
      · left; rw [e]; exact ⟨rfl, p⟩
      · right; rw [e]; exact ⟨rfl, p⟩
  rcases key with ⟨e, p⟩ | ⟨e, p⟩
  · rw [e]
    refine ⟨rfl, fun _ => rfl, fun h => (h p).elim, ?_, ?_⟩
    · intro v
      rw [C16L.getUser_setUser]
      split
      · rename_i h; rw [h.1]; rfl
      · rfl
    · intro v hv; exact C16L.getUser_setUser_ne s u v _ hv
  · rw [e]
    refine ⟨rfl, fun h => (p h).elim, fun _ => rfl, ?_, ?_⟩
    · intro v
      rw [C16L.getUser_setUser]
      split
      · rename_i h; rw [h.1]; rfl
      · rfl
    · intro v hv; exact C16L.getUser_setUser_ne s u v _ hv

/-- non-vacuity: in lazy mode the ping is held in `q`; its repeat is neither in the cache nor in the ping memory,
is recognised as pending, produces no event and is noted in `id2`/`from2` -/
example : Accepted Ex.sL (Ex.rep 1) 0 ∧ dnscacheFind (getUser Ex.sL 0) (Ex.rep 1) DNSCACHE_LEN 0 = none ∧
    ¬ QmemHit Ex.sL (Ex.rep 1) 0 ∧ PendingInQ Ex.sL (Ex.rep 1) 0 ∧
    (dispatch Ex.sL (.q (Ex.rep 1)) true).2 = [] ∧
    (getUser (dispatch Ex.sL (.q (Ex.rep 1)) true).1 0).q.id2 = 300 ∧
    (getUser (dispatch Ex.sL (.q (Ex.rep 1)) true).1 0).q.from2 = Ex.src2 := by
  decide +kernel

/-! ### (A) the answer cache holds the most recent fresh answers, with their payload

Specification-side monitor: the list of FRESH answers of session `u` — the answers `send_chunk_or_dataless`
sends to the query it was called for (ghost tag `.chunk u`; the copy to a remembered duplicate and the replays
from the cache are not fresh) — most recent first, cut where the server empties the answer cache of slot `u`:
when it hands the slot out in a version handshake and when it accepts an `N` (fragment size) query for it. -/

/-- name, type and payload of an answer -/
abbrev Answer := List Nat × Nat × List Nat

/-- the control answer `VACK` + seed + slot number `u`: slot `u` is handed out to a new client -/
def handsOutSlot (u : Nat) : Event → Bool
  | .ans _ _ _ _ _ data .ctrl => data.take 4 == [86, 65, 67, 75] && data.getD 8 0 == u % 256
  | _ => false

/-- the user id an `N` query names: first decoded byte of the name (the model's decoder, used only for this) -/
def fragsizeUser (td : List Nat) (q : Query) : Int :=
  charVal ((Encoding.unpackData Codec.b32 65536 ((q.name.take (min (dlen td q) 512)).drop 1)).getD 0 0)

/-- the two-byte control answer to an `N` query that names slot `u`: the new fragment size is accepted -/
def acceptsFragsize (td : List Nat) (u : Nat) : Input → Event → Bool
  | .q q, .ans _ _ _ _ _ data .ctrl =>
    (q.name.getD 0 0 == 78 || q.name.getD 0 0 == 110) && data.length == 2 && fragsizeUser td q == (u : Int)
  | _, _ => false

/-- the fresh answers of session `u` after one more event -/
def freshStep (td : List Nat) (u : Nat) (inp : Input) (l : List Answer) (ev : Event) : List Answer :=
  if handsOutSlot u ev || acceptsFragsize td u inp ev then []
  else match ev with
    | .ans _ _ t _ n d (.chunk v) => if v = u then (n, t, d) :: l else l
    | _ => l

/-- the fresh answers of session `u` in a trace, most recent first -/
def fresh (u : Nat) (tr : List TraceStep) : List Answer :=
  tr.foldl (fun l t => t.events.foldl (freshStep t.pre.cfg.topdomain u t.step.inp) l) []

theorem isVack_eq (u : Nat) (ev : Event) : C16L.isVack u ev = handsOutSlot u ev := by
  unfold C16L.isVack handsOutSlot
  rw [C16L.ascii_vack]
  rfl

theorem isNack_eq (td : List Nat) (u : Nat) (inp : Input) (ev : Event) :
    C16L.isNack td u inp ev = acceptsFragsize td u inp ev := rfl

theorem monStep_cache (td : List Nat) (u : Nat) (inp : Input) (m : C16L.Mon) (ev : Event) :
    (C16L.monStep td u inp m ev).cache = freshStep td u inp m.cache ev := by
  unfold C16L.monStep freshStep
  rw [isVack_eq, isNack_eq]
  cases handsOutSlot u ev <;> cases acceptsFragsize td u inp ev <;>
    simp only [Bool.false_eq_true, if_false, if_true, Bool.or_self, Bool.or_true, Bool.or_false, C16L.Mon.empty]
  cases ev with
  | ans dst id t dn n d tag =>
    cases tag with
    | chunk v => by_cases h : v = u <;> simp [h, C16L.Mon.push]
    | _ => rfl
  | _ => rfl

theorem monEvents_cache (td : List Nat) (u : Nat) (inp : Input) (evs : List Event) :
    ∀ m : C16L.Mon, (C16L.monEvents td u inp m evs).cache = evs.foldl (freshStep td u inp) m.cache := by
  induction evs with
  | nil => intro m; rfl
  | cons e rest ih =>
    intro m
    simp only [C16L.monEvents, List.foldl_cons] at ih ⊢
    rw [ih, monStep_cache]

theorem monTrace_cache (u : Nat) (tr : List TraceStep) :
    ∀ m : C16L.Mon, (C16L.monTrace u m tr).cache
      = tr.foldl (fun l t => t.events.foldl (freshStep t.pre.cfg.topdomain u t.step.inp) l) m.cache := by
  induction tr with
  | nil => intro m; rfl
  | cons t rest ih =>
    intro m
    simp only [C16L.monTrace, List.foldl_cons] at ih ⊢
    rw [ih, monEvents_cache]

/-- the invariant behind `cache_holds_last_four`: after any run from a reachable state, the `i`-th most recent
cache slot (`i < 4`) of session `u` holds the `i`-th most recent fresh answer of the run — its name, type and
payload, with a non-zero id and length, i.e. valid for the lookup. -/
theorem cache_slot_holds_fresh {cfg : Config} {s : Srv} (hr : Reachable cfg s) (steps : List Step)
    (u : Nat) (hu : u < s.users.length) (i : Nat) (hi : i < DNSCACHE_LEN) (n : List Nat) (t : Nat) (p : List Nat)
    (hl : (fresh u (traceFrom s steps))[i]? = some (n, t, p)) :
    let e := C16L.cacheAt (getUser (runFrom s steps) u) i
    e.q.name = n ∧ e.q.type = t ∧ e.q.id ≠ 0 ∧ e.answerlen ≠ 0 ∧ e.answer.take e.answerlen = p := by
  have hk := C16L.K_run u steps C16L.Mon.empty s (C16L.K_reachable hr u hu)
  obtain ⟨_, ⟨_, _, hc⟩, _, _⟩ := hk
  rw [monTrace_cache] at hc
  exact hc i hi n t p hl

/-- **The cache holds the last four fresh answers.**  After any run (any inputs, any clock) from a reachable
state, each of the (up to) four most recent fresh answers of session `u` since its cache was last emptied, whose
name and type were not used again by a more recent fresh answer, is found by the cache lookup for any query with
that name and type — whatever its id and source address — and the entry found carries exactly the payload that
was sent. -/
theorem cache_holds_last_four {cfg : Config} {s : Srv} (hr : Reachable cfg s) (steps : List Step)
    (u : Nat) (hu : u < s.users.length) (i : Nat) (hi : i < DNSCACHE_LEN) (n : List Nat) (t : Nat) (p : List Nat)
    (hl : (fresh u (traceFrom s steps))[i]? = some (n, t, p))
    (hlast : ∀ j n' t' p', j < i → (fresh u (traceFrom s steps))[j]? = some (n', t', p') → ¬ (n' = n ∧ t' = t))
    (q : Query) (hn : q.name = n) (ht : q.type = t) :
    ∃ e, dnscacheFind (getUser (runFrom s steps) u) q DNSCACHE_LEN 0 = some e ∧
      e.answer.take e.answerlen = p := by
  have hit := cache_slot_holds_fresh hr steps u hu i hi n t p hl
  simp only [] at hit
  refine ⟨C16L.cacheAt (getUser (runFrom s steps) u) i, ?_, hit.2.2.2.2⟩
  refine C16L.dnscacheFind_at _ q i ?_ ⟨hit.2.2.1, hit.2.2.2.1, by rw [hit.2.1, ht], by rw [hit.1, hn]⟩
    DNSCACHE_LEN 0 (Nat.zero_le _) (by omega)
  intro j hj
  have hjl : j < (fresh u (traceFrom s steps)).length := by
    have := (List.getElem?_eq_some_iff.mp hl).1
    omega
  rcases hjv : (fresh u (traceFrom s steps))[j] with ⟨n', t', p'⟩
  have hj' : (fresh u (traceFrom s steps))[j]? = some (n', t', p') := by
    rw [List.getElem?_eq_getElem hjl, hjv]
  have hs := cache_slot_holds_fresh hr steps u hu j (by omega) n' t' p' hj'
  simp only [] at hs
  have hne := hlast j n' t' p' hj hj'
  by_cases hnn : n' = n
  · right; right; left
    rw [hs.2.1, ht]
    exact fun h => hne ⟨hnn, h⟩
  · right; right; right
    rw [hs.1, hn]
    exact hnn

/-- non-vacuity (and sharpness of "four"): after five answered pings the fresh list is ping 5 … ping 1; pings 5 … 2
are found with their payload, ping 1 is no longer in the cache -/
example : (fresh 0 (traceFrom Ex.s0 (Ex.login ++ Ex.pings [1, 2, 3, 4, 5]))) =
      [(Ex.pName 5, T_NULL, [128, 0]), (Ex.pName 4, T_NULL, [128, 0]), (Ex.pName 3, T_NULL, [128, 0]),
       (Ex.pName 2, T_NULL, [128, 0]), (Ex.pName 1, T_NULL, [128, 0])] ∧
    ((dnscacheFind (getUser (runFrom Ex.s0 (Ex.login ++ Ex.pings [1, 2, 3, 4, 5])) 0) (Ex.rep 2) DNSCACHE_LEN 0).map
      fun e => e.answer.take e.answerlen) = some [128, 0] ∧
    dnscacheFind (getUser (runFrom Ex.s0 (Ex.login ++ Ex.pings [1, 2, 3, 4, 5])) 0) (Ex.rep 1) DNSCACHE_LEN 0 = none := by
  decide +kernel

theorem clearNewFrom_downenc (now created : Nat) : ∀ (l : List Session) (k u : Nat),
    ((clearNewFrom now created l k).getD u (Session.zero 0)).downenc = (l.getD u (Session.zero 0)).downenc := by
  intro l
  induction l with
  | nil => intro k u; rfl
  | cons x xs ih =>
    intro k u
    cases u with
    | zero => simp only [clearNewFrom, List.getD_cons_zero]; split <;> rfl
    | succ u => simp only [clearNewFrom, List.getD_cons_succ]; exact ih (k + 1) u

theorem dnscacheFind_session (x x' : Session) (q : Query) (h1 : x'.dnscache = x.dnscache)
    (h2 : x'.dcLast = x.dcLast) : ∀ n k, dnscacheFind x' q n k = dnscacheFind x q n k := by
  intro n
  induction n with
  | zero => intro k; rfl
  | succ n ih =>
    intro k
    rw [C16L.dnscacheFind_succ, C16L.dnscacheFind_succ]
    unfold C16L.cacheAt
    rw [h1, h2]
    simp only [ih]

/-- **A cache hit replays exactly the original payload.**  Take any run from a reachable state and one of the
(up to) four most recent fresh answers of session `u` — name `n`, type `t`, payload `p` — whose name and type
were not used again since.  If the next datagram is an accepted query of session `u` with that name and type
(any id, any allowed source address), the iteration's first event is the answer to it, tagged as a replay from
the cache, and its payload is `p`; then comes the sweep. -/
theorem cache_replay_same_payload {cfg : Config} {s : Srv} (hr : Reachable cfg s) (steps : List Step)
    (u : Nat) (hu : u < s.users.length) (i : Nat) (hi : i < DNSCACHE_LEN) (n : List Nat) (t : Nat) (p : List Nat)
    (hl : (fresh u (traceFrom s steps))[i]? = some (n, t, p))
    (hlast : ∀ j n' t' p', j < i → (fresh u (traceFrom s steps))[j]? = some (n', t', p') → ¬ (n' = n ∧ t' = t))
    (q : Query) (hn : q.name = n) (ht : q.type = t) (now' : Nat)
    (ha : Accepted (afterSelect (runFrom s steps) now') q u) :
    ∃ rest, out (runFrom s steps) ⟨.q q, now'⟩ =
      Event.ans q.from_ q.id q.type (getUser (runFrom s steps) u).downenc q.name p (.cached u)
        :: Event.sweep :: rest := by
  obtain ⟨e, he, hp⟩ := cache_holds_last_four hr steps u hu i hi n t p hl hlast q hn ht
  have hsame := C16L.same_topOfLoop (u := u) (runFrom s steps) now'
  have hmem := hsame.2
  simp only [C16L.memOf, Prod.mk.injEq] at hmem
  have he' : dnscacheFind (getUser (afterSelect (runFrom s steps) now') u) q DNSCACHE_LEN 0 = some e := by
    rw [← he]
    exact dnscacheFind_session _ _ q hmem.1 hmem.2.1 _ _
  have hd := cache_hit_is_stutter (topOfLoop (runFrom s steps)).2.2 ha he'
  have hdn : (getUser (afterSelect (runFrom s steps) now') u).downenc = (getUser (runFrom s steps) u).downenc := by
    exact clearNewFrom_downenc _ _ _ _ _
  refine ⟨(sweep (afterSelect (runFrom s steps) now')).2, ?_⟩
  unfold out iteration body
  simp only []
  show (andThen (andThen (dispatch (afterSelect (runFrom s steps) now') (.q q) (topOfLoop (runFrom s steps)).2.2)
    (fun s => (s, [Event.sweep]))) sweep).2 = _
  rw [hd, hp, hdn]
  rfl

/-- non-vacuity: the iteration that receives the repeat of ping 1 right after the original -/
example : Accepted (afterSelect (runFrom Ex.s0 (Ex.login ++ Ex.pings [1])) 1003) (Ex.rep 1) 0 ∧
    out (runFrom Ex.s0 (Ex.login ++ Ex.pings [1])) ⟨.q (Ex.rep 1), 1003⟩ =
      [Event.ans Ex.src2 300 T_NULL 84 (Ex.pName 1) [128, 0] (.cached 0), Event.sweep] := by
  decide +kernel

/-! ### (B) the query memories hold the most recent fresh answers

The query memories are emptied only when the slot is handed out again (not by an `N` query).  A fresh answer
to a data query (name of at least 5 characters) is remembered by its `dataPrint`; a fresh answer to a ping
query is remembered by the fingerprint `savedPingPrint` computes from the name — the characters between the `P`
and the FIRST dot, Base32-decoded, first four bytes — and only if that first label decodes to at least four
bytes (at least 7 characters, none of them NUL). -/

/-- fingerprint and query type -/
abbrev Print := List Nat × Nat

/-- the fingerprint the server stores for an answered ping name -/
def savedPingPrint (n : List Nat) : Option (List Nat) :=
  match n.idxOf? 46 with
  | none => none
  | some cp =>
    let cmc := Codec.dec Codec.b32 8 (cp - 1) (n.drop 1)
    if cmc.length < 4 then none else some (cmc.take 4)

def freshPingStep (u : Nat) (l : List Print) (ev : Event) : List Print :=
  if handsOutSlot u ev then []
  else match ev with
    | .ans _ _ t _ n _ (.chunk v) =>
      if v = u ∧ IsPing n then (match savedPingPrint n with | some c => (c, t) :: l | none => l) else l
    | _ => l

def freshDataStep (u : Nat) (l : List Print) (ev : Event) : List Print :=
  if handsOutSlot u ev then []
  else match ev with
    | .ans _ _ t _ n _ (.chunk v) => if v = u ∧ ¬ IsPing n ∧ 5 ≤ n.length then (dataPrint n, t) :: l else l
    | _ => l

/-- fingerprints of the fresh ping answers of session `u` in a trace that the server stored, most recent first -/
def freshPings (u : Nat) (tr : List TraceStep) : List Print :=
  tr.foldl (fun l t => t.events.foldl (freshPingStep u) l) []

/-- fingerprints of the fresh data answers of session `u` in a trace, most recent first -/
def freshDatas (u : Nat) (tr : List TraceStep) : List Print :=
  tr.foldl (fun l t => t.events.foldl (freshDataStep u) l) []

theorem isPingName_iff (n : List Nat) : C16L.isPingName n = true ↔ IsPing n := by
  unfold C16L.isPingName IsPing
  simp

theorem monStep_ping (td : List Nat) (u : Nat) (inp : Input) (m : C16L.Mon) (ev : Event) :
    (C16L.monStep td u inp m ev).ping = freshPingStep u m.ping ev := by
  unfold C16L.monStep freshPingStep
  rw [isVack_eq]
  cases handsOutSlot u ev
  · simp only [Bool.false_eq_true, if_false]
    cases ev with
    | ans dst id t dn n d tag =>
      cases tag with
      | chunk v =>
        have : C16L.isNack td u inp (Event.ans dst id t dn n d (Tag.chunk v)) = false := by
          cases inp <;> rfl
        rw [this]
        simp only [Bool.false_eq_true, if_false]
        by_cases h : v = u
        · by_cases hp : IsPing n
          · have hp' := (isPingName_iff n).mpr hp
            simp only [h, hp, and_self, if_true, C16L.Mon.push, hp']
            rfl
          · have hp' : C16L.isPingName n = false := by
              cases hh : C16L.isPingName n
              · rfl
              · exact absurd ((isPingName_iff n).mp hh) hp
            simp [h, hp, C16L.Mon.push, hp']
        · simp [h]
      | _ => split <;> rfl
    | _ => split <;> rfl
  · rfl

theorem monStep_data (td : List Nat) (u : Nat) (inp : Input) (m : C16L.Mon) (ev : Event) :
    (C16L.monStep td u inp m ev).data = freshDataStep u m.data ev := by
  unfold C16L.monStep freshDataStep
  rw [isVack_eq]
  cases handsOutSlot u ev
  · simp only [Bool.false_eq_true, if_false]
    cases ev with
    | ans dst id t dn n d tag =>
      cases tag with
      | chunk v =>
        have : C16L.isNack td u inp (Event.ans dst id t dn n d (Tag.chunk v)) = false := by
          cases inp <;> rfl
        rw [this]
        simp only [Bool.false_eq_true, if_false]
        by_cases h : v = u
        · by_cases hp : IsPing n
          · have hp' := (isPingName_iff n).mpr hp
            simp [h, hp, C16L.Mon.push, hp']
          · have hp' : C16L.isPingName n = false := by
              cases hh : C16L.isPingName n
              · rfl
              · exact absurd ((isPingName_iff n).mp hh) hp
            by_cases hl : n.length < 5
            · have : ¬ 5 ≤ n.length := by omega
              simp [h, hp, C16L.Mon.push, hp', hl, this]
            · have : 5 ≤ n.length := by omega
              simp [h, hp, C16L.Mon.push, hp', hl, this, dataPrint_eq]
        · simp [h]
      | _ => split <;> rfl
    | _ => split <;> rfl
  · rfl

theorem monTrace_ping (u : Nat) (tr : List TraceStep) :
    ∀ m : C16L.Mon, (C16L.monTrace u m tr).ping
      = tr.foldl (fun l t => t.events.foldl (freshPingStep u) l) m.ping := by
  induction tr with
  | nil => intro m; rfl
  | cons t rest ih =>
    intro m
    simp only [C16L.monTrace, List.foldl_cons] at ih ⊢
    rw [ih]
    congr 1
    generalize t.events = evs
    induction evs generalizing m with
    | nil => rfl
    | cons e es ih2 =>
      simp only [C16L.monEvents, List.foldl_cons] at ih2 ⊢
      rw [ih2, monStep_ping]

theorem monTrace_data (u : Nat) (tr : List TraceStep) :
    ∀ m : C16L.Mon, (C16L.monTrace u m tr).data
      = tr.foldl (fun l t => t.events.foldl (freshDataStep u) l) m.data := by
  induction tr with
  | nil => intro m; rfl
  | cons t rest ih =>
    intro m
    simp only [C16L.monTrace, List.foldl_cons] at ih ⊢
    rw [ih]
    congr 1
    generalize t.events = evs
    induction evs generalizing m with
    | nil => rfl
    | cons e es ih2 =>
      simp only [C16L.monEvents, List.foldl_cons] at ih2 ⊢
      rw [ih2, monStep_data]

theorem remembered_of_ring (mem : List QmemEntry) (last L i : Nat) (c : List Nat) (t : Nat)
    (hlen : mem.length = L) (hlast : last < L) (hi : i < L)
    (h : mem.getD (C16L.ringPos L last i) QmemEntry.zero = ⟨c, t⟩) (ht : t ≠ T_UNSET) :
    Remembered mem t c := by
  have hp := C16L.ringPos_lt L last i hlast hi
  refine ⟨⟨c, t⟩, ?_, ht, rfl, rfl⟩
  rw [← h, List.getD_eq_getElem?_getD, List.getElem?_eq_getElem (by omega)]
  simp

/-- **The data query memory holds the last 15 fresh data answers.**  After any run from a reachable state, the
fingerprint of each of the (up to) `QMEMDATA_LEN = 15` most recent fresh data answers of session `u` since the
slot was handed out is remembered (for its query type; no query type the server accepts is `T_UNSET`). -/
theorem qmem_holds_recent_data {cfg : Config} {s : Srv} (hr : Reachable cfg s) (steps : List Step)
    (u : Nat) (hu : u < s.users.length) (i : Nat) (hi : i < QMEMDATA_LEN) (c : List Nat) (t : Nat)
    (hl : (freshDatas u (traceFrom s steps))[i]? = some (c, t)) (ht : t ≠ T_UNSET) :
    Remembered (getUser (runFrom s steps) u).qmemdata t c := by
  have hk := C16L.K_run u steps C16L.Mon.empty s (C16L.K_reachable hr u hu)
  obtain ⟨_, _, _, ⟨h1, h2, h3⟩⟩ := hk
  rw [monTrace_data] at h3
  exact remembered_of_ring _ _ _ i c t h1 h2 hi (h3 i hi c t hl) ht

/-- non-vacuity: two answered data queries; the fingerprint of the first is remembered, also for a repeat whose
header characters arrive in upper case -/
example : freshDatas 0 (traceFrom Ex.s0 (Ex.login ++ Ex.datas [2, 4])) =
      [([101, 97, 97, 101], T_NULL), ([101, 97, 97, 99], T_NULL)] ∧
    Remembered (getUser (runFrom Ex.s0 (Ex.login ++ Ex.datas [2, 4])) 0).qmemdata T_NULL
      (dataPrint (ascii "0EAACmfrgg.t.ex")) := by
  decide +kernel

/-- **The ping query memory holds the last 30 stored ping fingerprints.** -/
theorem qmem_holds_recent_ping {cfg : Config} {s : Srv} (hr : Reachable cfg s) (steps : List Step)
    (u : Nat) (hu : u < s.users.length) (i : Nat) (hi : i < QMEMPING_LEN) (c : List Nat) (t : Nat)
    (hl : (freshPings u (traceFrom s steps))[i]? = some (c, t)) (ht : t ≠ T_UNSET) :
    Remembered (getUser (runFrom s steps) u).qmemping t c := by
  have hk := C16L.K_run u steps C16L.Mon.empty s (C16L.K_reachable hr u hu)
  obtain ⟨_, _, ⟨h1, h2, h3⟩, _⟩ := hk
  rw [monTrace_ping] at h3
  exact remembered_of_ring _ _ _ i c t h1 h2 hi (h3 i hi c t hl) ht

/-- non-vacuity: five answered pings, five stored fingerprints; the oldest is remembered -/
example : (freshPings 0 (traceFrom Ex.s0 (Ex.login ++ Ex.pings [1, 2, 3, 4, 5]))).length = 5 ∧
    (freshPings 0 (traceFrom Ex.s0 (Ex.login ++ Ex.pings [1, 2, 3, 4, 5])))[4]? = some ([0, 0, 0, 1], T_NULL) ∧
    Remembered (getUser (runFrom Ex.s0 (Ex.login ++ Ex.pings [1, 2, 3, 4, 5])) 0).qmemping T_NULL [0, 0, 0, 1] := by
  decide +kernel

theorem tunnelType_ne_unset {t : Nat} (h : TunnelType t) : t ≠ T_UNSET := by
  unfold TunnelType at h
  rcases h with h | h | h | h | h | h | h <;> rw [h] <;> decide

/-- `qmem_holds_recent`, for a re-delivered data query: if the repeat `q` (accepted in state `s'`, whose
session `u` has the query memories of the final state of the run) has the type and the fingerprint of one of the
last 15 fresh data answers, the query-memory check recognises it. -/
theorem qmem_holds_recent {cfg : Config} {s : Srv} (hr : Reachable cfg s) (steps : List Step)
    (u : Nat) (hu : u < s.users.length) (q : Query) (s' : Srv)
    (hmem : (getUser s' u).qmemdata = (getUser (runFrom s steps) u).qmemdata ∧
            (getUser s' u).qmemping = (getUser (runFrom s steps) u).qmemping)
    (ha : Accepted s' q u) :
    (IsData q.name → ∀ i, i < QMEMDATA_LEN →
      (freshDatas u (traceFrom s steps))[i]? = some (dataPrint q.name, q.type) → QmemHit s' q u) ∧
    (IsPing q.name → ∀ i, i < QMEMPING_LEN →
      (freshPings u (traceFrom s steps))[i]? = some (pingPrint s'.cfg.topdomain q, q.type) → QmemHit s' q u) := by
  have ht := tunnelType_ne_unset ha.2.1
  constructor
  · intro hd i hi hl
    right
    refine ⟨hd, ?_⟩
    rw [hmem.1]
    exact qmem_holds_recent_data hr steps u hu i hi _ _ hl ht
  · intro hp i hi hl
    left
    refine ⟨hp, ?_⟩
    rw [hmem.2]
    exact qmem_holds_recent_ping hr steps u hu i hi _ _ hl ht

/-- non-vacuity: the upper-cased repeat of the first of two answered data queries is accepted in the next iteration,
its fingerprint is the second-most-recent one, and the query-memory check recognises it -/
example : Accepted (afterSelect (runFrom Ex.s0 (Ex.login ++ Ex.datas [2, 4])) 1003)
      (Ex.mkq (ascii "0EAACmfrgg.t.ex") 300 Ex.src2) 0 ∧
    (freshDatas 0 (traceFrom Ex.s0 (Ex.login ++ Ex.datas [2, 4])))[1]?
      = some (dataPrint (ascii "0EAACmfrgg.t.ex"), T_NULL) ∧
    QmemHit (afterSelect (runFrom Ex.s0 (Ex.login ++ Ex.datas [2, 4])) 1003)
      (Ex.mkq (ascii "0EAACmfrgg.t.ex") 300 Ex.src2) 0 := by
  decide +kernel

/-- **The exact condition for pings.**  The fingerprint stored for an answered ping name is computed from the
first label only, the one the handler checks from the whole data part with the dots removed.  Whenever a
fingerprint was stored at all — the name has a dot and the characters between the `P` and the first dot (up to a
NUL) decode to at least four bytes, i.e. there are at least 7 of them — it IS the fingerprint the handler
computes for an accepted query with that name (of at most 512 characters; DNS names have at most 255). -/
theorem ping_repeat_fingerprint {s : Srv} {q : Query} {u : Nat} (ha : Accepted s q u) (hp : IsPing q.name)
    (hlen : q.name.length ≤ 512) {c : List Nat} (hs : savedPingPrint q.name = some c) :
    pingPrint s.cfg.topdomain q = c := by
  obtain ⟨_, _, hd, _, hk⟩ := ha
  obtain ⟨d, hd'⟩ := Option.isSome_iff_exists.mp hd
  have hdl : dlen s.cfg.topdomain q = d := by simp [dlen, hd']
  have h2 : 2 ≤ d := by
    rcases hk with ⟨_, h2, _⟩ | ⟨hdat, _⟩
    · omega
    · exfalso; unfold IsPing at hp; unfold IsData at hdat; omega
  unfold savedPingPrint at hs
  cases hcp : q.name.idxOf? 46 with
  | none => rw [hcp] at hs; cases hs
  | some cp =>
    rw [hcp] at hs
    simp only [] at hs
    have h1 := C16L.first_dot_in_datalen q.name _ d cp hd' (by omega) hcp
    have h3 : cp < q.name.length := (List.idxOf?_eq_some_iff.mp hcp).1
    unfold pingPrint pingBytes
    rw [hdl]
    exact C16L.pingPrint_eq_saved q.name d cp c hcp (by omega) hs

/-- non-vacuity: the ping names of the run have a 7-character first label, a fingerprint is stored, and it is the
one the handler computes for the repeat; a name with a 6-character first label gets no fingerprint -/
example : savedPingPrint (Ex.pName 1) = some [0, 0, 0, 1] ∧ pingPrint Ex.sA.cfg.topdomain (Ex.rep 1) = [0, 0, 0, 1] ∧
    savedPingPrint (ascii "paaaaaa.i.t.ex") = none := by
  decide +kernel

/-! ### (B) any number of re-deliveries, in any order

Stated for the handler phase (`dispatch`): between two datagrams the real loop also runs its sweep, which may
legitimately send the next chunk to a query held in `q_sendrealsoon` — that is progress of the transfer, not a
reaction to the repeat. -/

/-- `q` is a re-delivery the server recognises in state `s`: an accepted ping/data query of session `u` that
hits the answer cache or the query memory or is still pending -/
def Recognised (s : Srv) (q : Query) (u : Nat) : Prop :=
  Accepted s q u ∧
  ((dnscacheFind (getUser s u) q DNSCACHE_LEN 0).isSome ∨ QmemHit s q u ∨ PendingInQ s q u ∨ PendingInQs s q u)

instance (s : Srv) (q : Query) (u : Nat) : Decidable (Recognised s q u) := by unfold Recognised; infer_instance

/-- the reaction to a recognised re-delivery: nothing, or one answer to the repeat's own address and id
replayed from the cache, or the one-byte "x" answer -/
def IsReplay (q : Query) (u : Nat) (ev : Event) : Prop :=
  (∃ dn payload, ev = Event.ans q.from_ q.id q.type dn q.name payload (.cached u)) ∨
  ev = Event.ans q.from_ q.id q.type 84 q.name [120] (.qmem u)

theorem recognised_is_stutter {s : Srv} {q : Query} {u : Nat} (tunsel : Bool) (h : Recognised s q u) :
    (∀ v, stream (getUser (dispatch s (.q q) tunsel).1 v) = stream (getUser s v)) ∧
    (∀ ev ∈ (dispatch s (.q q) tunsel).2, IsReplay q u ev) := by
  obtain ⟨ha, hc⟩ := h
  cases hf : dnscacheFind (getUser s u) q DNSCACHE_LEN 0 with
  | some e =>
    rw [cache_hit_is_stutter tunsel ha hf]
    refine ⟨fun _ => rfl, ?_⟩
    intro ev hev
    simp only [List.mem_singleton] at hev
    exact Or.inl ⟨_, _, hev⟩
  | none =>
    rw [hf] at hc
    by_cases hq : QmemHit s q u
    · rw [qmem_hit_is_stutter tunsel ha hf hq]
      refine ⟨fun _ => rfl, ?_⟩
      intro ev hev
      simp only [List.mem_singleton] at hev
      exact Or.inr hev
    · have hp : PendingInQ s q u ∨ PendingInQs s q u := by
        rcases hc with hc | hc | hc | hc
        · simp at hc
        · exact absurd hc hq
        · exact Or.inl hc
        · exact Or.inr hc
      obtain ⟨h1, _, _, h4, _⟩ := pending_duplicate_is_stutter tunsel ha hf hq hp
      refine ⟨h4, ?_⟩
      rw [h1]
      intro ev hev
      simp at hev

/-- non-vacuity: the repeat of ping 5 (still cached) and of ping 1 (only in the ping memory) are recognised -/
example : Recognised Ex.sA (Ex.rep 5) 0 ∧ Recognised Ex.sA (Ex.rep 1) 0 := by decide +kernel

/-- the handler phases of consecutive datagrams `(query, tunsel)` -/
def dispatchAll : Srv → List (Query × Bool) → Srv × List Event
  | s, [] => (s, [])
  | s, (q, ts) :: rest =>
    ((dispatchAll (dispatch s (.q q) ts).1 rest).1, (dispatch s (.q q) ts).2 ++ (dispatchAll (dispatch s (.q q) ts).1 rest).2)

/-- every datagram of the list is, when it arrives, a recognised re-delivery for some session -/
def AllRecognised : Srv → List (Query × Bool) → Prop
  | _, [] => True
  | s, (q, ts) :: rest => (∃ u, Recognised s q u) ∧ AllRecognised (dispatch s (.q q) ts).1 rest

/-- **Any number of re-deliveries in any order.**  If every datagram of a sequence is, at the time it arrives,
a re-delivered query that hits the cache, the query memory or a pending query (of any session, from any allowed
address, with any id), then after the whole sequence `stream` of every session is what it was, and every event
is a replay addressed to one of the repeats: no fresh downstream chunk, nothing written to the tun device. -/
theorem stutter_any_number_of_times : ∀ (l : List (Query × Bool)) (s : Srv), AllRecognised s l →
    (∀ v, stream (getUser (dispatchAll s l).1 v) = stream (getUser s v)) ∧
    (∀ ev ∈ (dispatchAll s l).2, ∃ q u, (∃ ts, (q, ts) ∈ l) ∧ IsReplay q u ev) := by
  intro l
  induction l with
  | nil => intro s _; exact ⟨fun _ => rfl, fun ev h => by simp [dispatchAll] at h⟩
  | cons a rest ih =>
    intro s h
    obtain ⟨q, ts⟩ := a
    obtain ⟨⟨u, hr⟩, hrest⟩ := h
    obtain ⟨h1, h2⟩ := recognised_is_stutter ts hr
    obtain ⟨i1, i2⟩ := ih _ hrest
    refine ⟨fun v => (i1 v).trans (h1 v), ?_⟩
    intro ev hev
    simp only [dispatchAll, List.mem_append] at hev
    rcases hev with hev | hev
    · exact ⟨q, u, ⟨ts, List.mem_cons_self⟩, h2 ev hev⟩
    · obtain ⟨q', u', ⟨ts', hm⟩, hrp⟩ := i2 ev hev
      exact ⟨q', u', ⟨ts', List.mem_cons_of_mem _ hm⟩, hrp⟩

/-- non-vacuity: ping 1 (query-memory hit), ping 5 (cache hit) and ping 1 again, from the other port -/
example : AllRecognised Ex.sA [(Ex.rep 1, true), (Ex.rep 5, true), (Ex.rep 1, false)] :=
  ⟨⟨0, by decide +kernel⟩, ⟨0, by decide +kernel⟩, ⟨0, by decide +kernel⟩, trivial⟩

/-! ### (C) what the recognition depends on -/

/-- the cache lookup looks at the name and the type of the query only: a new DNS id, another relay address
(or remembered-duplicate fields) make no difference -/
theorem cache_hit_indep_of_id_and_source (x : Session) (q q' : Query) (hn : q'.name = q.name)
    (ht : q'.type = q.type) : dnscacheFind x q' DNSCACHE_LEN 0 = dnscacheFind x q DNSCACHE_LEN 0 :=
  C16L.dnscacheFind_congr x q q' hn ht _ _

/-- non-vacuity: the same lookup result for the repeat and for a query with another id from an IPv6 address -/
example : dnscacheFind (getUser Ex.sC 0) (Ex.mkq (Ex.pName 1) 999 ⟨6, 1, 2⟩) DNSCACHE_LEN 0
      = dnscacheFind (getUser Ex.sC 0) (Ex.rep 1) DNSCACHE_LEN 0 ∧
    (dnscacheFind (getUser Ex.sC 0) (Ex.rep 1) DNSCACHE_LEN 0).isSome := by decide +kernel

/-- so does the query-memory check -/
theorem qmem_hit_indep_of_id_and_source (s : Srv) (u : Nat) (q q' : Query) (hn : q'.name = q.name)
    (ht : q'.type = q.type) : QmemHit s q' u ↔ QmemHit s q u := by
  unfold QmemHit pingPrint pingBytes dlen
  rw [hn, ht]

example : QmemHit Ex.sA (Ex.mkq (Ex.pName 1) 999 ⟨6, 1, 2⟩) 0 ∧ QmemHit Ex.sA (Ex.rep 1) 0 := by decide +kernel

/-- … and the pending-duplicate checks -/
theorem pending_indep_of_id_and_source (s : Srv) (u : Nat) (q q' : Query) (hn : q'.name = q.name)
    (ht : q'.type = q.type) :
    (PendingInQ s q' u ↔ PendingInQ s q u) ∧ (PendingInQs s q' u ↔ PendingInQs s q u) := by
  unfold PendingInQ PendingInQs
  rw [hn, ht]
  exact ⟨Iff.rfl, Iff.rfl⟩

example : PendingInQ Ex.sL (Ex.mkq (Ex.pName 1) 999 ⟨6, 1, 2⟩) 0 ∧ PendingInQ Ex.sL (Ex.rep 1) 0 := by decide +kernel

/-- only `check_ip` restricts the relay address: without it every source address is acceptable, with it the
address family and ip must be those of the login, the port is free -/
theorem established_indep_of_port (s : Srv) (u : Nat) (a b : Addr) (hf : b.fam = a.fam) (hip : b.ip = a.ip) :
    Established s u b ↔ Established s u a := by
  unfold Established
  rw [hf, hip]

/-- non-vacuity: with `check_ip` the other port is fine, another ip is not -/
example : Established Ex.sC 0 Ex.src2 ∧ ¬ Established Ex.sC 0 ⟨4, 0xc0a80106, 5353⟩ := by decide +kernel

theorem established_without_check_ip (s : Srv) (u : Nat) (a b : Addr) (h : s.cfg.checkIp = false) :
    Established s u b ↔ Established s u a := by
  unfold Established
  simp [h]

example : Established { Ex.sC with cfg := { Ex.sC.cfg with checkIp := false } } 0 ⟨6, 1, 2⟩ := by decide +kernel

/-- the data fingerprint ignores the letter case of the four header characters -/
theorem dataPrint_case_insensitive (n n' : List Nat)
    (h : ∀ i, 1 ≤ i → i ≤ 4 → lower (n'.getD i 0) = lower (n.getD i 0)) : dataPrint n' = dataPrint n := by
  unfold dataPrint
  rw [h 1 (by omega) (by omega), h 2 (by omega) (by omega), h 3 (by omega) (by omega), h 4 (by omega) (by omega)]

example : dataPrint (ascii "0EaAcmfrgg.t.ex") = dataPrint (ascii "0eaacmfrgg.t.ex") ∧
    dataPrint (ascii "0eaacmfrgg.t.ex") = ascii "eaac" := by decide

/-- Base32 decoding ignores the letter case: the reverse table maps both cases of a letter to the same value -/
theorem b32_rev_case_insensitive (c : Nat) : Codec.b32.rev (lower c) = Codec.b32.rev c := by
  unfold lower
  split
  · rename_i h
    have : ∀ c, c < 91 → 65 ≤ c → Codec.b32.rev (c + 32) = Codec.b32.rev c := by decide
    exact this c (by omega) h.1
  · rfl

example : Codec.b32.rev 66 = 1 ∧ Codec.b32.rev 98 = 1 ∧ lower 66 = 98 := by decide

theorem lower_eq_toLower : lower = Common.toLower := by
  funext c
  unfold lower Common.toLower
  by_cases h : 65 ≤ c ∧ c ≤ 90
  · simp [h]
  · rw [if_neg h]
    split
    · rename_i h'
      simp only [Bool.and_eq_true, decide_eq_true_eq] at h'
      exact absurd h' h
    · rfl

/-- the ping fingerprint (indeed the whole decoded ping payload, user id included) ignores the letter case of
the name: a relay that changes the case of a ping query does not make it look new -/
theorem pingPrint_case_insensitive (td : List Nat) (q q' : Query)
    (h : q'.name.map lower = q.name.map lower) :
    pingBytes td q' = pingBytes td q ∧ pingPrint td q' = pingPrint td q := by
  rw [lower_eq_toLower] at h
  have := C16L.pingBytes_lower td q.name q'.name h
  unfold pingPrint pingBytes dlen
  rw [this]
  exact ⟨rfl, rfl⟩

/-- non-vacuity: the upper-cased repeat of ping 1 (`PAAAAAAI.T.EX`) has the same fingerprint; it misses the answer cache
(whose name comparison is case sensitive) even while the original is still there, and is caught by the ping memory -/
example : (Ex.pNameUpper 1).map lower = (Ex.pName 1).map lower ∧ Ex.pNameUpper 1 ≠ Ex.pName 1 ∧
    dnscacheFind (getUser Ex.sC 0) (Ex.mkq (Ex.pNameUpper 1) 300 Ex.src2) DNSCACHE_LEN 0 = none ∧
    dispatch Ex.sC (.q (Ex.mkq (Ex.pNameUpper 1) 300 Ex.src2)) true
      = (Ex.sC, [Event.ans Ex.src2 300 T_NULL 84 (Ex.pNameUpper 1) [120] (.qmem 0)]) := by
  decide +kernel

end Iodine.C16
