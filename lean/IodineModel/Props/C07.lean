import IodineModel.Codec.Inst
import IodineModel.Lemmas.Codec
/-
C07 — Base32/64/64u/128 codecs are lossless, alphabet-pure and capacity-exact.

Only property statements live here (helper lemmas: Lemmas/Codec.lean).  The theorems are
proved for every codec instance satisfying `WF`, and `WF` is established for the four
instances by kernel evaluation over the tables that are regenerated from /repo/src on every
run — so a changed table re-opens these obligations.
-/
namespace Iodine.C07
open Iodine Iodine.Codec

/-! ### The documented alphabets (doc/proto_00000502.txt), written as ranges -/
def lower (c : Nat) : Prop := 97 ≤ c ∧ c ≤ 122
def upper (c : Nat) : Prop := 65 ≤ c ∧ c ≤ 90
def digit (c : Nat) : Prop := 48 ≤ c ∧ c ≤ 57
/-- Base32: a-z0-5 -/
def Doc32 (c : Nat) : Prop := lower c ∨ (48 ≤ c ∧ c ≤ 53)
/-- Base64: a-zA-Z0-9-+ -/
def Doc64 (c : Nat) : Prop := lower c ∨ upper c ∨ digit c ∨ c = 45 ∨ c = 43
/-- Base64u: a-zA-Z0-9-_ -/
def Doc64u (c : Nat) : Prop := lower c ∨ upper c ∨ digit c ∨ c = 45 ∨ c = 95
/-- Base128: a-zA-Z0-9 and bytes 0xBC-0xFD -/
def Doc128 (c : Nat) : Prop := lower c ∨ upper c ∨ digit c ∨ (188 ≤ c ∧ c ≤ 253)

instance : DecidablePred lower := fun c => by unfold lower; infer_instance
instance : DecidablePred upper := fun c => by unfold upper; infer_instance
instance : DecidablePred digit := fun c => by unfold digit; infer_instance
instance : DecidablePred Doc32 := fun c => by unfold Doc32; infer_instance
instance : DecidablePred Doc64 := fun c => by unfold Doc64; infer_instance
instance : DecidablePred Doc64u := fun c => by unfold Doc64u; infer_instance
instance : DecidablePred Doc128 := fun c => by unfold Doc128; infer_instance

/-! ### Obligations on the generated tables -/

/-- table size, injectivity, documented alphabet, no NUL -/
def TableOk (c : Codec) (Doc : Nat → Prop) : Prop :=
  c.tbl.length = 2 ^ c.k ∧ c.tbl.Nodup ∧ ∀ ch ∈ c.tbl, Doc ch ∧ ch ≠ 0

theorem table_ok_b32 : TableOk b32 Doc32 := by unfold TableOk; decide +kernel
theorem table_ok_b64 : TableOk b64 Doc64 := by unfold TableOk; decide +kernel
theorem table_ok_b64u : TableOk b64u Doc64u := by unfold TableOk; decide +kernel
theorem table_ok_b128 : TableOk b128 Doc128 := by unfold TableOk; decide +kernel

/-- the reverse table, computed as `*_reverse_init` does, inverts the alphabet -/
theorem rev_b32 : ∀ i, i < 2 ^ 5 → b32.rev (lookup b32 i) = i ∧ lookup b32 i ≠ 0 := by decide +kernel
theorem rev_b64 : ∀ i, i < 2 ^ 6 → b64.rev (lookup b64 i) = i ∧ lookup b64 i ≠ 0 := by decide +kernel
theorem rev_b64u : ∀ i, i < 2 ^ 6 → b64u.rev (lookup b64u i) = i ∧ lookup b64u i ≠ 0 := by decide +kernel
theorem rev_b128 : ∀ i, i < 2 ^ 7 → b128.rev (lookup b128 i) = i ∧ lookup b128 i ≠ 0 := by decide +kernel

theorem wf_b32 : WF b32 :=
  ⟨Or.inl rfl, table_ok_b32.1, fun i h => (rev_b32 i h).1, fun i h => (rev_b32 i h).2⟩
theorem wf_b64 : WF b64 :=
  ⟨Or.inr (Or.inl rfl), table_ok_b64.1, fun i h => (rev_b64 i h).1, fun i h => (rev_b64 i h).2⟩
theorem wf_b64u : WF b64u :=
  ⟨Or.inr (Or.inl rfl), table_ok_b64u.1, fun i h => (rev_b64u i h).1, fun i h => (rev_b64u i h).2⟩
theorem wf_b128 : WF b128 :=
  ⟨Or.inr (Or.inr rfl), table_ok_b128.1, fun i h => (rev_b128 i h).1, fun i h => (rev_b128 i h).2⟩

/-! ### The property, for every well-formed instance, every byte string, every capacity -/

/-- Decoding the encoding returns exactly the input (any decoder capacity that holds it). -/
theorem roundtrip {c : Codec} (wf : WF c) (d : List Nat) (hd : Bytes d) (cap : Nat) (hcap : d.length ≤ cap) :
    dec c cap (encFull c d).length (encFull c d) = d := by
  unfold dec
  rw [cstr_of_nonzero _ (encFull_nonzero wf d), decAll_encFull wf d hd]
  exact List.take_of_length_le hcap

/-- The documented length ratio: n bytes give exactly ⌈8n/k⌉ characters. -/
theorem length_exact (c : Codec) (d : List Nat) :
    (encFull c d).length = (8 * d.length + c.k - 1) / c.k := encFull_length c d

/-- Every emitted character belongs to the table — for every capacity. -/
theorem chars_in_table {c : Codec} (wf : WF c) (cap : Nat) (d : List Nat) :
    ∀ ch ∈ (enc c cap d).chars, ch ∈ c.tbl := by
  intro ch hch
  unfold enc at hch
  simp only [] at hch
  split at hch
  · exact encFull_mem_tbl wf d ch hch
  · exact encFull_mem_tbl wf d ch (List.mem_of_mem_take hch)

/-- Alphabet purity against the *documented* alphabets. -/
theorem alphabet_pure_b32 (cap : Nat) (d : List Nat) : ∀ ch ∈ (enc b32 cap d).chars, Doc32 ch :=
  fun ch h => (table_ok_b32.2.2 ch (chars_in_table wf_b32 cap d ch h)).1
theorem alphabet_pure_b64 (cap : Nat) (d : List Nat) : ∀ ch ∈ (enc b64 cap d).chars, Doc64 ch :=
  fun ch h => (table_ok_b64.2.2 ch (chars_in_table wf_b64 cap d ch h)).1
theorem alphabet_pure_b64u (cap : Nat) (d : List Nat) : ∀ ch ∈ (enc b64u cap d).chars, Doc64u ch :=
  fun ch h => (table_ok_b64u.2.2 ch (chars_in_table wf_b64u cap d ch h)).1
theorem alphabet_pure_b128 (cap : Nat) (d : List Nat) : ∀ ch ∈ (enc b128 cap d).chars, Doc128 ch :=
  fun ch h => (table_ok_b128.2.2 ch (chars_in_table wf_b128 cap d ch h)).1

/-- What a capped encoder call promises. -/
structure Contract (c : Codec) (cap : Nat) (d : List Nat) (r : EncResult) : Prop where
  /-- never more characters than the capacity … -/
  len_le : r.chars.length ≤ cap
  /-- … and nothing written beyond index `cap` (dropped character and NUL included) -/
  written_le : r.written ≤ cap + 1
  used_le : r.used ≤ d.length
  /-- the emitted text decodes to exactly the reported number of input bytes -/
  decodes : ∀ N, r.used ≤ N → dec c N r.chars.length r.chars = d.take r.used
  /-- nothing that fits is withheld: one more byte would need more than `cap` characters -/
  maximal : r.used = d.length ∨ cap < nchars c.k (r.used + 1)
  /-- the length ratio holds for the consumed part -/
  ratio : r.chars.length = nchars c.k r.used
  /-- a capped encoding is a prefix of the full one -/
  pref : r.chars = (encFull c d).take r.chars.length

theorem capacity_contract {c : Codec} (wf : WF c) (cap : Nat) (d : List Nat) (hd : Bytes d) :
    Contract c cap d (enc c cap d) := by
  have hk := wf.k_ok
  have hfull := encFull_length c d
  unfold enc
  simp only []
  split
  · rename_i hm
    refine ⟨?_, ?_, ?_, ?_, ?_, ?_, ?_⟩ <;> dsimp only
    · rw [hfull]; exact hm
    · omega
    · exact Nat.le_refl _
    · intro N hN
      rw [List.take_of_length_le (Nat.le_refl _)]
      exact roundtrip wf d hd N hN
    · exact Or.inl rfl
    · exact hfull
    · rw [List.take_of_length_le (Nat.le_refl _)]
  · rename_i hm
    generalize hj : (if c.k * (cap - 1) / 8 < c.k * cap / 8 then cap else cap - 1) = j
    have hjm : j ≤ nchars c.k d.length := by
      rw [← hj]; split <;> omega
    have hjcap : j ≤ cap := by rw [← hj]; split <;> omega
    have hlen : ((encFull c d).take j).length = j := by
      rw [List.length_take, hfull]; omega
    have hused : c.k * j / 8 ≤ d.length := by
      have h1 := nchars_hi hk d.length
      have h2 : c.k * j ≤ c.k * nchars c.k d.length := Nat.mul_le_mul_left _ hjm
      rcases hk with h | h | h <;> rw [h] at h1 h2 ⊢ <;> omega
    refine ⟨?_, ?_, ?_, ?_, ?_, ?_, ?_⟩ <;> dsimp only
    · rw [hlen]; exact hjcap
    · omega
    · exact hused
    · intro N hN
      unfold dec
      rw [cstr_of_nonzero _ (fun ch h => encFull_nonzero wf d ch (List.mem_of_mem_take h))]
      rw [decAll_encFull_take wf d hd j hjm]
      rw [List.take_take]; congr 1; omega
    · right
      unfold nchars at hm ⊢
      rcases hk with h | h | h <;> rw [h] at hj hm ⊢ <;> (rw [← hj]; split <;> omega)
    · rw [hlen]
      unfold nchars at hm ⊢
      rcases hk with h | h | h <;> rw [h] at hj hm ⊢ <;> (rw [← hj]; split <;> omega)
    · rw [hlen]

/-- With room for two characters the encoder always consumes at least one byte, so a sender
that hands the rest of its data to successive calls terminates. -/
theorem progress {c : Codec} (wf : WF c) (cap : Nat) (d : List Nat) (hcap : 2 ≤ cap) (hd : d ≠ []) :
    1 ≤ (enc c cap d).used := by
  have hk := wf.k_ok
  have hpos : 0 < d.length := List.length_pos_iff.mpr hd
  unfold enc
  simp only []
  split
  · exact hpos
  · simp only []
    rcases hk with h | h | h <;> rw [h] <;> split <;> omega

/-- Successive chunks lose and repeat nothing: decoding the chunks in order and appending what
was not yet encoded gives back the input, for every list of capacities. -/
theorem chunks_lossless {c : Codec} (wf : WF c) (caps : List Nat) (d : List Nat) (hd : Bytes d)
    (N : Nat) (hN : d.length ≤ N) :
    ((encChunks c caps d).1.flatMap (fun s => dec c N s.length s)) ++ (encChunks c caps d).2 = d := by
  induction caps generalizing d with
  | nil => simp [encChunks]
  | cons cap caps ih =>
    have hc := capacity_contract wf cap d hd
    have hd' : Bytes (d.drop (enc c cap d).used) := fun b hb => hd b (List.mem_of_mem_drop hb)
    have ih' := ih (d.drop (enc c cap d).used) hd' (by simp; omega)
    simp only [encChunks, List.flatMap_cons, List.append_assoc]
    rw [hc.decodes N (Nat.le_trans hc.used_le hN), ih', List.take_append_drop]

/-! ### Non-vacuity: concrete instances of the hypotheses and of the interesting branches -/

example : Bytes [104, 101, 108, 108, 111, 255, 0] := by unfold Bytes; decide
/-- a capped call that backs off: 3 characters of room, 2 kept, 1 byte consumed -/
example : enc b32 3 [104, 101, 108, 108, 111] = ⟨[110, 98], 1, 3⟩ := by decide +kernel
example : (encChunks b64 [4, 3, 100] [255, 254, 253, 252, 251]).1.length = 3 := by decide +kernel

end Iodine.C07
