import IodineModel.Props.C08Session
import IodineModel.Lemmas.OptCli
import IodineModel.Props.Top
/-
C08, continued: what `main()` of iodine.c guarantees when it calls `client_handshake()`, against what the whole-session theorems
of Props/C08Session.lean assume (`ClientCfgOk L c`).

Guaranteed for EVERY argument vector and environment (model: Client/Options.lean, tied to the real `main()` by the `main` op of
harness/h_cli.c): the top domain passed `check_topdomain(…, 0)`; `hostname_maxlen ∈ 10..255` (`-M` is clamped, default 255);
`do_qtype` is one of the seven types or `T_UNSET`; `downenc ∈ {' ', T, S, U, V, R}`; `selecttimeout ≥ 1`; `lazymode ∈ {0,1}`;
the fragment size is in 1..65535; the packet buffers are as `client_init` leaves them.

NOT guaranteed — the gap between `main()` and `ClientCfgOk`: `100 ≤ hostname_maxlen` and `strlen(topdomain) + 24 ≤ hostname_maxlen`.
`main()` never compares `-M` with the length of the domain.  `client_main_establishes_ClientCfgOk` therefore has these two as
hypotheses; `client_main_gap` shows command lines that reach the handshake outside them.  (What the real client does there, observed
on h_cli with `hostname_maxlen < strlen(topdomain) + 8`: `build_hostname` computes `space = maxlen - strlen(topdomain) - 8` in
`size_t`, which wraps — the limit is ignored, a 100-byte payload gives a 181-character name, a 1400-byte payload a 2 KiB "name", a
3000-byte payload overflows `send_chunk`'s 4096-byte stack buffer; with `space` = 0 or 1 every chunk carries 0 bytes and upstream
data never moves.)
-/
namespace Iodine.C08
open Iodine Iodine.Getopt Iodine.Client Iodine.Client.Options

/-- **client_main_runs_with_statics.**  `client_handshake()` is reached only with the statics set. -/
theorem client_main_runs_with_statics (env : Env) (argv : List (List Nat)) (c : Int)
    (h : (clientMain env argv).outcome = .run c) : ∃ f, (clientMain env argv).final = some f :=
  OptL.clientMain_run env argv c h

/-- **client_main_guarantees.**  What holds of client.c's statics and of the arguments whenever `client_handshake()` is called. -/
theorem client_main_guarantees (env : Env) (argv : List (List Nat)) (f : Final) (h : (clientMain env argv).final = some f) :
    Common.checkTopdomain f.cli.topdomain false = 0 ∧
    10 ≤ f.cli.hostnameMaxlen ∧ f.cli.hostnameMaxlen ≤ 255 ∧
    (f.cli.doQtype ∈ TunnelTypes ∨ f.cli.doQtype = 65432) ∧
    f.cli.downenc ∈ [32, 84, 83, 85, 86, 82] ∧
    1 ≤ f.cli.selecttimeout ∧ f.cli.selecttimeout < 2 ^ 31 ∧
    1 ≤ f.args.fragsize ∧ f.args.fragsize ≤ 65535 ∧
    f.cli.datacmc = 0 ∧ f.cli.outpkt.len = 0 ∧ f.cli.outpkt.data = [] ∧ f.cli.conn = .dnsNull ∧ f.cli.running = true := by
  obtain ⟨o, td, fam, ip, ho, hf, htd, hfr1, hfr2⟩ := OptL.clientMain_final env argv f h
  have hi := OptL.cli_optLoop_inv _ _ o none OptL.cinv_init ho
  subst hf
  have hml := hi.ml
  refine ⟨htd, ?_, ?_, ?_, hi.dn, hi.sel.1, hi.sel.2, hfr1, hfr2, rfl, rfl, rfl, rfl, rfl⟩
  · show 10 ≤ (if o.hostnameMaxlen ≤ 255 then o.hostnameMaxlen else _)
    rw [if_pos hml.2]; exact hml.1
  · show (if o.hostnameMaxlen ≤ 255 then o.hostnameMaxlen else _) ≤ 255
    rw [if_pos hml.2]; exact hml.2
  · rcases hi.qt with h1 | h1
    · exact Or.inl h1
    · exact Or.inr h1

/-- **client_main_establishes_ClientCfgOk.**  Under the two conditions `main()` does not check, the statics satisfy `ClientCfgOk`,
so every whole-session theorem of C08 applies to the run that follows. -/
theorem client_main_establishes_ClientCfgOk (env : Env) (argv : List (List Nat)) (f : Final)
    (h : (clientMain env argv).final = some f) (L : Nat) (hL : f.cli.hostnameMaxlen = (L : Int)) (h100 : 100 ≤ L)
    (hroom : f.cli.topdomain.length + 24 ≤ L) : ClientCfgOk L f.cli := by
  obtain ⟨h1, h2, h3, h4, h5, _, _, _, _, h6, h7, h8, _, _⟩ := client_main_guarantees env argv f h
  exact { topdomain := h1, maxlen := hL, limit := ⟨h100, by omega⟩, room := hroom, qtype := h4, downenc := h5,
          cmc := by rw [h6]; decide, idle := h7, pktbytes := by rw [h8]; simp }

/-- without `-M` the two conditions hold for every domain `check_topdomain` accepts (at most 128 characters): `ClientCfgOk 255` -/
theorem client_main_default_maxlen (env : Env) (argv : List (List Nat)) (f : Final)
    (h : (clientMain env argv).final = some f) (hM : f.cli.hostnameMaxlen = 255) : ClientCfgOk 255 f.cli := by
  refine client_main_establishes_ClientCfgOk env argv f h 255 hM (by decide) ?_
  have htd := (client_main_guarantees env argv f h).1
  have := ((C17.check_topdomain_iff_spec _ _).1 htd).2.1
  omega

def exEnv : Env :=
  { envPass := some [120], typed := [], resolv := some (Getopt.ascii "192.168.1.1"), getAddr := fun _ _ => some (4, 0x0a000035),
    userUid := fun _ => some 1000, setuidOk := fun _ => true, openTun := fun _ => true, r1 := 0, r2 := 0, hsRet := 0 }

/-- `iodine -M 200 -T txt -O base64 ns t.example.com` -/
def exArgvCli : List (List Nat) :=
  [Getopt.ascii "iodine", Getopt.ascii "-M", Getopt.ascii "200", Getopt.ascii "-Ttxt", Getopt.ascii "-O", Getopt.ascii "base64",
   Getopt.ascii "ns", Getopt.ascii "t.example.com"]

-- non-vacuity: the command line reaches the handshake (outcome `run`), with hostname_maxlen 200, TXT, Base64: ClientCfgOk 200
example : (clientMain exEnv exArgvCli).outcome = .run 0 ∧
    ((clientMain exEnv exArgvCli).final.map fun f => [f.cli.hostnameMaxlen, f.cli.topdomain.length, f.cli.doQtype, f.cli.downenc])
      = some [200, 13, 16, 83] := by decide +kernel

example (f : Final) (h : (clientMain exEnv exArgvCli).final = some f) : ClientCfgOk 200 f.cli := by
  have hx : ((clientMain exEnv exArgvCli).final.map fun f => (f.cli.hostnameMaxlen, f.cli.topdomain.length)) = some (200, 13) := by
    decide +kernel
  rw [h] at hx
  simp only [Option.map_some, Option.some.injEq, Prod.mk.injEq] at hx
  exact client_main_establishes_ClientCfgOk exEnv _ f h 200 hx.1 (by decide) (by rw [hx.2]; decide)

/-- **client_main_gap** (what is NOT guaranteed).  `iodine -M 20 ns t.example.com` and `iodine -M 99 ns t.example.com` reach
`client_handshake()`: `hostname_maxlen = 20 < strlen(topdomain) + 8` (the `size_t` subtraction in `build_hostname` wraps) resp. 99,
below C08's range. -/
theorem client_main_gap :
    ((clientMain exEnv [Getopt.ascii "iodine", Getopt.ascii "-M", Getopt.ascii "20", Getopt.ascii "ns", Getopt.ascii "t.example.com"]).final.map
      fun f => (f.cli.hostnameMaxlen, f.cli.topdomain.length)) = some (20, 13) ∧
    ((clientMain exEnv [Getopt.ascii "iodine", Getopt.ascii "-M", Getopt.ascii "99", Getopt.ascii "ns", Getopt.ascii "t.example.com"]).final.map
      fun f => f.cli.hostnameMaxlen) = some 99 ∧
    ((clientMain exEnv [Getopt.ascii "iodine", Getopt.ascii "-M", Getopt.ascii "-5", Getopt.ascii "ns", Getopt.ascii "t.example.com"]).final.map
      fun f => f.cli.hostnameMaxlen) = some 10 := by decide +kernel

-- option handling oddities, computed on the model (each confirmed on the real main() by the differential):
-- `-z` is documented but not in the option string; `-R` is in the option string but has no case: both end in usage();
-- `-T txt -T bogus` is accepted (client_set_qtype tests do_qtype, not its argument); `-O nonsense` is silently ignored
example : (clientMain exEnv [Getopt.ascii "iodine", Getopt.ascii "-z", Getopt.ascii "ctx", Getopt.ascii "ns", Getopt.ascii "t.co"]).outcome = .exit 2 "usage:getopt" ∧
    (clientMain exEnv [Getopt.ascii "iodine", Getopt.ascii "-R", Getopt.ascii "1", Getopt.ascii "ns", Getopt.ascii "t.co"]).outcome = .exit 2 "usage:getopt" ∧
    (clientMain exEnv [Getopt.ascii "iodine", Getopt.ascii "-T", Getopt.ascii "bogus", Getopt.ascii "ns", Getopt.ascii "t.co"]).outcome = .errx 5 "qtype" ∧
    ((clientMain exEnv [Getopt.ascii "iodine", Getopt.ascii "-Ttxt", Getopt.ascii "-Tbogus", Getopt.ascii "-Ononsense", Getopt.ascii "ns", Getopt.ascii "t.co"]).final.map
      fun f => (f.cli.doQtype, f.cli.downenc)) = some (16, 32) := by decide +kernel

/-! ### From `main()` to the handshake and tunnel machines (phase 2) -/

/-- **client_main_starts_handshake_machine.**  What `client_handshake()` finds is `client_init()` applied to the loader's statics
(`Cli.boot`, with `dnsc_use_edns0 = 1` as dns.c initialises it) followed by the four setters and the two option-time setters
(`client_set_qtype`, `client_set_downenc`), for the option values `o` the loop ended with; its arguments are `raw_mode`,
`autodetect_frag_size`, `max_downstream_frag_size` of `o`.  The machines of Client/Handshake.lean / Client/Tunnel.lean are started on
exactly this: `hsStart f.cli f.args (cpw f) dev` (`dev` = the device name `open_tun` chose).  Tied to the code: the `main` op of h_cli
prints, when the substituted `client_handshake()` is called, the full digest of client.c's statics (the one every session op prints)
and the driver prints `Drv.Client.digest f.cli`. -/
theorem client_main_starts_handshake_machine (env : Env) (argv : List (List Nat)) (f : Final) (h : Top.CStarts env argv f) :
    ∃ o td, f.cli = statics env o td ∧ f.args = { rawMode := o.rawMode, autoFrag := o.autoFrag, fragsize := o.fragsize } ∧
      f.cli = { clientInit Cli.boot env.r1 env.r2 with
                selecttimeout := o.selecttimeout, lazymode := o.lazymode ≠ 0, topdomain := td, hostnameMaxlen := f.cli.hostnameMaxlen,
                doQtype := o.doQtype, downenc := o.downenc, edns0 := true } := by
  obtain ⟨o, td, fam, ip, _, hf, _⟩ := OptL.clientMain_final env argv f h
  subst hf
  exact ⟨o, td, rfl, rfl, rfl⟩

/-- **client_queries_legal_from_main.**  For every command line and environment with which iodine reaches `client_handshake()`
with `hostname_maxlen = L`, `100 ≤ L` and 24 characters of room behind the domain (the two conditions `main()` does not check;
without `-M` they always hold: `client_queries_legal_default`), every password pointer content, device name, and EVERY query the
client then emits in the whole session — handshake and tunnel, whatever the answers, time-outs and tun frames are — is legal. -/
theorem client_queries_legal_from_main (env : Env) (argv : List (List Nat)) (f : Final) (h : Top.CStarts env argv f)
    (L : Nat) (hL : f.cli.hostnameMaxlen = (L : Int)) (h100 : 100 ≤ L) (hroom : f.cli.topdomain.length + 24 ≤ L)
    (pw dev : List Nat) (id ty : Nat) (name : List Nat) (he : Emitted f.cli f.args pw dev id ty name) :
    QueryLegal L f.cli.topdomain id ty name :=
  client_queries_legal_partial L f.cli f.args pw dev (client_main_establishes_ClientCfgOk env argv f h L hL h100 hroom) id ty name he

/-- … and the datagram built for it is a strictly well-formed query -/
theorem client_datagrams_wellformed_from_main (env : Env) (argv : List (List Nat)) (f : Final) (h : Top.CStarts env argv f)
    (L : Nat) (hL : f.cli.hostnameMaxlen = (L : Int)) (h100 : 100 ≤ L) (hroom : f.cli.topdomain.length + 24 ≤ L)
    (pw dev : List Nat) (id ty : Nat) (name : List Nat) (he : Emitted f.cli f.args pw dev id ty name) :
    WellFormedQuery id ty name :=
  client_datagrams_wellformed L f.cli f.args pw dev (client_main_establishes_ClientCfgOk env argv f h L hL h100 hroom) id ty name he

/-- **client_queries_legal_default.**  Without `-M` (hostname_maxlen is still 255): no hypothesis left. -/
theorem client_queries_legal_default (env : Env) (argv : List (List Nat)) (f : Final) (h : Top.CStarts env argv f)
    (hM : f.cli.hostnameMaxlen = 255) (pw dev : List Nat) (id ty : Nat) (name : List Nat)
    (he : Emitted f.cli f.args pw dev id ty name) : QueryLegal 255 f.cli.topdomain id ty name :=
  client_queries_legal_partial 255 f.cli f.args pw dev (client_main_default_maxlen env argv f h hM) id ty name he

/-- the start of such sessions exists: the handshake machine's first output for the example command line emits a query
(type NULL probe of the autodetection … or the version request) -/
example : ((clientMain exEnv exArgvCli).final.map fun f =>
    ((hsStart f.cli f.args (Top.cpw f) [100, 110, 115, 48]).2.1.any fun e => match e with | .query _ _ _ => true | _ => false))
    = some true := by decide +kernel

end Iodine.C08
