import IodineModel.Props.C02b
import IodineModel.Lemmas.C02rC1
import IodineModel.Lemmas.C02rD7
import IodineModel.Lemmas.C02rU6
import IodineModel.Lemmas.C02rU10
import IodineModel.Lemmas.C02rG5
import IodineModel.Lemmas.C02rG6
import IodineModel.Lemmas.C02rG7
import IodineModel.Lemmas.C02rG8
import IodineModel.Lemmas.C02t7
import IodineModel.Lemmas.C02rO9
import IodineModel.Lemmas.C02rO10
import IodineModel.Lemmas.C02rA8
/-
C02, phase 3 — "after a period of loss … once the path behaves again packets are delivered again within a bounded time":
the fully quantified form for the fault class ONE-DIRECTION BLACKOUT, immediate mode, both directions.

(1) `blackout_then_clean_upstream`: from `Quiescent`, `k ≤ 5` packets offered to the client while every upstream datagram is
    lost, then any list of packets on the clean prompt path: exactly the first `lostUp k` are lost, all later ones arrive
    exactly once and in order, and the state is quiescent and in sync again.  For this the upstream clean-path chain
    (`srv_recv_mid/last`, `srv_tick_ack`, `mid_step`, `last_step`, `up_flight_run`, `up_packet_imm`, `up_sequence_imm`) and the
    desync chain (`desync_up_*`, `recovery_after_giveups`) were generalised from freshness slack 1 to every slack the counters'
    periods allow (`1 ≤ sl ≤ 21` data counter, `1 ≤ sp ≤ 999` ping seed): `QuiescentSlack P sl sp` (`Quiescent = QuiescentSlack 1 1`).
    The final state has slack `1 + 4k` / `1 + k` (it does not shrink again by itself in this formulation: see (5) in the
    report, renewal), and all UPSTREAM theorems apply to it.  `k ≤ 5` because each given-up packet burns 4 data-CMC values and
    the invariant covers 21 unseen ones (ring of 15, period 36); longer blackouts are the freshness counterexample of
    `Props/C02b.lean`.
    Lazy mode: the first give-up run is the same nine events (`C02L.test_giveup_up_lazy_1`), but the next query trips
    `send_query`'s "too few answers" test — `selecttimeout := 1`, then lazy mode off on the client only — so later runs differ;
    no theorem.
(2) the `d = 7` corner downstream: `desync_down_delivered7_*` (the "weird situation" clause; needs the client's reassembly
    buffer empty), hence `recovery_after_giveups_down_*` without `_partial`.  FINDING: quiescence does not imply the buffer is
    empty, and with `inpkt.fragment = 0 ∧ inpkt.len ≠ 0` at `d = 7` the client SPLICES the old fragment 0 and the new packet's
    fragment 1 into a frame that was never offered (`C02L.stale_fragment0_reachable`: reachable from the demo session by a
    downstream blackout that starts after fragment 0 of a longer packet arrived; with real zlib: a lost packet).
    Upstream: `desync7_up_multi` (the false acknowledgement for multi-fragment packets: the server assembles a CHIMERA of its stale
    buffer and the new packet minus its first fragment; what reaches tun is stated exactly, `junkUp (chimeraUp …)`),
    `desync_false_ack_immediate`, `recovery_after_giveups_full`.
(3) `giveup_run_downstream`, `giveup_runs_downstream`, `blackout_then_clean_downstream(_nopoll)`.
(4) `clean_path_two_simultaneous_offers_lazy`: overlapping transfers in lazy mode, all fragment counts, both offer orders.
(5) `ring_wellformedness_invariant` (every event), `freshness_renewal_world`, `freshness_renewal_after_fault_prefix`: after any
    fault prefix that ends quiescent and in sync, with no collision among the next 15 data-CMC values, fifteen one-fragment
    packets re-establish `Quiescent`.  Not covered: the ping half (`PAged … 1` is a hypothesis), multi-fragment packets during
    renewal, the general "a collision costs one timeout" flow, `d ≤ 3` desynchronised starts.
-/
set_option linter.unusedVariables false

namespace Iodine.C02
open Iodine Iodine.World Iodine.C02L
open Iodine.Server (getUser ipDst Session)

/-- quiescent and in sync, with freshness slacks `sl` (data-CMC counter) and `sp` (ping seed): the client may have sent
`sl − 1` data queries and `sp − 1` pings that the server never saw -/
abbrev QuiescentSlack (P : C02L.Par) (sl sp : Nat) (w : W) : Prop := C02L.QuietImmS P sl sp w

theorem quiescentSlack_one {P : C02L.Par} {w : W} : QuiescentSlack P 1 1 w ↔ Quiescent P w := Iff.rfl

/-- **the clean path upstream from ANY admissible slack** (the generalisation behind (1)): a sequence of acceptable frames
arrives exactly once, in order; the slack is kept. -/
theorem clean_path_sequence_upstream_immediate_slack {P : C02L.Par} (hP : Params P) (fuel : Nat) (hfuel : 33 ≤ fuel) {sl sp : Nat}
    (frames : List (List Nat)) (w : W) (hq : QuiescentSlack P sl sp w)
    (hok : ∀ f ∈ frames, AcceptableUp P (Server.getUser w.srv P.u).tunIp f) (hsl : 1 ≤ sl ∧ sl ≤ 21) :
    QuiescentSlack P sl sp (offerAllC P.u fuel w frames) ∧
    (offerAllC P.u fuel w frames).tunS = w.tunS ++ frames.map tunImage ∧
    (offerAllC P.u fuel w frames).tunC = w.tunC :=
  C02L.up_sequence_imm hP fuel hfuel frames w hq hok hsl

/-- **blackout_then_clean_upstream** (THEOREM; immediate mode).  `lostFrames`: the `k ≤ 5` packets offered during the upstream
blackout (`C02L.giveupRunUp`: offer, nine events of `blackoutEvUp`, repeat; 4 s each, which must fit into both 60 s limits);
`frames`: the packets offered afterwards on the clean prompt path.  Exactly `frames.drop (lostUp k)` arrive, exactly once
and in order, nothing else is written to either tun device; quiescent and in sync with slack `1 + 4k`, `1 + k`.
(`hfr`: for `k ≥ 4` the server's last fragment number must be ≥ 1 — otherwise the packet that reuses the server's number is
falsely acknowledged, `desync_false_ack`.) -/
theorem blackout_then_clean_upstream {P : C02L.Par} (hP : Params P) (fuel : Nat) (hfuel : 33 ≤ fuel) {w : W} (hq : Quiescent P w)
    (lostFrames : List (List Nat)) (hk : lostFrames.length ≤ 5)
    (hlf : ∀ f ∈ lostFrames, f ≠ [] ∧ f.length < 65536 ∧ Codec.Bytes f)
    (hc : ¬ w.cs.c.lastdownstreamtime + 60 < w.cs.c.now + 4 * lostFrames.length)
    (hs : w.srv.now + 4 * lostFrames.length < (Server.getUser w.srv P.u).lastPkt + 60)
    (hfr : lostFrames.length ≤ 3 ∨ 1 ≤ (Server.getUser w.srv P.u).inpacket.fragment)
    (frames : List (List Nat)) (hok : ∀ f ∈ frames, AcceptableUp P (Server.getUser w.srv P.u).tunIp f) :
    (offerAllC P.u fuel (C02L.giveupRunUp lostFrames w) frames).tunS =
        w.tunS ++ (frames.drop (C02L.lostUp lostFrames.length)).map tunImage ∧
    (offerAllC P.u fuel (C02L.giveupRunUp lostFrames w) frames).tunC = w.tunC ∧
    (C02L.lostUp lostFrames.length < frames.length →
      QuiescentSlack P (1 + 4 * lostFrames.length) (1 + lostFrames.length)
        (offerAllC P.u fuel (C02L.giveupRunUp lostFrames w) frames)) :=
  C02L.blackout_then_clean_upstream_imm hP fuel hfuel hq lostFrames hk hlf hc hs hfr frames hok

/-- non-vacuity: the demo session after a two-fragment packet (`exW1`), FOUR packets given up during an upstream blackout,
then five packets on the clean path: only the fifth arrives; quiescent with slack 17 / 5 -/
example : (offerAllC 0 40 (C02L.giveupRunUp [C02L.fA 0, C02L.fA 1, C02L.fA 2, C02L.fA 3] exW1)
      [demoFrame 9 4, demoFrame 9 5, demoFrame 9 6, demoFrame 9 7, demoFrame 9 30]).tunS = [demoFrame 9 30, demoFrame 9 30] ∧
    QuiescentSlack exP 17 5 (offerAllC 0 40 (C02L.giveupRunUp [C02L.fA 0, C02L.fA 1, C02L.fA 2, C02L.fA 3] exW1)
      [demoFrame 9 4, demoFrame 9 5, demoFrame 9 6, demoFrame 9 7, demoFrame 9 30]) := by
  have hlf : ∀ f ∈ [C02L.fA 0, C02L.fA 1, C02L.fA 2, C02L.fA 3], f ≠ [] ∧ f.length < 65536 ∧ Codec.Bytes f := by
    intro f hf
    simp only [List.mem_cons, List.not_mem_nil, or_false] at hf
    rcases hf with rfl | rfl | rfl | rfl <;> exact ⟨by decide, by decide, by unfold Codec.Bytes; decide⟩
  have ht : ¬ exW1.cs.c.lastdownstreamtime + 60 < exW1.cs.c.now + 4 * 4 ∧
      exW1.srv.now + 4 * 4 < (Server.getUser exW1.srv exP.u).lastPkt + 60 := by decide +kernel
  have h := blackout_then_clean_upstream exP_ok 40 (by omega) ex_quiescent1.1 [C02L.fA 0, C02L.fA 1, C02L.fA 2, C02L.fA 3]
    (by decide) hlf ht.1 ht.2 (Or.inr ex_frag1) [demoFrame 9 4, demoFrame 9 5, demoFrame 9 6, demoFrame 9 7, demoFrame 9 30]
    (by intro f hf; rw [ex_quiescent1.2.1]; exact ex_up_frames f hf)
  have hl4 : C02L.lostUp 4 = 4 := by decide
  have hi : C02L.tunImage (demoFrame 9 30) = demoFrame 9 30 := by decide
  refine ⟨?_, h.2.2 (by show C02L.lostUp 4 < 5; rw [hl4]; decide)⟩
  have h1 := h.1
  rw [show ([C02L.fA 0, C02L.fA 1, C02L.fA 2, C02L.fA 3] : List (List Nat)).length = 4 from rfl, hl4] at h1
  exact h1.trans (by rw [ex_quiescent1.2.2.1]; show [demoFrame 9 30] ++ [C02L.tunImage (demoFrame 9 30)] = _; rw [hi]; rfl)

/-- **(2) downstream `d = 7`, the "weird situation"** (immediate mode): the new packet carries the client's CURRENT number; with the client's last fragment number 0 and an EMPTY reassembly buffer (`inpkt.len = 0`) `tunnel_dns` takes fragment 0 ("we probably got a no-data reply for this seqno"): delivered exactly once in the normal step count; in sync again. -/
theorem desync_down_delivered7_immediate :
    ∀ {P : Par} (hP : P.Ok) {w : W} (hq : QuietImmD P 0 7 w)
    (hfr : w.cs.c.inpkt.fragment = 0) (hlen0 : w.cs.c.inpkt.len = 0) (frame : List Nat)
    (hF : 0 < (Server.getUser w.srv P.u).fragsize)
    (hok : DownFrameOk (Server.getUser w.srv P.u).tunIp (Server.getUser w.srv P.u).fragsize frame)
    (hto : (Client.selectOf w.cs.c).to < 10000000)
    (hexp : ¬ w.cs.c.lastdownstreamtime + 60 < w.cs.c.now + ((Client.selectOf w.cs.c).to / 1000000).toNat)
    (hlive : w.srv.now + ((Client.selectOf w.cs.c).to / 1000000).toNat < (Server.getUser w.srv P.u).lastPkt + 60),
    ∃ w', promptSteps P.u (downSteps (downFrags (Server.getUser w.srv P.u).fragsize (frame.length + 1) (frame.length + 1)))
        (step w (.offerS frame)) = some w' ∧
      QuietImm P w' ∧ w'.tunC = w.tunC ++ [tunImage frame] ∧ w'.tunS = w.tunS ∧
      (Server.getUser w'.srv P.u).fragsize = (Server.getUser w.srv P.u).fragsize ∧
      (Server.getUser w'.srv P.u).tunIp = (Server.getUser w.srv P.u).tunIp ∧
      (Server.getUser w'.srv P.u).lastPkt = w'.srv.now ∧ w'.cs.c.lastdownstreamtime = w'.cs.c.now ∧
      w'.cs.c.selecttimeout = w.cs.c.selecttimeout ∧ w'.cs.c.sendPingSoon ≤ 5 :=
  @C02L.down_packet_imm_desync7_ok

/-- … the same in lazy mode. -/
theorem desync_down_delivered7_lazy :
    ∀ {P : Par} (hP : P.Ok) {w : W} (hq : QuietLazyD P 0 7 w)
    (hfr0 : w.cs.c.inpkt.fragment = 0) (hlen0 : w.cs.c.inpkt.len = 0) (frame : List Nat) (hF : 0 < (Server.getUser w.srv P.u).fragsize)
    (hok : DownFrameOk (Server.getUser w.srv P.u).tunIp (Server.getUser w.srv P.u).fragsize frame),
    ∃ w', promptSteps P.u (downStepsL w.cs.c.sendPingSoon
          (downFrags (Server.getUser w.srv P.u).fragsize (frame.length + 1) (frame.length + 1)))
        (step w (.offerS frame)) = some w' ∧
      QuietLazy P w' ∧ w'.cs.c.sendPingSoon = 0 ∧ w'.tunC = w.tunC ++ [tunImage frame] ∧ w'.tunS = w.tunS ∧
      (Server.getUser w'.srv P.u).fragsize = (Server.getUser w.srv P.u).fragsize ∧
      (Server.getUser w'.srv P.u).tunIp = (Server.getUser w.srv P.u).tunIp :=
  @C02L.down_packet_lazy_desync7_ok

/-- **recovery_after_giveups, downstream, immediate mode** (no longer partial): from a state desynchronised by `d`, the first `lostDown' d frag0` offered packets are lost — none for `d ≤ 3`; `8 − d` if the client's last fragment number is not 0, `7 − d` if it is 0 (then the packet that reuses the client's number is delivered through the weird-situation clause; needs the buffer empty) —, all later ones arrive exactly once, in order; `Quiescent` again. -/
theorem recovery_after_giveups_down_immediate :
    ∀ {P : Par} (hP : P.Ok) (fuel : Nat) (hfuel : 36 ≤ fuel),
    ∀ (frames : List (List Nat)) (d : Nat) (w : W), QuietImmD P 0 d w → d < 8 →
      (4 ≤ d → w.cs.c.inpkt.fragment = 0 → w.cs.c.inpkt.len = 0) →
      Roomy P w → w.cs.c.selecttimeout ≤ 9 → 0 < (Server.getUser w.srv P.u).fragsize →
      (∀ f ∈ frames, DownFrameOk (Server.getUser w.srv P.u).tunIp (Server.getUser w.srv P.u).fragsize f) →
      lostDown' d (decide (w.cs.c.inpkt.fragment = 0)) < frames.length →
      QuietImm P (offerAllS P.u fuel w frames) ∧
      (offerAllS P.u fuel w frames).tunC = w.tunC ++ (frames.drop (lostDown' d (decide (w.cs.c.inpkt.fragment = 0)))).map tunImage ∧
      (offerAllS P.u fuel w frames).tunS = w.tunS :=
  @C02L.recovery_after_giveups_down_imm

/-- … the same in lazy mode. -/
theorem recovery_after_giveups_down_lazy :
    ∀ {P : Par} (hP : P.Ok) (fuel : Nat) (hfuel : 33 ≤ fuel),
    ∀ (frames : List (List Nat)) (d : Nat) (w : W), QuietLazyD P 0 d w → d < 8 →
      (4 ≤ d → w.cs.c.inpkt.fragment = 0 → w.cs.c.inpkt.len = 0) →
      0 < (Server.getUser w.srv P.u).fragsize →
      (∀ f ∈ frames, DownFrameOk (Server.getUser w.srv P.u).tunIp (Server.getUser w.srv P.u).fragsize f) →
      lostDown' d (decide (w.cs.c.inpkt.fragment = 0)) < frames.length →
      QuietLazy P (offerAllS P.u fuel w frames) ∧
      (offerAllS P.u fuel w frames).tunC = w.tunC ++ (frames.drop (lostDown' d (decide (w.cs.c.inpkt.fragment = 0)))).map tunImage ∧
      (offerAllS P.u fuel w frames).tunS = w.tunS :=
  @C02L.recovery_after_giveups_down_lazy

/-- **(3) the give-up run DOWNSTREAM** (immediate mode): one packet offered to the server while every downstream datagram is lost (`blackoutEvDown`).  A one-fragment packet is forgotten as it is sent: 3 events (`tickC deliverUp dropDown`), `selecttimeout` seconds; a longer one is sent on six polls and dropped on the seventh: 21 events, `7·selecttimeout` seconds.  The client's `inpkt` never moves, the server is one number ahead; the freshness slacks do NOT grow (the polls arrive and are remembered).  `hne` excludes the case in which the client's polls look like acknowledgements (`C02L.giveup_run_down_imm_hne_needed`). -/
theorem giveup_run_downstream :
    ∀ {P : Par} (hP : P.Ok) {w : W} {du dd sl sp : Nat} (hq : QuietImmDS P du dd sl sp w)
    (frame : List Nat) (hF : 0 < (getUser w.srv P.u).fragsize) (h24 : 24 ≤ frame.length) (hl : frame.length < 65536)
    (hdst : ipDst frame = (getUser w.srv P.u).tunIp)
    (hsps : w.cs.c.sendPingSoon = 0) (hsel : w.cs.c.selecttimeout ≤ 9) (hsp1 : 1 ≤ sp) (hsp : sp ≤ 1000)
    (hne : downFrags (getUser w.srv P.u).fragsize (frame.length + 1) (frame.length + 1) = 1 ∨ (dd + 1) % 8 ≠ 0 ∨
      w.cs.c.inpkt.fragment ≠ 0)
    (hc : ¬ w.cs.c.lastdownstreamtime + 60 < w.cs.c.now +
      rGpolls (downFrags (getUser w.srv P.u).fragsize (frame.length + 1) (frame.length + 1)) * w.cs.c.selecttimeout.toNat)
    (hs : w.srv.now + w.cs.c.selecttimeout.toNat < (getUser w.srv P.u).lastPkt + 60),
    DownGaveUp P w.cs.c.selecttimeout.toNat w
      (runSched blackoutEvDown (dropSteps (downFrags (getUser w.srv P.u).fragsize (frame.length + 1) (frame.length + 1)))
        (step w (.offerS frame)))
      (rGpolls (downFrags (getUser w.srv P.u).fragsize (frame.length + 1) (frame.length + 1))) ∧
    QuietImmDS P du ((dd + 1) % 8) sl sp
      (runSched blackoutEvDown (dropSteps (downFrags (getUser w.srv P.u).fragsize (frame.length + 1) (frame.length + 1)))
        (step w (.offerS frame))) :=
  @C02L.giveup_run_down_imm

/-- … iterated over `k` offered packets. -/
theorem giveup_runs_downstream :
    ∀ {P : Par} (hP : P.Ok) (F : Nat) (hF : 0 < F) (frames : List (List Nat)),
    ∀ {w : W} {du dd sl sp : Nat}, QuietImmDS P du dd sl sp w → (getUser w.srv P.u).fragsize = F →
    (∀ f ∈ frames, 24 ≤ f.length ∧ f.length < 65536 ∧ ipDst f = (getUser w.srv P.u).tunIp) →
    w.cs.c.sendPingSoon = 0 → w.cs.c.selecttimeout ≤ 9 → 1 ≤ sp → sp ≤ 1000 →
    (w.cs.c.inpkt.fragment ≠ 0 ∨ dd % 8 + frames.length ≤ 7 ∨ ∀ f ∈ frames, downFrags F (f.length + 1) (f.length + 1) = 1) →
    ¬ w.cs.c.lastdownstreamtime + 60 < w.cs.c.now + rGpollsAll F frames * w.cs.c.selecttimeout.toNat →
    w.srv.now + w.cs.c.selecttimeout.toNat < (getUser w.srv P.u).lastPkt + 60 →
    DownGaveUpN P w.cs.c.selecttimeout.toNat w (giveupRunDown F frames w) (rGpollsAll F frames) frames.length ∧
    QuietImmDS P du ((dd + frames.length) % 8) sl sp (giveupRunDown F frames w) :=
  @C02L.giveup_runs_down_imm

/-- **blackout_then_clean_downstream** (immediate mode, ONE theorem): from `Quiescent`, `k ≤ 7` packets offered to the server during a downstream blackout, then one idle poll on the clean path (it resynchronises the client for `k ≤ 4`), then any packets: exactly the first `rGlostAfter k` (0 for `k ≤ 4`, else `8 − k`) are lost, the others arrive exactly once and in order; `Quiescent` again. -/
theorem blackout_then_clean_downstream :
    ∀ {P : Par} (hP : P.Ok) (fuel : Nat) (hfuel : 36 ≤ fuel) (F : Nat) (hF : 0 < F)
    (bl lost rest : List (List Nat)) (w : W) (hq : QuietImm P w) (hFw : (getUser w.srv P.u).fragsize = F)
    (hbl : ∀ f ∈ bl, 24 ≤ f.length ∧ f.length < 65536 ∧ ipDst f = (getUser w.srv P.u).tunIp)
    (hok : ∀ f ∈ lost ++ rest, DownFrameOk (getUser w.srv P.u).tunIp F f)
    (hsps : w.cs.c.sendPingSoon = 0) (hsel : w.cs.c.selecttimeout ≤ 9) (hk : 1 ≤ bl.length ∧ bl.length ≤ 7)
    (hlost : lost.length = rGlostAfter bl.length) (hfr : 5 ≤ bl.length → w.cs.c.inpkt.fragment ≠ 0)
    (hc : ¬ w.cs.c.lastdownstreamtime + 60 < w.cs.c.now + (rGpollsAll F bl + 1) * w.cs.c.selecttimeout.toNat)
    (hs : w.srv.now + w.cs.c.selecttimeout.toNat < (getUser w.srv P.u).lastPkt + 60),
    QuietImm P (offerAllS P.u fuel (run (giveupRunDown F bl w) [.tickC, .deliverUp, .deliverDown]) (lost ++ rest)) ∧
    (offerAllS P.u fuel (run (giveupRunDown F bl w) [.tickC, .deliverUp, .deliverDown]) (lost ++ rest)).tunC =
      w.tunC ++ rest.map tunImage ∧
    (offerAllS P.u fuel (run (giveupRunDown F bl w) [.tickC, .deliverUp, .deliverDown]) (lost ++ rest)).tunS = w.tunS :=
  @C02L.blackout_then_clean_downstream_imm

/-- … without the idle poll (a packet is offered before the client polls): 4 given-up packets cost the next 4. -/
theorem blackout_then_clean_downstream_nopoll :
    ∀ {P : Par} (hP : P.Ok) (fuel : Nat) (hfuel : 36 ≤ fuel) (F : Nat) (hF : 0 < F)
    (bl lost rest : List (List Nat)) (w : W) (hq : QuietImm P w) (hFw : (getUser w.srv P.u).fragsize = F)
    (hbl : ∀ f ∈ bl, 24 ≤ f.length ∧ f.length < 65536 ∧ ipDst f = (getUser w.srv P.u).tunIp)
    (hok : ∀ f ∈ lost ++ rest, DownFrameOk (getUser w.srv P.u).tunIp F f)
    (hsps : w.cs.c.sendPingSoon = 0) (hsel : w.cs.c.selecttimeout ≤ 9) (hk : 1 ≤ bl.length ∧ bl.length ≤ 7)
    (hlost : lost.length = if bl.length ≤ 3 then 0 else 8 - bl.length) (hne : lost ++ rest ≠ [])
    (hfr : 4 ≤ bl.length → w.cs.c.inpkt.fragment ≠ 0)
    (hc : ¬ w.cs.c.lastdownstreamtime + 60 < w.cs.c.now + (rGpollsAll F bl + 1) * w.cs.c.selecttimeout.toNat)
    (hs : w.srv.now + w.cs.c.selecttimeout.toNat < (getUser w.srv P.u).lastPkt + 60),
    QuietImm P (offerAllS P.u fuel (giveupRunDown F bl w) (lost ++ rest)) ∧
    (offerAllS P.u fuel (giveupRunDown F bl w) (lost ++ rest)).tunC = w.tunC ++ rest.map tunImage ∧
    (offerAllS P.u fuel (giveupRunDown F bl w) (lost ++ rest)).tunS = w.tunS :=
  @C02L.blackout_then_clean_downstream_imm_nopoll

/-- **(2) upstream `d = 7`, the server's last fragment number 0, a packet of `g ≥ 2` fragments** (immediate mode).  Fragment 0 is dropped as a repeat but FALSELY ACKNOWLEDGED (the server's own numbers are the ack the client waits for); fragments 1… are taken as continuation and appended to whatever the server's reassembly buffer holds below its write offset (`BufOk`: `len = offset ≤ data.length`); at the last fragment `handle_full_packet` uncompresses the CHIMERA `chimeraUp` = old buffer prefix ++ the new packet minus its first fragment.  Exactly `junkUp chimera` is written to the server's tun device: nothing if it does not uncompress (in the model: does not start with the `0x5a` marker) or is shorter than 24 bytes, else ONE frame that nobody sent.  Normal `2·g + 1` steps, no resend; `Quiescent` and in sync afterwards; the client believes its packet delivered. -/
theorem desync7_up_multi :
    ∀ {P : Par} (hP : P.Ok) {w : W} (hq : QuietImmD P 7 0 w)
    (h0 : (Server.getUser w.srv P.u).inpacket.fragment = 0) (hbuf : BufOk (Server.getUser w.srv P.u).inpacket)
    (frame : List Nat) (hne : frame ≠ []) (hl : frame.length < 65536) (hb : Codec.Bytes frame)
    (hmulti : fragLen P (0x5a :: frame) < (0x5a :: frame).length)
    (hg16 : upFrags P (frame.length + 1) (0x5a :: frame) ≤ 16)
    (hok : ChimeraOk P (Server.getUser w.srv P.u).inpacket (Server.getUser w.srv P.u).tunIp frame),
    ∃ w', promptSteps P.u (2 * upFrags P (frame.length + 1) (0x5a :: frame) + 1) (step w (.offerC frame)) = some w' ∧
      QuietImm P w' ∧
      w'.tunS = w.tunS ++ junkUp (chimeraUp P (Server.getUser w.srv P.u).inpacket frame) ∧ w'.tunC = w.tunC ∧
      (Server.getUser w'.srv P.u).tunIp = (Server.getUser w.srv P.u).tunIp ∧
      (Server.getUser w'.srv P.u).fragsize = (Server.getUser w.srv P.u).fragsize ∧
      1 ≤ (Server.getUser w'.srv P.u).inpacket.fragment ∧ 2 ≤ upFrags P (frame.length + 1) (0x5a :: frame) :=
  @C02L.up_packet_imm_desync7_multi

/-- … with an EMPTY buffer (`len = offset = 0`, as after a delivered packet) and the byte after the first fragment not the marker: nothing is written, the packet is lost silently. -/
theorem desync7_up_multi_empty :
    ∀ {P : Par} (hP : P.Ok) {w : W} (hq : QuietImmD P 7 0 w)
    (h0 : (Server.getUser w.srv P.u).inpacket.fragment = 0)
    (hlen : (Server.getUser w.srv P.u).inpacket.len = 0) (hoff : (Server.getUser w.srv P.u).inpacket.offset = 0)
    (frame : List Nat) (hne : frame ≠ []) (hl : frame.length < 65536) (hb : Codec.Bytes frame)
    (hmulti : fragLen P (0x5a :: frame) < (0x5a :: frame).length)
    (hg16 : upFrags P (frame.length + 1) (0x5a :: frame) ≤ 16)
    (hmark : ((0x5a :: frame).drop (fragLen P (0x5a :: frame))).headD 0 ≠ 0x5a),
    ∃ w', promptSteps P.u (2 * upFrags P (frame.length + 1) (0x5a :: frame) + 1) (step w (.offerC frame)) = some w' ∧
      QuietImm P w' ∧ w'.tunS = w.tunS ∧ w'.tunC = w.tunC ∧
      (Server.getUser w'.srv P.u).tunIp = (Server.getUser w.srv P.u).tunIp ∧
      (Server.getUser w'.srv P.u).fragsize = (Server.getUser w.srv P.u).fragsize :=
  @C02L.up_packet_imm_desync7_multi_empty

/-- … and the one-fragment packet in immediate mode (cf. `desync_false_ack` for lazy mode): lost silently in 2 steps. -/
theorem desync_false_ack_immediate :
    ∀ {P : Par} (hP : P.Ok) {w : W} (hq : QuietImmD P 7 0 w)
    (h0 : (Server.getUser w.srv P.u).inpacket.fragment = 0) (frame : List Nat)
    (hne : frame ≠ []) (hl : frame.length < 65536) (hb : Codec.Bytes frame)
    (hone : fragLen P (0x5a :: frame) = (0x5a :: frame).length),
    ∃ w', promptSteps P.u 2 (step w (.offerC frame)) = some w' ∧ QuietImm P w' ∧
      w'.tunS = w.tunS ∧ w'.tunC = w.tunC ∧
      (Server.getUser w'.srv P.u).inpacket = (Server.getUser w.srv P.u).inpacket ∧
      (Server.getUser w'.srv P.u).tunIp = (Server.getUser w.srv P.u).tunIp ∧
      (Server.getUser w'.srv P.u).fragsize = (Server.getUser w.srv P.u).fragsize ∧
      w'.srv.now = w.srv.now :=
  @C02L.up_packet_imm_desync_false_ack

/-- **recovery_after_giveups, upstream, immediate mode, WITHOUT the hypothesis on the server's last fragment number**: the frames delivered are `frames.drop (lostUp d)`, preceded by `junkAt` — the one chimera frame of `desync7_up_multi` if the packet that reuses the server's number has several fragments and the chimera uncompresses, else nothing (`C02L.junkAt_nil_of_empty`: nothing when the buffer is empty and the byte after the first fragment is not the marker). -/
theorem recovery_after_giveups_full :
    ∀ {P : Par} (hP : P.Ok) (fuel : Nat) (hfuel : 33 ≤ fuel),
    ∀ (frames : List (List Nat)) (d : Nat) (w : W), QuietImmD P d 0 w → d < 8 →
      (∀ f ∈ frames, UpFrameOk P (Server.getUser w.srv P.u).tunIp f) →
      (4 ≤ d → (Server.getUser w.srv P.u).inpacket.fragment = 0 →
        BufOk (Server.getUser w.srv P.u).inpacket ∧
        ∀ f, frames[7 - d]? = some f → fragLen P (0x5a :: f) < (0x5a :: f).length →
          ChimeraOk P (Server.getUser w.srv P.u).inpacket (Server.getUser w.srv P.u).tunIp f) →
      (offerAllC P.u fuel w frames).tunS =
        w.tunS ++ junkAt P (Server.getUser w.srv P.u).inpacket d frames ++ (frames.drop (lostUp d)).map tunImage ∧
      (offerAllC P.u fuel w frames).tunC = w.tunC ∧
      (lostUp d < frames.length → QuietImm P (offerAllC P.u fuel w frames)) :=
  @C02L.recovery_after_giveups_up_imm_full

/-- … `desync7_up_multi` in lazy mode. -/
theorem desync7_up_multi_lazy :
    ∀ {P : Par} (hP : P.Ok) {w : W} (hq : QuietLazyD P 7 0 w)
    (h0 : (Server.getUser w.srv P.u).inpacket.fragment = 0) (hbuf : BufOk (Server.getUser w.srv P.u).inpacket)
    (frame : List Nat) (hne : frame ≠ []) (hl : frame.length < 65536) (hb : Codec.Bytes frame)
    (hmulti : fragLen P (0x5a :: frame) < (0x5a :: frame).length)
    (hg16 : upFrags P (frame.length + 1) (0x5a :: frame) ≤ 16)
    (hok : ChimeraOk P (Server.getUser w.srv P.u).inpacket (Server.getUser w.srv P.u).tunIp frame),
    ∃ w', promptSteps P.u (2 * upFrags P (frame.length + 1) (0x5a :: frame) + 1) (step w (.offerC frame)) = some w' ∧
      QuietLazy P w' ∧
      w'.tunS = w.tunS ++ junkUp (chimeraUp P (Server.getUser w.srv P.u).inpacket frame) ∧ w'.tunC = w.tunC ∧
      (Server.getUser w'.srv P.u).tunIp = (Server.getUser w.srv P.u).tunIp ∧
      (Server.getUser w'.srv P.u).fragsize = (Server.getUser w.srv P.u).fragsize :=
  @C02L.up_packet_lazy_desync7_multi

/-- the chimera really is delivered (theorem-level witness on a demo state whose server buffer still holds fragment 0 of an
abandoned packet; the same happens on a state reached by the executable model from `exW` through an upstream blackout that
starts after fragment 0 of a three-fragment packet arrived — `#eval` run in the report) -/
example := @C02L.desync7_chimera_delivered

/-- **(4) TWO SIMULTANEOUS OFFERS in opposite directions, lazy mode** (THEOREM; every pair of acceptable frames, `gu, gd ≤ 16` fragments, either offer order): a packet offered on each side before anything is delivered — both arrive exactly once, nothing else is written to either tun device, quiescent again; the run and its end state do not depend on the order of the two offers.  (The step count `n` is existential; by hand `n ≤ 2·gu + 2·gd + 5`.)  With `clean_path_exactly_once_in_order_lazy` this removes "one after the other" for two simultaneous offers. -/
theorem clean_path_two_simultaneous_offers_lazy :
    ∀ {P : Par} (hP : C02.Params P) {w : W} (hq : C02.QuiescentLazy P w)
    (fu fd : List Nat) (hu : C02.AcceptableUp P (Server.getUser w.srv P.u).tunIp fu)
    (hd : C02.AcceptableDown (Server.getUser w.srv P.u).tunIp (Server.getUser w.srv P.u).fragsize fd)
    (hF : 0 < (Server.getUser w.srv P.u).fragsize),
    ∃ n w', (∀ fuel, n ≤ fuel → runPromptCount P.u fuel (step (step w (.offerC fu)) (.offerS fd)) 0 = (w', n)) ∧
      (∀ fuel, n ≤ fuel → runPromptCount P.u fuel (step (step w (.offerS fd)) (.offerC fu)) 0 = (w', n)) ∧
      (∀ fuel, n ≤ fuel → runPrompt P.u fuel (step (step w (.offerC fu)) (.offerS fd)) = w') ∧
      (∀ fuel, n ≤ fuel → runPrompt P.u fuel (step (step w (.offerS fd)) (.offerC fu)) = w') ∧
      C02.QuiescentLazy P w' ∧ w'.tunS = w.tunS ++ [tunImage fu] ∧ w'.tunC = w.tunC ++ [tunImage fd] :=
  @C02L.clean_path_two_simultaneous_offers_lazy

/-- **(5) ring well-formedness is an invariant of EVERY event** (all 13 kinds, every handler of the server, all 16 slots). -/
theorem ring_wellformedness_invariant {w : W} (h : C02L.SrvWF w.srv) (e : Ev) : C02L.SrvWF (step w e).srv :=
  C02L.srvWF_step h e

/-- **(5) World-level renewal, the bridge from a fault prefix to the clean-path theorems**: from a state that is quiescent and in sync except for freshness (`QuietBut`), with well-formed rings, whose memories do not collide with the next `frames.length ≥ 15` data-CMC values (`FreshNext`, ring-aware), and with `PAged … 1`: fifteen one-fragment packets on the clean prompt path are all delivered exactly once and in order, and afterwards `Quiescent` holds again — from then on every clean-path theorem applies. -/
theorem freshness_renewal_world :
    ∀ {P : Par} (hP : P.Ok) (fuel : Nat) (hfuel : 3 ≤ fuel) (frames : List (List Nat)) (w : W)
    (hq : QuietBut P w) (hwf : RingWF (Server.getUser w.srv P.u))
    (hfr : FreshNext P (Server.getUser w.srv P.u) w.cs.c.datacmc frames.length) (h15 : 15 ≤ frames.length)
    (hok : ∀ f ∈ frames, UpFrame1 P (Server.getUser w.srv P.u).tunIp f)
    (hp : PAged P (Server.getUser w.srv P.u) w.cs.c.randSeed 1),
    QuietImm P (offerAllC P.u fuel w frames) ∧
    (offerAllC P.u fuel w frames).tunS = w.tunS ++ frames.map tunImage ∧ (offerAllC P.u fuel w frames).tunC = w.tunC :=
  @C02L.renewed_quietImm_rA

/-- … the same after ANY schedule `prefix_` of events (drops, duplicates, reordering, …) from a state with well-formed rings: well-formedness is discharged by `ring_wellformedness_invariant`; what remains to be assumed about the state the prefix ends in is exactly `QuietBut` (both sides idle, numbers in sync, within the 60 s) and `FreshNext`; the conclusion is `QuietBut` plus `Aged … 1` (add `PAged … 1`, which data packets preserve, for `Quiescent`). -/
theorem freshness_renewal_after_fault_prefix :
    ∀ {P : Par} (hP : P.Ok) (fuel : Nat) (hfuel : 3 ≤ fuel) (frames : List (List Nat)) (w0 : W)
    (hw0 : SrvWF w0.srv) (prefix_ : List Ev)
    (hq : QuietBut P (run w0 prefix_))
    (hfr : FreshNext P (Server.getUser (run w0 prefix_).srv P.u) (run w0 prefix_).cs.c.datacmc frames.length)
    (h15 : 15 ≤ frames.length) (hok : ∀ f ∈ frames, UpFrame1 P (Server.getUser (run w0 prefix_).srv P.u).tunIp f),
    QuietBut P (offerAllC P.u fuel (run w0 prefix_) frames) ∧
    Aged P (Server.getUser (offerAllC P.u fuel (run w0 prefix_) frames).srv P.u)
      (offerAllC P.u fuel (run w0 prefix_) frames).cs.c.datacmc 1 ∧
    (offerAllC P.u fuel (run w0 prefix_) frames).tunS = (run w0 prefix_).tunS ++ frames.map tunImage ∧
    (offerAllC P.u fuel (run w0 prefix_) frames).tunC = (run w0 prefix_).tunC :=
  @C02L.renewed_after_run_rA

/-- non-vacuity of the bridge: the state after the freshness counterexample's mishandled packet (`C02L.qaWD`) satisfies the
hypotheses, and fifteen packets later `Quiescent` holds again (no evaluation of the 60-event run) -/
example := @C02L.qa_bridge

/-- the finding of (2), kernel-evaluated: from the demo session a downstream blackout that starts after fragment 0 of a
five-fragment packet arrived leaves the client quiescent with `inpkt = (seqno 1, fragment 0, len 30)` and the server 7 ahead;
the next packet offered is delivered as a frame that was never offered (old fragment 0 ++ new fragment 1) -/
example : quiet 0 C02L.exReach = true ∧ C02L.exReach.cs.c.inpkt.fragment = 0 ∧ C02L.exReach.cs.c.inpkt.len = 30 ∧
    (runPrompt 0 40 (step C02L.exReach (.offerS (demoFrame 2 31)))).tunC = [(demoFrame 2 100).take 29 ++ (demoFrame 2 31).drop 29] :=
  ⟨C02L.stale_fragment0_reachable.1, C02L.stale_fragment0_reachable.2.2.2.2.1, C02L.stale_fragment0_reachable.2.2.2.2.2.1,
    C02L.stale_fragment0_reachable.2.2.2.2.2.2.2.2.1⟩

/-- quiescence does not imply an empty reassembly buffer -/
example : ∃ w, Quiescent exP w ∧ w.cs.c.inpkt.fragment = 0 ∧ w.cs.c.inpkt.len ≠ 0 := C02L.quiet_not_len_zero.1

end Iodine.C02
