import IodineModel.Props.C12
import IodineModel.Props.C13
import IodineModel.Lemmas.HsSys
import IodineModel.Lemmas.HsRef
/-
C06 — the client survives arbitrary replies (memory safety, termination).  PARTIAL.

What is PROVED here (re-stating, under this property's name, theorems established in the files of C12 and C13, so that a change which breaks
one of them breaks this property's obligations):

* the receive path of EVERY reply — `dns_decode(QR_ANSWER)` for every record type (oversized RDLENGTH, 250+ MX/SRV records, odd preferences,
  bad TXT chunking, compression loops), `readname`, `readtxtbin` — never reads outside the 64 KiB receive buffer, never writes outside
  `name[256]`, `rdata[4096]`, `names[250][256]` or the caller's buffer (of at least one byte: the client passes 4096 / 64 KiB), and terminates;
  reads go through a checked accessor, so this is not true by totalisation;
* what is decoded depends on the reply's own bytes only;
* the login reply — the only reply whose text reaches the operating system — causes at most two commands, made of validated text only.

What is NOT proved and is covered only by the sanitizer-instrumented world runs (harness/h_cli, ASan + UBSan, hostile path generators):
the handshake parsers beyond the login step, the tunnel phase's reassembly (`tunnel_dns`; its Lean model is in Client/*, the theorems about it
are listed under C01/C02), undefined behaviour of kinds the model does not represent, libc/zlib internals.
-/
namespace Iodine.C06
open Iodine

/-- `dns_decode(buf, buflen, q, QR_ANSWER, packet, r)` on ANY datagram that fits the receive buffer, for every caller buffer of at least one
byte: no out-of-bounds read or write, terminates. -/
theorem answer_decode_no_fault (b : Wire.RxBuf) (h : b.pkt.size ≤ b.cap) (buflen : Nat) (hb : 1 ≤ buflen) :
    ∃ r, Wire.dnsDecodeAnswer buflen b = Except.ok r :=
  C12.dns_decode_answer_no_fault b h buflen hb

/-- the only fault the answer decoder can ever produce is the write into an EMPTY caller buffer (no caller passes one) -/
theorem answer_decode_fault_only_empty_buf (b : Wire.RxBuf) (h : b.pkt.size ≤ b.cap) (buflen : Nat) (f : Wire.Fault)
    (hf : Wire.dnsDecodeAnswer buflen b = Except.error f) : buflen = 0 ∧ f = Wire.Fault.oobWrite :=
  C12.dns_decode_answer_fault_only_empty_buf b h buflen f hf

/-- TXT strings: never read beyond `srcremain`, never write beyond `dstremain` -/
theorem readtxtbin_no_fault (b : Wire.RxBuf) (h : b.pkt.size ≤ b.cap) (src srcremain dstremain : Nat) (hs : src + srcremain ≤ b.pkt.size) :
    ∃ rv src' out, Wire.readtxtbin b src srcremain dstremain = Except.ok (rv, src', out) ∧ rv ≤ out.length ∧ out.length ≤ dstremain :=
  C12.readtxtbin_no_fault b h src srcremain dstremain hs

/-- a reply is interpreted from its own bytes only -/
theorem answer_decode_own_bytes_only (pkt r₁ r₂ : Array Nat) (cap buflen : Nat) :
    Wire.dnsDecodeAnswer buflen (C12.rx pkt r₁ cap) = Wire.dnsDecodeAnswer buflen (C12.rx pkt r₂ cap) :=
  C12.dns_decode_answer_residue_indep pkt r₁ r₂ cap buflen

/-- the login reply runs at most two commands … -/
theorem login_reply_at_most_two_commands (dev reply : List Nat) (sysret : Int) :
    (Client.Shell.loginStep dev reply sysret).commands.length ≤ 2 :=
  C13.at_most_two_commands dev reply sysret

/-- … each made of the fixed prefix, the local device name, validated dotted quads and a ranged integer -/
theorem login_reply_commands_validated (dev reply : List Nat) (sysret : Int) (hd : dev.length ≤ 430) (cmd : List Nat)
    (hc : cmd ∈ (Client.Shell.loginStep dev reply sysret).commands) : C13.IpCmd dev cmd ∨ C13.MtuCmd dev cmd :=
  C13.shell_args_are_quads_and_ranged_ints dev reply sysret hd cmd hc

/-- non-vacuity: an MX answer decoded into the 4-byte buffer `get_external_ip` passes — no fault (this faulted before the repair of the
join loop) -/
example : ∃ r, Wire.dnsDecodeAnswer 4 (C12.rx C12.answerMx2 #[] 65536) = Except.ok r :=
  answer_decode_no_fault _ (by decide) 4 (by decide)

/-! ### the handshake (step machine `Client/Handshake.lean`, diffed line by line against the real `client_handshake()`)

"Termination" for the handshake: whatever arrives — any replies, fitting or not, hostile or genuine, any timeouts, in any order — the
handshake returns; no reply can wedge it or make it start over.  And the only replies whose text reaches the operating system are login
replies, through the validated path of C13. -/

/-- the handshake machine started by `client_handshake(dns_fd, raw_mode, autodetect_frag_size, fragsize)` in static state `c` and driven by
the inputs `inps` (what each `select` returned) -/
def handshakeRun (c : Client.Cli) (args : Client.HsArgs) (pw dev : List Nat) (inps : List Client.CInput) : Client.HState :=
  inps.foldl (fun s i => (Client.hstep s i).1) (Client.hsStart c args pw dev).1

/-- the machine in state `s` driven by inputs -/
def handshakeStepRun (s : Client.HState) (inps : List Client.CInput) : Client.HState :=
  inps.foldl (fun s i => (Client.hstep s i).1) s

/-- number of `select` timeouts in an input sequence -/
def ticks (inps : List Client.CInput) : Nat :=
  (inps.filter fun i => match i with | .tick => true | _ => false).length

/-- an input that is a datagram on the DNS socket -/
def IsReply (i : Client.CInput) : Prop := (∃ q, i = .rq q) ∨ (∃ b, i = .rawans b)

/-- **No wedge, step form.**  There is a measure on the states of the handshake machine which is at most 162 when `client_handshake` is
entered, is 0 exactly when the handshake has returned, and for EVERY state `s` in which the handshake is running and EVERY input:
either the step lowers the measure strictly, or the input was a datagram that `handshake_waitdns` ignores — and then nothing but the
receive buffer `in[]` has changed, nothing was sent and the thread waits in the same `select` again.  A timeout always lowers it. -/
theorem handshake_no_wedge :
    ∃ μ : Client.HState → Nat,
      (∀ c args pw dev, μ (Client.hsStart c args pw dev).1 ≤ 162) ∧
      (∀ s, μ s = 0 ↔ s.pos = none) ∧
      (∀ s inp, s.pos ≠ none →
        μ (Client.hstep s inp).1 < μ s ∨
        (IsReply inp ∧ Client.hstep s inp = ({ s with inb := (Client.hstep s inp).1.inb }, [], Client.hpending s))) ∧
      (∀ s, s.pos ≠ none → μ (Client.hstep s .tick).1 < μ s) := by
  refine ⟨fun s => Client.posRank s.pos, ?_, ?_, ?_, ?_⟩
  · intro c args pw dev
    exact Client.orank_hsStart c args pw dev
  · intro s
    cases h : s.pos <;> simp [h, Client.posRank]
  · intro s inp hs
    cases hp : s.pos with
    | none => exact absurd hp hs
    | some p =>
      rcases Client.hstep_progress_or_ignored s inp p hp with h | ⟨h1, h2⟩
      · left
        show Client.posRank (Client.hstep s inp).1.pos < Client.posRank s.pos
        rw [hp]
        show _ < Client.hsRank p + 1
        unfold Client.orank at h
        omega
      · right
        refine ⟨?_, ?_⟩
        · cases inp with
          | rq q => exact Or.inl ⟨q, rfl⟩
          | rawans b => exact Or.inr ⟨b, rfl⟩
          | tun f => simp [Client.isTimeoutInput] at h1
          | tick => simp [Client.isTimeoutInput] at h1
        · rw [h2]; simp [Client.hpending, hp]
  · intro s hs
    cases hp : s.pos with
    | none => exact absurd hp hs
    | some p =>
      have := Client.hstep_timeout_progress s .tick p hp rfl
      show Client.posRank (Client.hstep s .tick).1.pos < Client.posRank s.pos
      rw [hp]
      show _ < Client.hsRank p + 1
      unfold Client.orank at this
      omega

/-- **`handshake_terminates`.**  From the entry of `client_handshake`, for EVERY input sequence — any answers, any timeouts, in any
order: once 162 `select` timeouts have occurred the handshake has returned (`pos = none`: it returned a value or called `errx`).  So the
handshake cannot consume more than 162 timeouts, i.e. (every timeout being at most 5 s, plus `sleep(1)` per SERVFAIL) it cannot hang. -/
theorem handshake_terminates (c : Client.Cli) (args : Client.HsArgs) (pw dev : List Nat) (inps : List Client.CInput)
    (h : 162 ≤ ticks inps) : (handshakeRun c args pw dev inps).pos = none := by
  unfold handshakeRun
  rw [← Client.hsRun_eq_foldl]
  apply Client.hsRun_terminates
  have h1 := Client.orank_hsStart c args pw dev
  have h2 : ∀ l : List Client.CInput, ticks l = l.countP Client.isTick := by
    intro l
    induction l with
    | nil => rfl
    | cons i r ih =>
      unfold ticks at ih ⊢
      cases i <;> simp [Client.isTick, List.countP_cons, ih]
  have h2 := h2 inps
  unfold Client.orank at h1
  omega

/-- a client as `client_init()` + the option setters leave it: query type to be autodetected, lazy mode wanted -/
def exampleCli : Client.Cli :=
  { Client.clientInit Client.Cli.boot 4711 815 with topdomain := Client.ascii "t.example.com", lazymode := true, selecttimeout := 4 }

set_option maxRecDepth 100000 in
/-- non-vacuity: the machine really runs (it is parked in the first query-type probe, type NULL, 1 s), a reply with a wrong id is ignored
without any effect but on `in[]`, and when nothing ever answers the autodetection gives up after exactly 3 x 7 timeouts -/
example :
    (Client.hsStart exampleCli ⟨true, true, 0⟩ [] []).1.pos = some (.qtype 1 0 100) ∧
    (handshakeRun exampleCli ⟨true, true, 0⟩ [] [] [.rq ⟨5, 1, 10, 0, 121, [1, 2, 3, 4, 5]⟩]).pos = some (.qtype 1 0 100) ∧
    (handshakeRun exampleCli ⟨true, true, 0⟩ [] [] (List.replicate 20 .tick)).pos = some (.qtype 3 6 100) ∧
    (handshakeRun exampleCli ⟨true, true, 0⟩ [] [] (List.replicate 21 .tick)).pos = none := by
  decide +kernel

example : (handshakeRun exampleCli ⟨true, true, 0⟩ [] [] (List.replicate 162 .tick)).pos = none :=
  handshake_terminates _ _ _ _ _ (by decide +kernel)

/-- **`handshake_reply_residue_free`.**  `handshake_waitdns` decodes EVERY datagram — fitting or not — into the `in[]` of the function that
waits, so earlier and ignored replies do leave bytes there.  Since the repair ee87c7d no handshake function looks at a byte of `in[]` behind
the length of the reply at hand (the length tests are written out in `Client/Handshake.lean`), and the machine, diffed against the real
function on every op, keeps nothing else.  Hence, for every state in which the handshake runs:
 * the step does not depend on the content of `in[]` at the time the `select` returns — whatever earlier replies wrote there;
 * it depends on the reply only through `read_dns_withq`'s return value, the id, the first character of the question name, the RCODE and the
   first `min(read, buflen)` decoded bytes (the record type and anything behind `read` are not looked at).
(Before the repair this was false: `BAD` after an ignored `BADLEN…` was read as `BADLEN` — the example below is that op sequence.) -/
theorem handshake_reply_residue_free :
    (∀ (s : Client.HState) (residue : List Nat) (inp : Client.CInput), s.pos ≠ none →
      Client.hstep { s with inb := residue } inp = Client.hstep s inp) ∧
    (∀ (s : Client.HState) (p : Client.HPos) (q q' : Client.Rq), s.pos = some p →
      q.rv = q'.rv → q.id = q'.id → q.rcode = q'.rcode → q.name0 = q'.name0 →
      q.buf.take (min q.rv.toNat p.wait.2.2) = q'.buf.take (min q.rv.toNat p.wait.2.2) →
      Client.hstep s (.rq q) = Client.hstep s (.rq q')) :=
  ⟨fun s x inp hp => Client.hstep_residue_free s x inp hp,
   fun s p q q' hp h1 h2 h3 h4 h5 => Client.hstep_reply_prefix s p hp q q' h1 h2 h3 h4 h5⟩

/-- The length guards are what makes the above true of the C text, not only of the machine: put ANY bytes `junk` behind the reply in `in[]`
(what earlier replies or the stack left there) — `fragsize_check`, the literal comparisons of the four switch handshakes and the check-string
test decide as on the reply alone. -/
theorem handshake_length_guards_suffice (s : Client.HState) (buf junk : List Nat) (hi : s.inb = buf ++ junk) :
    (∀ pr m, Client.fragsizeCheck s buf.length pr m = Client.fragsizeCheck { s with inb := buf } buf.length pr m) ∧
    (∀ lit, s.inIsN buf.length lit = ({ s with inb := buf } : Client.HState).inIsN buf.length lit) ∧
    (0 < buf.length → Client.checkReply s buf.length = Client.checkReply { s with inb := buf } buf.length) := by
  refine ⟨fun pr m => ?_, fun lit => ?_, fun hp => ?_⟩
  · rw [Client.fragsizeCheck_junk s buf junk hi, Client.fragsizeCheck_reply { s with inb := buf } buf rfl]
  · rw [Client.inIsN_junk s buf junk hi, Client.inIsN_junk { s with inb := buf } buf [] (List.append_nil buf).symm]
  · rw [Client.checkReply_reply s buf junk hi hp,
      Client.checkReply_reply { s with inb := buf } buf [] (List.append_nil buf).symm hp]

/-- the example client waiting for the answer to its first `s` (switch to Base64) query, id 4242 -/
def exampleSwitchWait : Client.HState :=
  { c := { exampleCli with chunkid := 4242, doQtype := 10 }, pos := some (.switchCodec 6 0), inb := [], args := ⟨false, true, 0⟩, pw := [], dev := [] }

/-- non-vacuity, the op sequence of the repaired defect: an unfitting reply `BADLEN` (other id: ignored), then the fitting 3-byte reply
`BAD` — it is NOT read as `BADLEN`: the codec is switched; a fitting `BADLEN` still refuses -/
example :
    (handshakeStepRun exampleSwitchWait [.rq ⟨6, 7, 10, 0, 115, Client.ascii "BADLEN"⟩]).pos = some (.switchCodec 6 0) ∧
    (handshakeStepRun exampleSwitchWait [.rq ⟨6, 7, 10, 0, 115, Client.ascii "BADLEN"⟩, .rq ⟨3, 4242, 10, 0, 115, Client.ascii "BAD"⟩]).c.dataenc = .b64 ∧
    (handshakeStepRun exampleSwitchWait [.rq ⟨6, 4242, 10, 0, 115, Client.ascii "BADLEN"⟩]).c.dataenc = .b32 := by
  decide +kernel

/-- non-vacuity for the guards: a correct 2-byte answer to a probe of size 2 with junk behind it is accepted (`in[2]`, `in[3]` are not looked
at), a 1-byte answer is "no fragsize in this reply" whatever follows it -/
example :
    Client.fragsizeCheck { exampleSwitchWait with inb := [0, 2] ++ [55, 66] } 2 2 0 = (2, true) ∧
    Client.fragsizeCheck { exampleSwitchWait with inb := [0] ++ [2, 107] } 1 2 0 = (0, false) := by
  decide +kernel

/-- **`handshake_commands_validated`** (the C13 link).  Every `system()` call of the handshake machine — in ANY state, on ANY input —
happens while it waits for the login reply, and the command is one `Shell.loginStep` builds from a login reply that passed the validation
of C13: exactly `PATH=/sbin:/bin ifconfig <dev> <quad> <quad> netmask <quad>` or `… ifconfig <dev> mtu <201..1500>`.  No other reply of the
handshake (version, codec switches, probes, …), matched or not, reaches the operating system. -/
theorem handshake_commands_validated (s : Client.HState) (inp : Client.CInput) (hd : s.dev.length ≤ 430) (cmd : List Nat)
    (hc : Client.CEvent.sys cmd ∈ (Client.hstep s inp).2.1) :
    (∃ seed i, s.pos = some (.login seed i)) ∧ (C13.IpCmd s.dev cmd ∨ C13.MtuCmd s.dev cmd) := by
  obtain ⟨h1, reply, h2⟩ := Client.hstep_sys s inp cmd hc
  exact ⟨h1, C13.shell_args_are_quads_and_ranged_ints s.dev reply 0 hd cmd h2⟩

/-- … at most two per step: the events of a step are the commands of ONE login reply (the address command, then the MTU command), followed
by events that are not `system()` calls; and entering `client_handshake` calls `system()` not at all. -/
theorem handshake_at_most_two_commands (s : Client.HState) (inp : Client.CInput) :
    ((Client.hstep s inp).2.1.filter Client.isSys).length ≤ 2 := by
  obtain ⟨cmds, l, h1, h2, h3⟩ := Client.hstep_events s inp
  have hl : l.filter Client.isSys = [] := by
    rw [List.filter_eq_nil_iff]
    intro e he
    simp [h2 e he]
  have hm : (cmds.map Client.CEvent.sys).filter Client.isSys = cmds.map Client.CEvent.sys := by
    rw [List.filter_eq_self]
    intro e he
    obtain ⟨c, _, rfl⟩ := List.mem_map.mp he
    rfl
  rw [h1, List.filter_append, hl, hm, List.append_nil, List.length_map]
  rcases h3 with h3 | ⟨_, reply, h3⟩
  · simp [h3]
  · rw [h3]; exact C13.at_most_two_commands _ _ _

theorem handshake_start_no_command (c : Client.Cli) (args : Client.HsArgs) (pw dev : List Nat) (cmd : List Nat) :
    Client.CEvent.sys cmd ∉ (Client.hsStart c args pw dev).2.1 := by
  intro h
  have := (Client.evs_hsStart c args pw dev).sys_mem h
  cases this

/-- the state in which the example client waits for its first login reply (query id 4242) -/
def exampleLoginWait : Client.HState :=
  { c := { exampleCli with chunkid := 4242, doQtype := 10 }, pos := some (.login 7 0), inb := [], args := ⟨false, true, 0⟩, pw := [], dev := [] }

/-- non-vacuity: a genuine login reply makes the machine run exactly the two commands and go on to the EDNS0 probe … -/
example :
    (Client.hstep exampleLoginWait (.rq ⟨25, 4242, 10, 0, 108, Client.ascii "10.0.0.1-10.0.0.2-1130-27"⟩)).2.1.take 2 =
      [.sys (Client.ascii "PATH=/sbin:/bin ifconfig  10.0.0.2 10.0.0.2 netmask 255.255.255.224"),
       .sys (Client.ascii "PATH=/sbin:/bin ifconfig  mtu 1130")] ∧
    (Client.hstep exampleLoginWait (.rq ⟨25, 4242, 10, 0, 108, Client.ascii "10.0.0.1-10.0.0.2-1130-27"⟩)).1.pos = some (.edns 0) := by
  decide +kernel

/-- … and a hostile one (`;id` behind the address) none at all: `tun_setip` refuses, the client ends with `errx(4)` -/
example :
    (Client.hstep exampleLoginWait (.rq ⟨29, 4242, 10, 0, 108, Client.ascii "10.0.0.1-10.0.0.2 ;id-1130-27"⟩)).2 = ([], .errx 4) := by
  decide +kernel

end Iodine.C06
