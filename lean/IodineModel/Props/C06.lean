import IodineModel.Props.C12
import IodineModel.Props.C13
/-
C06 — the client survives arbitrary replies (memory safety, termination).  PARTIAL.

What is PROVED here (re-stating, under this property's name, theorems established in the files of C12 and C13, so that a change which breaks
one of them breaks this property's obligations):

* the receive path of EVERY reply — `dns_decode(QR_ANSWER)` for every record type (oversized RDLENGTH, 250+ MX/SRV records, odd preferences,
  bad TXT chunking, compression loops), `readname`, `readtxtbin` — never reads outside the 64 KiB receive buffer, never writes outside
  `name[256]`, `rdata[4096]`, `names[250][256]` or the caller's buffer (of at least one byte: the client passes 4096 / 64 KiB), and terminates;
  reads go through a checked accessor, so this is not true by totalisation;
* what is decoded depends on the reply's own bytes only;
* the login reply — the only reply whose text reaches the operating system — causes at most two commands, made of validated text only.

What is NOT proved and is covered only by the sanitizer-instrumented world runs (harness/h_cli, ASan + UBSan, hostile path generators):
the handshake parsers beyond the login step, the tunnel phase's reassembly (`tunnel_dns`; its Lean model is in Client/*, the theorems about it
are listed under C01/C02), undefined behaviour of kinds the model does not represent, libc/zlib internals.
-/
namespace Iodine.C06
open Iodine

/-- `dns_decode(buf, buflen, q, QR_ANSWER, packet, r)` on ANY datagram that fits the receive buffer, for every caller buffer of at least one
byte: no out-of-bounds read or write, terminates. -/
theorem answer_decode_no_fault (b : Wire.RxBuf) (h : b.pkt.size ≤ b.cap) (buflen : Nat) (hb : 1 ≤ buflen) :
    ∃ r, Wire.dnsDecodeAnswer buflen b = Except.ok r :=
  C12.dns_decode_answer_no_fault b h buflen hb

/-- the only fault the answer decoder can ever produce is the write into an EMPTY caller buffer (no caller passes one) -/
theorem answer_decode_fault_only_empty_buf (b : Wire.RxBuf) (h : b.pkt.size ≤ b.cap) (buflen : Nat) (f : Wire.Fault)
    (hf : Wire.dnsDecodeAnswer buflen b = Except.error f) : buflen = 0 ∧ f = Wire.Fault.oobWrite :=
  C12.dns_decode_answer_fault_only_empty_buf b h buflen f hf

/-- TXT strings: never read beyond `srcremain`, never write beyond `dstremain` -/
theorem readtxtbin_no_fault (b : Wire.RxBuf) (h : b.pkt.size ≤ b.cap) (src srcremain dstremain : Nat) (hs : src + srcremain ≤ b.pkt.size) :
    ∃ rv src' out, Wire.readtxtbin b src srcremain dstremain = Except.ok (rv, src', out) ∧ rv ≤ out.length ∧ out.length ≤ dstremain :=
  C12.readtxtbin_no_fault b h src srcremain dstremain hs

/-- a reply is interpreted from its own bytes only -/
theorem answer_decode_own_bytes_only (pkt r₁ r₂ : Array Nat) (cap buflen : Nat) :
    Wire.dnsDecodeAnswer buflen (C12.rx pkt r₁ cap) = Wire.dnsDecodeAnswer buflen (C12.rx pkt r₂ cap) :=
  C12.dns_decode_answer_residue_indep pkt r₁ r₂ cap buflen

/-- the login reply runs at most two commands … -/
theorem login_reply_at_most_two_commands (dev reply : List Nat) (sysret : Int) :
    (Client.Shell.loginStep dev reply sysret).commands.length ≤ 2 :=
  C13.at_most_two_commands dev reply sysret

/-- … each made of the fixed prefix, the local device name, validated dotted quads and a ranged integer -/
theorem login_reply_commands_validated (dev reply : List Nat) (sysret : Int) (hd : dev.length ≤ 430) (cmd : List Nat)
    (hc : cmd ∈ (Client.Shell.loginStep dev reply sysret).commands) : C13.IpCmd dev cmd ∨ C13.MtuCmd dev cmd :=
  C13.shell_args_are_quads_and_ranged_ints dev reply sysret hd cmd hc

/-- non-vacuity: an MX answer decoded into the 4-byte buffer `get_external_ip` passes — no fault (this faulted before the repair of the
join loop) -/
example : ∃ r, Wire.dnsDecodeAnswer 4 (C12.rx C12.answerMx2 #[] 65536) = Except.ok r :=
  answer_decode_no_fault _ (by decide) 4 (by decide)

end Iodine.C06
